package main

// C05 — operators compute the documented result for every combination of
// operand kinds (DESIGN.md section 3).

import (
	"fmt"
	"math/rand"
)

type opnd struct {
	kind string // N S B Z U A O R F
	expr string // jqawk expression text
	json string // JSON text when the value can come from a document ("" otherwise)
}

func c05Pool() []opnd {
	return []opnd{
		{"N", "0", "0"}, {"N", "(-0)", "-0"}, {"N", "1", "1"}, {"N", "2.5", "2.5"}, {"N", "(-3)", "-3"}, {"N", "0.1", "0.1"},
		{"N", "7", "7"}, {"N", "num('1e300')", "1e300"}, {"N", "num('5e-324')", "5e-324"}, {"N", "num('inf')", ""}, {"N", "num('nan')", ""},
		{"N", "9007199254740993", "9007199254740993"},
		{"S", "''", `""`}, {"S", "'abc'", `"abc"`}, {"S", "'10'", `"10"`}, {"S", "'9'", `"9"`}, {"S", "' 1'", `" 1"`},
		{"S", "'1e3'", `"1e3"`}, {"S", "'0x10'", `"0x10"`}, {"S", "'0'", `"0"`}, {"S", "'-0'", `"-0"`}, {"S", "'a.c'", `"a.c"`}, {"S", "'^b'", `"^b"`}, {"S", "'('", `"("`},
		{"S", "'2.5'", `"2.5"`}, {"S", "'Inf'", `"Inf"`}, {"S", "'1_0'", `"1_0"`},
		{"B", "true", "true"}, {"B", "false", "false"},
		{"Z", "null", "null"},
		{"U", "u", ""},
		{"A", "[]", "[]"}, {"A", "[1, 'a']", `[1,"a"]`},
		{"O", "{}", "{}"}, {"O", "{a: 1}", `{"a":1}`},
		{"R", "/a/", ""}, {"R", "/^1/", ""},
		{"F", "f", ""}, {"F", "printf", ""},
	}
}

var c05BinOps = []string{"+", "-", "*", "/", "%", "==", "!=", "<", "<=", ">", ">=", "~", "!~", "&&", "||"}
var c05Types = []string{"string", "bool", "number", "array", "object", "regex", "unknown", "function", "null", "banana"}

const c05Show = "print r, r is string, r is number, r is bool, r is null"

func init() {
	register(Family{
		Name: "binop-literals", Prop: "C05",
		Rule: "every binary operator x every ordered pair of pool operands (all 9 kinds, several values each) written as literals; non-trivial = distinct program whose outcome is a value or a runtime error",
		Gen: func(r *rand.Rand, tier string, emit func(Case)) {
			pool := c05Pool()
			for _, op := range c05BinOps {
				for _, a := range pool {
					for _, b := range pool {
						prog := fmt.Sprintf("function f() { return 1 }\nBEGIN { r = %s %s %s; %s }", a.expr, op, b.expr, c05Show)
						emit(Case{Req: RunReq(prog, nil, nil, false), Fields: []string{"class", "out"},
							Meta:       metaProg(prog, "kinds", a.kind+op+b.kind),
							NonTrivial: func(i Resp) bool { return i["class"] == "ok" || i["class"] == "runtime" }})
					}
				}
			}
		},
	})
	register(Family{
		Name: "binop-vars-fields", Prop: "C05",
		Rule: "binary operators on operands held in variables and in document fields ($.a, $.b), random pairs from the pool",
		Gen: func(r *rand.Rand, tier string, emit func(Case)) {
			pool := c05Pool()
			n := tierN(tier, 3000, 60000)
			for i := 0; i < n; i++ {
				a, b, op := pick(r, pool), pick(r, pool), pick(r, c05BinOps)
				var prog string
				var files []File
				if a.json != "" && b.json != "" && chance(r, 0.5) {
					prog = fmt.Sprintf("{ r = $.a %s $.b; %s }", op, c05Show)
					files = []File{{Name: "in.json", Data: []byte(fmt.Sprintf(`{"a": %s, "b": %s}`, a.json, b.json))}}
				} else {
					setA, setB := "x = "+a.expr+"; ", "y = "+b.expr+"; "
					xa, xb := "x", "y"
					if a.kind == "F" || a.kind == "U" {
						setA, xa = "", a.expr
					}
					if b.kind == "F" || b.kind == "U" {
						setB, xb = "", b.expr
					}
					same := ""
					if chance(r, 0.1) && a.kind != "F" && a.kind != "U" {
						// the same variable on both sides
						setB, xb = "", "x"
						same = " (same variable)"
					}
					prog = fmt.Sprintf("function f() { return 1 }\nBEGIN { %s%sr = %s %s %s; %s }", setA, setB, xa, op, xb, c05Show)
					_ = same
				}
				emit(Case{Req: RunReq(prog, nil, files, false), Fields: []string{"class", "out"},
					Meta:       metaProg(prog, "kinds", a.kind+op+b.kind),
					NonTrivial: func(i Resp) bool { return i["class"] == "ok" || i["class"] == "runtime" }})
			}
		},
	})
	register(Family{
		Name: "unary-is-shortcircuit", Prop: "C05",
		Rule: "unary ! + - on every pool operand, ++/-- (prefix and postfix) on variables of every kind, `is` with every type name, and &&/|| with a right operand that prints or fails (short-circuit observable)",
		Gen: func(r *rand.Rand, tier string, emit func(Case)) {
			pool := c05Pool()
			nt := func(i Resp) bool { return i["class"] == "ok" || i["class"] == "runtime" }
			for _, a := range pool {
				for _, op := range []string{"!", "+", "-", "!!", "- -"} {
					prog := fmt.Sprintf("function f() { return 1 }\nBEGIN { r = %s%s; %s }", op, a.expr, c05Show)
					emit(Case{Req: RunReq(prog, nil, nil, false), Fields: []string{"class", "out"}, Meta: metaProg(prog), NonTrivial: nt})
				}
				for _, t := range c05Types {
					prog := fmt.Sprintf("function f() { return 1 }\nBEGIN { print %s is %s }", a.expr, t)
					emit(Case{Req: RunReq(prog, nil, nil, false), Fields: []string{"class", "out"}, Meta: metaProg(prog), NonTrivial: nt})
				}
				if a.kind != "F" {
					set := "x = " + a.expr + "; "
					if a.kind == "U" {
						set = ""
					}
					for _, form := range []string{"x++", "x--", "++x", "--x"} {
						prog := fmt.Sprintf("BEGIN { %sr = %s; print r, x, r is number, x is number }", set, form)
						emit(Case{Req: RunReq(prog, nil, nil, false), Fields: []string{"class", "out"}, Meta: metaProg(prog), NonTrivial: nt})
					}
				}
				for _, rhs := range []string{"side()", "1/0", "true", "'s'", "u2"} {
					for _, op := range []string{"&&", "||"} {
						prog := fmt.Sprintf("function f() { return 1 }\nfunction side() { print 'side'; return 1 }\nBEGIN { r = %s %s %s; print r, r is bool }", a.expr, op, rhs)
						emit(Case{Req: RunReq(prog, nil, nil, false), Fields: []string{"class", "out"}, Meta: metaProg(prog), NonTrivial: nt})
					}
				}
			}
		},
	})
}
