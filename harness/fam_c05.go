package main

// C05 — operators compute the documented result for every combination of
// operand kinds (DESIGN.md section 3).

import (
	"fmt"
	"math/rand"
	"strings"
)

type opnd struct {
	kind string // N S B Z U A O R F
	expr string // jqawk expression text
	json string // JSON text when the value can come from a document ("" otherwise)
}

func c05Pool() []opnd {
	return []opnd{
		{"N", "0", "0"}, {"N", "(-0)", "-0"}, {"N", "1", "1"}, {"N", "2.5", "2.5"}, {"N", "(-3)", "-3"}, {"N", "0.1", "0.1"},
		{"N", "7", "7"}, {"N", "num('1e300')", "1e300"}, {"N", "num('5e-324')", "5e-324"}, {"N", "num('inf')", ""}, {"N", "num('nan')", ""},
		{"N", "9007199254740993", "9007199254740993"},
		{"S", "''", `""`}, {"S", "'abc'", `"abc"`}, {"S", "'10'", `"10"`}, {"S", "'9'", `"9"`}, {"S", "' 1'", `" 1"`},
		{"S", "'1e3'", `"1e3"`}, {"S", "'0x10'", `"0x10"`}, {"S", "'0'", `"0"`}, {"S", "'-0'", `"-0"`}, {"S", "'a.c'", `"a.c"`}, {"S", "'^b'", `"^b"`}, {"S", "'('", `"("`},
		{"S", "'2.5'", `"2.5"`}, {"S", "'Inf'", `"Inf"`}, {"S", "'1_0'", `"1_0"`},
		{"B", "true", "true"}, {"B", "false", "false"},
		{"Z", "null", "null"},
		{"U", "u", ""},
		{"A", "[]", "[]"}, {"A", "[1, 'a']", `[1,"a"]`},
		{"O", "{}", "{}"}, {"O", "{a: 1}", `{"a":1}`},
		{"R", "/a/", ""}, {"R", "/^1/", ""},
		{"F", "f", ""}, {"F", "printf", ""},
	}
}

var c05BinOps = []string{"+", "-", "*", "/", "%", "==", "!=", "<", "<=", ">", ">=", "~", "!~", "&&", "||"}
var c05Types = []string{"string", "bool", "number", "array", "object", "regex", "unknown", "function", "null", "banana"}

const c05Show = "print r, r is string, r is number, r is bool, r is null"

// ---------------------------------------------------------------- operator-history
//
// The SAME operator node evaluated several times in one run with operands whose
// kind and value change between the evaluations.  The result of the k-th
// evaluation must be the result of a fresh program that evaluates the operator
// once on those operands (no per-node memory of earlier operands or results).

// c05HistPool: C05's pool plus more regex values (valid and invalid) and pattern strings.
func c05HistPool() []opnd {
	p := append([]opnd{}, c05Pool()...)
	return append(p, []opnd{
		{"R", "/b$/", ""}, {"R", "/[0-9]+/", ""}, {"R", "/^abc$/", ""}, {"R", "/(/", ""}, {"R", "/[a/", ""}, {"R", "/x*/", ""}, {"R", "/^$/", ""},
		{"S", "'b$'", `"b$"`}, {"S", "'[0-9]+'", `"[0-9]+"`}, {"S", "'[a'", `"[a"`}, {"S", "'banana'", `"banana"`}, {"S", "'abc1'", `"abc1"`}, {"S", "'x'", `"x"`},
		{"N", "10", "10"}, {"N", "(-7)", "-7"}, {"N", "0.5", "0.5"},
	}...)
}

type c05Eval struct{ a, b opnd }

// c05HistCheck: line k of the history's output is the output of the k-th single evaluation;
// the history stops with a runtime error exactly where the first failing single evaluation is.
func c05HistCheck(k, total int) func(first, self Resp) string {
	return func(first, self Resp) string {
		out := string(first.Bytes("out"))
		lines := strings.SplitAfter(out, "\n")
		if len(lines) > 0 && lines[len(lines)-1] == "" {
			lines = lines[:len(lines)-1]
		}
		if first["class"] != "ok" && first["class"] != "runtime" {
			return "history program ended in class " + first["class"]
		}
		switch {
		case k < len(lines):
			if self["class"] != "ok" {
				return fmt.Sprintf("evaluation %d of the history produced %q, but a fresh single evaluation on the same operands ends in class %s", k, lines[k], self["class"])
			}
			if got := string(self.Bytes("out")); got != lines[k] {
				return fmt.Sprintf("evaluation %d of the history produced %q, a fresh single evaluation on the same operands produces %q", k, lines[k], got)
			}
		case k == len(lines):
			if first["class"] == "ok" {
				return fmt.Sprintf("the history printed only %d of %d results", len(lines), total)
			}
			if self["class"] != "runtime" {
				return fmt.Sprintf("the history failed at evaluation %d, but a fresh single evaluation on the same operands ends in class %s out %q", k, self["class"], string(self.Bytes("out")))
			}
		default:
			if first["class"] == "ok" {
				return fmt.Sprintf("the history printed only %d of %d results", len(lines), total)
			}
		}
		return ""
	}
}

const c05SideFn = "function side(v) { n = n + 1\n return v }\n"

// c05History emits one history program and its single-evaluation programs (one group).
// op: a binary operator, or a unary form "u-" "u+" "u!" "is:<type>" "x++" "x--" "++x" "--x".
func c05History(r *rand.Rand, gid int, op string, form string, evs []c05Eval, emit func(Case)) {
	nt := func(i Resp) bool { return i["class"] == "ok" || i["class"] == "runtime" }
	binary := false
	for _, b := range c05BinOps {
		if b == op {
			binary = true
		}
	}
	// the operation on operand texts x, y, as statements printing exactly one line
	stmt := func(x, y string) string {
		switch {
		case form == "shortcircuit":
			return fmt.Sprintf("n = 0; r = %s %s side(%s); print r, r is bool, n", x, op, y)
		case binary:
			return fmt.Sprintf("r = %s %s %s; %s", x, op, y, c05Show)
		case strings.HasPrefix(op, "is:"):
			return fmt.Sprintf("r = %s is %s; %s", x, op[3:], c05Show)
		case op == "u-" || op == "u+" || op == "u!":
			return fmt.Sprintf("r = %s%s; %s", op[1:], x, c05Show)
		case op == "x++" || op == "x--":
			return fmt.Sprintf("w = %s; r = w%s; print r, w, r is number, w is number", x, op[1:])
		default: // ++x --x
			return fmt.Sprintf("w = %s; r = %sw; print r, w, r is number, w is number", x, op[:2])
		}
	}
	expr := func(x, y string) string { // the bare operator expression (patterns, function bodies)
		switch {
		case binary:
			return fmt.Sprintf("%s %s %s", x, op, y)
		case strings.HasPrefix(op, "is:"):
			return fmt.Sprintf("%s is %s", x, op[3:])
		default:
			return fmt.Sprintf("%s%s", op[1:], x)
		}
	}
	head := "function f() { return 1 }\n"
	if form == "shortcircuit" {
		head += c05SideFn
	}
	var prog string
	var files []File
	pairs := make([]string, len(evs))
	as := make([]string, len(evs))
	bs := make([]string, len(evs))
	docs := make([]string, len(evs))
	for i, e := range evs {
		pairs[i] = "[" + e.a.expr + ", " + e.b.expr + "]"
		as[i], bs[i] = e.a.expr, e.b.expr
		docs[i] = "[" + e.a.json + "," + e.b.json + "]"
	}
	switch form {
	case "forin-pairs", "shortcircuit":
		prog = head + "BEGIN {\n  ps = [" + strings.Join(pairs, ", ") + "]\n  for (p in ps) { " + stmt("p[0]", "p[1]") + " }\n}\n"
	case "for-index":
		prog = head + "BEGIN {\n  xs = [" + strings.Join(as, ", ") + "]\n  ys = [" + strings.Join(bs, ", ") + "]\n  for (i = 0; i < xs.length(); i++) { x = xs[i]; y = ys[i]; " + stmt("x", "y") + " }\n}\n"
	case "while-pop":
		prog = head + "BEGIN {\n  ps = [" + strings.Join(pairs, ", ") + "]\n  while (ps.length() > 0) { p = ps.popfirst(); " + stmt("p[0]", "p[1]") + " }\n}\n"
	case "function":
		// the operator node lives in op(); the statement only shows its result
		prog = head + "function op(a, b) { return " + expr("a", "b") + " }\nBEGIN {\n"
		for i := range evs {
			prog += fmt.Sprintf("  r = op(%s, %s); %s\n", as[i], bs[i], c05Show)
		}
		prog += "}\n"
	case "records":
		prog = head + "{ " + stmt("$[0]", "$[1]") + " }\n"
		files = []File{{Name: "in.json", Data: []byte("[" + strings.Join(docs, ",") + "]")}}
	case "records-jsonl":
		prog = head + "{ " + stmt("$.a", "$.b") + " }\n"
		var sb strings.Builder
		for _, e := range evs {
			fmt.Fprintf(&sb, "{\"a\": %s, \"b\": %s}\n", e.a.json, e.b.json)
		}
		files = []File{{Name: "in.jsonl", Data: []byte(sb.String())}}
	case "records-right-table":
		// left operand from the record, right operand (e.g. a regex value) from a table built in BEGIN
		prog = head + "BEGIN { ys = [" + strings.Join(bs, ", ") + "] }\n{ y = ys[$index]; " + stmt("$", "y") + " }\n"
		var ds []string
		for _, e := range evs {
			ds = append(ds, e.a.json)
		}
		files = []File{{Name: "in.json", Data: []byte("[" + strings.Join(ds, ",") + "]")}}
	case "pattern":
		// the operator is the rule's pattern; one line per record either way
		prog = head + "BEGIN { ys = [" + strings.Join(bs, ", ") + "] }\n" + expr("$", "ys[$index]") + " { print \"hit\"; next }\n{ print \"miss\" }\n"
		var ds []string
		for _, e := range evs {
			ds = append(ds, e.a.json)
		}
		files = []File{{Name: "in.json", Data: []byte("[" + strings.Join(ds, ",") + "]")}}
	}
	group := fmt.Sprintf("hist%d", gid)
	var desc []string
	for _, e := range evs {
		desc = append(desc, e.a.kind+op+e.b.kind)
	}
	meta := metaProg(prog, "form", form, "operator", op, "kinds", strings.Join(desc, " "), "row", op, "col", form)
	if files != nil {
		meta["input"] = string(files[0].Data)
	}
	emit(Case{Req: RunReq(prog, nil, files, false), Fields: []string{"class", "out"}, Meta: meta, NonTrivial: nt, Group: group})
	for k, e := range evs {
		var single string
		switch form {
		case "function":
			single = head + "BEGIN { r = " + expr(e.a.expr, e.b.expr) + "; " + c05Show + " }\n"
		case "pattern":
			single = head + expr("("+e.a.expr+")", e.b.expr) + " { print \"hit\"; next }\n{ print \"miss\" }\n"
		default:
			single = head + "BEGIN { " + stmt(e.a.expr, e.b.expr) + " }\n"
		}
		var sf []File
		if form == "pattern" {
			sf = []File{{Name: "in.json", Data: []byte("[0]")}}
		}
		emit(Case{Req: RunReq(single, nil, sf, false), Fields: []string{"class", "out"}, NonTrivial: nt, Group: group,
			GroupCheck: c05HistCheck(k, len(evs)),
			Meta:       metaProg(single, "form", "single evaluation "+fmt.Sprint(k)+" of "+group, "operator", op, "kinds", e.a.kind+op+e.b.kind)})
	}
}

func c05GenHistory(r *rand.Rand, tier string, emit func(Case)) {
	pool := c05HistPool()
	byKind := map[string][]opnd{}
	var jsonable, noFn []opnd
	for _, o := range pool {
		byKind[o.kind] = append(byKind[o.kind], o)
		if o.json != "" {
			jsonable = append(jsonable, o)
		}
		if o.kind != "F" {
			noFn = append(noFn, o)
		}
	}
	var patterns, subjects []opnd // right and left operands that make ~ / !~ interesting
	for _, o := range pool {
		if o.kind == "R" || o.kind == "S" {
			patterns = append(patterns, o)
		}
		if o.kind == "S" || o.kind == "N" {
			subjects = append(subjects, o)
		}
	}
	gid := 0
	// a sequence of operand pairs whose kinds and values change; for ~ / !~ the right
	// operands alternate between regex values, strings, invalid patterns and other kinds
	seq := func(op string, from []opnd, n int) []c05Eval {
		evs := make([]c05Eval, n)
		for i := range evs {
			a, b := pick(r, from), pick(r, from)
			if op == "~" || op == "!~" {
				if chance(r, 0.85) {
					b = pick(r, patterns)
				}
				if chance(r, 0.7) {
					a = pick(r, subjects)
				}
				var ok []opnd
				for _, o := range from {
					if o.expr == a.expr {
						ok = append(ok, o)
					}
				}
				if len(ok) == 0 {
					a = pick(r, from)
				}
				ok = ok[:0]
				for _, o := range from {
					if o.expr == b.expr {
						ok = append(ok, o)
					}
				}
				if len(ok) == 0 {
					b = pick(r, from)
				}
			}
			evs[i] = c05Eval{a, b}
			// now and then the very operands of an earlier evaluation again, or only one side changed
			if i > 0 && chance(r, 0.25) {
				prev := evs[r.Intn(i)]
				switch r.Intn(3) {
				case 0:
					evs[i] = prev
				case 1:
					evs[i].a = prev.a
				default:
					evs[i].b = prev.b
				}
			}
		}
		return evs
	}
	binForms := []string{"forin-pairs", "for-index", "while-pop", "function", "records", "records-jsonl", "records-right-table", "pattern"}
	per := tierN(tier, 14, 300)
	for _, op := range c05BinOps {
		for _, form := range binForms {
			from := noFn
			switch form {
			case "records", "records-jsonl":
				from = jsonable
			}
			m := per
			if op == "~" || op == "!~" {
				m = per * 3
			}
			for i := 0; i < m; i++ {
				evs := seq(op, from, 2+r.Intn(5))
				if form == "records-right-table" || form == "pattern" {
					for j := range evs { // the left operand comes from the document
						for evs[j].a.json == "" {
							evs[j].a = pick(r, jsonable)
						}
					}
				}
				gid++
				c05History(r, gid, op, form, evs, emit)
			}
		}
	}
	for _, op := range []string{"&&", "||"} {
		for i := 0; i < per*2; i++ {
			gid++
			c05History(r, gid, op, "shortcircuit", seq(op, noFn, 2+r.Intn(5)), emit)
		}
	}
	unary := []string{"u-", "u+", "u!", "x++", "x--", "++x", "--x"}
	for _, t := range c05Types {
		unary = append(unary, "is:"+t)
	}
	for _, op := range unary {
		forms := []string{"forin-pairs", "for-index", "while-pop", "records"}
		if !strings.Contains(op, "x") {
			forms = append(forms, "function")
		}
		for _, form := range forms {
			from := noFn
			if form == "records" {
				from = jsonable
			}
			for i := 0; i < per; i++ {
				gid++
				c05History(r, gid, op, form, seq(op, from, 2+r.Intn(5)), emit)
			}
		}
	}
}

// ---------------------------------------------------------------- operand-expressions
//
// Operands that are the RESULT of a value-producing expression form (string
// index, array / object / document member, method result, function result, match
// expression, assignment, ++/--, regex match, builtin, nested operator) instead
// of a literal, variable or field.  The operator must see exactly the value the
// expression yields: `E op B` gives what `L op B` gives, L being the literal
// with the value of E.

type c05Form struct {
	setup string // statements run before (fresh names per program)
	expr  string
	lit   string // the literal with the same value
	lval  bool   // E is assignable (also tested under ++ / -- / op=)
}

const c05FormDoc = `{"f": "789", "g": "60", "n": 4, "a": [7, "8", null, true], "o": {"k": "9", "m": 2.5}, "e": ""}`
const c05FormFuncs = "function f() { return 1 }\nfunction id(x) { return x }\nfunction seven() { return 7 }\nfunction noret() { f() }\n"

func c05Forms() []c05Form {
	F := func(setup, expr, lit string) c05Form { return c05Form{setup, expr, lit, false} }
	LV := func(setup, expr, lit string) c05Form { return c05Form{setup, expr, lit, true} }
	return []c05Form{
		// characters of strings: digits whose value differs from their position, non-digits, out of range
		F("s = '789'", "s[0]", "'7'"), F("s = '789'", "s[1]", "'8'"), F("s = '789'", "s[2]", "'9'"), F("s = '789'", "s[5]", "null"), F("s = '789'", "s[-1]", "null"),
		F("s = '5x'", "s[0]", "'5'"), F("s = '5x'", "s[1]", "'x'"), F("s = '042'", "s[0]", "'0'"), F("s = '042'", "s[1]", "'4'"), F("s = '042'", "s[2]", "'2'"),
		F("s = '-3'", "s[0]", "'-'"), F("s = '-3'", "s[1]", "'3'"), F("", "'789'[1]", "'8'"), F("", "'abc'[0]", "'a'"), F("", "''[0]", "null"), F("", "'31'[1]", "'1'"),
		F("", "$.f[0]", "'7'"), F("", "$.f[1]", "'8'"), F("", "$.f[2]", "'9'"), F("", "$.g[0]", "'6'"), F("", "$.g[1]", "'0'"), F("", "$.f[3]", "null"), F("", "$.e[0]", "null"),
		F("i = 2", "$.f[i]", "'9'"), F("s = '4321'; i = 1", "s[i]", "'3'"), F("s = '4321'", "s[s.length() - 1]", "'1'"), F("s = '90'", "s[s[1]]", "null"), F("s = '90'", "s[num(s[1])]", "'9'"), F("", "$.o.k[0]", "'9'"),
		F("s = '789'", "(s[1])", "'8'"), F("s = '789'", "id(s[2])", "'9'"), F("s = '789'", "[s[0]][0]", "'7'"), F("s = '789'; c = s[1]", "c", "'8'"),
		// members of arrays, objects and the document (present, missing)
		LV("arr = [4, '5', true, null]", "arr[0]", "4"), LV("arr = [4, '5', true, null]", "arr[1]", "'5'"), LV("arr = [4, '5', true, null]", "arr[2]", "true"), LV("arr = [4, '5', true, null]", "arr[3]", "null"),
		F("arr = [4, '5', true, null]", "arr[9]", "null"), LV("arr = [4, '5', true, null]", "arr[-3]", "'5'"),
		LV("o = {k: 6, t: '7', z: null}", "o.k", "6"), LV("o = {k: 6, t: '7', z: null}", "o.t", "'7'"), LV("o = {k: 6, t: '7', z: null}", "o['t']", "'7'"), F("o = {k: 6, t: '7', z: null}", "o.none", "null"),
		F("o = {k: 6, t: '7', z: null}", "o.none.deeper", "null"), LV("", "$.n", "4"), LV("", "$.a[0]", "7"), LV("", "$.a[1]", "'8'"), LV("", "$.a[2]", "null"), LV("", "$.a[3]", "true"), LV("", "$.o.k", "'9'"),
		LV("", "$.o.m", "2.5"), F("", "$.zip", "null"), F("", "$.a[7]", "null"), LV("", "$.e", "''"), F("n2 = [[1, '2'], {q: '3'}]", "n2[0][1]", "'2'"), F("n2 = [[1, '2'], {q: '3'}]", "n2[1].q", "'3'"),
		// method results
		F("s = '789'", "s.length()", "3"), F("arr = [4, '5', true]", "arr.length()", "3"), F("", "'a,3'.split(',')[1]", "'3'"), F("", "'3'.upper()", "'3'"), F("", "'AB'.lower()", "'ab'"),
		F("", "(2.7).floor()", "2"), F("", "(2.2).ceil()", "3"), F("", "(2.5).round()", "3"), F("", "(-0.5).ceil()", "(-0)"), F("", "[3, 1, 2].sort()[0]", "1"), F("", "['b', 'a'].sort()[1]", "'b'"),
		F("", "[1, 9].pop()", "9"), F("", "[8, 1].popfirst()", "8"), F("", "[].pop()", "null"), F("", "{k: 6}.pluck('k').k", "6"), F("", "{k: 6}.pluck('j').j", "null"), F("", "[1].contains(1)", "true"),
		F("", "[1].contains(2)", "false"), F("", "[1].push(5)[1]", "5"), F("", "''.length()", "0"), F("", "{a: 1, b: 2}.length()", "2"), F("", "'7 8'.split(' ')[0]", "'7'"), F("", "$.f.length()", "3"),
		// function results, match expressions
		F("", "id('9')", "'9'"), F("", "id(0)", "0"), F("", "seven()", "7"), F("", "noret()", "null"), F("", "id(null)", "null"), F("", "id(true)", "true"), F("", "id(id('1e3'))", "'1e3'"),
		F("", "match (1) { _ => '8' }", "'8'"), F("", "match (2) { 1 => 0 }", "null"), F("", "match ('x') { v => v }", "'x'"), F("", "match (5) { n => n }", "5"), F("", "match ([1, '2']) { [p, q] => q }", "'2'"),
		F("", "match (1) { _ => { w = 3 } }", "null"),
		// assignment and ++ / -- results
		F("", "(x = 5)", "5"), F("", "(x = '6')", "'6'"), F("x = 2", "(x += 1)", "3"), F("x = 2", "(x -= 2)", "0"), F("", "(y = x = 4)", "4"), F("o2 = {}", "(o2.k = 3)", "3"), F("x = '2'", "(x += 1)", "'21'"),
		F("x = 2", "(x++)", "2"), F("x = 2", "(++x)", "3"), F("x = 2", "(x--)", "2"), F("x = 2", "(--x)", "1"), F("x = '7'", "(x++)", "7"), F("x = null", "(++x)", "1"), F("", "(u2++)", "0"), F("", "(--u3)", "(-1)"),
		F("arr = [4, '5']", "(arr[1]++)", "5"), F("arr = [4, '5']", "(++arr[1])", "6"),
		// regex matches, builtins, nested operators
		F("", "('a' ~ /a/)", "true"), F("", "('a' !~ /a/)", "false"), F("", "('b' ~ 'a')", "false"), F("", "num('12')", "12"), F("", "num('x')", "null"), F("", "num(3.7)", "3"), F("", "json(5)", "'5'"),
		F("", "json('a')", "'\"a\"'"), F("", "json(null)", "'null'"), F("", "(-'3')", "(-3)"), F("", "(!0)", "true"), F("", "(!1)", "false"), F("", "(+'2.5')", "2.5"), F("", "(1 + 2)", "3"),
		F("", "('1' + 2)", "'12'"), F("", "(7 % 4)", "3"), F("", "(1 / 4)", "0.25"), F("", "(2 < 3)", "true"), F("", "(null == null)", "true"), F("", "(0 * -1)", "(-0)"), F("", "('a' < 'b')", "true"),
	}
}

func c05GenForms(r *rand.Rand, tier string, emit func(Case)) {
	forms := c05Forms()
	pool := c05Pool()
	nt := func(i Resp) bool { return i["class"] == "ok" || i["class"] == "runtime" }
	files := []File{{Name: "in.json", Data: []byte(c05FormDoc)}}
	gid := 0
	// a pair of programs: the statements with E (and its setup), and with the literal instead
	pair := func(setup, withE, withL, what string) {
		gid++
		g := fmt.Sprintf("form%d", gid)
		progL := c05FormFuncs + "{ " + withL + " }\n"
		progE := c05FormFuncs + "{ " + setup + "\n " + withE + " }\n"
		if setup == "" {
			progE = c05FormFuncs + "{ " + withE + " }\n"
		}
		emit(Case{Req: RunReq(progL, nil, files, false), Fields: []string{"class", "out"}, NonTrivial: nt, Group: g, GroupFields: []string{"class", "out"},
			Meta: metaProg(progL, "what", what, "side", "literal operand")})
		emit(Case{Req: RunReq(progE, nil, files, false), Fields: []string{"class", "out"}, NonTrivial: nt, Group: g, GroupFields: []string{"class", "out"},
			Meta: metaProg(progE, "what", what, "side", "expression operand", "row", strings.SplitN(what, " ", 2)[0])})
	}
	nB := tierN(tier, 2, 8)
	for _, f := range forms {
		for _, op := range c05BinOps {
			for k := 0; k < nB; k++ {
				b := pick(r, pool)
				pair(f.setup, fmt.Sprintf("r = %s %s %s\n %s", f.expr, op, b.expr, c05Show), fmt.Sprintf("r = %s %s %s\n %s", f.lit, op, b.expr, c05Show), "left "+op+" form "+f.expr)
				b = pick(r, pool)
				pair(f.setup, fmt.Sprintf("r = %s %s %s\n %s", b.expr, op, f.expr, c05Show), fmt.Sprintf("r = %s %s %s\n %s", b.expr, op, f.lit, c05Show), "right "+op+" form "+f.expr)
			}
			// the operator the seeded class is about most directly: the same operand on both sides / with plain numbers
			n := pick(r, []string{"1", "2", "5", "0", "10"})
			pair(f.setup, fmt.Sprintf("r = %s %s %s\n %s", f.expr, op, n, c05Show), fmt.Sprintf("r = %s %s %s\n %s", f.lit, op, n, c05Show), "left-num "+op+" form "+f.expr)
		}
		for _, u := range []string{"-", "+", "!", "- -", "!!"} {
			pair(f.setup, fmt.Sprintf("r = %s%s\n %s", u, f.expr, c05Show), fmt.Sprintf("r = %s%s\n %s", u, f.lit, c05Show), "unary "+u+" form "+f.expr)
		}
		for _, t := range c05Types {
			pair(f.setup, fmt.Sprintf("r = %s is %s\n %s", f.expr, t, c05Show), fmt.Sprintf("r = %s is %s\n %s", f.lit, t, c05Show), "is "+t+" form "+f.expr)
		}
		if f.lval {
			for _, st := range []string{"r = X++", "r = ++X", "r = X--", "r = --X", "r = (X += 2)", "r = (X -= 2)", "r = (X *= 2)", "r = (X /= 2)"} {
				pair(f.setup, strings.ReplaceAll(st, "X", f.expr)+"\n "+c05Show+"\n print "+f.expr, "x = "+f.lit+"\n "+strings.ReplaceAll(st, "X", "x")+"\n "+c05Show+"\n print x", "update "+st+" form "+f.expr)
			}
		}
		// the expression as a truth value and as a pattern subject
		pair(f.setup, fmt.Sprintf("if (%s) print 'T'; else print 'E'", f.expr), fmt.Sprintf("if (%s) print 'T'; else print 'E'", f.lit), "truth form "+f.expr)
	}
	// two expression operands (setups must not clash)
	for i, n := 0, tierN(tier, 1500, 20000); i < n; i++ {
		a, b := pick(r, forms), pick(r, forms)
		if a.setup != "" && b.setup != "" && a.setup != b.setup {
			continue
		}
		upd := func(f c05Form) bool {
			e := strings.ReplaceAll(strings.ReplaceAll(f.expr, "==", ""), "=>", "")
			return strings.Contains(e, "=") || strings.Contains(e, "++") || strings.Contains(e, "--")
		}
		if upd(a) && upd(b) {
			// both sides update a name: an operand that is an assignment is the variable's own cell, so
			// `(x = 5) + (x = '6')` reads x twice ("66") -- the pair with literals would not be equivalent
			continue
		}
		setup := a.setup
		if setup == "" {
			setup = b.setup
		}
		op := pick(r, c05BinOps)
		pair(setup, fmt.Sprintf("r = %s %s %s\n %s", a.expr, op, b.expr, c05Show), fmt.Sprintf("r = %s %s %s\n %s", a.lit, op, b.lit, c05Show), "both "+op+" forms "+a.expr+" , "+b.expr)
	}
}

func init() {
	register(Family{
		Name: "operand-expressions", Prop: "C05",
		Rule: "operands that are the RESULT of a value-producing expression (about 150 forms: characters of strings by index incl. digits whose value differs from their position, out-of-range and computed indices, characters of document fields; present and missing members of arrays, objects and the document; results of every method; function results incl. none; match expressions; assignment, chained and compound assignment, prefix / postfix ++ --; regex matches; num / json; nested unary and binary operators) as left and as right operand of all 15 binary operators against random pool operands and small numbers, under unary - + ! and `is` with every type name, as a condition, under ++ -- op= where assignable, and pairs of two such expressions; oracle (implementation only, group relation): the program with the expression and the program with the literal of the same value give the same class and output; every program is also compared with the model",
		Gen:  c05GenForms,
	})
	register(Family{
		Name: "operator-history", Prop: "C05",
		Rule: "the SAME operator node evaluated 2-6 times in one run on operands whose kind and value change between the evaluations (all 15 binary operators, unary - + !, prefix/postfix ++ --, `is` with every type name, && / || with a counting right operand; for ~ and !~ the right operands alternate between regex values, pattern strings, invalid patterns and other kinds; earlier operands recur): in a for-in loop over an array of operand pairs, an indexed for loop over two arrays, a while loop popping pairs, a function called with different arguments, a rule body over the records of an array root and of a JSONL stream, a rule body whose right operand comes from a table indexed by $index, and a rule PATTERN; oracle (implementation only, group relation): line k of the history equals the output of a fresh program that evaluates the operator once on the k-th operands written as literals, and the history stops with a runtime error exactly at the first evaluation whose single program fails; every program is also compared with the model",
		Gen:  c05GenHistory,
	})
	register(Family{
		Name: "binop-literals", Prop: "C05",
		Rule: "every binary operator x every ordered pair of pool operands (all 9 kinds, several values each) written as literals; non-trivial = distinct program whose outcome is a value or a runtime error",
		Gen: func(r *rand.Rand, tier string, emit func(Case)) {
			pool := c05Pool()
			for _, op := range c05BinOps {
				for _, a := range pool {
					for _, b := range pool {
						prog := fmt.Sprintf("function f() { return 1 }\nBEGIN { r = %s %s %s; %s }", a.expr, op, b.expr, c05Show)
						emit(Case{Req: RunReq(prog, nil, nil, false), Fields: []string{"class", "out"},
							Meta:       metaProg(prog, "kinds", a.kind+op+b.kind),
							NonTrivial: func(i Resp) bool { return i["class"] == "ok" || i["class"] == "runtime" }})
					}
				}
			}
		},
	})
	register(Family{
		Name: "binop-vars-fields", Prop: "C05",
		Rule: "binary operators on operands held in variables and in document fields ($.a, $.b), random pairs from the pool",
		Gen: func(r *rand.Rand, tier string, emit func(Case)) {
			pool := c05Pool()
			n := tierN(tier, 3000, 60000)
			for i := 0; i < n; i++ {
				a, b, op := pick(r, pool), pick(r, pool), pick(r, c05BinOps)
				var prog string
				var files []File
				if a.json != "" && b.json != "" && chance(r, 0.5) {
					prog = fmt.Sprintf("{ r = $.a %s $.b; %s }", op, c05Show)
					files = []File{{Name: "in.json", Data: []byte(fmt.Sprintf(`{"a": %s, "b": %s}`, a.json, b.json))}}
				} else {
					setA, setB := "x = "+a.expr+"; ", "y = "+b.expr+"; "
					xa, xb := "x", "y"
					if a.kind == "F" || a.kind == "U" {
						setA, xa = "", a.expr
					}
					if b.kind == "F" || b.kind == "U" {
						setB, xb = "", b.expr
					}
					same := ""
					if chance(r, 0.1) && a.kind != "F" && a.kind != "U" {
						// the same variable on both sides
						setB, xb = "", "x"
						same = " (same variable)"
					}
					prog = fmt.Sprintf("function f() { return 1 }\nBEGIN { %s%sr = %s %s %s; %s }", setA, setB, xa, op, xb, c05Show)
					_ = same
				}
				emit(Case{Req: RunReq(prog, nil, files, false), Fields: []string{"class", "out"},
					Meta:       metaProg(prog, "kinds", a.kind+op+b.kind),
					NonTrivial: func(i Resp) bool { return i["class"] == "ok" || i["class"] == "runtime" }})
			}
		},
	})
	register(Family{
		Name: "unary-is-shortcircuit", Prop: "C05",
		Rule: "unary ! + - on every pool operand, ++/-- (prefix and postfix) on variables of every kind, `is` with every type name, and &&/|| with a right operand that prints or fails (short-circuit observable)",
		Gen: func(r *rand.Rand, tier string, emit func(Case)) {
			pool := c05Pool()
			nt := func(i Resp) bool { return i["class"] == "ok" || i["class"] == "runtime" }
			for _, a := range pool {
				for _, op := range []string{"!", "+", "-", "!!", "- -"} {
					prog := fmt.Sprintf("function f() { return 1 }\nBEGIN { r = %s%s; %s }", op, a.expr, c05Show)
					emit(Case{Req: RunReq(prog, nil, nil, false), Fields: []string{"class", "out"}, Meta: metaProg(prog), NonTrivial: nt})
				}
				for _, t := range c05Types {
					prog := fmt.Sprintf("function f() { return 1 }\nBEGIN { print %s is %s }", a.expr, t)
					emit(Case{Req: RunReq(prog, nil, nil, false), Fields: []string{"class", "out"}, Meta: metaProg(prog), NonTrivial: nt})
				}
				if a.kind != "F" {
					set := "x = " + a.expr + "; "
					if a.kind == "U" {
						set = ""
					}
					for _, form := range []string{"x++", "x--", "++x", "--x"} {
						prog := fmt.Sprintf("BEGIN { %sr = %s; print r, x, r is number, x is number }", set, form)
						emit(Case{Req: RunReq(prog, nil, nil, false), Fields: []string{"class", "out"}, Meta: metaProg(prog), NonTrivial: nt})
					}
				}
				for _, rhs := range []string{"side()", "1/0", "true", "'s'", "u2"} {
					for _, op := range []string{"&&", "||"} {
						prog := fmt.Sprintf("function f() { return 1 }\nfunction side() { print 'side'; return 1 }\nBEGIN { r = %s %s %s; print r, r is bool }", a.expr, op, rhs)
						emit(Case{Req: RunReq(prog, nil, nil, false), Fields: []string{"class", "out"}, Meta: metaProg(prog), NonTrivial: nt})
					}
				}
			}
		},
	})
}
