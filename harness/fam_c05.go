package main

// C05 — operators compute the documented result for every combination of
// operand kinds (DESIGN.md section 3).

import (
	"fmt"
	"math/rand"
	"regexp"
	"sort"
	"strconv"
	"strings"
)

type opnd struct {
	kind string // N S B Z U A O R F
	expr string // jqawk expression text
	json string // JSON text when the value can come from a document ("" otherwise)
}

func c05Pool() []opnd {
	return []opnd{
		{"N", "0", "0"}, {"N", "(-0)", "-0"}, {"N", "1", "1"}, {"N", "2.5", "2.5"}, {"N", "(-3)", "-3"}, {"N", "0.1", "0.1"},
		{"N", "7", "7"}, {"N", "num('1e300')", "1e300"}, {"N", "num('5e-324')", "5e-324"}, {"N", "num('inf')", ""}, {"N", "num('nan')", ""},
		{"N", "9007199254740993", "9007199254740993"},
		// spellings whose decimal value is not what another base / a shortened text would give
		{"N", "010", "10"}, {"N", "0755", "755"}, {"N", "08", "8"}, {"N", "00.50", "0.5"},
		{"S", "''", `""`}, {"S", "'abc'", `"abc"`}, {"S", "'10'", `"10"`}, {"S", "'9'", `"9"`}, {"S", "' 1'", `" 1"`},
		{"S", "'1e3'", `"1e3"`}, {"S", "'0x10'", `"0x10"`}, {"S", "'0'", `"0"`}, {"S", "'-0'", `"-0"`}, {"S", "'a.c'", `"a.c"`}, {"S", "'^b'", `"^b"`}, {"S", "'('", `"("`},
		{"S", "'2.5'", `"2.5"`}, {"S", "'Inf'", `"Inf"`}, {"S", "'1_0'", `"1_0"`},
		{"B", "true", "true"}, {"B", "false", "false"},
		{"Z", "null", "null"},
		{"U", "u", ""},
		{"A", "[]", "[]"}, {"A", "[1, 'a']", `[1,"a"]`},
		{"O", "{}", "{}"}, {"O", "{a: 1}", `{"a":1}`},
		{"R", "/a/", ""}, {"R", "/^1/", ""},
		{"F", "f", ""}, {"F", "printf", ""},
	}
}

var c05BinOps = []string{"+", "-", "*", "/", "%", "==", "!=", "<", "<=", ">", ">=", "~", "!~", "&&", "||"}
var c05Types = []string{"string", "bool", "number", "array", "object", "regex", "unknown", "function", "null", "banana"}

const c05Show = "print r, r is string, r is number, r is bool, r is null"

// ---------------------------------------------------------------- operator-history
//
// The SAME operator node evaluated several times in one run with operands whose
// kind and value change between the evaluations.  The result of the k-th
// evaluation must be the result of a fresh program that evaluates the operator
// once on those operands (no per-node memory of earlier operands or results).

// c05HistPool: C05's pool plus more regex values (valid and invalid) and pattern strings.
func c05HistPool() []opnd {
	p := append([]opnd{}, c05Pool()...)
	return append(p, []opnd{
		{"R", "/b$/", ""}, {"R", "/[0-9]+/", ""}, {"R", "/^abc$/", ""}, {"R", "/(/", ""}, {"R", "/[a/", ""}, {"R", "/x*/", ""}, {"R", "/^$/", ""},
		{"S", "'b$'", `"b$"`}, {"S", "'[0-9]+'", `"[0-9]+"`}, {"S", "'[a'", `"[a"`}, {"S", "'banana'", `"banana"`}, {"S", "'abc1'", `"abc1"`}, {"S", "'x'", `"x"`},
		{"N", "10", "10"}, {"N", "(-7)", "-7"}, {"N", "0.5", "0.5"},
	}...)
}

type c05Eval struct{ a, b opnd }

// c05HistCheck: line k of the history's output is the output of the k-th single evaluation;
// the history stops with a runtime error exactly where the first failing single evaluation is.
func c05HistCheck(k, total int) func(first, self Resp) string {
	return func(first, self Resp) string {
		out := string(first.Bytes("out"))
		lines := strings.SplitAfter(out, "\n")
		if len(lines) > 0 && lines[len(lines)-1] == "" {
			lines = lines[:len(lines)-1]
		}
		if first["class"] != "ok" && first["class"] != "runtime" {
			return "history program ended in class " + first["class"]
		}
		switch {
		case k < len(lines):
			if self["class"] != "ok" {
				return fmt.Sprintf("evaluation %d of the history produced %q, but a fresh single evaluation on the same operands ends in class %s", k, lines[k], self["class"])
			}
			if got := string(self.Bytes("out")); got != lines[k] {
				return fmt.Sprintf("evaluation %d of the history produced %q, a fresh single evaluation on the same operands produces %q", k, lines[k], got)
			}
		case k == len(lines):
			if first["class"] == "ok" {
				return fmt.Sprintf("the history printed only %d of %d results", len(lines), total)
			}
			if self["class"] != "runtime" {
				return fmt.Sprintf("the history failed at evaluation %d, but a fresh single evaluation on the same operands ends in class %s out %q", k, self["class"], string(self.Bytes("out")))
			}
		default:
			if first["class"] == "ok" {
				return fmt.Sprintf("the history printed only %d of %d results", len(lines), total)
			}
		}
		return ""
	}
}

const c05SideFn = "function side(v) { n = n + 1\n return v }\n"

// c05History emits one history program and its single-evaluation programs (one group).
// op: a binary operator, or a unary form "u-" "u+" "u!" "is:<type>" "x++" "x--" "++x" "--x".
func c05History(r *rand.Rand, gid int, op string, form string, evs []c05Eval, emit func(Case)) {
	nt := func(i Resp) bool { return i["class"] == "ok" || i["class"] == "runtime" }
	binary := false
	for _, b := range c05BinOps {
		if b == op {
			binary = true
		}
	}
	// the operation on operand texts x, y, as statements printing exactly one line
	stmt := func(x, y string) string {
		switch {
		case form == "shortcircuit":
			return fmt.Sprintf("n = 0; r = %s %s side(%s); print r, r is bool, n", x, op, y)
		case binary:
			return fmt.Sprintf("r = %s %s %s; %s", x, op, y, c05Show)
		case strings.HasPrefix(op, "is:"):
			return fmt.Sprintf("r = %s is %s; %s", x, op[3:], c05Show)
		case op == "u-" || op == "u+" || op == "u!":
			return fmt.Sprintf("r = %s%s; %s", op[1:], x, c05Show)
		case op == "x++" || op == "x--":
			return fmt.Sprintf("w = %s; r = w%s; print r, w, r is number, w is number", x, op[1:])
		default: // ++x --x
			return fmt.Sprintf("w = %s; r = %sw; print r, w, r is number, w is number", x, op[:2])
		}
	}
	expr := func(x, y string) string { // the bare operator expression (patterns, function bodies)
		switch {
		case binary:
			return fmt.Sprintf("%s %s %s", x, op, y)
		case strings.HasPrefix(op, "is:"):
			return fmt.Sprintf("%s is %s", x, op[3:])
		default:
			return fmt.Sprintf("%s%s", op[1:], x)
		}
	}
	head := "function f() { return 1 }\n"
	if form == "shortcircuit" {
		head += c05SideFn
	}
	var prog string
	var files []File
	pairs := make([]string, len(evs))
	as := make([]string, len(evs))
	bs := make([]string, len(evs))
	docs := make([]string, len(evs))
	for i, e := range evs {
		pairs[i] = "[" + e.a.expr + ", " + e.b.expr + "]"
		as[i], bs[i] = e.a.expr, e.b.expr
		docs[i] = "[" + e.a.json + "," + e.b.json + "]"
	}
	switch form {
	case "forin-pairs", "shortcircuit":
		prog = head + "BEGIN {\n  ps = [" + strings.Join(pairs, ", ") + "]\n  for (p in ps) { " + stmt("p[0]", "p[1]") + " }\n}\n"
	case "for-index":
		prog = head + "BEGIN {\n  xs = [" + strings.Join(as, ", ") + "]\n  ys = [" + strings.Join(bs, ", ") + "]\n  for (i = 0; i < xs.length(); i++) { x = xs[i]; y = ys[i]; " + stmt("x", "y") + " }\n}\n"
	case "while-pop":
		prog = head + "BEGIN {\n  ps = [" + strings.Join(pairs, ", ") + "]\n  while (ps.length() > 0) { p = ps.popfirst(); " + stmt("p[0]", "p[1]") + " }\n}\n"
	case "function":
		// the operator node lives in op(); the statement only shows its result
		prog = head + "function op(a, b) { return " + expr("a", "b") + " }\nBEGIN {\n"
		for i := range evs {
			prog += fmt.Sprintf("  r = op(%s, %s); %s\n", as[i], bs[i], c05Show)
		}
		prog += "}\n"
	case "records":
		prog = head + "{ " + stmt("$[0]", "$[1]") + " }\n"
		files = []File{{Name: "in.json", Data: []byte("[" + strings.Join(docs, ",") + "]")}}
	case "records-jsonl":
		prog = head + "{ " + stmt("$.a", "$.b") + " }\n"
		var sb strings.Builder
		for _, e := range evs {
			fmt.Fprintf(&sb, "{\"a\": %s, \"b\": %s}\n", e.a.json, e.b.json)
		}
		files = []File{{Name: "in.jsonl", Data: []byte(sb.String())}}
	case "records-right-table":
		// left operand from the record, right operand (e.g. a regex value) from a table built in BEGIN
		prog = head + "BEGIN { ys = [" + strings.Join(bs, ", ") + "] }\n{ y = ys[$index]; " + stmt("$", "y") + " }\n"
		var ds []string
		for _, e := range evs {
			ds = append(ds, e.a.json)
		}
		files = []File{{Name: "in.json", Data: []byte("[" + strings.Join(ds, ",") + "]")}}
	case "pattern":
		// the operator is the rule's pattern; one line per record either way
		prog = head + "BEGIN { ys = [" + strings.Join(bs, ", ") + "] }\n" + expr("$", "ys[$index]") + " { print \"hit\"; next }\n{ print \"miss\" }\n"
		var ds []string
		for _, e := range evs {
			ds = append(ds, e.a.json)
		}
		files = []File{{Name: "in.json", Data: []byte("[" + strings.Join(ds, ",") + "]")}}
	}
	group := fmt.Sprintf("hist%d", gid)
	var desc []string
	for _, e := range evs {
		desc = append(desc, e.a.kind+op+e.b.kind)
	}
	meta := metaProg(prog, "form", form, "operator", op, "kinds", strings.Join(desc, " "), "row", op, "col", form)
	if files != nil {
		meta["input"] = string(files[0].Data)
	}
	emit(Case{Req: RunReq(prog, nil, files, false), Fields: []string{"class", "out"}, Meta: meta, NonTrivial: nt, Group: group})
	for k, e := range evs {
		var single string
		switch form {
		case "function":
			single = head + "BEGIN { r = " + expr(e.a.expr, e.b.expr) + "; " + c05Show + " }\n"
		case "pattern":
			single = head + expr("("+e.a.expr+")", e.b.expr) + " { print \"hit\"; next }\n{ print \"miss\" }\n"
		default:
			single = head + "BEGIN { " + stmt(e.a.expr, e.b.expr) + " }\n"
		}
		var sf []File
		if form == "pattern" {
			sf = []File{{Name: "in.json", Data: []byte("[0]")}}
		}
		emit(Case{Req: RunReq(single, nil, sf, false), Fields: []string{"class", "out"}, NonTrivial: nt, Group: group,
			GroupCheck: c05HistCheck(k, len(evs)),
			Meta:       metaProg(single, "form", "single evaluation "+fmt.Sprint(k)+" of "+group, "operator", op, "kinds", e.a.kind+op+e.b.kind)})
	}
}

func c05GenHistory(r *rand.Rand, tier string, emit func(Case)) {
	pool := c05HistPool()
	byKind := map[string][]opnd{}
	var jsonable, noFn []opnd
	for _, o := range pool {
		byKind[o.kind] = append(byKind[o.kind], o)
		if o.json != "" {
			jsonable = append(jsonable, o)
		}
		if o.kind != "F" {
			noFn = append(noFn, o)
		}
	}
	var patterns, subjects []opnd // right and left operands that make ~ / !~ interesting
	for _, o := range pool {
		if o.kind == "R" || o.kind == "S" {
			patterns = append(patterns, o)
		}
		if o.kind == "S" || o.kind == "N" {
			subjects = append(subjects, o)
		}
	}
	gid := 0
	// a sequence of operand pairs whose kinds and values change; for ~ / !~ the right
	// operands alternate between regex values, strings, invalid patterns and other kinds
	seq := func(op string, from []opnd, n int) []c05Eval {
		evs := make([]c05Eval, n)
		for i := range evs {
			a, b := pick(r, from), pick(r, from)
			if op == "~" || op == "!~" {
				if chance(r, 0.85) {
					b = pick(r, patterns)
				}
				if chance(r, 0.7) {
					a = pick(r, subjects)
				}
				var ok []opnd
				for _, o := range from {
					if o.expr == a.expr {
						ok = append(ok, o)
					}
				}
				if len(ok) == 0 {
					a = pick(r, from)
				}
				ok = ok[:0]
				for _, o := range from {
					if o.expr == b.expr {
						ok = append(ok, o)
					}
				}
				if len(ok) == 0 {
					b = pick(r, from)
				}
			}
			evs[i] = c05Eval{a, b}
			// now and then the very operands of an earlier evaluation again, or only one side changed
			if i > 0 && chance(r, 0.25) {
				prev := evs[r.Intn(i)]
				switch r.Intn(3) {
				case 0:
					evs[i] = prev
				case 1:
					evs[i].a = prev.a
				default:
					evs[i].b = prev.b
				}
			}
		}
		return evs
	}
	binForms := []string{"forin-pairs", "for-index", "while-pop", "function", "records", "records-jsonl", "records-right-table", "pattern"}
	per := tierN(tier, 14, 300)
	for _, op := range c05BinOps {
		for _, form := range binForms {
			from := noFn
			switch form {
			case "records", "records-jsonl":
				from = jsonable
			}
			m := per
			if op == "~" || op == "!~" {
				m = per * 3
			}
			for i := 0; i < m; i++ {
				evs := seq(op, from, 2+r.Intn(5))
				if form == "records-right-table" || form == "pattern" {
					for j := range evs { // the left operand comes from the document
						for evs[j].a.json == "" {
							evs[j].a = pick(r, jsonable)
						}
					}
				}
				gid++
				c05History(r, gid, op, form, evs, emit)
			}
		}
	}
	for _, op := range []string{"&&", "||"} {
		for i := 0; i < per*2; i++ {
			gid++
			c05History(r, gid, op, "shortcircuit", seq(op, noFn, 2+r.Intn(5)), emit)
		}
	}
	unary := []string{"u-", "u+", "u!", "x++", "x--", "++x", "--x"}
	for _, t := range c05Types {
		unary = append(unary, "is:"+t)
	}
	for _, op := range unary {
		forms := []string{"forin-pairs", "for-index", "while-pop", "records"}
		if !strings.Contains(op, "x") {
			forms = append(forms, "function")
		}
		for _, form := range forms {
			from := noFn
			if form == "records" {
				from = jsonable
			}
			for i := 0; i < per; i++ {
				gid++
				c05History(r, gid, op, form, seq(op, from, 2+r.Intn(5)), emit)
			}
		}
	}
}

// ---------------------------------------------------------------- operand-expressions
//
// Operands that are the RESULT of a value-producing expression form (string
// index, array / object / document member, method result, function result, match
// expression, assignment, ++/--, regex match, builtin, nested operator) instead
// of a literal, variable or field.  The operator must see exactly the value the
// expression yields: `E op B` gives what `L op B` gives, L being the literal
// with the value of E.

type c05Form struct {
	setup string // statements run before (fresh names per program)
	expr  string
	lit   string // the literal with the same value
	lval  bool   // E is assignable (also tested under ++ / -- / op=)
}

const c05FormDoc = `{"f": "789", "g": "60", "n": 4, "a": [7, "8", null, true], "o": {"k": "9", "m": 2.5}, "e": ""}`
const c05FormFuncs = "function f() { return 1 }\nfunction id(x) { return x }\nfunction seven() { return 7 }\nfunction noret() { f() }\n"

func c05Forms() []c05Form {
	F := func(setup, expr, lit string) c05Form { return c05Form{setup, expr, lit, false} }
	LV := func(setup, expr, lit string) c05Form { return c05Form{setup, expr, lit, true} }
	return []c05Form{
		// characters of strings: digits whose value differs from their position, non-digits, out of range
		F("s = '789'", "s[0]", "'7'"), F("s = '789'", "s[1]", "'8'"), F("s = '789'", "s[2]", "'9'"), F("s = '789'", "s[5]", "null"), F("s = '789'", "s[-1]", "null"),
		F("s = '5x'", "s[0]", "'5'"), F("s = '5x'", "s[1]", "'x'"), F("s = '042'", "s[0]", "'0'"), F("s = '042'", "s[1]", "'4'"), F("s = '042'", "s[2]", "'2'"),
		F("s = '-3'", "s[0]", "'-'"), F("s = '-3'", "s[1]", "'3'"), F("", "'789'[1]", "'8'"), F("", "'abc'[0]", "'a'"), F("", "''[0]", "null"), F("", "'31'[1]", "'1'"),
		F("", "$.f[0]", "'7'"), F("", "$.f[1]", "'8'"), F("", "$.f[2]", "'9'"), F("", "$.g[0]", "'6'"), F("", "$.g[1]", "'0'"), F("", "$.f[3]", "null"), F("", "$.e[0]", "null"),
		F("i = 2", "$.f[i]", "'9'"), F("s = '4321'; i = 1", "s[i]", "'3'"), F("s = '4321'", "s[s.length() - 1]", "'1'"), F("s = '90'", "s[s[1]]", "null"), F("s = '90'", "s[num(s[1])]", "'9'"), F("", "$.o.k[0]", "'9'"),
		F("s = '789'", "(s[1])", "'8'"), F("s = '789'", "id(s[2])", "'9'"), F("s = '789'", "[s[0]][0]", "'7'"), F("s = '789'; c = s[1]", "c", "'8'"),
		// members of arrays, objects and the document (present, missing)
		LV("arr = [4, '5', true, null]", "arr[0]", "4"), LV("arr = [4, '5', true, null]", "arr[1]", "'5'"), LV("arr = [4, '5', true, null]", "arr[2]", "true"), LV("arr = [4, '5', true, null]", "arr[3]", "null"),
		F("arr = [4, '5', true, null]", "arr[9]", "null"), LV("arr = [4, '5', true, null]", "arr[-3]", "'5'"),
		LV("o = {k: 6, t: '7', z: null}", "o.k", "6"), LV("o = {k: 6, t: '7', z: null}", "o.t", "'7'"), LV("o = {k: 6, t: '7', z: null}", "o['t']", "'7'"), F("o = {k: 6, t: '7', z: null}", "o.none", "null"),
		F("o = {k: 6, t: '7', z: null}", "o.none.deeper", "null"), LV("", "$.n", "4"), LV("", "$.a[0]", "7"), LV("", "$.a[1]", "'8'"), LV("", "$.a[2]", "null"), LV("", "$.a[3]", "true"), LV("", "$.o.k", "'9'"),
		LV("", "$.o.m", "2.5"), F("", "$.zip", "null"), F("", "$.a[7]", "null"), LV("", "$.e", "''"), F("n2 = [[1, '2'], {q: '3'}]", "n2[0][1]", "'2'"), F("n2 = [[1, '2'], {q: '3'}]", "n2[1].q", "'3'"),
		// method results
		F("s = '789'", "s.length()", "3"), F("arr = [4, '5', true]", "arr.length()", "3"), F("", "'a,3'.split(',')[1]", "'3'"), F("", "'3'.upper()", "'3'"), F("", "'AB'.lower()", "'ab'"),
		F("", "(2.7).floor()", "2"), F("", "(2.2).ceil()", "3"), F("", "(2.5).round()", "3"), F("", "(-0.5).ceil()", "(-0)"), F("", "[3, 1, 2].sort()[0]", "1"), F("", "['b', 'a'].sort()[1]", "'b'"),
		F("", "[1, 9].pop()", "9"), F("", "[8, 1].popfirst()", "8"), F("", "[].pop()", "null"), F("", "{k: 6}.pluck('k').k", "6"), F("", "{k: 6}.pluck('j').j", "null"), F("", "[1].contains(1)", "true"),
		F("", "[1].contains(2)", "false"), F("", "[1].push(5)[1]", "5"), F("", "''.length()", "0"), F("", "{a: 1, b: 2}.length()", "2"), F("", "'7 8'.split(' ')[0]", "'7'"), F("", "$.f.length()", "3"),
		// function results, match expressions
		F("", "id('9')", "'9'"), F("", "id(0)", "0"), F("", "seven()", "7"), F("", "noret()", "null"), F("", "id(null)", "null"), F("", "id(true)", "true"), F("", "id(id('1e3'))", "'1e3'"),
		F("", "match (1) { _ => '8' }", "'8'"), F("", "match (2) { 1 => 0 }", "null"), F("", "match ('x') { v => v }", "'x'"), F("", "match (5) { n => n }", "5"), F("", "match ([1, '2']) { [p, q] => q }", "'2'"),
		F("", "match (1) { _ => { w = 3 } }", "null"),
		// assignment and ++ / -- results
		F("", "(x = 5)", "5"), F("", "(x = '6')", "'6'"), F("x = 2", "(x += 1)", "3"), F("x = 2", "(x -= 2)", "0"), F("", "(y = x = 4)", "4"), F("o2 = {}", "(o2.k = 3)", "3"), F("x = '2'", "(x += 1)", "'21'"),
		F("x = 2", "(x++)", "2"), F("x = 2", "(++x)", "3"), F("x = 2", "(x--)", "2"), F("x = 2", "(--x)", "1"), F("x = '7'", "(x++)", "7"), F("x = null", "(++x)", "1"), F("", "(u2++)", "0"), F("", "(--u3)", "(-1)"),
		F("arr = [4, '5']", "(arr[1]++)", "5"), F("arr = [4, '5']", "(++arr[1])", "6"),
		// regex matches, builtins, nested operators
		F("", "('a' ~ /a/)", "true"), F("", "('a' !~ /a/)", "false"), F("", "('b' ~ 'a')", "false"), F("", "num('12')", "12"), F("", "num('x')", "null"), F("", "num(3.7)", "3"), F("", "json(5)", "'5'"),
		F("", "json('a')", "'\"a\"'"), F("", "json(null)", "'null'"), F("", "(-'3')", "(-3)"), F("", "(!0)", "true"), F("", "(!1)", "false"), F("", "(+'2.5')", "2.5"), F("", "(1 + 2)", "3"),
		F("", "('1' + 2)", "'12'"), F("", "(7 % 4)", "3"), F("", "(1 / 4)", "0.25"), F("", "(2 < 3)", "true"), F("", "(null == null)", "true"), F("", "(0 * -1)", "(-0)"), F("", "('a' < 'b')", "true"),
	}
}

func c05GenForms(r *rand.Rand, tier string, emit func(Case)) {
	forms := c05Forms()
	pool := c05Pool()
	nt := func(i Resp) bool { return i["class"] == "ok" || i["class"] == "runtime" }
	files := []File{{Name: "in.json", Data: []byte(c05FormDoc)}}
	gid := 0
	// a pair of programs: the statements with E (and its setup), and with the literal instead
	pair := func(setup, withE, withL, what string) {
		gid++
		g := fmt.Sprintf("form%d", gid)
		progL := c05FormFuncs + "{ " + withL + " }\n"
		progE := c05FormFuncs + "{ " + setup + "\n " + withE + " }\n"
		if setup == "" {
			progE = c05FormFuncs + "{ " + withE + " }\n"
		}
		emit(Case{Req: RunReq(progL, nil, files, false), Fields: []string{"class", "out"}, NonTrivial: nt, Group: g, GroupFields: []string{"class", "out"},
			Meta: metaProg(progL, "what", what, "side", "literal operand")})
		emit(Case{Req: RunReq(progE, nil, files, false), Fields: []string{"class", "out"}, NonTrivial: nt, Group: g, GroupFields: []string{"class", "out"},
			Meta: metaProg(progE, "what", what, "side", "expression operand", "row", strings.SplitN(what, " ", 2)[0])})
	}
	nB := tierN(tier, 2, 8)
	for _, f := range forms {
		for _, op := range c05BinOps {
			for k := 0; k < nB; k++ {
				b := pick(r, pool)
				pair(f.setup, fmt.Sprintf("r = %s %s %s\n %s", f.expr, op, b.expr, c05Show), fmt.Sprintf("r = %s %s %s\n %s", f.lit, op, b.expr, c05Show), "left "+op+" form "+f.expr)
				b = pick(r, pool)
				pair(f.setup, fmt.Sprintf("r = %s %s %s\n %s", b.expr, op, f.expr, c05Show), fmt.Sprintf("r = %s %s %s\n %s", b.expr, op, f.lit, c05Show), "right "+op+" form "+f.expr)
			}
			// the operator the seeded class is about most directly: the same operand on both sides / with plain numbers
			n := pick(r, []string{"1", "2", "5", "0", "10"})
			pair(f.setup, fmt.Sprintf("r = %s %s %s\n %s", f.expr, op, n, c05Show), fmt.Sprintf("r = %s %s %s\n %s", f.lit, op, n, c05Show), "left-num "+op+" form "+f.expr)
		}
		for _, u := range []string{"-", "+", "!", "- -", "!!"} {
			pair(f.setup, fmt.Sprintf("r = %s%s\n %s", u, f.expr, c05Show), fmt.Sprintf("r = %s%s\n %s", u, f.lit, c05Show), "unary "+u+" form "+f.expr)
		}
		for _, t := range c05Types {
			pair(f.setup, fmt.Sprintf("r = %s is %s\n %s", f.expr, t, c05Show), fmt.Sprintf("r = %s is %s\n %s", f.lit, t, c05Show), "is "+t+" form "+f.expr)
		}
		if f.lval {
			for _, st := range []string{"r = X++", "r = ++X", "r = X--", "r = --X", "r = (X += 2)", "r = (X -= 2)", "r = (X *= 2)", "r = (X /= 2)"} {
				pair(f.setup, strings.ReplaceAll(st, "X", f.expr)+"\n "+c05Show+"\n print "+f.expr, "x = "+f.lit+"\n "+strings.ReplaceAll(st, "X", "x")+"\n "+c05Show+"\n print x", "update "+st+" form "+f.expr)
			}
		}
		// the expression as a truth value and as a pattern subject
		pair(f.setup, fmt.Sprintf("if (%s) print 'T'; else print 'E'", f.expr), fmt.Sprintf("if (%s) print 'T'; else print 'E'", f.lit), "truth form "+f.expr)
	}
	// two expression operands (setups must not clash)
	for i, n := 0, tierN(tier, 1500, 20000); i < n; i++ {
		a, b := pick(r, forms), pick(r, forms)
		if a.setup != "" && b.setup != "" && a.setup != b.setup {
			continue
		}
		upd := func(f c05Form) bool {
			e := strings.ReplaceAll(strings.ReplaceAll(f.expr, "==", ""), "=>", "")
			return strings.Contains(e, "=") || strings.Contains(e, "++") || strings.Contains(e, "--")
		}
		if upd(a) && upd(b) {
			// both sides update a name: an operand that is an assignment is the variable's own cell, so
			// `(x = 5) + (x = '6')` reads x twice ("66") -- the pair with literals would not be equivalent
			continue
		}
		setup := a.setup
		if setup == "" {
			setup = b.setup
		}
		op := pick(r, c05BinOps)
		pair(setup, fmt.Sprintf("r = %s %s %s\n %s", a.expr, op, b.expr, c05Show), fmt.Sprintf("r = %s %s %s\n %s", a.lit, op, b.lit, c05Show), "both "+op+" forms "+a.expr+" , "+b.expr)
	}
}

// ---------------------------------------------------------------- literal-spellings
//
// A numeric literal is a decimal digit sequence with an optional fraction; its
// value is the decimal value of that text (strconv.ParseFloat), whatever the
// spelling: leading zeros do not select another base, trailing fraction zeros
// and long digit runs change nothing but the rounding ParseFloat defines.

// c05Canon: the value of a literal and its canonical decimal spelling (the text
// `print` shows for it, which is again a literal); ok=false when the literal is
// out of range (evaluating it is a runtime error).
func c05Canon(lit string) (float64, string, bool) {
	v, err := strconv.ParseFloat(lit, 64)
	if err != nil {
		return 0, "", false
	}
	return v, strconv.FormatFloat(v, 'f', -1, 64), true
}

func c05Digits(r *rand.Rand, set string, n int) string {
	b := make([]byte, n)
	for i := range b {
		b[i] = set[r.Intn(len(set))]
	}
	return string(b)
}

func c05Spellings(r *rand.Rand, tier string) []string {
	sp := []string{
		"010", "0017", "0100", "0755", "007", "08", "019", "00.5", "010.0", "0", "00", "000", "0.0", "00.00", "01", "07", "0777", "00010", "0010.50",
		"017.7", "0123456789", "0377", "0644", "01000", "0200", "012", "1", "10", "8", "64", "1.50", "1.500", "2.0", "10.10", "010.010", "0.10", "0.1",
		"00000000000000000010", "000000000000000000000000000000017", "9007199254740993", "09007199254740993", "9007199254740992.0", "18446744073709551616",
		"9223372036854775807", "9223372036854775808", "0777777777777777777777", "01777777777777777777777", "0400000000000000000000",
		"0.30000000000000004", "0.1000000000000000055511151231257827", "123456789012345678901234567890", "0.000000000000000000000000000001",
		"100000000000000000000", "99999999999999999999999", "1.7976931348623157", "4.9406564584124654", "2.2250738585072011",
		"1" + strings.Repeat("0", 308), "01" + strings.Repeat("0", 308), "2" + strings.Repeat("0", 308), "1" + strings.Repeat("0", 400),
		"17976931348623157" + strings.Repeat("0", 292), "17976931348623159" + strings.Repeat("0", 292),
		"0." + strings.Repeat("0", 322) + "49", "0." + strings.Repeat("0", 323) + "3", "0." + strings.Repeat("0", 400) + "1",
		strings.Repeat("0", 200) + "8", strings.Repeat("0", 200) + "10", strings.Repeat("7", 120), "0" + strings.Repeat("7", 120),
		"5." + strings.Repeat("0", 150), "05." + strings.Repeat("0", 150) + "1", "1.000000000000000000000000000000000000000000001",
	}
	for i, n := 0, tierN(tier, 70, 1500); i < n; i++ {
		set := pick(r, []string{"01234567", "01234567", "0123456789", "01", "89", "07"})
		var s string
		switch r.Intn(6) {
		case 0, 1: // leading zeros, short
			s = strings.Repeat("0", 1+r.Intn(3)) + c05Digits(r, set, 1+r.Intn(5))
		case 2: // no leading zero
			s = c05Digits(r, "123456789", 1) + c05Digits(r, set, r.Intn(6))
		case 3: // long run
			s = strings.Repeat("0", r.Intn(3)) + c05Digits(r, set, 15+r.Intn(30))
		case 4: // very long run
			s = strings.Repeat("0", r.Intn(2)) + c05Digits(r, set, 40+r.Intn(270))
		default:
			s = strings.Repeat("0", r.Intn(4)) + c05Digits(r, set, r.Intn(4))
			if s == "" {
				s = "0"
			}
		}
		if chance(r, 0.35) { // a fraction, often with trailing zeros
			s += "." + c05Digits(r, set, 1+r.Intn(4)) + strings.Repeat("0", r.Intn(4))
			if chance(r, 0.15) {
				s += c05Digits(r, "0123456789", 10+r.Intn(40))
			}
		}
		sp = append(sp, s)
	}
	return sp
}

func c05GenSpellings(r *rand.Rand, tier string, emit func(Case)) {
	pool := c05Pool()
	nt := func(i Resp) bool { return i["class"] == "ok" || i["class"] == "runtime" }
	const funcs = "function f() { return 1 }\nfunction id(x) { return x }\n"
	gid := 0
	sps := c05Spellings(r, tier)
	// direct: the program prints exactly want (class ok), or, want == nil, fails at once
	direct := func(prog, what, lit string, want *string) {
		emit(Case{Req: RunReq(prog, nil, nil, false), Fields: []string{"class", "out"}, NonTrivial: nt,
			Meta: metaProg(prog, "what", what, "literal", short(lit), "row", what),
			Oracle: func(i Resp) string {
				if want == nil {
					if i["class"] != "runtime" || i["out"] != "-" {
						return fmt.Sprintf("the literal is out of float64 range (strconv.ParseFloat fails): a runtime error with no output expected, got class %s out %q", i["class"], short(string(i.Bytes("out"))))
					}
					return ""
				}
				if i["class"] != "ok" || string(i.Bytes("out")) != *want {
					return fmt.Sprintf("a numeric literal has the decimal value of its text: expected output %q, got class %s out %q", short(*want), i["class"], short(string(i.Bytes("out"))))
				}
				return ""
			}})
	}
	// pair: the statements with the literal as spelled and with its canonical decimal spelling agree
	pair := func(tmpl, lit, canon, what string) {
		gid++
		g := fmt.Sprintf("spell%d", gid)
		for k, l := range []string{canon, lit} {
			prog := funcs + "BEGIN { " + strings.ReplaceAll(tmpl, "LIT", l) + " }\n"
			side := "canonical spelling"
			if k == 1 {
				side = "as spelled"
			}
			emit(Case{Req: RunReq(prog, nil, nil, false), Fields: []string{"class", "out"}, NonTrivial: nt, Group: g, GroupFields: []string{"class", "out"},
				Meta: metaProg(prog, "what", what, "literal", short(lit), "canonical", short(canon), "side", side, "row", strings.SplitN(what, " ", 2)[0])})
		}
	}
	for _, lit := range sps {
		v, canon, ok := c05Canon(lit)
		if !ok {
			direct("BEGIN { print \"pre\" + "+lit+"; print \"post\" }\n", "out-of-range", lit, nil)
			direct("BEGIN { x = "+lit+"; print \"post\" }\n", "out-of-range", lit, nil)
			direct("BEGIN { print 1 < "+lit+" }\n", "out-of-range", lit, nil)
			continue
		}
		w := canon + "\n"
		direct("BEGIN { print "+lit+" }\n", "print", lit, &w)
		w2 := "n=" + canon + "," + canon + "\n"
		direct("BEGIN { x = "+lit+"; print \"n=\" + "+lit+" + \",\" + x }\n", "concat", lit, &w2)
		w3 := "true false false true false true true true\n"
		direct(fmt.Sprintf("BEGIN { print %s == %s, %s != %s, %s < %s, %s <= %s, %s > %s, %s >= %s, %s == '%s', num('%s') == %s }\n",
			lit, canon, lit, canon, lit, canon, lit, canon, canon, lit, canon, lit, lit, canon, canon, lit), "compare-with-decimal", lit, &w3)
		w4 := "true true\n"
		direct(fmt.Sprintf("BEGIN { x = %s; y = %s; print x == y, x - y == 0 }\n", lit, canon), "compare-with-decimal", lit, &w4)
		if v >= 1 && v < 1e15 && v == float64(int64(v)) {
			// % works on integer-truncated operands
			iv := int64(v)
			w5 := fmt.Sprintf("%d %d %d %d\n", 1000%iv, iv%7, (iv+3)%iv, -25%iv)
			direct(fmt.Sprintf("BEGIN { print 1000 %% %s, %s %% 7, (%s + 3) %% %s, -25 %% %s }\n", lit, lit, lit, lit, lit), "percent", lit, &w5)
		}
		if v >= 0 && v < 24 && v == float64(int64(v)) {
			iv := int(v)
			w6 := fmt.Sprintf("%d %c %d\n", 100+iv, 'a'+iv, 100+(23-iv))
			direct(fmt.Sprintf("BEGIN { a = []; for (i = 0; i < 24; i++) a.push(100 + i)\n print a[%s], 'abcdefghijklmnopqrstuvwx'[%s], a[-1 - %s] }\n", lit, lit, lit), "index", lit, &w6)
		}
		// every operator, the literal on either side, against pool operands and another spelling
		for _, op := range c05BinOps {
			for k, nB := 0, tierN(tier, 1, 3); k < nB; k++ {
				pair("r = LIT "+op+" "+pick(r, pool).expr+"; "+c05Show, lit, canon, "left "+op)
				pair("r = "+pick(r, pool).expr+" "+op+" LIT; "+c05Show, lit, canon, "right "+op)
			}
			o := pick(r, sps)
			if _, oc, ok := c05Canon(o); ok {
				// two spelled literals against their two canonical spellings
				gid++
				g := fmt.Sprintf("spell%d", gid)
				for k, pr := range [][2]string{{canon, oc}, {lit, o}} {
					prog := funcs + "BEGIN { r = " + pr[0] + " " + op + " " + pr[1] + "; " + c05Show + " }\n"
					emit(Case{Req: RunReq(prog, nil, nil, false), Fields: []string{"class", "out"}, NonTrivial: nt, Group: g, GroupFields: []string{"class", "out"},
						Meta: metaProg(prog, "what", "both "+op, "literal", short(lit), "side", []string{"canonical spelling", "as spelled"}[k], "row", "both")})
				}
			}
		}
		for _, t := range []string{
			"r = -LIT; " + c05Show, "r = +LIT; " + c05Show, "r = !LIT; " + c05Show, "r = - -LIT; " + c05Show, "print LIT is number, LIT is string",
			"a = [LIT, LIT + 1, [LIT]]; print a, a[0] == LIT, a.contains(LIT)", "o = {k: LIT}; o[LIT] = LIT; print o, o.k", "print id(LIT), id(LIT) + 1",
			"print match (LIT) { LIT => 'same', _ => 'other' }, match (LIT + 1) { LIT => 'same', _ => 'other' }",
			"x = LIT; x++; print x; x = LIT; --x; print x; x = 1; x += LIT; x *= LIT; print x", "print (LIT).floor(), (LIT).ceil(), (LIT).round(), LIT.floor()",
			"printf('%f|%v|%8f|\\n', LIT, LIT, LIT)", "print json(LIT), num(LIT), num('LIT'), json([LIT])", "for (i = LIT; i < LIT + 2 && k < 3; i++) { k++; print i }",
			"if (LIT) print 'T'; else print 'E'", "while (n < 2 && LIT) { n++; print n }", "print [5, 6, 7, 8, 9, 10, 11, 12][LIT % 8], 'abcdefghij'[LIT % 010]",
			"print LIT % 8, LIT % 3, 100 % (LIT + 1), LIT / 4, 4 / (LIT + 1)", "print LIT == LIT, LIT < LIT + 1, LIT - LIT, LIT * 1 == LIT, LIT + 0 == LIT",
			"print [3, 1, LIT, 2].sort(), [LIT].pop(), [1].push(LIT)", "print 'x' ~ LIT, '10' ~ LIT, LIT ~ '^1', LIT ~ /0$/, LIT !~ /^0/",
		} {
			if strings.Contains(t, "'LIT'") {
				// num('010'): the STRING keeps its spelling; only compare the literal positions
				t = strings.ReplaceAll(t, "'LIT'", "'"+lit+"'")
			}
			pair(t, lit, canon, "context "+strings.SplitN(t, "LIT", 2)[0])
		}
	}
}

// ---------------------------------------------------------------- match-bytes
//
// Right operands of ~ / !~ over raw bytes: patterns that are not valid UTF-8
// (rejected by regexp.Compile: a runtime error), valid multi-byte text, with and
// without metacharacters, as string literal, regex literal, variable, argument,
// array element, document field and in a rule pattern.  The model's regex port
// declines non-UTF-8 patterns (unmodelled); the implementation-only oracle is
// the property text itself: Go's regexp.Compile on the very pattern decides
// between a runtime error and the RE2 match result.

var c05BadUTF8 = []string{"\xff", "\xfe", "\xc3", "\xe2\x82", "\xf0\x9f\x99", "\x80", "\xbf", "\xc0\xaf", "\xed\xa0\x80", "\xf4\x90\x80\x80", "\xf8\x88\x80\x80\x80", "\xc3\xc3\xa9"}
var c05GoodUTF8 = []string{"é", "日本", "🙂", "ß", " ", "\xef\xbf\xbd", "ñ", "Ω"}
var c05PlainASCII = []string{"a", "b", "abc", "caf", "x", " ", "-", "_", "0", "10", "noir", "A"}
var c05MetaValid = []string{".", "a*", "[a-z]", "^", "$", "(b|c)", "x?", ".*", "[^a]", "é+", "[é]", "b+", "(a)", "a|b", "\\d", "\\w+"}
var c05MetaInvalid = []string{"(", "[a", "*", "+", ")", "a{2,1}", "?"}

type c05Pat struct {
	bytes string
	mix   string
}

func c05GenPat(r *rand.Rand) c05Pat {
	cat := func(parts ...[]string) string {
		var sb strings.Builder
		idx := r.Perm(len(parts))
		for _, i := range idx {
			sb.WriteString(pick(r, parts[i]))
		}
		return sb.String()
	}
	switch r.Intn(10) {
	case 0:
		return c05Pat{pick(r, c05BadUTF8), "invalid-utf8-only"}
	case 1, 2:
		return c05Pat{cat(c05BadUTF8, c05PlainASCII), "invalid-utf8+plain"}
	case 3:
		return c05Pat{cat(c05BadUTF8, c05PlainASCII, c05GoodUTF8), "invalid-utf8+plain"}
	case 4:
		return c05Pat{cat(c05BadUTF8, c05MetaValid, c05PlainASCII), "invalid-utf8+meta"}
	case 5:
		return c05Pat{cat(c05GoodUTF8, c05PlainASCII), "valid-multibyte"}
	case 6:
		return c05Pat{pick(r, c05PlainASCII) + pick(r, c05GoodUTF8) + pick(r, c05MetaValid), "valid-multibyte+meta"}
	case 7:
		return c05Pat{pick(r, c05PlainASCII) + pick(r, c05PlainASCII), "plain"}
	case 8:
		return c05Pat{pick(r, c05PlainASCII) + pick(r, c05MetaValid), "plain+meta"}
	default:
		return c05Pat{cat(c05MetaInvalid, c05PlainASCII), "invalid-syntax"}
	}
}

func c05GenSubject(r *rand.Rand, p c05Pat, raw bool) string {
	parts := [][]string{c05PlainASCII, c05GoodUTF8, c05PlainASCII}
	if raw {
		parts = append(parts, c05BadUTF8)
	}
	var sb strings.Builder
	for i, n := 0, 1+r.Intn(4); i < n; i++ {
		sb.WriteString(pick(r, pick(r, parts)))
		if chance(r, 0.3) && (raw || strings.ToValidUTF8(p.bytes, "") == p.bytes) {
			sb.WriteString(p.bytes) // the pattern's own bytes occur in the subject
		}
	}
	s := sb.String()
	if !raw {
		s = strings.ToValidUTF8(s, "")
	}
	return strings.NewReplacer("\\", "", "\"", "", "'", "", "\n", "").Replace(s)
}

func c05GenMatchBytes(r *rand.Rand, tier string, emit func(Case)) {
	nt := func(i Resp) bool { return i["class"] == "ok" || i["class"] == "runtime" }
	forms := []string{"str-lit", "regex-lit", "var-str", "var-regex", "arg", "array-loop", "doc-field", "doc-subject", "rule-pattern", "member", "concat"}
	n := tierN(tier, 6000, 90000)
	for i := 0; i < n; i++ {
		form := forms[i%len(forms)]
		op := pick(r, []string{"~", "!~"})
		p := c05GenPat(r)
		if form == "doc-field" {
			for !strings.HasPrefix(p.mix, "valid") && !strings.HasPrefix(p.mix, "plain") && p.mix != "invalid-syntax" {
				p = c05GenPat(r)
			}
		}
		isRegexLit := form == "regex-lit" || form == "var-regex" || form == "rule-pattern"
		if strings.ContainsAny(p.bytes, "\\") && !isRegexLit {
			p.bytes = strings.ReplaceAll(p.bytes, "\\", "") // string literals would need the escape doubled; keep the text simple
		}
		if isRegexLit && strings.Contains(p.bytes, "/") {
			continue
		}
		subj := c05GenSubject(r, p, form != "doc-subject" && form != "doc-field" && form != "rule-pattern")
		sl := "\"" + subj + "\""
		pl := "\"" + p.bytes + "\""
		if isRegexLit {
			pl = "/" + p.bytes + "/"
		}
		patBytes := p.bytes
		var prog string
		var files []File
		one := true // exactly one evaluation of the operator between "pre" and "post"
		switch form {
		case "str-lit", "regex-lit":
			prog = fmt.Sprintf("BEGIN { print \"pre\"; r = %s %s %s; print r, r is bool; print \"post\" }\n", sl, op, pl)
		case "var-str", "var-regex":
			prog = fmt.Sprintf("BEGIN { p = %s; q = p; s = %s; print \"pre\"; r = s %s q; print r, r is bool; print \"post\" }\n", pl, sl, op)
		case "arg":
			prog = fmt.Sprintf("function m(s, p) { return s %s p }\nBEGIN { print \"pre\"; r = m(%s, %s); print r, r is bool; print \"post\" }\n", op, sl, pl)
		case "member":
			prog = fmt.Sprintf("BEGIN { o = {p: [%s]}; print \"pre\"; r = %s %s o.p[0]; print r, r is bool; print \"post\" }\n", pl, sl, op)
		case "concat":
			// the pattern is assembled at run time from two halves
			h := r.Intn(len(p.bytes) + 1)
			prog = fmt.Sprintf("BEGIN { print \"pre\"; r = %s %s (\"%s\" + \"%s\"); print r, r is bool; print \"post\" }\n", sl, op, p.bytes[:h], p.bytes[h:])
		case "doc-field":
			prog = fmt.Sprintf("{ print \"pre\"; r = $.s %s $.p; print r, r is bool; print \"post\" }\n", op)
			files = []File{{Name: "in.json", Data: []byte(fmt.Sprintf(`{"s": %s, "p": %s}`, jsonString(subj), jsonString(p.bytes)))}}
		case "doc-subject":
			prog = fmt.Sprintf("{ print \"pre\"; r = $.s %s %s; print r, r is bool; print \"post\" }\n", op, pl)
			files = []File{{Name: "in.json", Data: []byte(fmt.Sprintf(`{"s": %s}`, jsonString(subj)))}}
		case "rule-pattern":
			prog = fmt.Sprintf("BEGIN { print \"pre\" }\n$.s %s %s { print \"true true\"; next }\n{ print \"false true\" }\nEND { print \"post\" }\n", op, pl)
			files = []File{{Name: "in.json", Data: []byte(fmt.Sprintf(`{"s": %s}`, jsonString(subj)))}}
		case "array-loop":
			one = false
		}
		var want string
		wantClass := "ok"
		if one {
			re, err := regexp.Compile(patBytes)
			if err != nil {
				want, wantClass = "pre\n", "runtime"
			} else {
				m := re.MatchString(subj)
				if op == "!~" {
					m = !m
				}
				want = fmt.Sprintf("pre\n%v true\npost\n", m)
			}
		} else {
			// several patterns in turn: the run stops at the first one that does not compile
			k := 2 + r.Intn(4)
			pats := []c05Pat{p}
			for len(pats) < k {
				q := c05GenPat(r)
				q.bytes = strings.ReplaceAll(q.bytes, "\\", "")
				pats = append(pats, q)
			}
			r.Shuffle(len(pats), func(a, b int) { pats[a], pats[b] = pats[b], pats[a] })
			var lits []string
			want = "pre\n"
			for _, q := range pats {
				lits = append(lits, "\""+q.bytes+"\"")
				if wantClass != "ok" {
					continue
				}
				re, err := regexp.Compile(q.bytes)
				if err != nil {
					wantClass = "runtime"
					continue
				}
				m := re.MatchString(subj)
				if op == "!~" {
					m = !m
				}
				want += fmt.Sprintf("%v\n", m)
			}
			if wantClass == "ok" {
				want += "post\n"
			}
			prog = fmt.Sprintf("BEGIN { ps = [%s]; print \"pre\"; for (p in ps) print %s %s p\n print \"post\" }\n", strings.Join(lits, ", "), sl, op)
		}
		meta := metaProg(prog, "form", form, "pattern-mix", p.mix, "pattern", fmt.Sprintf("%q", patBytes), "subject", fmt.Sprintf("%q", subj), "row", p.mix, "col", form)
		if files != nil {
			meta["input"] = string(files[0].Data)
		}
		wc, wo := wantClass, want
		emit(Case{Req: RunReq(prog, nil, files, false), Fields: []string{"class", "out"}, NonTrivial: nt, Meta: meta,
			Oracle: func(i Resp) string {
				if i["class"] != wc || string(i.Bytes("out")) != wo {
					return fmt.Sprintf("Go's regexp.Compile / MatchString on the same pattern and subject demand class %s out %q; got class %s out %q", wc, wo, i["class"], string(i.Bytes("out")))
				}
				return ""
			}})
	}
}

// ---------------------------------------------------------------- strnum-range
//
// String operands that LOOK like numerals around and beyond the limits of a
// double.  The coercion rule (value.go asFloat64): strconv.ParseFloat(s, 64)
// decides; on ANY error -- a syntax error, but also ErrRange, where ParseFloat
// hands back +/-Inf -- the string counts as 0 ("anything else 0").  Underflow is
// not an error (the value is +/-0), "Inf" / "NaN" spellings are accepted by
// ParseFloat and are the one way a string coerces to a non-finite number.

// c05Coerce is the property's coercion of a string to a number.
func c05Coerce(s string) float64 {
	v, err := strconv.ParseFloat(s, 64)
	if err != nil {
		return 0
	}
	return v
}

func c05Fmt(v float64) string { return strconv.FormatFloat(v, 'f', -1, 64) }

// c05Cmp: the three-way comparison of numeric coercions (value.go Compare)
func c05Cmp(a, b float64) int {
	if a > b {
		return 1
	} else if a < b {
		return -1
	}
	return 0
}

func c05RangeStrings(r *rand.Rand, tier string) []string {
	base := []string{
		// around the overflow limit (largest double 1.7976931348623157e308; halfway to 2^1024 is 1.797693134862315807937e308)
		"1e308", "1.7e308", "1.7976931348623157e308", "1.7976931348623158e308", "1.79769313486231580793e308", "1.797693134862315807937e308",
		"1.797693134862315808e308", "1.7976931348623159e308", "1.8e308", "2e308", "9e308", "1e309", "1e310", "1e400", "1e999", "1e9999", "1e99999999999999999999",
		"1E999", "1e+999", "1.e999", ".1e999", "0.1e310", "10e308", "179769313486231570e291", "17976931348623158e292", "0e999", "0.0e999", "00e9999",
		"123456789e300", "123456789e301", "4e307", "4e308",
		// around the underflow limit (smallest subnormal 5e-324, half of it 2.47e-324)
		"1e-307", "2.2250738585072014e-308", "2.2250738585072011e-308", "1e-323", "5e-324", "4.9e-324", "3e-324", "2.5e-324", "2.4703282292062328e-324", "2.4703282292062327e-324",
		"2e-324", "1e-324", "1e-325", "1e-400", "1e-999", "1e-99999999999999999999", "0.1e-323",
		// hex floats
		"0x1p0", "0x1p10", "0x1p1023", "0x1.fffffffffffffp1023", "0x1.fffffffffffff8p1023", "0x1.fffffffffffff7p1023", "0x1p1024", "0x2p1023", "0x1p1025", "0x1p99999", "0x1p9999999999999999999",
		"0X1P99999", "0x.1p1028", "0x1p-1022", "0x1p-1074", "0x1p-1075", "0x1.8p-1075", "0x1p-1076", "0x1p-99999", "0x10", "0x1p", "0x1.8", "0xp5", "0x1p+2000", "0x0p99999",
		// long digit runs
		"1" + strings.Repeat("0", 307), "1" + strings.Repeat("0", 308), "1" + strings.Repeat("0", 309), "1" + strings.Repeat("0", 399), strings.Repeat("9", 308), strings.Repeat("9", 309), strings.Repeat("9", 400),
		"17976931348623157" + strings.Repeat("0", 292), "17976931348623159" + strings.Repeat("0", 292), "1" + strings.Repeat("0", 399) + ".5", "1" + strings.Repeat("0", 400) + "e-100", "1" + strings.Repeat("0", 400) + "e-200",
		"0." + strings.Repeat("0", 323) + "5", "0." + strings.Repeat("0", 400) + "1", "0." + strings.Repeat("0", 400) + "1e200", strings.Repeat("0", 400) + "7", "0." + strings.Repeat("0", 306) + "1",
		// the spellings ParseFloat takes for non-finite values, and look-alikes it does not
		"Inf", "inf", "+Inf", "-Inf", "Infinity", "-infinity", "INF", "NaN", "nan", "-nan", "infin", "in", "1inf", "inf1", "1e", "e999", "1e99x", "1e9.9", "1_0e400", "1e4_00", "0x_1p99999",
		// ordinary strings for contrast
		"0", "-0", "7", "2.5", "1e3", "abc", "", "10",
	}
	var out []string
	seen := map[string]bool{}
	add := func(s string) {
		if !seen[s] && !strings.ContainsAny(s, "'\"\\\n") {
			seen[s] = true
			out = append(out, s)
		}
	}
	for _, s := range base {
		add(s)
	}
	// signs and blanks (a blank anywhere makes it a syntax error for ParseFloat: 0)
	for _, s := range base {
		if s == "" {
			continue
		}
		for _, v := range []string{"-" + s, "+" + s, " " + s, s + " ", "\t" + s, "- " + s, "--" + s} {
			if tier == "thorough" || chance(r, 0.3) || s == "1e999" || s == "0x1p99999" || s == "1e-400" {
				add(v)
			}
		}
	}
	// random numerals: mantissa digits and an exponent near the limits
	for i, n := 0, tierN(tier, 60, 1500); i < n; i++ {
		m := c05Digits(r, "123456789", 1)
		if chance(r, 0.6) {
			m += "." + c05Digits(r, "0123456789", 1+r.Intn(18))
		}
		e := pick(r, []int{307, 308, 308, 309, 310, 350, 999, -307, -308, -322, -323, -324, -325, -330, -999})
		s := pick(r, []string{"", "", "-", "+"}) + m + pick(r, []string{"e", "E"}) + strconv.Itoa(e)
		if chance(r, 0.2) {
			s = pick(r, []string{"", "-"}) + "0x1." + c05Digits(r, "0123456789abcdef", 1+r.Intn(13)) + "p" + strconv.Itoa(pick(r, []int{1022, 1023, 1024, 1025, 5000, -1022, -1074, -1075, -1080, -5000}))
		}
		add(s)
	}
	return out
}

func c05GenStrRange(r *rand.Rand, tier string, emit func(Case)) {
	nt := func(i Resp) bool { return i["class"] == "ok" || i["class"] == "runtime" }
	strs := c05RangeStrings(r, tier)
	b2s := func(b bool) string {
		if b {
			return "true"
		}
		return "false"
	}
	intOK := func(v float64) bool { return v == v && v > -4e18 && v < 4e18 }
	// the ways the string reaches the operator: X is the operand text
	type ctx struct{ name, head, pre, x string }
	contexts := func(s string) []ctx {
		lit := "'" + s + "'"
		cs := []ctx{
			{"literal", "", "", lit},
			{"variable", "", "v = " + lit + "; ", "v"},
			{"argument", "function id(a) { return a }\n", "", "id(" + lit + ")"},
			{"element", "", "arr = [1, " + lit + "]; ", "arr[1]"},
			{"doc-field", "", "", "$.s"},
		}
		if len(s) >= 2 {
			h := 1 + r.Intn(len(s)-1)
			cs = append(cs, ctx{"concat", "", "", "('" + s[:h] + "' + '" + s[h:] + "')"})
		}
		return cs
	}
	others := []string{"1e999", "-1e999", "0x1p99999", "1e308", "-1e308", "5e-324", "1e-400", "Inf", "-Inf", "NaN", "0", "7", "abc", "1" + strings.Repeat("0", 399)}
	for _, s := range strs {
		v := c05Coerce(s)
		_, perr := strconv.ParseFloat(s, 64)
		kind := "in-range"
		switch {
		case perr != nil && strings.Contains(perr.Error(), "out of range"):
			kind = "out-of-range"
		case perr != nil:
			kind = "not-a-numeral"
		case v != v || v > 1.7976931348623157e308 || v < -1.7976931348623157e308:
			kind = "non-finite-spelling"
		case v == 0 && strings.ContainsAny(s, "123456789"):
			kind = "underflow"
		}
		o := pick(r, others)
		w := c05Coerce(o)
		type tmpl struct {
			name, stmt string
			want       string // expected output after "pre\n"; "!" = runtime error right there; "?" = no oracle (model only)
		}
		var ts []tmpl
		T := func(name, stmt, want string) { ts = append(ts, tmpl{name, stmt, want}) }
		T("arith", "print X * 1, X - 0, 0 - X, 2 * X, X * X", strings.Join([]string{c05Fmt(v * 1), c05Fmt(v - 0), c05Fmt(0 - v), c05Fmt(2 * v), c05Fmt(v * v)}, " ")+"\n")
		T("arith-is-zero", "print X - 0 == 0, X * 1 is number, X * 1 < 1, X * 1 > -1", strings.Join([]string{b2s(c05Cmp(v, 0) == 0), "true", b2s(c05Cmp(v, 1) < 0), b2s(c05Cmp(v, -1) > 0)}, " ")+"\n")
		T("unary", "print -X, +X, - -X, +X is number", strings.Join([]string{c05Fmt(-v), c05Fmt(v), c05Fmt(v), "true"}, " ")+"\n")
		for _, c := range []struct {
			txt string
			val float64
		}{{"0", 0}, {"5", 5}, {"(-5)", -5}, {"num('1e308')", 1e308}, {"true", 1}, {"false", 0}, {"num('-1e308')", -1e308}} {
			k := c05Cmp(v, c.val)
			T("compare "+c.txt, fmt.Sprintf("print X > %s, X < %s, X == %s, X != %s, X <= %s, X >= %s, %s < X, %s == X", c.txt, c.txt, c.txt, c.txt, c.txt, c.txt, c.txt, c.txt),
				strings.Join([]string{b2s(k > 0), b2s(k < 0), b2s(k == 0), b2s(k != 0), b2s(k <= 0), b2s(k >= 0), b2s(c05Cmp(c.val, v) < 0), b2s(c05Cmp(c.val, v) == 0)}, " ")+"\n")
		}
		T("compare null", "print X > null, X == null, null < X", "true false true\n")
		T("contains", "print [0].contains(X), [5, true].contains(X), [null].contains(X)", strings.Join([]string{b2s(c05Cmp(v, 0) == 0), b2s(c05Cmp(v, 5) == 0 || c05Cmp(v, 1) == 0), "false"}, " ")+"\n")
		switch {
		case !intOK(v):
			T("percent", "print X % 7", "?")
			T("percent-divisor", "print 7 % X", "?")
		default:
			T("percent", "print X % 7, X % -3", fmt.Sprintf("%d %d\n", int(v)%7, int(v)%-3))
			if int(v) == 0 {
				T("percent-divisor", "print 7 % X", "!")
			} else {
				T("percent-divisor", "print 7 % X, -7 % X", fmt.Sprintf("%d %d\n", 7%int(v), -7%int(v)))
			}
		}
		// 7 % true is 0; 7 % false is a runtime error: the comparison result used as a divisor (the seeded witness)
		if c05Cmp(v, 0) == 0 {
			T("percent-of-compare", "print 7 % (X * 1 == 0)", "0\n")
		} else {
			T("percent-of-compare", "print 7 % (X * 1 == 0)", "!")
		}
		if v == 0 { // the divisor test is `== 0` on the double: NaN passes it
			T("divide", "print 1 / X", "!")
			T("divide-assign", "x = 10; x /= X; print x", "!")
		} else {
			T("divide", "print 1 / X, X / 2", c05Fmt(1/v)+" "+c05Fmt(v/2)+"\n")
			T("divide-assign", "x = 10; x /= X; print x", c05Fmt(10/v)+"\n")
		}
		truthy := len(s) > 0
		T("truth", "if (X) print 'T'; else print 'E'\n print !X, !!X, X && true, X || false", map[bool]string{true: "T\nfalse true true true\n", false: "E\ntrue false false false\n"}[truthy])
		T("truth-while", "n = 0; while (X && n < 2) n++\n print n", map[bool]string{true: "2\n", false: "0\n"}[truthy])
		T("incdec", "x = X; r = x++; print r, x, x is number; x = X; r = --x; print r, x; x = X; x--; ++x; print x", fmt.Sprintf("%s %s true\n%s %s\n%s\n", c05Fmt(v), c05Fmt(v+1), c05Fmt(v-1), c05Fmt(v-1), c05Fmt(v-1+1)))
		T("op-assign", "x = 10; x -= X; print x; x = 10; x *= X; print x; x = 10; x += X; print x", fmt.Sprintf("%s\n%s\n10%s\n", c05Fmt(10-v), c05Fmt(10*v), s))
		T("concat", "print X + 1, 1 + X, X + X == X * 2", fmt.Sprintf("%s1 1%s %s\n", s, s, b2s(c05Cmp(c05Coerce(s+s), v*2) == 0)))
		if _, err := strconv.ParseFloat(s, 64); err != nil {
			T("num", "print num(X), num(X) is null, num(X) + 1", "null true 1\n")
		} else {
			T("num", "print num(X), num(X) is number, num(X) + 1", fmt.Sprintf("%s true %s\n", c05Fmt(v), c05Fmt(v+1)))
		}
		T("is", "print X is string, X is number", "true false\n")
		// a second string operand: arithmetic coerces both, comparison is bytewise
		T("two-strings", fmt.Sprintf("y = '%s'; print X - y, X * y, y - X, X < y, X == y, X > y", o),
			fmt.Sprintf("%s %s %s %s %s %s\n", c05Fmt(v-w), c05Fmt(v*w), c05Fmt(w-v), b2s(strings.Compare(s, o) < 0), b2s(s == o), b2s(strings.Compare(s, o) > 0)))
		T("index", "print [10, 11, 12][X * 1 == 0], 'ab'[X - 0 != 0]", "?")
		T("sort", "print [3, X, -1].sort(), [X, '5'].sort()", "?")
		T("pattern-subject", "print X ~ /9/, X ~ '^-', (X * 1) ~ /^0$/", "?")
		for _, c := range contexts(s) {
			var files []File
			if c.name == "doc-field" {
				files = []File{{Name: "in.json", Data: []byte(`{"s": ` + jsonString(s) + `}`)}}
			}
			for _, t := range ts {
				if tier != "thorough" && c.name != "literal" && c.name != "doc-field" && !chance(r, 0.4) {
					continue
				}
				body := "print \"pre\"; " + c.pre + strings.ReplaceAll(t.stmt, "X", c.x) + "\n print \"post\""
				prog := c.head + "BEGIN { " + body + " }\n"
				if files != nil {
					prog = c.head + "{ " + body + " }\n"
				}
				meta := metaProg(prog, "string", fmt.Sprintf("%q", short(s)), "coerces-to", c05Fmt(v), "numeral-kind", kind, "context", c.name, "template", t.name, "row", kind, "col", strings.SplitN(t.name, " ", 2)[0])
				if files != nil {
					meta["input"] = short(string(files[0].Data))
				}
				cs := Case{Req: RunReq(prog, nil, files, false), Fields: []string{"class", "out"}, NonTrivial: nt, Meta: meta}
				if t.want != "?" {
					wantClass, wantOut := "ok", "pre\n"+t.want+"post\n"
					if t.want == "!" {
						wantClass, wantOut = "runtime", "pre\n"
					}
					cs.Oracle = func(i Resp) string {
						if i["class"] != wantClass || string(i.Bytes("out")) != wantOut {
							return fmt.Sprintf("a string coerces to strconv.ParseFloat's value, and to 0 on ANY error (also out of range): expected class %s out %q, got class %s out %q", wantClass, short(wantOut), i["class"], short(string(i.Bytes("out"))))
						}
						return ""
					}
				}
				emit(cs)
			}
		}
	}
}

func init() {
	register(Family{
		Name: "strnum-range", Prop: "C05",
		Rule: "string operands that look like numerals around and beyond the limits of a double: decimal numerals next to the overflow limit (1e308, the largest double, the halfway point to 2^1024 on either side, 1.8e308, 1e309 ... 1e999, huge exponents), next to the underflow limit (5e-324, half of it on either side, 1e-400), hex floats (0x1p1023, 0x1p1024, 0x1p99999, subnormal and below), 308- to 400-digit integers and long fractions, the Inf / NaN spellings and look-alikes, each also with signs and leading / trailing blanks, plus random mantissa x limit exponents; as literal, variable, function argument, array element, run-time concatenation and document field; in - * / and unary + -, comparisons with numbers / booleans / null, contains, % on either side, / and /= (divide by zero exactly when the coercion is 0), a comparison result used as divisor, truthiness (if, while, ! && ||), ++ --, -= *= +=, string concatenation, num(), is, with a second such string (arithmetic coerces, comparison is bytewise), and model-only: index, sort, ~; oracle (implementation only): the expected output computed from the property's rule -- strconv.ParseFloat decides, ANY error (syntax or range, where ParseFloat hands back +/-Inf) means 0; every program is also compared with the model",
		Gen:  c05GenStrRange,
	})
	register(Family{
		Name: "literal-spellings", Prop: "C05",
		Rule: "numeric literals in unusual spellings (leading zeros over octal-looking and non-octal digits: 010 0017 0755 007 08 019; 0 00 000; fractions with leading / trailing zeros: 00.5 010.0 1.500; digit runs of 15-400 digits incl. 2^53+1, 2^63, 2^64, the float64 maximum and just beyond (out of range: runtime error), fractions that underflow) as left and right operand of all 15 binary operators against pool operands and against other spelled literals, under unary - + !, `is`, as array / string index, in %, in array / object literals, arguments, match patterns, ++ -- op=, number methods, printf / json / num, loop bounds, conditions and regex operands; oracles (implementation only): `print LIT` shows strconv.FormatFloat(strconv.ParseFloat(LIT)), the six comparisons with the decimal spelling give true false false true false true, `%` and index results computed from the decimal value, and every program with the literal as spelled agrees with the same program using the canonical decimal spelling; every program is also compared with the model",
		Gen:  c05GenSpellings,
	})
	register(Family{
		Name: "match-bytes", Prop: "C05",
		Rule: "right operands of ~ / !~ over raw bytes (program texts carry any byte): patterns that are not valid UTF-8 (0xff, 0xfe, truncated 2/3/4-byte sequences, lone continuation bytes, overlong, surrogate, > U+10FFFF) alone, mixed with plain ASCII / valid multi-byte text (no metacharacter) and mixed with metacharacters; valid multi-byte patterns with and without metacharacters; plain text; syntactically invalid patterns; subjects with raw invalid bytes, multi-byte text and the pattern's own bytes; the pattern as string literal, regex literal, variable holding either, function argument, object/array member, run-time concatenation, element of an array looped over (run stops at the first invalid one), document field, and regex literal in a rule pattern; oracle (implementation only): Go's regexp.Compile on the very pattern decides runtime error (output so far kept, nothing after) vs the result regexp.MatchString gives; compared with the model where its regex port answers (non-UTF-8 patterns: unmodelled)",
		Gen:  c05GenMatchBytes,
	})
	register(Family{
		Name: "operand-expressions", Prop: "C05",
		Rule: "operands that are the RESULT of a value-producing expression (about 150 forms: characters of strings by index incl. digits whose value differs from their position, out-of-range and computed indices, characters of document fields; present and missing members of arrays, objects and the document; results of every method; function results incl. none; match expressions; assignment, chained and compound assignment, prefix / postfix ++ --; regex matches; num / json; nested unary and binary operators) as left and as right operand of all 15 binary operators against random pool operands and small numbers, under unary - + ! and `is` with every type name, as a condition, under ++ -- op= where assignable, and pairs of two such expressions; oracle (implementation only, group relation): the program with the expression and the program with the literal of the same value give the same class and output; every program is also compared with the model",
		Gen:  c05GenForms,
	})
	register(Family{
		Name: "operator-history", Prop: "C05",
		Rule: "the SAME operator node evaluated 2-6 times in one run on operands whose kind and value change between the evaluations (all 15 binary operators, unary - + !, prefix/postfix ++ --, `is` with every type name, && / || with a counting right operand; for ~ and !~ the right operands alternate between regex values, pattern strings, invalid patterns and other kinds; earlier operands recur): in a for-in loop over an array of operand pairs, an indexed for loop over two arrays, a while loop popping pairs, a function called with different arguments, a rule body over the records of an array root and of a JSONL stream, a rule body whose right operand comes from a table indexed by $index, and a rule PATTERN; oracle (implementation only, group relation): line k of the history equals the output of a fresh program that evaluates the operator once on the k-th operands written as literals, and the history stops with a runtime error exactly at the first evaluation whose single program fails; every program is also compared with the model",
		Gen:  c05GenHistory,
	})
	register(Family{
		Name: "binop-literals", Prop: "C05",
		Rule: "every binary operator x every ordered pair of pool operands (all 9 kinds, several values each) written as literals; non-trivial = distinct program whose outcome is a value or a runtime error",
		Gen: func(r *rand.Rand, tier string, emit func(Case)) {
			pool := c05Pool()
			for _, op := range c05BinOps {
				for _, a := range pool {
					for _, b := range pool {
						prog := fmt.Sprintf("function f() { return 1 }\nBEGIN { r = %s %s %s; %s }", a.expr, op, b.expr, c05Show)
						emit(Case{Req: RunReq(prog, nil, nil, false), Fields: []string{"class", "out"},
							Meta:       metaProg(prog, "kinds", a.kind+op+b.kind),
							NonTrivial: func(i Resp) bool { return i["class"] == "ok" || i["class"] == "runtime" }})
					}
				}
			}
		},
	})
	register(Family{
		Name: "binop-vars-fields", Prop: "C05",
		Rule: "binary operators on operands held in variables and in document fields ($.a, $.b), random pairs from the pool",
		Gen: func(r *rand.Rand, tier string, emit func(Case)) {
			pool := c05Pool()
			n := tierN(tier, 3000, 60000)
			for i := 0; i < n; i++ {
				a, b, op := pick(r, pool), pick(r, pool), pick(r, c05BinOps)
				var prog string
				var files []File
				if a.json != "" && b.json != "" && chance(r, 0.5) {
					prog = fmt.Sprintf("{ r = $.a %s $.b; %s }", op, c05Show)
					files = []File{{Name: "in.json", Data: []byte(fmt.Sprintf(`{"a": %s, "b": %s}`, a.json, b.json))}}
				} else {
					setA, setB := "x = "+a.expr+"; ", "y = "+b.expr+"; "
					xa, xb := "x", "y"
					if a.kind == "F" || a.kind == "U" {
						setA, xa = "", a.expr
					}
					if b.kind == "F" || b.kind == "U" {
						setB, xb = "", b.expr
					}
					same := ""
					if chance(r, 0.1) && a.kind != "F" && a.kind != "U" {
						// the same variable on both sides
						setB, xb = "", "x"
						same = " (same variable)"
					}
					prog = fmt.Sprintf("function f() { return 1 }\nBEGIN { %s%sr = %s %s %s; %s }", setA, setB, xa, op, xb, c05Show)
					_ = same
				}
				emit(Case{Req: RunReq(prog, nil, files, false), Fields: []string{"class", "out"},
					Meta:       metaProg(prog, "kinds", a.kind+op+b.kind),
					NonTrivial: func(i Resp) bool { return i["class"] == "ok" || i["class"] == "runtime" }})
			}
		},
	})
	register(Family{
		Name: "unary-is-shortcircuit", Prop: "C05",
		Rule: "unary ! + - on every pool operand, ++/-- (prefix and postfix) on variables of every kind, `is` with every type name, and &&/|| with a right operand that prints or fails (short-circuit observable)",
		Gen: func(r *rand.Rand, tier string, emit func(Case)) {
			pool := c05Pool()
			nt := func(i Resp) bool { return i["class"] == "ok" || i["class"] == "runtime" }
			for _, a := range pool {
				for _, op := range []string{"!", "+", "-", "!!", "- -"} {
					prog := fmt.Sprintf("function f() { return 1 }\nBEGIN { r = %s%s; %s }", op, a.expr, c05Show)
					emit(Case{Req: RunReq(prog, nil, nil, false), Fields: []string{"class", "out"}, Meta: metaProg(prog), NonTrivial: nt})
				}
				for _, t := range c05Types {
					prog := fmt.Sprintf("function f() { return 1 }\nBEGIN { print %s is %s }", a.expr, t)
					emit(Case{Req: RunReq(prog, nil, nil, false), Fields: []string{"class", "out"}, Meta: metaProg(prog), NonTrivial: nt})
				}
				if a.kind != "F" {
					set := "x = " + a.expr + "; "
					if a.kind == "U" {
						set = ""
					}
					for _, form := range []string{"x++", "x--", "++x", "--x"} {
						prog := fmt.Sprintf("BEGIN { %sr = %s; print r, x, r is number, x is number }", set, form)
						emit(Case{Req: RunReq(prog, nil, nil, false), Fields: []string{"class", "out"}, Meta: metaProg(prog), NonTrivial: nt})
					}
				}
				for _, rhs := range []string{"side()", "1/0", "true", "'s'", "u2"} {
					for _, op := range []string{"&&", "||"} {
						prog := fmt.Sprintf("function f() { return 1 }\nfunction side() { print 'side'; return 1 }\nBEGIN { r = %s %s %s; print r, r is bool }", a.expr, op, rhs)
						emit(Case{Req: RunReq(prog, nil, nil, false), Fields: []string{"class", "out"}, Meta: metaProg(prog), NonTrivial: nt})
					}
				}
			}
		},
	})
}

// ---------------------------------------------------------------- self-modifying operands (c05rl*)
//
// Operators whose RIGHT operand has a side effect on the very variable / member /
// element that IS the left operand.  The evaluator hands operands around as
// cells: a plain variable, an existing member, a parenthesised one, the result of
// an assignment and of a match arm ARE the variable's cell (aliases); everything
// else is a temporary.  && and || decide on the truthiness the left operand has
// when it is evaluated (before the right operand runs); comparison and arithmetic
// operators read both cells after both operands have been evaluated (so
// `x + (x = 5)` is 10).  The generator carries its own interpreter of that cell
// semantics for a small expression language and computes the expected output of
// every program; the same interpreter runs two deviant semantics (logic operators
// reading the left cell again after the right operand ran; binary operators
// capturing the left value before the right operand runs) and the generator
// prefers programs on which a deviant semantics would print something else.

type c05rlCont struct {
	arr   bool
	elems []*c05rlCell
	obj   map[string]*c05rlCell
}

type c05rlVal struct {
	k byte // N S B Z U A O
	n float64
	s string
	b bool
	c *c05rlCont
}

type c05rlCell struct {
	v   c05rlVal
	par *c05rlCont // missing member read: where an assignment creates it
	key string
	idx int
}

type c05rlExpr struct {
	op   string
	txt  string
	lit  c05rlVal
	kids []*c05rlExpr
	keys []string
	idx  int
}

type c05rlFn struct {
	name      string
	body, ret *c05rlExpr
}

type c05rlStmt struct {
	kind string // show if while print
	e    *c05rlExpr
}

type c05rlProg struct {
	doc   string // when set: the statements run in a rule over this one-record document and o is the record ($)
	fns   []*c05rlFn
	init  []*c05rlExpr
	stmts []c05rlStmt
}

var c05rlErrRT = fmt.Errorf("runtime error")
var c05rlErrGiveUp = fmt.Errorf("outside the generator's interpreter")

func c05rlN(n float64) c05rlVal { return c05rlVal{k: 'N', n: n} }
func c05rlB(b bool) c05rlVal    { return c05rlVal{k: 'B', b: b} }

func (v c05rlVal) truthy() bool {
	switch v.k {
	case 'B':
		return v.b
	case 'N':
		return v.n != 0
	case 'S':
		return len(v.s) > 0
	case 'A', 'O':
		return true
	}
	return false
}

func (v c05rlVal) num() float64 {
	switch v.k {
	case 'N':
		return v.n
	case 'B':
		if v.b {
			return 1
		}
	case 'S':
		return c05Coerce(v.s)
	}
	return 0
}

func (v c05rlVal) str() string {
	switch v.k {
	case 'S':
		return v.s
	case 'N':
		return c05Fmt(v.n)
	}
	return ""
}

// pretty: what print shows for the value (value.go prettyStringInteral; no cycles here)
func (v c05rlVal) pretty(quote bool) string {
	switch v.k {
	case 'S':
		if quote {
			return "\"" + v.s + "\""
		}
		return v.s
	case 'N':
		return c05Fmt(v.n)
	case 'B':
		return strconv.FormatBool(v.b)
	case 'Z':
		return "null"
	case 'A':
		var ps []string
		for _, c := range v.c.elems {
			ps = append(ps, c.v.pretty(true))
		}
		return "[" + strings.Join(ps, ", ") + "]"
	case 'O':
		var ks []string
		for k := range v.c.obj {
			ks = append(ks, k)
		}
		sort.Strings(ks)
		var ps []string
		for _, k := range ks {
			ps = append(ps, "\""+k+"\": "+v.c.obj[k].v.pretty(true))
		}
		return "{" + strings.Join(ps, ", ") + "}"
	}
	return "<unknown>"
}

const c05rlState = "print x, y, u, a, o"

func c05rlCompare(a, b c05rlVal) (int, error) {
	switch {
	case a.k == 'Z' && b.k == 'Z':
		return 0, nil
	case a.k == 'Z':
		return -1, nil
	case b.k == 'Z':
		return 1, nil
	}
	if a.k == 'A' || a.k == 'O' || b.k == 'A' || b.k == 'O' {
		return 0, c05rlErrRT
	}
	if a.k == 'S' && b.k == 'S' {
		return strings.Compare(a.s, b.s), nil
	}
	return c05Cmp(a.num(), b.num()), nil
}

func c05rlCompute(op string, a, b c05rlVal) (c05rlVal, error) {
	switch op {
	case "==", "!=", "<", "<=", ">", ">=":
		if a.k == 'U' || b.k == 'U' {
			return c05rlB(op == "<" || op == ">"), nil
		}
		c, err := c05rlCompare(a, b)
		if err != nil {
			return c05rlVal{}, err
		}
		switch op {
		case "==":
			return c05rlB(c == 0), nil
		case "!=":
			return c05rlB(c != 0), nil
		case "<":
			return c05rlB(c < 0), nil
		case "<=":
			return c05rlB(c <= 0), nil
		case ">":
			return c05rlB(c > 0), nil
		default:
			return c05rlB(c >= 0), nil
		}
	case "+":
		if a.k == 'S' || b.k == 'S' {
			return c05rlVal{k: 'S', s: a.str() + b.str()}, nil
		}
		return c05rlN(a.num() + b.num()), nil
	case "-":
		return c05rlN(a.num() - b.num()), nil
	case "*":
		return c05rlN(a.num() * b.num()), nil
	case "/":
		if b.num() == 0 {
			return c05rlVal{}, c05rlErrRT
		}
		return c05rlN(a.num() / b.num()), nil
	case "~", "!~":
		if b.k != 'S' {
			return c05rlVal{}, c05rlErrRT
		}
		re, err := regexp.Compile(b.s)
		if err != nil {
			return c05rlVal{}, c05rlErrRT
		}
		return c05rlB(re.MatchString(a.str()) == (op == "~")), nil
	case "%":
		l, r := a.num(), b.num()
		if l != l || r != r || l > 1e15 || l < -1e15 || r > 1e15 || r < -1e15 {
			return c05rlVal{}, c05rlErrGiveUp
		}
		if int(r) == 0 {
			return c05rlVal{}, c05rlErrRT
		}
		return c05rlN(float64(int(l) % int(r))), nil
	}
	return c05rlVal{}, c05rlErrGiveUp
}

type c05rlSim struct {
	vars  map[string]*c05rlCell
	bind  []string
	bindC []*c05rlCell
	fns   map[string]*c05rlFn
	mode  int // 0 reference; 1 logic operators read the left cell again; 2 binary operators capture the left value early
	steps int
}

func (s *c05rlSim) assign(l *c05rlCell, v c05rlVal) *c05rlCell {
	t := l
	if l.par != nil && l.v.k == 'Z' {
		p := l.par
		if p.arr {
			for len(p.elems) <= l.idx {
				p.elems = append(p.elems, &c05rlCell{v: c05rlVal{k: 'Z'}})
			}
			t = p.elems[l.idx]
		} else if c, ok := p.obj[l.key]; ok {
			t = c
		} else {
			t = &c05rlCell{}
			p.obj[l.key] = t
		}
	}
	t.v = v
	return t
}

func (s *c05rlSim) eval(e *c05rlExpr) (*c05rlCell, error) {
	s.steps++
	if s.steps > 5000 {
		return nil, c05rlErrGiveUp
	}
	switch e.op {
	case "lit":
		return &c05rlCell{v: e.lit}, nil
	case "arr", "obj":
		c := &c05rlCont{arr: e.op == "arr", obj: map[string]*c05rlCell{}}
		for i, k := range e.kids {
			kc, err := s.eval(k)
			if err != nil {
				return nil, err
			}
			if c.arr {
				c.elems = append(c.elems, &c05rlCell{v: kc.v})
			} else {
				c.obj[e.keys[i]] = &c05rlCell{v: kc.v}
			}
		}
		if c.arr {
			return &c05rlCell{v: c05rlVal{k: 'A', c: c}}, nil
		}
		return &c05rlCell{v: c05rlVal{k: 'O', c: c}}, nil
	case "var":
		for i := len(s.bind) - 1; i >= 0; i-- {
			if s.bind[i] == e.txt {
				return s.bindC[i], nil
			}
		}
		c, ok := s.vars[e.txt]
		if !ok {
			if len(s.bind) > 0 {
				return nil, c05rlErrGiveUp // would be created in the match frame
			}
			c = &c05rlCell{v: c05rlVal{k: 'U'}}
			s.vars[e.txt] = c
		}
		return c, nil
	case "idx":
		c, err := s.eval(e.kids[0])
		if err != nil {
			return nil, err
		}
		if c.v.k != 'A' {
			return nil, c05rlErrGiveUp
		}
		if e.idx < len(c.v.c.elems) {
			return c.v.c.elems[e.idx], nil
		}
		return &c05rlCell{v: c05rlVal{k: 'Z'}, par: c.v.c, idx: e.idx}, nil
	case "idxdyn": // the index operator is a binary operator too: the container is read once the index has been evaluated
		l, err := s.eval(e.kids[0])
		if err != nil {
			return nil, err
		}
		early := l.v
		r, err := s.eval(e.kids[1])
		if err != nil {
			return nil, err
		}
		lv := l.v
		if s.mode == 2 {
			lv = early
		}
		if lv.k != 'A' || r.v.k != 'N' || r.v.n != float64(int(r.v.n)) {
			return nil, c05rlErrGiveUp
		}
		i := int(r.v.n)
		if i < 0 {
			i += len(lv.c.elems)
			if i < 0 {
				return nil, c05rlErrRT
			}
		}
		if i < len(lv.c.elems) {
			return lv.c.elems[i], nil
		}
		return &c05rlCell{v: c05rlVal{k: 'Z'}, par: lv.c, idx: i}, nil
	case "mem":
		c, err := s.eval(e.kids[0])
		if err != nil {
			return nil, err
		}
		if c.v.k != 'O' {
			return nil, c05rlErrGiveUp
		}
		if m, ok := c.v.c.obj[e.txt]; ok {
			return m, nil
		}
		return &c05rlCell{v: c05rlVal{k: 'Z'}, par: c.v.c, key: e.txt}, nil
	case "asg":
		l, err := s.eval(e.kids[0])
		if err != nil {
			return nil, err
		}
		r, err := s.eval(e.kids[1])
		if err != nil {
			return nil, err
		}
		return s.assign(l, r.v), nil
	case "opasg": // a += b is a = a + b
		l, err := s.eval(e.kids[0])
		if err != nil {
			return nil, err
		}
		r, err := s.binary(e.txt, e.kids[0], e.kids[1])
		if err != nil {
			return nil, err
		}
		return s.assign(l, r.v), nil
	case "pre", "post":
		c, err := s.eval(e.kids[0])
		if err != nil {
			return nil, err
		}
		v := c.v.num()
		nv := v + 1
		if e.txt == "--" {
			nv = v - 1
		}
		t := s.assign(c, c05rlN(nv))
		if e.op == "post" {
			return &c05rlCell{v: c05rlN(v)}, nil
		}
		return &c05rlCell{v: t.v}, nil
	case "not":
		c, err := s.eval(e.kids[0])
		if err != nil {
			return nil, err
		}
		return &c05rlCell{v: c05rlB(!c.v.truthy())}, nil
	case "neg":
		c, err := s.eval(e.kids[0])
		if err != nil {
			return nil, err
		}
		return &c05rlCell{v: c05rlN(-c.v.num())}, nil
	case "bin":
		return s.binary(e.txt, e.kids[0], e.kids[1])
	case "call":
		f := s.fns[e.txt]
		// match bindings live in the caller's frames: still visible (dynamic scoping)
		if _, err := s.eval(f.body); err != nil {
			return nil, err
		}
		r, err := s.eval(f.ret)
		if err != nil {
			return nil, err
		}
		return &c05rlCell{v: r.v}, nil
	case "meth":
		c, err := s.eval(e.kids[0])
		if err != nil {
			return nil, err
		}
		if c.v.k != 'A' && !(c.v.k == 'O' && e.txt == "length") {
			return nil, c05rlErrGiveUp
		}
		ct := c.v.c
		switch e.txt {
		case "length":
			if c.v.k == 'O' {
				return &c05rlCell{v: c05rlN(float64(len(ct.obj)))}, nil
			}
			return &c05rlCell{v: c05rlN(float64(len(ct.elems)))}, nil
		case "pop":
			if len(ct.elems) == 0 {
				return &c05rlCell{v: c05rlVal{k: 'Z'}}, nil
			}
			x := ct.elems[len(ct.elems)-1]
			ct.elems = ct.elems[:len(ct.elems)-1]
			return x, nil
		case "popfirst":
			if len(ct.elems) == 0 {
				return &c05rlCell{v: c05rlVal{k: 'Z'}}, nil
			}
			x := ct.elems[0]
			ct.elems = append([]*c05rlCell{}, ct.elems[1:]...)
			return x, nil
		case "push":
			a, err := s.eval(e.kids[1])
			if err != nil {
				return nil, err
			}
			ct.elems = append(ct.elems, &c05rlCell{v: a.v})
			return &c05rlCell{v: c.v}, nil
		}
		return nil, c05rlErrGiveUp
	case "par", "matchw":
		return s.eval(e.kids[0])
	case "matchlit":
		c, err := s.eval(e.kids[0])
		if err != nil {
			return nil, err
		}
		arm := e.kids[2]
		if c.v.k != 'U' {
			k, err := c05rlCompare(c.v, e.lit)
			if err != nil {
				return nil, err
			}
			if k == 0 {
				arm = e.kids[1]
			}
		}
		s.bind, s.bindC = append(s.bind, "_"), append(s.bindC, c)
		r, err := s.eval(arm)
		s.bind, s.bindC = s.bind[:len(s.bind)-1], s.bindC[:len(s.bindC)-1]
		return r, err
	case "matchbind":
		c, err := s.eval(e.kids[0])
		if err != nil {
			return nil, err
		}
		s.bind, s.bindC = append(s.bind, e.txt), append(s.bindC, c)
		r, err := s.eval(e.kids[1])
		s.bind, s.bindC = s.bind[:len(s.bind)-1], s.bindC[:len(s.bindC)-1]
		return r, err
	}
	return nil, c05rlErrGiveUp
}

func (s *c05rlSim) binary(op string, le, re *c05rlExpr) (*c05rlCell, error) {
	l, err := s.eval(le)
	if err != nil {
		return nil, err
	}
	switch op {
	case "&&", "||":
		lt := l.v.truthy()
		if lt != (op == "&&") {
			return &c05rlCell{v: c05rlB(lt)}, nil
		}
		r, err := s.eval(re)
		if err != nil {
			return nil, err
		}
		if s.mode == 1 {
			lt = l.v.truthy()
			if op == "&&" {
				return &c05rlCell{v: c05rlB(lt && r.v.truthy())}, nil
			}
			return &c05rlCell{v: c05rlB(lt || r.v.truthy())}, nil
		}
		return &c05rlCell{v: c05rlB(r.v.truthy())}, nil
	}
	early := l.v
	r, err := s.eval(re)
	if err != nil {
		return nil, err
	}
	lv := l.v
	if s.mode == 2 {
		lv = early
	}
	v, err := c05rlCompute(op, lv, r.v)
	if err != nil {
		return nil, err
	}
	return &c05rlCell{v: v}, nil
}

// run interprets the program: the output, "ok" / "runtime", and whether the interpreter gave up
func (p *c05rlProg) run(mode int) (string, string, bool) {
	s := &c05rlSim{vars: map[string]*c05rlCell{}, fns: map[string]*c05rlFn{}, mode: mode}
	for _, f := range p.fns {
		s.fns[f.name] = f
	}
	var out strings.Builder
	fail := func(err error) (string, string, bool) {
		if err == c05rlErrRT {
			return out.String(), "runtime", false
		}
		return out.String(), "", true
	}
	for _, e := range p.init {
		if _, err := s.eval(e); err != nil {
			return fail(err)
		}
	}
	for _, st := range p.stmts {
		switch st.kind {
		case "show", "print":
			c, err := s.eval(st.e)
			if err != nil {
				return fail(err)
			}
			if st.kind == "show" {
				out.WriteString(fmt.Sprintf("%s %v %v %v %v\n", c.v.pretty(false), c.v.k == 'S', c.v.k == 'N', c.v.k == 'B', c.v.k == 'Z'))
			} else {
				switch c.v.k {
				case 'B':
					out.WriteString(strconv.FormatBool(c.v.b) + "\n")
				case 'N', 'S':
					out.WriteString(c.v.str() + "\n")
				default:
					return out.String(), "", true
				}
			}
		case "if":
			c, err := s.eval(st.e)
			if err != nil {
				return fail(err)
			}
			if c.v.truthy() {
				out.WriteString("T\n")
			} else {
				out.WriteString("F\n")
			}
		case "while":
			n := 0
			for {
				c, err := s.eval(st.e)
				if err != nil {
					return fail(err)
				}
				if !c.v.truthy() {
					break
				}
				n++
				if n >= 3 {
					break
				}
			}
			out.WriteString(strconv.Itoa(n) + "\n")
		}
		var parts []string
		for _, n := range []string{"x", "y", "u", "a", "o"} {
			c, ok := s.vars[n]
			if !ok {
				return out.String(), "", true
			}
			parts = append(parts, c.v.pretty(false))
		}
		out.WriteString(strings.Join(parts, " ") + "\n")
	}
	return out.String(), "ok", false
}

func (e *c05rlExpr) operand() string {
	switch e.op {
	case "bin", "asg", "opasg", "matchw", "matchlit", "matchbind", "neg":
		return "(" + e.text() + ")"
	}
	return e.text()
}

func (e *c05rlExpr) text() string {
	switch e.op {
	case "lit", "var":
		return e.txt
	case "arr":
		var ps []string
		for _, k := range e.kids {
			ps = append(ps, k.text())
		}
		return "[" + strings.Join(ps, ", ") + "]"
	case "obj":
		var ps []string
		for i, k := range e.kids {
			ps = append(ps, e.keys[i]+": "+k.text())
		}
		return "{" + strings.Join(ps, ", ") + "}"
	case "idx":
		return e.kids[0].text() + "[" + strconv.Itoa(e.idx) + "]"
	case "idxdyn":
		return e.kids[0].text() + "[" + e.kids[1].text() + "]"
	case "mem":
		if e.idx == 1 {
			return e.kids[0].text() + "['" + e.txt + "']"
		}
		return e.kids[0].text() + "." + e.txt
	case "asg":
		return e.kids[0].text() + " = " + e.kids[1].operand()
	case "opasg":
		return e.kids[0].text() + " " + e.txt + "= " + e.kids[1].operand()
	case "pre":
		return e.txt + e.kids[0].text()
	case "post":
		return e.kids[0].text() + e.txt
	case "not":
		return "!(" + e.kids[0].text() + ")"
	case "neg":
		return "-(" + e.kids[0].text() + ")"
	case "bin":
		l := e.kids[0].operand()
		if e.idx == 1 { // a left operand on the same precedence level written without parentheses (left-associative)
			l = e.kids[0].text()
		}
		return l + " " + e.txt + " " + e.kids[1].operand()
	case "call":
		return e.txt + "()"
	case "meth":
		if len(e.kids) > 1 {
			return e.kids[0].text() + "." + e.txt + "(" + e.kids[1].text() + ")"
		}
		return e.kids[0].text() + "." + e.txt + "()"
	case "par":
		return "(" + e.kids[0].text() + ")"
	case "matchw":
		return "match (1) { _ => " + e.kids[0].text() + " }"
	case "matchlit":
		return "match (" + e.kids[0].text() + ") { " + e.txt + " => " + e.kids[1].text() + ", _ => " + e.kids[2].text() + " }"
	case "matchbind":
		return "match (" + e.kids[0].text() + ") { " + e.txt + " => " + e.kids[1].text() + " }"
	}
	return "?"
}

func (p *c05rlProg) text() string {
	var sb strings.Builder
	for _, f := range p.fns {
		sb.WriteString("function " + f.name + "() { " + f.body.text() + "\n return " + f.ret.text() + " }\n")
	}
	if p.doc != "" {
		sb.WriteString("{\n")
	} else {
		sb.WriteString("BEGIN {\n")
	}
	for _, e := range p.init {
		if p.doc != "" && e.op == "asg" && e.kids[0].txt == "o" {
			sb.WriteString(" o = $\n")
			continue
		}
		sb.WriteString(" " + e.text() + "\n")
	}
	for _, st := range p.stmts {
		switch st.kind {
		case "show":
			sb.WriteString(" r = " + st.e.operand() + "\n " + c05Show + "\n")
		case "print":
			sb.WriteString(" print " + st.e.text() + "\n")
		case "if":
			sb.WriteString(" if (" + st.e.text() + ") print 'T'; else print 'F'\n")
		case "while":
			sb.WriteString(" n = 0\n while (" + st.e.text() + ") { n++; if (n >= 3) break }\n print n\n")
		}
		sb.WriteString(" " + c05rlState + "\n")
	}
	sb.WriteString("}\n")
	return sb.String()
}

type c05rlGen struct {
	r      *rand.Rand
	p      *c05rlProg
	wLogic float64
	nBind  int
}

func c05rlLit(txt string, v c05rlVal) *c05rlExpr { return &c05rlExpr{op: "lit", txt: txt, lit: v} }

func (g *c05rlGen) scalar() *c05rlExpr {
	switch g.r.Intn(16) {
	case 0, 1, 2:
		return c05rlLit("0", c05rlN(0))
	case 3, 4, 5:
		return c05rlLit("1", c05rlN(1))
	case 6:
		return c05rlLit("2", c05rlN(2))
	case 7:
		return &c05rlExpr{op: "neg", kids: []*c05rlExpr{c05rlLit("1", c05rlN(1))}}
	case 8, 9:
		return c05rlLit("''", c05rlVal{k: 'S'})
	case 10:
		return c05rlLit("'a'", c05rlVal{k: 'S', s: "a"})
	case 11:
		d := pick(g.r, []string{"0", "1"})
		return c05rlLit("'"+d+"'", c05rlVal{k: 'S', s: d})
	case 12:
		return c05rlLit("true", c05rlB(true))
	case 13:
		return c05rlLit("false", c05rlB(false))
	default:
		return c05rlLit("null", c05rlVal{k: 'Z'})
	}
}

// value: a literal of any kind (scalars, empty and non-empty containers)
func (g *c05rlGen) value() *c05rlExpr {
	switch g.r.Intn(12) {
	case 0:
		return &c05rlExpr{op: "arr"}
	case 1:
		return &c05rlExpr{op: "arr", kids: []*c05rlExpr{g.scalar()}}
	case 2:
		return &c05rlExpr{op: "obj"}
	case 3:
		return &c05rlExpr{op: "obj", kids: []*c05rlExpr{g.scalar()}, keys: []string{"k"}}
	}
	return g.scalar()
}

func (g *c05rlGen) loc() *c05rlExpr {
	v := func(n string) *c05rlExpr { return &c05rlExpr{op: "var", txt: n} }
	switch g.r.Intn(14) {
	case 0, 1, 2, 3:
		return v("x")
	case 4, 5:
		return v("y")
	case 6:
		return v("u")
	case 7, 8:
		return &c05rlExpr{op: "idx", kids: []*c05rlExpr{v("a")}, idx: 0}
	case 9:
		return &c05rlExpr{op: "idx", kids: []*c05rlExpr{v("a")}, idx: 1}
	case 10, 11:
		return &c05rlExpr{op: "mem", txt: "n", kids: []*c05rlExpr{v("o")}}
	case 12:
		return &c05rlExpr{op: "mem", txt: pick(g.r, []string{"k", "s"}), idx: g.r.Intn(2), kids: []*c05rlExpr{v("o")}}
	default:
		return &c05rlExpr{op: "mem", txt: "z", kids: []*c05rlExpr{v("o")}}
	}
}

// effect: an expression with a side effect on the location
func (g *c05rlGen) effect(loc *c05rlExpr, inFn bool) *c05rlExpr {
	k := []*c05rlExpr{loc}
	switch g.r.Intn(14) {
	case 0, 1:
		return &c05rlExpr{op: "pre", txt: pick(g.r, []string{"--", "--", "++"}), kids: k}
	case 2, 3:
		return &c05rlExpr{op: "post", txt: pick(g.r, []string{"--", "--", "++"}), kids: k}
	case 4, 5, 6:
		return &c05rlExpr{op: "asg", kids: []*c05rlExpr{loc, g.value()}}
	case 7:
		switch g.r.Intn(4) {
		case 0:
			return &c05rlExpr{op: "opasg", txt: "-", kids: []*c05rlExpr{loc, c05rlLit("1", c05rlN(1))}}
		case 1:
			return &c05rlExpr{op: "opasg", txt: "+", kids: []*c05rlExpr{loc, c05rlLit("1", c05rlN(1))}}
		case 2:
			return &c05rlExpr{op: "opasg", txt: "*", kids: []*c05rlExpr{loc, c05rlLit("0", c05rlN(0))}}
		default:
			return &c05rlExpr{op: "opasg", txt: "+", kids: []*c05rlExpr{loc, c05rlLit("'a'", c05rlVal{k: 'S', s: "a"})}}
		}
	case 8:
		return &c05rlExpr{op: "asg", kids: []*c05rlExpr{loc, {op: "var", txt: pick(g.r, []string{"x", "y", "u"})}}}
	case 9, 10, 11:
		if inFn {
			return &c05rlExpr{op: "asg", kids: []*c05rlExpr{loc, g.value()}}
		}
		f := &c05rlFn{name: fmt.Sprintf("f%d", len(g.p.fns)), body: g.effect(loc, true), ret: g.scalar()}
		if chance(g.r, 0.2) {
			f.ret = loc
		}
		g.p.fns = append(g.p.fns, f)
		return &c05rlExpr{op: "call", txt: f.name}
	default:
		a := &c05rlExpr{op: "var", txt: "a"}
		switch {
		case loc.op == "idx":
			switch g.r.Intn(4) {
			case 0:
				return &c05rlExpr{op: "meth", txt: "pop", kids: []*c05rlExpr{a}}
			case 1:
				return &c05rlExpr{op: "meth", txt: "popfirst", kids: []*c05rlExpr{a}}
			case 2:
				return &c05rlExpr{op: "meth", txt: "push", kids: []*c05rlExpr{a, g.scalar()}}
			default:
				return &c05rlExpr{op: "asg", kids: []*c05rlExpr{a, {op: "arr", kids: []*c05rlExpr{g.scalar(), g.scalar()}}}}
			}
		case loc.op == "mem":
			return &c05rlExpr{op: "asg", kids: []*c05rlExpr{{op: "var", txt: "o"}, {op: "obj", kids: []*c05rlExpr{g.scalar()}, keys: []string{loc.txt}}}}
		}
		return &c05rlExpr{op: "asg", kids: []*c05rlExpr{loc, g.value()}}
	}
}

var c05rlOtherOps = []string{"+", "-", "*", "/", "%", "==", "!=", "<", "<=", ">", ">=", "+", "-", "==", "<", ">", "~", "!~"}

func (g *c05rlGen) bin(op string, l, r *c05rlExpr) *c05rlExpr {
	return &c05rlExpr{op: "bin", txt: op, kids: []*c05rlExpr{l, r}}
}

func (g *c05rlGen) logicOp() string { return pick(g.r, []string{"&&", "||"}) }

// right: an operand whose evaluation changes the location; its own value has either truthiness
func (g *c05rlGen) right(loc *c05rlExpr, d int) *c05rlExpr {
	eff := g.effect(loc, false)
	switch g.r.Intn(14) {
	case 0, 1, 2, 3:
		return eff
	case 4, 5:
		return &c05rlExpr{op: "not", kids: []*c05rlExpr{eff}}
	case 6:
		return g.bin(">", eff, c05rlLit("5", c05rlN(5)))
	case 7:
		return g.bin(pick(g.r, []string{"==", "!=", "<", ">="}), eff, c05rlLit("1", c05rlN(1)))
	case 8:
		return &c05rlExpr{op: "not", kids: []*c05rlExpr{{op: "not", kids: []*c05rlExpr{eff}}}}
	case 9:
		return g.bin(g.logicOp(), eff, g.leaf())
	case 10:
		return g.bin(g.logicOp(), g.leaf(), eff)
	case 11:
		pat := float64(g.r.Intn(2))
		return &c05rlExpr{op: "matchlit", txt: c05Fmt(pat), lit: c05rlN(pat), kids: []*c05rlExpr{eff, g.scalar(), g.scalar()}}
	case 12:
		if d > 0 {
			return g.bin(g.logicOp(), g.expr(d-1), eff)
		}
		return eff
	default:
		return g.bin(pick(g.r, []string{"+", "-", "*"}), eff, g.scalar())
	}
}

// dynIndex: a[E] where evaluating E changes a (its elements, or the whole array)
func (g *c05rlGen) dynIndex() *c05rlExpr {
	a := &c05rlExpr{op: "var", txt: "a"}
	num := func(n float64) *c05rlExpr { return c05rlLit(c05Fmt(n), c05rlN(n)) }
	length := func(x *c05rlExpr) *c05rlExpr { return &c05rlExpr{op: "meth", txt: "length", kids: []*c05rlExpr{x}} }
	fresh := &c05rlExpr{op: "asg", kids: []*c05rlExpr{a, {op: "arr", kids: []*c05rlExpr{g.scalar(), g.scalar()}}}}
	var ix *c05rlExpr
	switch g.r.Intn(5) {
	case 0:
		ix = g.bin("-", length(&c05rlExpr{op: "meth", txt: "push", kids: []*c05rlExpr{a, g.scalar()}}), num(1))
	case 1:
		ix = g.bin("-", length(&c05rlExpr{op: "par", kids: []*c05rlExpr{fresh}}), num(float64(1+g.r.Intn(2))))
	case 2:
		ix = g.bin("*", &c05rlExpr{op: "meth", txt: "pop", kids: []*c05rlExpr{a}}, num(0))
	case 3:
		ix = g.bin("*", &c05rlExpr{op: "meth", txt: "popfirst", kids: []*c05rlExpr{a}}, num(0))
	default:
		f := &c05rlFn{name: fmt.Sprintf("f%d", len(g.p.fns)), body: fresh, ret: num(float64(g.r.Intn(2)))}
		g.p.fns = append(g.p.fns, f)
		ix = &c05rlExpr{op: "call", txt: f.name}
	}
	return &c05rlExpr{op: "idxdyn", kids: []*c05rlExpr{a, ix}}
}

func (g *c05rlGen) leaf() *c05rlExpr {
	if chance(g.r, 0.06) {
		return g.dynIndex()
	}
	if chance(g.r, 0.7) {
		return g.loc()
	}
	return g.scalar()
}

// left: mostly an aliased form of the location, sometimes a temporary
func (g *c05rlGen) left(loc *c05rlExpr, d int) *c05rlExpr {
	switch k := g.r.Intn(20); {
	case k < 11:
		return loc
	case k < 13:
		return &c05rlExpr{op: "par", kids: []*c05rlExpr{loc}}
	case k < 15:
		return &c05rlExpr{op: "asg", kids: []*c05rlExpr{loc, g.value()}}
	case k == 15:
		return &c05rlExpr{op: "matchw", kids: []*c05rlExpr{loc}}
	case k == 16 && d > 0:
		return g.expr(d - 1)
	case k == 17:
		e := g.bin(g.logicOp(), g.loc(), loc)
		return e
	case k == 18:
		return pick(g.r, []*c05rlExpr{g.bin("+", loc, c05rlLit("0", c05rlN(0))), {op: "not", kids: []*c05rlExpr{loc}}, {op: "post", txt: "++", kids: []*c05rlExpr{loc}}})
	}
	return loc
}

func (g *c05rlGen) expr(d int) *c05rlExpr {
	if d <= 0 {
		return g.leaf()
	}
	loc := g.loc()
	op := pick(g.r, c05rlOtherOps)
	if chance(g.r, g.wLogic) {
		op = g.logicOp()
	}
	var e *c05rlExpr
	if chance(g.r, 0.04) {
		return g.bin(op, g.dynIndex(), g.leaf())
	}
	if chance(g.r, 0.07) {
		// the scrutinee's cell bound to a name: the name is one more alias
		g.nBind++
		name := fmt.Sprintf("v%d", g.nBind)
		return &c05rlExpr{op: "matchbind", txt: name, kids: []*c05rlExpr{g.left(loc, 0), g.bin(op, &c05rlExpr{op: "var", txt: name}, g.right(loc, d-1))}}
	}
	l := g.left(loc, d)
	var r *c05rlExpr
	if chance(g.r, 0.8) {
		r = g.right(loc, d-1)
	} else {
		r = g.expr(d - 1)
	}
	e = g.bin(op, l, r)
	if (op == "&&" || op == "||") && l.op == "bin" && (l.txt == "&&" || l.txt == "||") && chance(g.r, 0.5) {
		e.idx = 1
	}
	if chance(g.r, 0.12) {
		e = &c05rlExpr{op: "not", kids: []*c05rlExpr{e}}
	}
	return e
}

func c05rlGenProg(r *rand.Rand, wLogic float64) *c05rlProg {
	p := &c05rlProg{}
	g := &c05rlGen{r: r, p: p, wLogic: wLogic}
	v := func(n string) *c05rlExpr { return &c05rlExpr{op: "var", txt: n} }
	p.init = []*c05rlExpr{
		{op: "asg", kids: []*c05rlExpr{v("x"), g.value()}},
		{op: "asg", kids: []*c05rlExpr{v("y"), g.value()}},
		{op: "asg", kids: []*c05rlExpr{v("t"), g.bin("==", v("u"), c05rlLit("0", c05rlN(0)))}}, // u exists (unset) in BEGIN's frame
		{op: "asg", kids: []*c05rlExpr{v("a"), {op: "arr", kids: []*c05rlExpr{g.scalar(), g.scalar()}}}},
		{op: "asg", kids: []*c05rlExpr{v("o"), {op: "obj", kids: []*c05rlExpr{g.scalar(), g.scalar(), g.scalar()}, keys: []string{"n", "k", "s"}}}},
	}
	if chance(r, 0.2) {
		// the object's members are document fields
		var ps []string
		o := p.init[4].kids[1]
		for i, k := range o.kids {
			j := k.txt
			switch {
			case k.op == "neg":
				j = "-1"
			case k.lit.k == 'S':
				j = jsonString(k.lit.s)
			}
			ps = append(ps, jsonString(o.keys[i])+": "+j)
		}
		p.doc = "{" + strings.Join(ps, ", ") + "}"
	}
	for i, n := 0, 1+r.Intn(3); i < n; i++ {
		kind := pick(r, []string{"show", "show", "show", "show", "if", "if", "while", "print"})
		e := g.expr(1 + r.Intn(3))
		for e.op != "bin" && e.op != "not" && e.op != "matchbind" {
			e = g.expr(1 + r.Intn(3))
		}
		p.stmts = append(p.stmts, c05rlStmt{kind, e})
	}
	return p
}

func c05rlEmit(p *c05rlProg, sens, class, out string, gaveUp bool, emit func(Case)) {
	nt := func(i Resp) bool { return i["class"] == "ok" || i["class"] == "runtime" }
	prog := p.text()
	kinds := ""
	for _, st := range p.stmts {
		kinds += st.kind + " "
	}
	var files []File
	if p.doc != "" {
		files = []File{{Name: "in.json", Data: []byte(p.doc)}}
	}
	cs := Case{Req: RunReq(prog, nil, files, false), Fields: []string{"class", "out"}, NonTrivial: nt,
		Meta: metaProg(prog, "a-deviant-semantics-would-differ", sens, "statements", strings.TrimSpace(kinds), "input", p.doc, "row", sens)}
	if !gaveUp {
		wc, wo := class, out
		cs.Oracle = func(i Resp) string {
			if i["class"] != wc || string(i.Bytes("out")) != wo {
				return fmt.Sprintf("&& / || go by the truthiness the left operand has when it is evaluated, other binary operators read their operand cells once both are evaluated: the generator's left-then-right interpretation gives class %s out %q; got class %s out %q", wc, short(wo), i["class"], short(string(i.Bytes("out"))))
			}
			return ""
		}
	}
	emit(cs)
}

// c05rlGrid: the plain shapes, systematically: every kind of value (both truthinesses) in the location,
// every kind of value (or a step) put there by the right operand, both operators, bare and negated,
// as a value, an if condition and a while condition.
func c05rlGrid(r *rand.Rand, tier string, logic bool, emit func(Case)) {
	lit := c05rlLit
	vals := []func() *c05rlExpr{
		func() *c05rlExpr { return lit("0", c05rlN(0)) }, func() *c05rlExpr { return lit("1", c05rlN(1)) },
		func() *c05rlExpr { return &c05rlExpr{op: "neg", kids: []*c05rlExpr{lit("1", c05rlN(1))}} },
		func() *c05rlExpr { return lit("''", c05rlVal{k: 'S'}) }, func() *c05rlExpr { return lit("'a'", c05rlVal{k: 'S', s: "a"}) },
		func() *c05rlExpr { return lit("'0'", c05rlVal{k: 'S', s: "0"}) },
		func() *c05rlExpr { return lit("true", c05rlB(true)) }, func() *c05rlExpr { return lit("false", c05rlB(false)) },
		func() *c05rlExpr { return lit("null", c05rlVal{k: 'Z'}) }, func() *c05rlExpr { return &c05rlExpr{op: "var", txt: "u"} },
		func() *c05rlExpr { return &c05rlExpr{op: "arr"} }, func() *c05rlExpr { return &c05rlExpr{op: "arr", kids: []*c05rlExpr{lit("0", c05rlN(0))}} },
		func() *c05rlExpr { return &c05rlExpr{op: "obj"} },
		func() *c05rlExpr {
			return &c05rlExpr{op: "obj", kids: []*c05rlExpr{lit("0", c05rlN(0))}, keys: []string{"k"}}
		},
	}
	v := func(n string) *c05rlExpr { return &c05rlExpr{op: "var", txt: n} }
	locs := []func() *c05rlExpr{
		func() *c05rlExpr { return v("x") },
		func() *c05rlExpr { return &c05rlExpr{op: "mem", txt: "n", kids: []*c05rlExpr{v("o")}} },
		func() *c05rlExpr { return &c05rlExpr{op: "idx", kids: []*c05rlExpr{v("a")}, idx: 0} },
		func() *c05rlExpr { return &c05rlExpr{op: "mem", txt: "s", idx: 1, kids: []*c05rlExpr{v("o")}} },
	}
	ops := []string{"&&", "||"}
	if !logic {
		ops = []string{"+", "-", "*", "==", "!=", "<", "<=", ">", ">="}
	}
	for i, n := 0, tierN(tier, 500, 15000); i < n; i++ {
		p := &c05rlProg{}
		li := r.Intn(len(locs))
		v1 := pick(r, vals)
		one := func() *c05rlExpr { return lit("1", c05rlN(1)) }
		x0, a0, on, os := one(), one(), one(), one()
		switch li {
		case 0:
			x0 = v1()
		case 1:
			on = v1()
		case 2:
			a0 = v1()
		default:
			os = v1()
		}
		p.init = []*c05rlExpr{
			{op: "asg", kids: []*c05rlExpr{v("t"), {op: "bin", txt: "==", kids: []*c05rlExpr{v("u"), lit("0", c05rlN(0))}}}},
			{op: "asg", kids: []*c05rlExpr{v("x"), x0}},
			{op: "asg", kids: []*c05rlExpr{v("y"), lit("0", c05rlN(0))}},
			{op: "asg", kids: []*c05rlExpr{v("a"), {op: "arr", kids: []*c05rlExpr{a0, one()}}}},
			{op: "asg", kids: []*c05rlExpr{v("o"), {op: "obj", kids: []*c05rlExpr{on, lit("0", c05rlN(0)), os}, keys: []string{"n", "k", "s"}}}},
		}
		var eff *c05rlExpr
		switch k := r.Intn(8); {
		case k < 3:
			eff = &c05rlExpr{op: "asg", kids: []*c05rlExpr{locs[li](), pick(r, vals)()}}
		case k == 3:
			eff = &c05rlExpr{op: "pre", txt: pick(r, []string{"--", "++"}), kids: []*c05rlExpr{locs[li]()}}
		case k == 4:
			eff = &c05rlExpr{op: "post", txt: pick(r, []string{"--", "++"}), kids: []*c05rlExpr{locs[li]()}}
		case k == 5:
			eff = &c05rlExpr{op: "opasg", txt: pick(r, []string{"-", "+"}), kids: []*c05rlExpr{locs[li](), one()}}
		default:
			f := &c05rlFn{name: "f0", body: &c05rlExpr{op: "asg", kids: []*c05rlExpr{locs[li](), pick(r, vals)()}}, ret: pick(r, vals[:9])()}
			p.fns = append(p.fns, f)
			eff = &c05rlExpr{op: "call", txt: "f0"}
		}
		switch r.Intn(4) {
		case 0:
			eff = &c05rlExpr{op: "not", kids: []*c05rlExpr{eff}}
		case 1:
			if eff.op != "asg" { // the value of an assignment is the location itself: comparing it says nothing new
				eff = &c05rlExpr{op: "bin", txt: pick(r, []string{"==", ">", "<"}), kids: []*c05rlExpr{eff, pick(r, vals[:3])()}}
			}
		}
		e := &c05rlExpr{op: "bin", txt: pick(r, ops), kids: []*c05rlExpr{locs[li](), eff}}
		if chance(r, 0.2) {
			e = &c05rlExpr{op: "not", kids: []*c05rlExpr{e}}
		}
		p.stmts = []c05rlStmt{{pick(r, []string{"show", "show", "if", "while", "print"}), e}}
		out, class, gaveUp := p.run(0)
		sens := "grid"
		if !gaveUp {
			o1, c1, _ := p.run(1)
			o2, c2, _ := p.run(2)
			if o1 != out || c1 != class || o2 != out || c2 != class {
				sens = "grid-sensitive"
			}
		}
		c05rlEmit(p, sens, class, out, gaveUp, emit)
	}
}

func c05rlFamily(wLogic float64, deviant int) func(r *rand.Rand, tier string, emit func(Case)) {
	return func(r *rand.Rand, tier string, emit func(Case)) {
		c05rlGrid(r, tier, deviant == 1, emit)
		n := tierN(tier, 1500, 60000)
		for kept := 0; kept < n; {
			p := c05rlGenProg(r, wLogic)
			out, class, gaveUp := p.run(0)
			sens := "none"
			if gaveUp {
				sens = "no-oracle"
			} else {
				o1, c1, g1 := p.run(1)
				o2, c2, g2 := p.run(2)
				d1 := !g1 && (o1 != out || c1 != class)
				d2 := !g2 && (o2 != out || c2 != class)
				switch {
				case d1 && d2:
					sens = "both"
				case d1:
					sens = "logic-rereads-left"
				case d2:
					sens = "binop-captures-left-early"
				}
			}
			want := sens != "none" && sens != "no-oracle"
			if sens == "binop-captures-left-early" && deviant == 1 || sens == "logic-rereads-left" && deviant == 2 {
				want = chance(r, 0.5)
			}
			if !want && !chance(r, 0.06) {
				continue
			}
			kept++
			c05rlEmit(p, sens, class, out, gaveUp, emit)
		}
	}
}

func init() {
	register(Family{
		Name: "logic-selfmod", Prop: "C05",
		Rule: "&& / || (85 % of the operator nodes; the rest comparison / arithmetic) whose right operand changes the very location that is the left operand: locations are plain variables (also an unset one), array elements, object members (dot and bracket form, also a missing member; in a fifth of the programs the object is the record $ of an input document, the members document fields); the left operand is the location itself, parenthesised, the result of an assignment to it, a match arm yielding it, a name bound to it by `match (loc) { v => v op ... }` (all aliases of the cell), or a temporary (loc + 0, !loc, loc++, a nested operator); the right operand applies -- ++ (prefix and postfix), = with literals of every kind and both truthinesses (0 1 2 -1, '' 'a' '0', true false, null, [] [0] {} {k: 0}), = another variable (also the unset one), -= += *=, a function doing one of these to the global, a.pop() / popfirst() / push(), replacing the whole container, bare or under !, !!, a comparison, an arithmetic operator, a further && / ||, or a match on its value; nested and chained (with and without parentheses on the left-associative level), under !, as assigned value, print argument, if and while condition; 1-3 statements per program, the state of every location printed after each; oracle (implementation only): the generator interprets the program itself (cells for variables / members, left operand first, right operand only when needed, result = boolean of the truthiness each operand had when it was evaluated) and demands exactly that class and output; the generator keeps mainly programs on which a semantics that reads the left cell again after the right operand ran would print something else; every program is also compared with the model",
		Gen:  c05rlFamily(0.85, 1),
	})
	register(Family{
		Name: "binop-selfmod", Prop: "C05",
		Rule: "comparison and arithmetic operators (+ - * / % == != < <= > >=; 85 % of the operator nodes, the rest && / ||) whose right operand changes the location that is the left operand (same locations, alias forms, effects and contexts as logic-selfmod): both operands are cells, the left one is read only after the right operand has been evaluated, so `x + (x = 5)` is 10, `x < ++x` is false, `o.n * (o.n = 3)` is 9, while a temporary left operand (x + 0, x++, a missing member) keeps its value; also ~ / !~ (the left operand's string form is taken after the right operand ran) and the index operator a[E] with E pushing to, popping from or replacing a (the container is looked at once E has been evaluated); oracle (implementation only): the generator's own interpreter of that cell semantics gives the expected class and output (runtime errors -- zero divisor, comparing a container -- stop the program with the output so far); the generator keeps mainly programs on which capturing the left VALUE before the right operand runs would print something else; every program is also compared with the model",
		Gen:  c05rlFamily(0.15, 2),
	})
}
