package main

// C11 — syntax errors pre-empt all execution; runtime faults stop the run at
// the fault: output before the fault is kept, nothing is printed after it and
// the fault is never swallowed, whatever syntactic position it occurs in.
//
// Families:
//   syntax-splice     a guaranteed syntax error spliced at every token boundary of valid multi-rule programs
//   fault-injection   every kind of runtime fault x every evaluated syntactic position (matrix in the result file)
//   fault-unevaluated the same faults at positions that are NOT evaluated: the run must be unaffected
//   regex-site-sequence  one ~ / !~ site with a non-literal right operand evaluated with a SEQUENCE of patterns
//                     (valid ... invalid / not a pattern ... valid): the fault is raised at the first faulty one
//   call-shadowed-name a function's or builtin's name bound to something else (parameter, caller's parameter,
//                     match binding, for-in variable, global) and called while that binding is in scope
//
// All compare class,out,line,col,src with the model and carry an
// implementation-only oracle.

import (
	"fmt"
	"math/rand"
	"regexp"
	"strconv"
	"strings"
)

var c11Fields = []string{"class", "out", "line", "col", "src"}

var c11Input = []File{{Name: "in.json", Data: []byte(`[1, 2]`)}}

// ---------------------------------------------------------------------------
// family 1: syntax-error splicing

// Seeds are written with every token separated by blanks (so a token boundary
// is a blank) and with region markers: «F … F» encloses what lies inside a
// function body (a `return` there is legal), «L … L» what lies inside a loop
// body (a `break`/`continue` there is legal). Every seed prints in BEGIN, per
// element and in END, so a run that is not pre-empted shows.
var c11Seeds = []string{
	`BEGIN { print "begin" ; n = 0 }
{ n += $ ; print "elem" , $index , $ }
$ > 1 { print "big" , $ }
END { print "end" , n }`,

	`function max ( a , b ) { «F
  if ( a > b ) { return a }
  return b
} F»
BEGIN { print "begin" , max ( 1 , 2 ) }
{ print max ( $ , 1 ) ; x = [ 1 , $ , { k : $ } ] ; print x [ 2 ] . k }
END { print "end" }`,

	`BEGIN {
  print "begin"
  i = 0
  while ( i < 3 ) «L {
    i ++
    if ( i == 2 ) continue
    print "i" , i
  } L»
  for ( j = 0 ; j < 2 ; j ++ ) «L print "j" , j L»
  for ( v , k in [ 5 , 6 ] ) «L { print k , v ; break } L»
}
{ print "elem" , $ }
END { print "end" }`,

	`BEGIN { print "begin" }
BEGINFILE { print "file" , $file }
{
  r = match ( $ ) {
    1 => "one" ,
    [ a , b ] => { print a ; b }
    _ => { print "other" }
  }
  print r
}
ENDFILE { print "endfile" }
END { print "end" ; printf ( "%v|%s\n" , [ 1 ] , "s" ) }`,

	`BEGIN { print "begin" ; k = 0 }
BEGIN { while ( k ++ < 2 && match ( k ) { _ => { print "head" , k } } == null ) «L { print "body" } L» }
{ for ( q = 0 ; q < 1 ; q = q + 1 + match ( 1 ) { _ => { print "post" } } ) «L { print "elem" , $ } L» }
END { print "end" }`,

	`function walk ( arr ) { «F
  for ( v in arr ) «L {
    if ( v is array ) { walk ( v ) ; continue }
    if ( v == 3 ) break
    print "v" , v
  } L»
  return arr . length ( )
} F»
BEGIN { print "begin" , walk ( [ 1 , [ 2 ] , 3 , 4 ] ) }
$ ~ /1/ || ! ( $ < 2 ) { print "elem" , - $ , $ % 2 , $ is number }
END { print "end" }`,

	// every statement kind ended by `;` (argument-less print, return, next, exit, ++, calls), `;` before `}`
	`function show ( a ) { «F
  print ; print a ; return ;
} F»
function two ( ) { «F print "two" ; return 2 ; } F»
BEGIN { print "begin" ; print ; show ( 1 ) ; x = two ( ) ; x ++ ; }
{ print ; if ( $ > 1 ) next ; print "elem" , $ ; }
END { print "end" ; print ; exit ; print "never" }`,

	// the same statements ended by a newline, unbraced bodies, `;` in front of else
	`BEGIN {
  print "begin"
  print
  i = 0
  while ( i < 3 ) «L {
    i ++
    if ( i == 1 ) { continue ; } else print
    if ( i == 2 ) { print ; break ; }
  } L»
  for ( j = 0 ; j < 2 ; j ++ ) «L print ; L»
  if ( i ) print ; else print "no" ;
}
{ print
  next
}
END { print "end"
  print
  exit
}`,
}

type c11Tok struct {
	text          string
	inFn, inLoop  bool // state at the boundary BEFORE this token
	closerFollows bool
	depth         int // bracket depth at the boundary BEFORE this token (0: between rules, where a program may end)
}

// c11Scan splits a seed into tokens ("\n" is a token) with the region state
// at the boundary before each token; the last entry is the end-of-text boundary.
func c11Scan(seed string) []c11Tok {
	var toks []c11Tok
	fn, loop, depth := 0, 0, 0
	lines := strings.Split(seed, "\n")
	for li, line := range lines {
		for _, w := range strings.Fields(line) {
			switch w {
			case "«F":
				fn++
			case "F»":
				fn--
			case "«L":
				loop++
			case "L»":
				loop--
			default:
				toks = append(toks, c11Tok{text: w, inFn: fn > 0, inLoop: loop > 0, depth: depth})
				switch w {
				case "{", "(", "[":
					depth++
				case "}", ")", "]":
					depth--
				}
			}
		}
		if li < len(lines)-1 {
			toks = append(toks, c11Tok{text: "\n", inFn: fn > 0, inLoop: loop > 0, depth: depth})
		}
	}
	toks = append(toks, c11Tok{text: "", inFn: fn > 0, inLoop: loop > 0, depth: depth})
	return toks
}

// c11Splice renders the tokens with frag inserted at boundary `at`; returns the
// text and the byte offset at which frag starts.
func c11Splice(toks []c11Tok, at int, frag string, skip int) (string, int) {
	var sb strings.Builder
	off := -1
	for i, t := range toks {
		if i == at {
			off = sb.Len()
			sb.WriteString(frag)
			if frag != "" {
				sb.WriteByte(' ')
			}
		}
		if i == skip {
			continue
		}
		sb.WriteString(t.text)
		if t.text != "\n" && t.text != "" {
			sb.WriteByte(' ')
		}
	}
	return sb.String(), off
}

// c11SpliceGlued is c11Splice with the blank before (glue&1) and / or after (glue&2) the
// fragment removed, so that it stands directly against its neighbours: `print;@ }`.
func c11SpliceGlued(toks []c11Tok, at int, frag string, glue int) (string, int) {
	text, off := c11Splice(toks, at, frag, -1)
	if glue&2 != 0 && off+len(frag) < len(text) && text[off+len(frag)] == ' ' {
		text = text[:off+len(frag)] + text[off+len(frag)+1:]
	}
	if glue&1 != 0 && off > 0 && text[off-1] == ' ' {
		text = text[:off-1] + text[off:]
		off--
	}
	return text, off
}

// bytes that can never start a token: the printable ones and every control byte that is
// not white space (NUL included: it must not be taken for the end of the program)
func c11IllegalBytes() []c11Frag {
	fs := []c11Frag{{"illegal-char-question", "?", ""}, {"illegal-char-caret", "^", ""}, {"illegal-char-backslash", "\\", ""}}
	for b := 0; b < 0x20; b++ {
		if b == '\t' || b == '\n' || b == '\r' {
			continue
		}
		fs = append(fs, c11Frag{fmt.Sprintf("illegal-char-0x%02x", b), string([]byte{byte(b)}), ""})
	}
	return append(fs, c11Frag{"illegal-char-0x7f", "\x7f", ""})
}

func c11LineCol(text string, off int) (int, int) {
	line, start := 1, 0
	for i := 0; i < off; i++ {
		if text[i] == '\n' {
			line++
			start = i + 1
		}
	}
	return line, off - start
}

type c11Frag struct {
	name, text string
	scope      string // "" anywhere, "nofn" outside function bodies, "noloop" outside loop bodies
}

var c11Frags = []c11Frag{
	{"illegal-char", "@", ""}, {"illegal-char-backquote", "`", ""}, {"lone-quote", "\"", ""},
	{"unexpected-rparen", ")", ""}, {"unexpected-rsquare", "]", ""}, {"unexpected-rcurly", "}", ""},
	{"unclosed-lparen", "(", ""}, {"unclosed-lsquare", "[", ""}, {"unclosed-lcurly", "{", ""},
	{"missing-operand", "* *", ""}, {"missing-operand-eq", "== ==", ""}, {"stray-arrow", "=>", ""}, {"stray-colon", ":", ""},
	{"assign-to-literal", "1 = 2", ""}, {"assign-to-call", "f ( ) = 3", ""}, {"assign-to-unary", "- a = 1", ""}, {"assign-to-sum", "a + b = 2", ""},
	{"compound-assign-to-literal", "1 += 2", ""}, {"assign-to-string", "\"s\" = 1", ""}, {"assign-to-match", "match ( 1 ) { 1 => 2 } = 3", ""},
	{"incr-literal", "1 ++", ""}, {"decr-call", "f ( ) --", ""}, {"prefix-incr-literal", "++ 1 ;", ""}, {"assign-to-array", "; [ 1 ] = 2", ""},
	// with a separator after or before, so that the statement would be complete if it were accepted
	{"return-outside-function", "return ;", "nofn"}, {"return-value-outside-function", "; return 1", "nofn"},
	{"break-outside-loop", "break ;", "noloop"}, {"break-outside-loop-after-separator", "; break", "noloop"},
	{"continue-outside-loop", "continue ;", "noloop"}, {"continue-outside-loop-after-separator", "; continue", "noloop"},
}

func c11SyntaxOracle(what string, wantLine, wantCol int) func(Resp) string {
	return func(i Resp) string {
		if i["class"] != "syntax" {
			return "C11: " + what + " must be a syntax error, got class " + i["class"] + " (msg=" + i["msg"] + ")"
		}
		if i.Bytes("out") != nil {
			return fmt.Sprintf("C11: a program with a syntax error printed %q before the error was reported", i.Bytes("out"))
		}
		if wantLine > 0 && (i["line"] != fmt.Sprint(wantLine) || i["col"] != fmt.Sprint(wantCol)) {
			return fmt.Sprintf("C11/C12: the illegal character is at line %d col %d but the error reports line %s col %s (a lexer error must not be overtaken by a later parser complaint)", wantLine, wantCol, i["line"], i["col"])
		}
		return ""
	}
}

func c11IsSyntax(i Resp) bool { return i["class"] == "syntax" }

func c11GenSplice(r *rand.Rand, tier string, emit func(Case)) {
	for si, seed := range c11Seeds {
		toks := c11Scan(seed)
		clean, _ := c11Splice(toks, -1, "", -1)
		emit(Case{Req: RunReq(clean, nil, c11Input, false), Fields: c11Fields,
			Meta: metaProg(clean, "seed", fmt.Sprint(si), "row", "(unspliced seed)", "col", fmt.Sprintf("seed%d", si)),
			Oracle: func(i Resp) string {
				if o := string(i.Bytes("out")); i["class"] != "ok" || !strings.Contains(o, "begin") || !strings.Contains(o, "\nend") {
					return "generator: the unspliced seed must run and print, got " + i.String()
				}
				return ""
			}})
		for at := range toks {
			for _, f := range c11Frags {
				if f.scope == "nofn" && toks[at].inFn || f.scope == "noloop" && toks[at].inLoop {
					continue
				}
				if tier == "quick" && si >= 2 && si != 4 && si < 6 && !chance(r, 0.4) { // seed 4 has the loop headers, 6 and 7 every statement end
					continue
				}
				text, off := c11Splice(toks, at, f.text, -1)
				wl, wc := 0, 0
				if strings.HasPrefix(f.name, "illegal-char") {
					wl, wc = c11LineCol(text, off)
				}
				emit(Case{Req: RunReq(text, nil, c11Input, false), Fields: c11Fields, NonTrivial: c11IsSyntax,
					Meta:   metaProg(text, "seed", fmt.Sprint(si), "spliced", f.text, "at-token-boundary", fmt.Sprint(at), "row", f.name, "col", fmt.Sprintf("seed%d", si)),
					Oracle: c11SyntaxOracle("the fragment `"+f.text+"` ("+f.name+") spliced at token boundary "+fmt.Sprint(at), wl, wc)})
			}
		}
		// illegal bytes (control bytes incl. NUL, ? ^ \) -- wherever the program could end
		// (bracket depth 0: in front of, between and after the rules) and at a sample of the
		// other boundaries; and the illegal characters standing directly against their
		// neighbours, in particular right after a `;` or a statement keyword
		spliceIllegal := func(at int, f c11Frag, glue int) {
			text, off := c11SpliceGlued(toks, at, f.text, glue)
			wl, wc := c11LineCol(text, off)
			emit(Case{Req: RunReq(text, nil, c11Input, false), Fields: c11Fields, NonTrivial: c11IsSyntax,
				Meta:   metaProg(text, "seed", fmt.Sprint(si), "spliced", fmt.Sprintf("%q", f.text), "at-token-boundary", fmt.Sprint(at), "glue", fmt.Sprint(glue), "row", f.name, "col", fmt.Sprintf("seed%d", si)),
				Oracle: c11SyntaxOracle(fmt.Sprintf("the byte %q (%s) spliced at token boundary %d", f.text, f.name, at), wl, wc)})
		}
		illegal := c11IllegalBytes()
		for at := range toks {
			prev := ""
			if at > 0 {
				prev = toks[at-1].text
			}
			afterSep := prev == ";" || strings.Contains(" print return next exit break continue else } ", " "+prev+" ")
			for _, f := range illegal {
				if tier == "thorough" || toks[at].depth == 0 && chance(r, 0.5) || afterSep && chance(r, 0.25) || chance(r, 0.03) {
					spliceIllegal(at, f, r.Intn(4))
				}
			}
			for _, f := range append([]c11Frag{c11Frags[0], c11Frags[1]}, illegal[:3]...) {
				for glue := 1; glue < 4; glue++ {
					if tier == "thorough" || afterSep && (f.text == "@" || chance(r, 0.3)) || chance(r, 0.06) {
						spliceIllegal(at, f, glue)
					}
				}
			}
		}
		// a missing operand by deletion: an operand that is followed by a closing
		// token and preceded by a binary operator is removed
		for at := 1; at+1 < len(toks); at++ {
			prev, next := toks[at-1].text, toks[at+1].text
			isOp := strings.Contains(" + - * / % == != < <= > >= ~ !~ && || = += -= , ", " "+prev+" ") && prev != ","
			isCloser := next == ";" || next == ")" || next == "]" || next == "}" || next == ","
			t := toks[at].text
			isOperand := t != "" && (t[0] == '"' || t[0] >= '0' && t[0] <= '9' || t[0] >= 'a' && t[0] <= 'z' || t[0] == '$') &&
				!strings.Contains(" print return if else for while in match break continue next exit is ", " "+t+" ")
			if !isOp || !isCloser || !isOperand {
				continue
			}
			text, _ := c11Splice(toks, -1, "", at)
			emit(Case{Req: RunReq(text, nil, c11Input, false), Fields: c11Fields, NonTrivial: c11IsSyntax,
				Meta:   metaProg(text, "seed", fmt.Sprint(si), "deleted-operand", t, "at-token", fmt.Sprint(at), "row", "missing-operand-by-deletion", "col", fmt.Sprintf("seed%d", si)),
				Oracle: c11SyntaxOracle("deleting the operand `"+t+"` between `"+prev+"` and `"+next+"`", 0, 0)})
		}
	}
	// program files with control bytes, through the real binary (-f): NUL cannot be passed
	// as an argument, a file can hold it
	{
		illegal := c11IllegalBytes()[3:]
		n := tierN(tier, 72, 600)
		for i := 0; i < n; i++ {
			f := illegal[i%len(illegal)]
			if i >= len(illegal) && i%3 != 0 || i == 1 {
				f = illegal[0] // NUL
			}
			si := r.Intn(len(c11Seeds))
			toks := c11Scan(c11Seeds[si])
			var top []int
			for at := range toks {
				if toks[at].depth == 0 {
					top = append(top, at)
				}
			}
			at := pick(r, top)
			if chance(r, 0.25) {
				at = r.Intn(len(toks))
			}
			text, _ := c11SpliceGlued(toks, at, f.text, r.Intn(4))
			if i < len(illegal) {
				// every byte once as the very last byte of the file (and once more followed by a newline only)
				text, _ = c11SpliceGlued(toks, len(toks)-1, f.text, 2+r.Intn(2))
				if i%2 == 1 {
					text += "\n"
				}
			} else if chance(r, 0.3) {
				text += " }}} print (" // whatever follows is not looked at if the byte ends the program
			}
			files := []CliFile{{Name: "in.json", Data: c11Input[0].Data}, {Name: "prog.jqawk", Data: []byte(text)}}
			emit(Case{Req: CliReq([]string{"-f", "prog.jqawk", "in.json"}, nil, false, files, ""), Fields: []string{"exit", "out", "err"},
				NonTrivial: func(i Resp) bool { return i["exit"] == "1" },
				Meta:       metaProg(text, "seed", fmt.Sprint(si), "spliced", fmt.Sprintf("%q", f.text), "at-token-boundary", fmt.Sprint(at), "row", f.name, "col", "binary -f"),
				Oracle: func(i Resp) string {
					if i["exit"] == "0" || i["exit"] == "" || i.Bytes("out") != nil || i["err"] != "1" {
						return fmt.Sprintf("C11: a program file containing the byte %q outside strings must be a syntax error (non-zero exit, message on stderr, no output); got exit %s, stdout %q, stderr %q", f.text, i["exit"], i.Bytes("out"), i.Bytes("stderr"))
					}
					return ""
				}})
		}
	}
	// the same errors inside a -r selector: nothing of the file's value may be
	// processed; what BEGIN printed before the selector was looked at stays
	selProg := "BEGIN { print \"begin\" }\n{ print \"elem\", $ }\nEND { print \"end\" }"
	for _, f := range c11Frags {
		for _, sel := range []string{f.text, "$ " + f.text, f.text + " $", "[ $ , " + f.text + " ]", "match ( $ ) { _ => { " + f.text + " } }"} {
			if f.name == "unclosed-lparen" && sel == f.text+" $" || f.name == "unclosed-lsquare" && sel == f.text+" $" || f.name == "unexpected-rsquare" && strings.HasPrefix(sel, "[ $") {
				continue
			}
			if (f.name == "unclosed-lcurly" || f.name == "unexpected-rcurly" || f.name == "prefix-incr-literal") && strings.HasPrefix(sel, "match") {
				continue
			}
			for _, sels := range [][]string{{sel}, {"$", sel}} {
				emit(Case{Req: RunReq(selProg, sels, c11Input, false), Fields: c11Fields, NonTrivial: c11IsSyntax,
					Meta: metaProg(selProg, "selectors", strings.Join(sels, "  ||  "), "row", f.name, "col", "selector"),
					Oracle: func(i Resp) string {
						if i["class"] != "syntax" {
							return "C11: a selector with the fragment `" + f.text + "` must be a syntax error, got class " + i["class"]
						}
						if string(i.Bytes("out")) != "begin\n" {
							return fmt.Sprintf("C11: with a syntax error in a selector no rule may run for the value (all selectors are parsed before any rule); output was %q", i.Bytes("out"))
						}
						return ""
					}})
			}
		}
	}
}

// ---------------------------------------------------------------------------
// family 2: runtime-fault injection

const c11Prelude = "function f() { return 1 }\n" +
	"function g(a, b, c) { return a }\n" +
	"function side(m) { print m; return 1 }\n" +
	"function rec(n) { return rec(n + 1) }\n" +
	"function dp($pa, $pb) { return $pa }\n" +
	"BEGIN { cx = 5; sx = 5; ss = \"a\"; sa = [1, 2]; circ = [1]; circ[0] = circ; s3 = \"abc\"; se = \"\"; sb = true; so = {s: \"xy\", a: [\"pq\", 7]} }\n"

type c11Kind struct {
	name, expr string
	self       bool // self-contained: usable in a -r selector (no program globals/functions)
	slow       bool
}

// every expression is parenthesised, so it can stand in any operand position
var c11Kinds = []c11Kind{
	{"div-by-zero", "(1 / 0)", true, false},
	{"mod-by-zero", "(1 % 0)", true, false},
	{"div-by-zero-computed", "(sx / (sx - 5))", false, false},
	{"compound-div-by-zero", "(dz /= 0)", true, false},
	{"call-number", "(5())", true, false},
	{"call-number-variable", "(cx())", false, false},
	{"call-null", "(null())", true, false},
	{"call-unset", "(nosuchfn(1))", true, false},
	{"call-string", "(\"s\"())", true, false},
	{"call-missing-method", "([1].nosuch())", true, false},
	{"regex-invalid-string", "(\"a\" ~ \"(\")", true, false},
	{"regex-invalid-literal", "(\"a\" ~ /(/)", true, false},
	{"regex-invalid-negated", "(\"a\" !~ \"[\")", true, false},
	{"tilde-number-rhs", "(\"a\" ~ 1)", true, false},
	{"tilde-null-rhs", "(\"a\" ~ null)", true, false},
	{"tilde-array-rhs", "(\"a\" !~ [])", true, false},
	{"compare-array-number", "([] < 1)", true, false},
	{"compare-number-object", "(1 == {})", true, false},
	{"compare-arrays", "([1] != [1])", true, false},
	{"compare-object-string", "({} >= \"a\")", true, false},
	{"iterate-number", "(match (0) { _ => { for (it in 5) { } } })", true, false},
	{"iterate-null", "(match (0) { _ => { for (it in null) { } } })", true, false},
	{"iterate-bool", "(match (0) { _ => { for (it, ix in true) { } } })", true, false},
	{"iterate-function", "(match (0) { _ => { for (it in printf) { } } })", true, false},
	{"set-member-on-number", "((t1 = 5).y = 1)", true, false},
	{"set-member-on-number-variable", "(sx.y = 1)", false, false},
	{"set-index-on-string", "((t2 = \"a\")[0] = \"b\")", true, false},
	{"set-index-on-string-variable", "(ss[0] = \"b\")", false, false},
	{"set-member-on-string", "((t2 = \"a\").k = 1)", true, false},
	{"set-member-on-bool", "((t3 = true).k = 1)", true, false},
	{"set-member-on-null-literal", "(null.x = 1)", true, false},
	{"incr-member-of-number", "((t1 = 5).y++)", true, false},
	{"prefix-decr-member-of-number", "(--(t1 = 5).y)", true, false},
	{"incr-string-index", "((t2 = \"a\")[0]++)", true, false},
	{"printf-missing-argument", "(printf(\"%s\"))", true, false},
	{"printf-wrong-kind-s", "(printf(\"%s\", 1))", true, false},
	{"printf-wrong-kind-f", "(printf(\"x%f\", \"a\"))", true, false},
	{"printf-unknown-directive", "(printf(\"x%q\", 1))", true, false},
	{"printf-dangling-percent", "(printf(\"abc%\"))", true, false},
	{"printf-no-arguments", "(printf())", true, false},
	{"printf-format-not-string", "(printf(1))", true, false},
	{"printf-width-too-large", "(printf(\"%99999s\", \"a\"))", true, false},
	{"printf-width-dangling", "(printf(\"ab%5\"))", true, false},
	{"printf-second-argument-missing", "(printf(\"%v %v\", 1))", true, false},
	{"unknown-dollar-name", "($nosuch)", true, false},
	{"bad-escape", "(\"a\\qb\")", true, false},
	{"bad-escape-at-end", "(\"abc\\\")", true, false},
	{"index-before-start", "([1, 2][-5])", true, false},
	{"index-before-start-variable", "(sa[-3])", false, false},
	{"copy-function-assign", "(t4 = f)", false, false},
	{"copy-function-array-element", "([1, f])", false, false},
	{"copy-function-object-value", "({k: f})", false, false},
	{"copy-function-argument", "(g(f))", false, false},
	{"copy-native-assign", "(t4 = printf)", true, false},
	{"copy-native-array-element", "([json])", true, false},
	{"copy-native-argument", "(num(num))", true, false},
	{"copy-method-assign", "(t4 = [1].push)", true, false},
	{"index-object-with-bool", "({a: 1}[true])", true, false},
	{"index-array-with-null", "([1][null])", true, false},
	{"index-string-with-array", "(\"s\"[[]])", true, false},
	{"index-number-with-bool", "(5[false])", true, false},
	{"assign-array-length", "([1, 2].length = 1)", true, false},
	{"assign-array-string-key", "((t5 = [1])[\"k\"] = 1)", true, false},
	{"assign-array-index-too-large", "((t5 = [1])[2000000] = 1)", true, false},
	{"call-depth-exceeded", "(rec(0))", false, true},
	{"match-unsupported-pattern", "(match (1) { 1 + 1 => 2 })", true, false},
	{"match-compare-container", "(match ([1]) { 1 => 2 })", true, false},
	{"num-no-arguments", "(num())", true, false},
	{"json-two-arguments", "(json(1, 2))", true, false},
	{"json-circular", "(json(circ))", false, false},
	{"push-no-arguments", "([1].push())", true, false},
	{"pop-with-argument", "([1].pop(1))", true, false},
	{"split-number", "(\"a\".split(1))", true, false},
	{"split-no-arguments", "(\"a\".split())", true, false},
	{"contains-container", "([[1]].contains(1))", true, false},
	{"pluck-bool", "({a: 1}.pluck(true))", true, false},
}

// c11StoreKinds: stores (= op= ++ --) whose target cannot hold a value: an index of a string
// inside AND outside the string (first, last, == length, far beyond, negative within and
// beyond, fractional, non-numeric; the empty string; strings in variables, temporaries,
// object members, array elements), a member / index of a number, of a boolean, and a
// method value of an array, string or number.  Each is a runtime error, never a silent no-op.
func c11StoreKinds() []c11Kind {
	type tgt struct{ name, expr string }
	var ts []tgt
	for _, ix := range []string{"0", "1", "2", "3", "4", "50", "2000000", "-1", "-3", "-4", "-50", "1.5", "\"k\"", "(1 + 2)", "s3.length()"} {
		ts = append(ts, tgt{"string-variable-index " + ix, "s3[" + ix + "]"})
	}
	for _, t := range []tgt{
		{"empty-string-index 0", "se[0]"}, {"empty-string-index -1", "se[-1]"}, {"empty-string-index 1", "se[1]"}, {"empty-string-member", "se.k"},
		{"string-temporary-index 0", "(t2 = \"a\")[0]"}, {"string-temporary-index 1", "(t2 = \"a\")[1]"}, {"string-temporary-index 7", "(t2 = \"a\")[7]"}, {"empty-temporary-index 0", "(t2 = \"\")[0]"},
		{"string-in-object-index 1", "so.s[1]"}, {"string-in-object-index 2", "so.s[2]"}, {"string-in-object-index -1", "so.s[-1]"}, {"string-in-object-index 9", "so[\"s\"][9]"},
		{"string-in-array-index 0", "so.a[0][0]"}, {"string-in-array-index 2", "so.a[0][2]"}, {"string-in-array-index -3", "so.a[-2][-3]"},
		{"char-of-char", "s3[1][0]"}, {"char-of-char-beyond", "s3[1][1]"}, {"member-of-missing-char", "s3[5].a"}, {"member-of-char", "s3[0].a"},
		{"number-member", "sx.y"}, {"number-index 0", "sx[0]"}, {"number-index 1", "sx[1]"}, {"number-in-array-index", "sa[0][0]"}, {"number-in-object-member", "so.a[1].k"}, {"number-temporary-member", "(t1 = 5).y"},
		{"bool-index 0", "sb[0]"}, {"bool-index 1", "sb[1]"}, {"bool-index -1", "sb[-1]"}, {"bool-member", "sb.k"}, {"bool-temporary-index", "(t3 = true)[0]"}, {"bool-temporary-false-index", "(t3 = false)[2]"},
		{"array-method push", "sa.push"}, {"array-method length", "sa.length"}, {"array-method pop", "sa.pop"}, {"array-method sort", "sa[\"sort\"]"},
		{"string-method length", "s3.length"}, {"string-method upper", "s3.upper"}, {"string-method split", "s3[\"split\"]"}, {"number-method floor", "sx.floor"}, {"number-method round", "sx[\"round\"]"},
	} {
		ts = append(ts, t)
	}
	var ks []c11Kind
	for _, t := range ts {
		self := !strings.ContainsAny(t.expr[:2], "s") || strings.HasPrefix(t.expr, "(")
		for _, f := range []struct{ name, form string }{
			{"=", "(T = 1)"}, {"= string", "(T = \"z\")"}, {"= itself", "(T = T)"}, {"+=", "(T += 1)"}, {"-=", "(T -= 1)"}, {"*=", "(T *= 2)"}, {"/=", "(T /= 2)"},
			{"postfix ++", "(T++)"}, {"postfix --", "(T--)"}, {"prefix ++", "(++T)"}, {"prefix --", "(--T)"},
		} {
			ks = append(ks, c11Kind{name: "store/" + t.name + " " + f.name, expr: strings.ReplaceAll(f.form, "T", t.expr), self: self})
		}
	}
	return ks
}

type c11Pos struct {
	name     string
	prog     string   // § is the hole; the prelude is put in front
	sels     []string // § is the hole (then prog has none)
	files    []File
	want     string // output of the run up to the fault
	harmless string // what to put into the hole for the fault-free control (default "(7)")
}

func c11Positions() []c11Pos {
	two := []File{{Name: "a.json", Data: []byte(`[1]`)}, {Name: "b.json", Data: []byte(`[2]`)}}
	jsonl := []File{{Name: "in.jsonl", Data: []byte("1\n2\n")}}
	ps := []c11Pos{
		// statements in every kind of rule
		{name: "statement/BEGIN", prog: "BEGIN { print \"B1\"; §; print \"A1\" }\n{ print \"A2\" }\nEND { print \"A3\" }", want: "B1\n"},
		{name: "statement/BEGIN-only-statement", prog: "BEGIN { § }\nBEGIN { print \"A1\" }\nEND { print \"A2\" }", want: ""},
		{name: "statement/second-BEGIN", prog: "BEGIN { print \"B1\" }\nBEGIN { print \"B2\"; §; print \"A1\" }\nBEGIN { print \"A2\" }", want: "B1\nB2\n"},
		{name: "statement/END", prog: "BEGIN { print \"B1\" }\n{ print \"B2\", $ }\nEND { print \"B3\"; §; print \"A1\" }\nEND { print \"A2\" }", want: "B1\nB2 1\nB2 2\nB3\n"},
		{name: "statement/BEGINFILE", prog: "BEGINFILE { print \"B1\"; §; print \"A1\" }\n{ print \"A2\" }\nENDFILE { print \"A3\" }\nEND { print \"A4\" }", want: "B1\n"},
		{name: "statement/ENDFILE", prog: "{ print \"B1\", $ }\nENDFILE { print \"B2\"; §; print \"A1\" }\nENDFILE { print \"A2\" }\nEND { print \"A3\" }", want: "B1 1\nB1 2\nB2\n"},
		{name: "statement/rule-body", prog: "{ print \"B1\", $; §; print \"A1\" }\n{ print \"A2\" }\nEND { print \"A3\" }", want: "B1 1\n"},
		{name: "statement/rule-body-second-element", prog: "{ print \"B\", $ }\n$ == 2 { print \"B2\"; §; print \"A1\" }\n{ print \"b\", $ }\nEND { print \"A3\" }", want: "B 1\nb 1\nB 2\nB2\n"},
		{name: "statement/rule-body-second-file", prog: "BEGINFILE { print \"bf\", $file }\n$ == 2 { print \"B2\"; §; print \"A1\" }\n{ print \"b\", $ }\nENDFILE { print \"ef\" }", files: two, want: "bf a.json\nb 1\nef\nbf b.json\nB2\n"},
		{name: "statement/rule-body-second-value", prog: "$ == 2 { print \"B2\"; §; print \"A1\" }\n{ print \"b\", $ }\nEND { print \"A2\" }", files: jsonl, want: "b 1\nB2\n"},
		{name: "statement/after-next-survivor", prog: "$ == 1 { print \"B1\"; next }\n{ print \"B2\"; §; print \"A1\" }", want: "B1\nB2\n"},
		// rule patterns
		{name: "pattern/whole", prog: "BEGIN { print \"B1\" }\n§ { print \"A1\" }\nEND { print \"A2\" }", want: "B1\n"},
		{name: "pattern/bare", prog: "BEGIN { print \"B1\" }\n§\nEND { print \"A2\" }", want: "B1\n"},
		{name: "pattern/second-rule", prog: "{ print \"B1\", $ }\n§ { print \"A1\" }\nEND { print \"A2\" }", want: "B1 1\n"},
		{name: "pattern/operand", prog: "BEGIN { print \"B1\" }\n$ > 0 && § { print \"A1\" }\nEND { print \"A2\" }", want: "B1\n"},
		{name: "pattern/second-element", prog: "$ == 2 && § { print \"A1\" }\n{ print \"B\", $ }", want: "B 1\n"},
	}
	stmt := func(name, s string, opt ...string) {
		p := c11Pos{name: name, prog: "BEGIN { print \"B1\"; " + s + "\nprint \"A1\" }\nEND { print \"A2\" }", want: "B1\n"}
		for i := 0; i+1 < len(opt); i += 2 {
			switch opt[i] {
			case "harmless":
				p.harmless = opt[i+1]
			case "want":
				p.want = opt[i+1]
			}
		}
		ps = append(ps, p)
	}
	// operands of every operator
	for _, op := range []string{"*", "/", "%", "+", "-", "==", "!=", "<", "<=", ">", ">=", "&&", "||"} {
		stmt("operand/left-of "+op, "r = § "+op+" 2")
		l := "2"
		if op == "||" {
			l = "0"
		}
		stmt("operand/right-of "+op, "r = "+l+" "+op+" §")
	}
	stmt("operand/left-of ~", "r = § ~ \"a\"")
	stmt("operand/right-of ~", "r = \"a\" ~ §", "harmless", "(\"a\")")
	stmt("operand/left-of !~", "r = § !~ \"a\"")
	stmt("operand/right-of !~", "r = \"a\" !~ §", "harmless", "(\"a\")")
	stmt("operand/left-of is", "r = § is number")
	stmt("operand/right-after-side-effect", "r = side(\"B2\") + §", "want", "B1\nB2\n")
	stmt("operand/left-before-side-effect", "r = § + side(\"A9\")")
	stmt("operand/unary-not", "r = !§")
	stmt("operand/unary-minus", "r = -§")
	stmt("operand/unary-plus", "r = +§")
	stmt("operand/group", "r = ((§))")
	stmt("operand/assign-rhs", "r = §")
	stmt("operand/assign-rhs-chain", "r = r2 = §")
	stmt("operand/assign-rhs-member", "ro.a.b = §")
	for _, op := range []string{"+=", "-=", "*=", "/="} {
		stmt("operand/compound-rhs "+op, "r "+op+" §")
	}
	stmt("operand/assign-target-index", "rx[§] = 1")
	stmt("operand/assign-target-base", "§.foo = 1", "harmless", "(rq)")
	stmt("operand/member-base", "r = §.foo")
	stmt("operand/index-base", "r = §[0]")
	stmt("operand/index", "r = sa[§]", "harmless", "(0)")
	stmt("operand/index-nested", "r = [[1]][0][§]", "harmless", "(0)")
	stmt("operand/postfix-incr-base", "§.y++", "harmless", "(rq)")
	stmt("operand/prefix-decr-base", "--§.y", "harmless", "(rq)")
	stmt("operand/postfix-incr-index", "rx[§]++", "harmless", "(0)")
	// calls
	stmt("call/only-argument", "r = g(§)")
	stmt("call/second-argument", "r = g(1, §)")
	stmt("call/between-side-effects", "r = g(side(\"B2\"), §, side(\"A9\"))", "want", "B1\nB2\n")
	stmt("call/native-argument-printf", "printf(\"A0 %v\\n\", §)")
	stmt("call/native-argument-num", "r = num(§)")
	stmt("call/native-argument-json", "r = json(§)")
	stmt("call/method-argument", "r = [1].push(§)")
	stmt("call/method-argument-string", "r = \"a\".split(§)", "harmless", "(\"a\")")
	stmt("call/callee", "r = §(1)", "harmless", "(g)")
	stmt("call/method-receiver", "r = §.length()", "harmless", "([1])")
	stmt("call/extra-argument", "r = f(§)")
	// literals
	stmt("literal/array-element", "r = [1, §, 3]")
	stmt("literal/array-first-element", "r = [§]")
	stmt("literal/array-after-side-effect", "r = [side(\"B2\"), §, side(\"A9\")]", "want", "B1\nB2\n")
	stmt("literal/object-value", "r = {a: 1, b: §, c: side(\"A9\")}")
	stmt("literal/nested", "r = {a: [[§]]}")
	// conditions and loops
	stmt("if/condition", "if (§) { print \"A3\" } else { print \"A4\" }")
	stmt("if/then-body", "if (1) { print \"B2\"; §; print \"A3\" }", "want", "B1\nB2\n")
	stmt("if/else-body", "if (0) { print \"A3\" } else { print \"B2\"; §; print \"A4\" }", "want", "B1\nB2\n")
	stmt("if/unbraced-body", "if (1) §")
	stmt("while/condition", "while (§) { print \"A3\"; break }")
	stmt("while/condition-second-test", "k = 0\nwhile (k == 0 || §) { print \"B2\"; k++; if (k > 1) break }", "want", "B1\nB2\n")
	stmt("while/body", "k = 0\nwhile (k < 2) { k++; print \"B2\", k; §; print \"A3\" }", "want", "B1\nB2 1\n")
	stmt("for/initialiser", "for (§; 0; 0) { print \"A3\" }")
	stmt("for/initialiser-assign", "for (i = §; i < 0; i++) { print \"A3\" }")
	stmt("for/condition", "for (i = 0; §; i++) { print \"A3\"; break }")
	stmt("for/condition-operand", "for (i = 0; i < 2 && §; i++) { print \"A3\"; break }")
	stmt("for/post", "for (i = 0; i < 2; §) { print \"B2\", i; i++ }", "want", "B1\nB2 0\n")
	stmt("for/post-operand", "for (i = 0; i < 2; i = i + 1 + 0 * §) { print \"B2\", i }", "want", "B1\nB2 0\n")
	stmt("for/body", "for (i = 0; i < 2; i++) { print \"B2\", i; §; print \"A3\" }", "want", "B1\nB2 0\n")
	stmt("for/body-second-round", "for (i = 0; i < 2; i++) { print \"B2\", i; if (i == 1) { § } }", "want", "B1\nB2 0\nB2 1\n")
	stmt("for-in/iterable", "for (x in §) { print \"A3\" }", "harmless", "([1])")
	stmt("for-in/iterable-with-index", "for (x, i in §) { print \"A3\" }", "harmless", "({a: 1})")
	stmt("for-in/iterable-element", "for (x in [1, §]) { print \"A3\" }")
	stmt("for-in/array-body", "for (x in [1, 2]) { print \"B2\", x; §; print \"A3\" }", "want", "B1\nB2 1\n")
	stmt("for-in/object-body", "for (k, v in {a: 1, b: 2}) { print \"B2\", k, v; §; print \"A3\" }", "want", "B1\nB2 a 1\n")
	stmt("for-in/string-body", "for (c in \"xy\") { print \"B2\", c; §; print \"A3\" }", "want", "B1\nB2 x\n")
	stmt("for-in/body-second-round", "for (x in [1, 2]) { print \"B2\", x; if (x == 2) { § } }", "want", "B1\nB2 1\nB2 2\n")
	stmt("for-in/nested-loops", "for (x in [1, 2]) { for (y = 0; y < 2; y++) { print \"B2\", x, y; if (x == 2 && y == 1) § } }", "want", "B1\nB2 1 0\nB2 1 1\nB2 2 0\nB2 2 1\n")
	// match
	stmt("match/subject", "r = match (§) { _ => 1 }")
	stmt("match/case-body-expression", "r = match (1) { 1 => § }")
	stmt("match/case-body-block", "match (1) { _ => { print \"B2\"; §; print \"A3\" } }", "want", "B1\nB2\n")
	stmt("match/second-case", "r = match (2) { 1 => side(\"A9\"), 2 => § }")
	stmt("match/array-pattern-body", "match ([1, 2]) { [a, b] => { print \"B2\", a, b; § } }", "want", "B1\nB2 1 2\n")
	stmt("match/in-loop-header", "k = 0\nwhile (k++ < 2 && match (k) { _ => { print \"B2\", k; § } } == null) { print \"B3\" }", "want", "B1\nB2 1\n")
	// print
	stmt("print/only-argument", "print §")
	stmt("print/first-argument", "print §, \"A3\"")
	stmt("print/last-argument", "print \"A3\", §")
	stmt("print/middle-argument", "print \"A3\", §, \"A4\"")
	// functions
	fn := func(name, defs, body, want string) {
		ps = append(ps, c11Pos{name: name, prog: defs + "\n" + body, want: want})
	}
	fn("function/body-statement", "function fb() { print \"B2\"; §; print \"A3\" }", "BEGIN { print \"B1\"; fb(); print \"A1\" }\nEND { print \"A2\" }", "B1\nB2\n")
	fn("function/return-value", "function fr() { print \"B2\"; return § }", "BEGIN { print \"B1\"; r = fr(); print \"A1\" }\nEND { print \"A2\" }", "B1\nB2\n")
	fn("function/nested-call", "function fb() { print \"B2\"; fc(); print \"A3\" }\nfunction fc() { print \"B3\"; r = [§]; print \"A4\" }", "BEGIN { print \"B1\"; fb(); print \"A1\" }\nEND { print \"A2\" }", "B1\nB2\nB3\n")
	fn("function/called-from-pattern", "function fr() { print \"B2\"; return § }", "BEGIN { print \"B1\" }\nfr() { print \"A1\" }\nEND { print \"A2\" }", "B1\nB2\n")
	fn("function/called-from-END", "function fb() { print \"B3\"; §; print \"A3\" }", "BEGIN { print \"B1\" }\n{ print \"B2\", $ }\nEND { fb(); print \"A1\" }", "B1\nB2 1\nB2 2\nB3\n")
	fn("function/called-as-argument", "function fr() { print \"B2\"; return § }", "BEGIN { print \"B1\"; print \"A0\", g(1, fr()); print \"A1\" }", "B1\nB2\n")
	fn("function/in-loop-second-call", "function fb(n) { print \"B2\", n; if (n == 2) { § } }", "BEGIN { print \"B1\"; for (x in [1, 2, 3]) fb(x)\nprint \"A1\" }", "B1\nB2 1\nB2 2\n")
	fn("function/match-in-function-in-loop", "function fb(n) { return match (n) { 2 => { print \"B3\"; § }, _ => n } }", "{ print \"B2\", $; for (x in [$]) { r = fb(x) }\nprint \"b\", r }", "B2 1\nb 1\nB2 2\nB3\n")
	fn("function/argument-default-null", "function fb(a, b) { print \"B2\", b; r = b || §; print \"A3\" }", "BEGIN { print \"B1\"; fb(1); print \"A1\" }", "B1\nB2 null\n")
	// selectors (self-contained kinds only)
	selProg := "BEGIN { print \"B1\" }\n{ print \"A1\", $ }\nEND { print \"A2\" }"
	ps = append(ps,
		c11Pos{name: "selector/whole", prog: selProg, sels: []string{"§"}, want: "B1\n"},
		c11Pos{name: "selector/second-of-two", prog: selProg, sels: []string{"$", "§"}, want: "B1\n"},
		c11Pos{name: "selector/operand", prog: selProg, sels: []string{"[$[0], §]"}, want: "B1\n"},
		c11Pos{name: "selector/in-match-block", prog: selProg, sels: []string{"match ($) { _ => { print \"B2\"; §; print \"A3\" } }"}, want: "B1\nB2\n"},
		c11Pos{name: "selector/second-value", prog: selProg, sels: []string{"match ($) { 2 => §, _ => $ }"}, files: jsonl, want: "B1\nA1 1\n"},
		c11Pos{name: "selector/second-file", prog: "BEGINFILE { print \"bf\", $file }\n{ print \"b\", $ }", sels: []string{"match ($[0]) { 2 => §, _ => $ }"}, files: two, want: "bf a.json\nb 1\n"},
	)
	return ps
}

// expression contexts for deeper nesting (thorough tier): no output of their own
// ---------------------------------------------------------------------------
// more fault kinds: unknown $-names in binding positions, invalid regexes of every error kind

// c11DollarKinds: an unknown $-prefixed name where a name is BOUND or stored into.  for-in loop
// and index variables, assignment / op= / ++ / -- targets, member and index stores, calls and
// method calls through it: a runtime error "unknown variable" (a $-name is never created
// implicitly).  Function parameters and match pattern identifiers DO bind $-names -- for the
// call / the case only: afterwards the name is unknown again.
func c11DollarKinds() []c11Kind {
	ks := []c11Kind{
		{"unknown-dollar-forin-variable", "(match (0) { _ => { for ($nosuch in [1]) { } } })", true, false},
		{"unknown-dollar-forin-index", "(match (0) { _ => { for (it, $nosuch in [1]) { } } })", true, false},
		{"unknown-dollar-forin-both", "(match (0) { _ => { for ($nosuch, $nosuch2 in [1]) { } } })", true, false},
		{"unknown-dollar-forin-variable-known-index", "(match (0) { _ => { for ($nosuch, ix in {a: 1}) { } } })", true, false},
		{"unknown-dollar-forin-empty-array", "(match (0) { _ => { for ($nosuch in []) { } } })", true, false},
		{"unknown-dollar-forin-index-empty-object", "(match (0) { _ => { for (it, $nosuch in {}) { } } })", true, false},
		{"unknown-dollar-forin-object", "(match (0) { _ => { for ($nosuch in {a: 1}) { print \"A8\" } } })", true, false},
		{"unknown-dollar-forin-string", "(match (0) { _ => { for ($nosuch, ix in \"xy\") { print \"A8\" } } })", true, false},
		{"unknown-dollar-forin-body-prints", "(match (0) { _ => { for ($tag, $pos in [1, 2]) { print \"A8\", $pos, $tag } } })", true, false},
		{"unknown-dollar-forin-nested-loop", "(match (0) { _ => { for (it in [1]) { for ($nosuch in [it]) { } } } })", true, false},
		{"unknown-dollar-assign", "($nosuch = 1)", true, false},
		{"unknown-dollar-assign-string", "($nosuch = \"v\")", true, false},
		{"unknown-dollar-assign-chain", "(t6 = $nosuch = 1)", true, false},
		{"unknown-dollar-plus-assign", "($nosuch += 1)", true, false},
		{"unknown-dollar-minus-assign", "($nosuch -= 1)", true, false},
		{"unknown-dollar-times-assign", "($nosuch *= 2)", true, false},
		{"unknown-dollar-divide-assign", "($nosuch /= 2)", true, false},
		{"unknown-dollar-postfix-incr", "($nosuch++)", true, false},
		{"unknown-dollar-postfix-decr", "($nosuch--)", true, false},
		{"unknown-dollar-prefix-incr", "(++$nosuch)", true, false},
		{"unknown-dollar-prefix-decr", "(--$nosuch)", true, false},
		{"unknown-dollar-member-store", "($nosuch.k = 1)", true, false},
		{"unknown-dollar-index-store", "($nosuch[0] = 1)", true, false},
		{"unknown-dollar-member-incr", "($nosuch.k++)", true, false},
		{"unknown-dollar-call", "($nosuch(1))", true, false},
		{"unknown-dollar-method-call", "($nosuch.length())", true, false},
		{"unknown-dollar-is", "($nosuch is unknown)", true, false},
		{"unknown-dollar-match-subject", "(match ($nosuch) { _ => 1 })", true, false},
		{"unknown-dollar-name-index-like", "($indexx)", true, false},
		{"unknown-dollar-name-file-like", "($files = 1)", true, false},
		{"dollar-name-after-match-binding", "((match (1) { $mb => $mb }) + $mb)", true, false},
		{"dollar-name-after-array-pattern-binding", "((match ([1, 2]) { [$ma, $mb] => $ma + $mb }) + $ma)", true, false},
		{"dollar-name-after-match-block-binding", "(match (0) { _ => { match (1) { $mb => { t7 = $mb } }\n$mb = 2 } })", true, false},
		{"dollar-name-after-call-binding", "(dp(1, 2) + $pa)", false, false},
		{"dollar-name-second-parameter-after-call", "(dp(1) + ($pb = 1))", false, false},
		{"dollar-forin-variable-named-like-parameter", "(match (0) { _ => { for ($pa in [dp(1)]) { } } })", false, false},
	}
	return ks
}

// c11RegexPatterns: patterns whose ONLY special construct sits among plain text, one (or more)
// per error kind of Go's regexp/syntax, plus look-alikes that are valid.  regexp.Compile on the
// very bytes decides which is which.
var c11RegexPatterns = []string{
	// missing closing )
	"(ab", "a(b", "ab(", "(?:ab", "((a)b", "(", "happy :(",
	// unexpected )
	"ab)", ":)", ")", "a)b", "(a))", "foo)bar", "happy :)",
	// missing closing ]
	"[ab", "a[", "x[^a", "[a-", "[]a", "[", "a[]",
	// invalid nested repetition operator / repetition of nothing
	"a**", "a+*", "a*+", "ab??+", "a?*", "*a", "+a", "?a", "*", "a|*", "(*a)", "(+)", "^*a", "$+", "a{2}{3}{4}*", "a***",
	// invalid repeat count
	"x{2,1}", "a{1001}", "a{1000,1001}", "x{5,2}y", "a{99999}", "(a{500}){500}", "((a{100}){100}){100}",
	// invalid escape, trailing backslash
	"a\\8", "\\8", "a\\qb", "\\_", "x\\y", "\\pX", "\\p{Foo}", "a\\", "\\", "ab\\c\\",
	// invalid or unsupported (? syntax, named groups
	"(?z)", "a(?z)b", "(?P<n", "(?P<n>a)(?P<n>b)", "(?<", "(?i", "(?=a)", "(?!a)", "(?#c)", "(?", "(?P=n)", "(?P<>a)", "(?i)(?q)",
	// invalid character class / range
	"[z-a]", "[[:foo:]]", "[a-\\d]", "x[b-a]y", "[\\8]",
	// invalid UTF-8
	"\xff", "ab\xc3", "a\x80b", "\xe2\x82", "caf\xc3", "\xf8\x88\x80\x80\x80",
	// valid look-alikes: literal ] } { , bounded repeats in range, escaped specials, empty alternatives
	"a]", "a}", "a{", "a{,2}", "x{2}", "a{1000}", "a{2,1", "\\.", "a\\)", "\\(", "[)]", "(:)", "{", "}", "]", "a|", "|", "()", "a{1,2}{3}", "(?i)ab", "(?P<n>a)", "(?:ab)", "[]a]", "[a\\]]", "\\pL", "\\x41",
	"ab", "xab", "^ab$", "a.b", "", "\\Qa)\\E", "a*?", "a+?", "(?s).", "caf\xc3\xa9",
}

func c11RegexErrClass(err error) string {
	m := err.Error()
	// "error parsing regexp: <code>: `...`"
	m = strings.TrimPrefix(m, "error parsing regexp: ")
	if i := strings.Index(m, ":"); i > 0 {
		m = m[:i]
	}
	return strings.ReplaceAll(m, " ", "-")
}

// c11PatLits: the pattern as a jqawk string literal and (where it can be written) as a regex literal
func c11PatLits(pat string) (str string, lit string) {
	if !strings.ContainsAny(pat, "\"\n") {
		str = "\"" + strings.ReplaceAll(pat, "\\", "\\\\") + "\""
	}
	if !strings.ContainsAny(pat, "/\n") && !strings.HasSuffix(pat, "\\") && pat != "" && !strings.HasPrefix(pat, "*") {
		lit = "/" + pat + "/"
	}
	return
}

func c11RegexKinds() []c11Kind {
	var ks []c11Kind
	for _, pat := range c11RegexPatterns {
		_, err := regexp.Compile(pat)
		if err != nil {
			str, lit := c11PatLits(pat)
			name := "regex/" + c11RegexErrClass(err) + " " + strconv.QuoteToASCII(pat)
			if str != "" {
				ks = append(ks, c11Kind{name + " string", "(\"xaby\" ~ " + str + ")", true, false})
				ks = append(ks, c11Kind{name + " string !~", "(\"" + strings.ToValidUTF8(strings.ReplaceAll(pat, "\\", ""), "") + "\" !~ " + str + ")", true, false})
			}
			if lit != "" {
				ks = append(ks, c11Kind{name + " literal", "(\"xaby\" ~ " + lit + ")", true, false})
			}
		}
	}
	return ks
}

func init() {
	c11Kinds = append(c11Kinds, c11DollarKinds()...)
}

var c11Nest = []string{"(g(1, §))", "([1, §][1])", "(0 + §)", "(§ || 0)", "(1 && §)", "(match (1) { _ => § })", "({a: §}.a)", "(-§)", "(g(§, 2))", "(nr = §)", "(match (§) { q => q })", "([§].length())"}

func (p c11Pos) request(e string) (string, string, []string) {
	files := p.files
	if files == nil {
		files = c11Input
	}
	if p.sels != nil {
		sels := make([]string, len(p.sels))
		for i, s := range p.sels {
			sels[i] = strings.ReplaceAll(s, "§", e)
		}
		return RunReq(p.prog, sels, files, false), p.prog, sels
	}
	prog := c11Prelude + strings.ReplaceAll(p.prog, "§", e)
	return RunReq(prog, nil, files, false), prog, nil
}

func c11FaultCase(p c11Pos, k c11Kind, e string, nest string) Case {
	req, prog, sels := p.request(e)
	meta := metaProg(prog, "fault-kind", k.name, "fault-expression", e, "position", p.name, "expected-output", p.want, "row", k.name, "col", p.name)
	if sels != nil {
		meta["selectors"] = strings.Join(sels, "  ||  ")
	}
	if nest != "" {
		meta["nesting"] = nest
	}
	want := p.want
	return Case{Req: req, Fields: c11Fields, Meta: meta,
		NonTrivial: func(i Resp) bool { return i["class"] == "runtime" },
		Oracle: func(i Resp) string {
			if i["class"] != "runtime" {
				return fmt.Sprintf("C11: fault %s at position %s was not reported as a runtime error: class %s, output %q", k.name, p.name, i["class"], i.Bytes("out"))
			}
			if got := string(i.Bytes("out")); got != want {
				return fmt.Sprintf("C11: fault %s at position %s: output must be exactly what was printed before the fault %q, got %q", k.name, p.name, want, got)
			}
			return ""
		}}
}

// c11ModKinds: `%` works on the INTEGER PARTS of its operands, so a divisor that is not zero but
// lies strictly between -1 and 1 (0.5, -0.25, 1e-300, "5e-1", a quotient, a document field) is a
// division by zero just like `% 0`: a runtime error "divide by zero", never Go's own integer
// division panic and never a silent value. Divisors as literals, negated literals, numeric strings
// in every spelling strconv accepts, non-numeric strings / false / null (they count as 0), computed
// values and variables; dividends of every kind; the remainder alone, stored, stored back into the
// dividend (the language has no `%=`: `x = x % d` is its compound form) and inside a larger
// arithmetic expression.
func c11ModKinds() []c11Kind {
	type dv struct {
		name, expr string
		self       bool
	}
	divs := []dv{
		{"literal 0.5", "0.5", true}, {"literal 0.25", "0.25", true}, {"literal 0.999999", "0.999999", true}, {"literal 0.000001", "0.000001", true},
		{"literal 0.0", "0.0", true}, {"literal 00.50", "00.50", true},
		{"negated literal -0.5", "-0.5", true}, {"negated literal -0.999", "(-0.999)", true}, {"negative zero", "(-0)", true},
		{"string 0.5", "\"0.5\"", true}, {"string -0.25", "\"-0.25\"", true}, {"string 1e-300", "\"1e-300\"", true}, {"string 5e-1", "\"5e-1\"", true},
		{"string .5", "\".5\"", true}, {"string +0.9", "\"+0.9\"", true}, {"string hex float 0x1p-2", "\"0x1p-2\"", true}, {"string -0", "\"-0\"", true},
		{"string 4.9e-324", "\"4.9e-324\"", true}, {"string -9.99e-1", "\"-9.99e-1\"", true},
		{"string not numeric", "\"abc\"", true}, {"string blank-padded (counts as 0)", "\" 0.5\"", true}, {"empty string", "\"\"", true}, {"false", "false", true}, {"null", "null", true}, {"unset variable", "nosuchvar", true},
		{"computed 1 / 3", "(1 / 3)", true}, {"computed 1 - 0.5", "(1 - 0.5)", true}, {"computed 0.5 * 0.5", "(0.5 * 0.5)", true}, {"computed -1 / 4", "(-1 / 4)", true},
		{"computed tiny 1 / 10000000000 / 10000000000", "(1 / 10000000000 / 10000000000)", true}, {"computed 3 % 2 - 0.5", "(3 % 2 - 0.5)", true},
		{"computed num(\"0.75\")", "num(\"0.75\")", true}, {"computed string concatenation \"0\" + \".5\"", "(\"0\" + \".5\")", true},
		{"computed (0.4).round() + 0.3", "((0.4).round() + 0.3)", true}, {"computed [0.5][0]", "[0.5][0]", true}, {"computed {d: 0.125}.d", "{d: 0.125}.d", true},
		{"assigned in place (t8 = 0.5)", "(t8 = 0.5)", true}, {"match value", "(match (1) { _ => 0.75 })", true},
		{"variable sx - 4.5", "(sx - 4.5)", false}, {"variable cx / 7", "(cx / 7)", false}, {"variable mh", "mh", false}, {"variable ms (string)", "ms", false},
		{"variable member mo.d", "mo.d", false}, {"variable element ma[1]", "ma[1]", false}, {"function result half()", "half()", false}, {"parameter through g", "g(0.5)", false},
	}
	forms := []struct {
		name, form string
		self       bool
	}{
		{"7 % D", "(7 % D)", true},
		{"7.9 % D", "(7.9 % D)", true},
		{"-3 % D", "(-3 % D)", true},
		{"0 % D", "(0 % D)", true},
		{"string dividend", "(\"7\" % D)", true},
		{"stored", "(t9 = 7 % D)", true},
		{"compound form x = x % D", "(t9 = (t9 = 7) % D)", true},
		{"inside a sum", "(1 + 7 % D * 2)", true},
		{"chained % % ", "(9 % 5 % D)", true},
		{"variable dividend", "(cx % D)", false},
		{"fraction % fraction", "(0.5 % D)", true},
	}
	var ks []c11Kind
	for di, d := range divs {
		for fi, f := range forms {
			// every divisor with the plain form; the other forms rotate over the divisors
			if fi != 0 && (di+fi)%4 != 0 {
				continue
			}
			ks = append(ks, c11Kind{name: "mod-by-fraction/" + d.name + " in " + f.name, expr: strings.ReplaceAll(f.form, "D", d.expr), self: d.self && f.self})
		}
	}
	return ks
}

// the globals the non-self-contained divisors of c11ModKinds use
const c11ModPrelude = "function half() { return 0.5 }\nBEGIN { mh = 0.5; ms = \"-0.25\"; mo = {d: 0.125}; ma = [3, 0.75] }\n"

// c11ModControls: the neighbours that are NOT faults (integer part of the divisor not zero):
// expression and the line it prints
var c11ModControls = [][2]string{
	{"7 % 1", "0"}, {"7 % 1.5", "0"}, {"7 % -1", "0"}, {"7 % -1.9", "0"}, {"7.9 % 2.5", "1"}, {"-7 % 2", "-1"}, {"7 % \"2.9\"", "1"}, {"7 % \"1e0\"", "0"},
	{"0.5 % 3", "0"}, {"0 % 1", "0"}, {"7 % (0.5 + 0.5)", "0"}, {"7 % true", "0"}, {"9 % 5 % 3", "1"}, {"7 % \"-1.0\"", "0"}, {"7 / 0.5", "14"}, {"1 / 0.25 % 3", "1"},
}

// c11GenModDocument: the divisor comes out of the input document. Two records: in the first
// every field is a harmless divisor, in the second the same fields are fractions in (-1, 1)
// (numbers, numeric strings, nested), so the run must print everything of the first record and
// stop inside the second.
func c11GenModDocument(emit func(Case)) {
	doc := `[{"h": 2, "n": -3, "s": "3", "e": "4e0", "a": [4, {"d": 5}], "z": 1}, {"h": 0.5, "n": -0.25, "s": "0.5", "e": "1e-300", "a": [1e-300, {"d": 0.125}], "z": 0.0}]`
	files := []File{{Name: "in.json", Data: []byte(doc)}}
	fields := []struct{ name, expr, sel string }{
		{"number field", "$.h", "$[1].h"}, {"negative number field", "$.n", "$[1].n"}, {"string field", "$.s", "$[1].s"}, {"exponent string field", "$.e", "$[1].e"},
		{"array element", "$.a[0]", "$[1].a[0]"}, {"nested member", "$.a[1].d", "$[1].a[1].d"}, {"index by name", "$[\"h\"]", "$[1][\"h\"]"}, {"zero with fraction digits", "$.z", "$[1].z"},
		{"field through num()", "num($.s)", "num($[1].s)"}, {"field difference", "($.h - $.z + 0)", "($[1].h - 0.25)"},
	}
	forms := []struct{ name, form string }{{"7 % F", "(7 % F)"}, {"field % F", "($.h % F)"}, {"stored", "(dv = 7 % F)"}, {"x = x % F", "(dx = (dx = 9) % F)"}, {"inside a product", "(2 * (7 % F) + 1)"}}
	poss := []struct{ name, prog, want string }{
		{"document/rule-body", "{ print \"B\", $index; r = §; print \"A\", $index }\nEND { print \"E\" }", "B 0\nA 0\nB 1\n"},
		{"document/rule-pattern", "§ > -9 { print \"P\", $index }\n{ print \"b\", $index }\nEND { print \"E\" }", "P 0\nb 0\n"},
		{"document/print-argument", "{ print \"B\", $index; print \"v\", § > -9; print \"A\" }", "B 0\nv true\nA\nB 1\n"},
		{"document/function-called-from-rule", "function fd() { print \"F\"; return § }\n{ print \"B\", $index; r = fd(); print \"A\", $index }", "B 0\nF\nA 0\nB 1\nF\n"},
		{"document/condition", "{ print \"B\", $index; if (§ < 99) { print \"T\" } else { print \"N\" } }\nENDFILE { print \"EF\" }", "B 0\nT\nB 1\n"},
		{"document/array-literal-element", "{ print \"B\", $index; r = [side(\"S\"), §, side(\"A9\")]; print \"A\" }", "B 0\nS\nA9\nA\nB 1\nS\n"},
		{"document/loop-over-the-fields", "{ print \"B\", $index; for (k, v in $) { if (v is number) { print k; r = 7 % v } } }", "B 0\nh\nn\nz\nB 1\nh\n"},
	}
	for _, ps := range poss {
		// fault-free control: the first record alone
		{
			prog := c11Prelude + strings.ReplaceAll(ps.prog, "§", "(7 % $.h)")
			want := ps.want
			emit(Case{Req: RunReq(prog, nil, []File{{Name: "in.json", Data: []byte(doc[:strings.Index(doc, ", {\"h\": 0.5")] + "]")}}, false), Fields: c11Fields,
				Meta: metaProg(prog, "position", ps.name, "fault-kind", "(none: only the record with harmless divisors)", "row", "(harmless control)", "col", ps.name),
				Oracle: func(i Resp) string {
					if i["class"] != "ok" || !strings.HasPrefix(string(i.Bytes("out")), strings.TrimSuffix(want, "B 1\n")[:4]) {
						return fmt.Sprintf("generator: the fault-free control of position %s must succeed, got %s", ps.name, i.String())
					}
					return ""
				}})
		}
		for fi, fd := range fields {
			for mi, fm := range forms {
				if ps.name == "document/loop-over-the-fields" && (fi > 0 || mi > 0) {
					continue
				}
				if mi != 0 && (fi+mi)%3 != 0 {
					continue
				}
				e := strings.ReplaceAll(fm.form, "F", fd.expr)
				k := c11Kind{name: "mod-by-fraction/document " + fd.name + " in " + fm.name}
				c := c11FaultCase(c11Pos{name: ps.name, want: ps.want}, k, e, "")
				prog := c11Prelude + strings.ReplaceAll(ps.prog, "§", e)
				c.Req = RunReq(prog, nil, files, false)
				c.Meta = metaProg(prog, "fault-kind", k.name, "fault-expression", e, "position", ps.name, "expected-output", ps.want, "input", doc, "row", k.name, "col", ps.name)
				emit(c)
			}
		}
	}
	// in a -r selector ($ is the whole document there) and in END through a saved record
	selProg := "BEGIN { print \"B1\" }\n{ print \"A1\", $ }\nEND { print \"A2\" }"
	for _, fd := range fields {
		for _, sel := range []string{"(7 % " + fd.sel + ")", "[$[0].h, 7 % " + fd.sel + "]", "match ($) { _ => { print \"B2\"; dq = 9 % " + fd.sel + "; print \"A3\" } }"} {
			k := c11Kind{name: "mod-by-fraction/document " + fd.name + " in a selector"}
			want := "B1\n"
			if strings.HasPrefix(sel, "match") {
				want = "B1\nB2\n"
			}
			c := c11FaultCase(c11Pos{name: "document/selector", want: want}, k, sel, "")
			c.Req = RunReq(selProg, []string{sel}, files, false)
			c.Meta = metaProg(selProg, "selectors", sel, "fault-kind", k.name, "position", "document/selector", "expected-output", want, "input", doc, "row", k.name, "col", "document/selector")
			emit(c)
		}
		e := strings.ReplaceAll(fd.expr, "$", "last")
		prog := "{ last = $ }\nEND { print \"E1\"; r = 7 % " + e + "; print \"A1\" }\nEND { print \"A2\" }"
		k := c11Kind{name: "mod-by-fraction/document " + fd.name + " saved for END"}
		c := c11FaultCase(c11Pos{name: "document/END-saved-record", want: "E1\n"}, k, e, "")
		c.Req = RunReq(prog, nil, files, false)
		c.Meta = metaProg(prog, "fault-kind", k.name, "position", "document/END-saved-record", "expected-output", "E1\n", "input", doc, "row", k.name, "col", "document/END-saved-record")
		emit(c)
	}
}

func c11GenFaults(r *rand.Rand, tier string, emit func(Case)) {
	ps := c11Positions()
	for _, p := range ps {
		// the fault-free control validates the expectation written into the position
		h := p.harmless
		if h == "" {
			h = "(7)"
		}
		req, prog, sels := p.request(h)
		want := p.want
		meta := metaProg(prog, "position", p.name, "fault-kind", "(none: harmless "+h+")", "row", "(harmless control)", "col", p.name)
		if sels != nil {
			meta["selectors"] = strings.Join(sels, "  ||  ")
		}
		emit(Case{Req: req, Fields: c11Fields, Meta: meta,
			Oracle: func(i Resp) string {
				if i["class"] != "ok" || !strings.HasPrefix(string(i.Bytes("out")), want) {
					return fmt.Sprintf("generator: the fault-free control of position %s must succeed with output starting %q, got %s", p.name, want, i.String())
				}
				return ""
			}})
		for _, k := range c11Kinds {
			if p.sels != nil && !k.self {
				continue
			}
			if k.slow && tier == "quick" && !chance(r, 0.25) {
				continue
			}
			emit(c11FaultCase(p, k, k.expr, ""))
		}
	}
	// stores into what cannot hold a value: every kind in a plain statement and as an operand, and at
	// a sample of the other positions (thorough: at every position)
	for _, k := range c11StoreKinds() {
		for _, p := range ps {
			if p.sels != nil && !k.self {
				continue
			}
			if tier != "thorough" && p.name != "statement/BEGIN" && p.name != "operand/assign-rhs" && !chance(r, 0.05) {
				continue
			}
			emit(c11FaultCase(p, k, k.expr, ""))
		}
	}
	// invalid regexes of every error kind: each in a plain statement, as the right operand of ~ in a
	// pattern and in a selector, and at a sample of the other positions (thorough: at every position)
	regexKinds := c11RegexKinds()
	for _, k := range regexKinds {
		for _, p := range ps {
			if tier != "thorough" && p.name != "statement/BEGIN" && p.name != "pattern/operand" && p.name != "selector/whole" && p.name != "function/return-value" && !chance(r, 0.04) {
				continue
			}
			emit(c11FaultCase(p, k, k.expr, ""))
		}
	}
	// $index / $file before any input: only meaningful in BEGIN
	for _, k := range []c11Kind{{"dollar-index-in-BEGIN", "($index)", true, false}, {"dollar-file-in-BEGIN", "($file)", true, false}} {
		for _, p := range ps {
			if strings.HasPrefix(p.prog, "BEGIN { print \"B1\"; ") && p.sels == nil {
				emit(c11FaultCase(p, k, k.expr, ""))
			}
		}
	}
	// the pattern of a match case is only evaluated when it is a literal
	lit := func(name, s, want string, expectFault bool) {
		prog := c11Prelude + "BEGIN { print \"B1\"; " + s + "\nprint \"A1\" }"
		meta := metaProg(prog, "position", name, "row", "bad-escape", "col", name)
		if expectFault {
			p := c11Pos{name: name, want: want}
			c := c11FaultCase(p, c11Kind{name: "bad-escape"}, "", "")
			c.Req, c.Meta = RunReq(prog, nil, c11Input, false), meta
			emit(c)
		} else {
			emit(Case{Req: RunReq(prog, nil, c11Input, false), Fields: c11Fields, Meta: meta, Oracle: func(i Resp) string {
				if i["class"] != "ok" || string(i.Bytes("out")) != want {
					return fmt.Sprintf("C11: position %s is not evaluated, expected success with %q, got %s", name, want, i.String())
				}
				return ""
			}})
		}
	}
	lit("match/case-pattern-literal", "r = match (\"x\") { \"\\q\" => 1, _ => 2 }", "B1\n", true)
	lit("match/case-pattern-second-alternative", "r = match (\"x\") { \"y\", \"\\q\" => 1, _ => 2 }", "B1\n", true)
	lit("match/case-pattern-in-array-pattern", "r = match ([\"x\"]) { [\"\\q\"] => 1, _ => 2 }", "B1\n", true)
	lit("match/case-pattern-second-case", "r = match (\"x\") { \"y\" => 1, \"a\\\" => 2 }", "B1\n", true)
	lit("match/case-pattern-after-matching-alternative (not evaluated)", "r = match (\"x\") { \"x\", \"\\q\" => 1, _ => 2 }\nprint r", "B1\n1\nA1\n", false)
	lit("match/case-pattern-after-matching-case (not evaluated)", "r = match (\"x\") { \"x\" => 1, \"\\q\" => 2 }\nprint r", "B1\n1\nA1\n", false)
	lit("match/case-pattern-array-length-differs (not evaluated)", "r = match ([1, 2]) { [\"\\q\"] => 1, _ => 2 }\nprint r", "B1\n2\nA1\n", false)
	lit("match/case-pattern-unset-subject (literal still evaluated)", "r = match (unsetvar) { \"\\q\" => 1, _ => 2 }", "B1\n", true)

	// % with a divisor whose integer part is zero: every kind in a plain statement, as an operand, in
	// a pattern, in a function and in a selector, and at a sample of the other positions (thorough: at
	// every position); the divisors that live in program globals get their prelude
	modKinds := c11ModKinds()
	for _, k := range modKinds {
		for _, p := range ps {
			if p.sels != nil && !k.self {
				continue
			}
			if tier != "thorough" && p.name != "statement/BEGIN" && p.name != "operand/assign-rhs" && p.name != "pattern/operand" && p.name != "selector/whole" && p.name != "function/return-value" && p.name != "statement/rule-body-second-element" && !chance(r, 0.04) {
				continue
			}
			q := p
			if !k.self {
				q.prog = c11ModPrelude + p.prog
			}
			emit(c11FaultCase(q, k, k.expr, ""))
		}
	}
	c11GenModDocument(emit)
	for _, mc := range c11ModControls {
		prog := c11Prelude + "BEGIN { print \"B1\"; print " + mc[0] + "; print \"A1\" }"
		want := "B1\n" + mc[1] + "\nA1\n"
		emit(Case{Req: RunReq(prog, nil, c11Input, false), Fields: c11Fields, Meta: metaProg(prog, "position", "statement/BEGIN", "row", "(not a fault: integer part of the divisor is not zero)", "col", "statement/BEGIN"),
			Oracle: func(i Resp) string {
				if i["class"] != "ok" || string(i.Bytes("out")) != want {
					return fmt.Sprintf("C11: `%s` is not a fault (the integer part of the divisor is not zero): expected success with %q, got %s", mc[0], want, i.String())
				}
				return ""
			}})
	}

	// random deeper nesting of the fault inside expressions
	n := tierN(tier, 1500, 150000)
	stores := c11StoreKinds()
	for i := 0; i < n; i++ {
		p, k := pick(r, ps), pick(r, c11Kinds)
		if chance(r, 0.35) {
			k = pick(r, stores)
		} else if chance(r, 0.25) {
			k = pick(r, regexKinds)
		} else if chance(r, 0.15) {
			k = pick(r, modKinds)
			for !k.self {
				k = pick(r, modKinds)
			}
		}
		if p.sels != nil && !k.self || k.slow && !chance(r, 0.1) {
			continue
		}
		e := k.expr
		var names []string
		for d := 1 + r.Intn(3); d > 0; d-- {
			t := pick(r, c11Nest)
			if p.sels != nil && strings.Contains(t, "g(") {
				continue
			}
			e = strings.ReplaceAll(t, "§", e)
			names = append(names, t)
		}
		emit(c11FaultCase(p, k, e, strings.Join(names, " <- ")))
	}
}

// positions where the expression is not evaluated at all
func c11GenUnevaluated(r *rand.Rand, tier string, emit func(Case)) {
	type up struct {
		name, prog string
		files      []File
	}
	ups := []up{
		{"and-after-false", "BEGIN { print \"B1\"; r = 0 && §; print \"A1\", r }", nil},
		{"or-after-true", "BEGIN { print \"B1\"; r = 1 || §; print \"A1\", r }", nil},
		{"or-after-call", "BEGIN { print \"B1\"; r = f() || §; print \"A1\", r }", nil},
		{"and-chain", "BEGIN { print \"B1\"; r = 1 && 0 && §; print \"A1\", r }", nil},
		{"if-false-body", "BEGIN { print \"B1\"; if (0) { § }\nprint \"A1\" }", nil},
		{"else-not-taken", "BEGIN { print \"B1\"; if (1) { print \"B2\" } else { § }\nprint \"A1\" }", nil},
		{"while-false-body", "BEGIN { print \"B1\"; while (0) { § }\nprint \"A1\" }", nil},
		{"for-false-body-and-post", "BEGIN { print \"B1\"; for (i = 0; i < 0; §) { § }\nprint \"A1\" }", nil},
		{"for-in-empty-body", "BEGIN { print \"B1\"; for (x in []) { § }\nprint \"A1\" }", nil},
		{"after-break", "BEGIN { print \"B1\"; for (x in [1, 2]) { print x; break; § }\nprint \"A1\" }", nil},
		{"after-continue", "BEGIN { print \"B1\"; for (x in [1, 2]) { print x; continue; § }\nprint \"A1\" }", nil},
		{"after-return", "function fz() { print \"B2\"; return 3; § }\nBEGIN { print \"B1\"; print fz(); print \"A1\" }", nil},
		{"after-next", "{ print \"B\", $; next; § }\nEND { print \"A1\" }", nil},
		{"after-exit", "BEGIN { print \"B1\"; exit; § }\nEND { § }", nil},
		{"untaken-match-case", "BEGIN { print \"B1\"; r = match (1) { 2 => §, _ => 3 }\nprint \"A1\", r }", nil},
		{"match-case-after-taken", "BEGIN { print \"B1\"; r = match (1) { 1 => 4, _ => § }\nprint \"A1\", r }", nil},
		{"function-never-called", "function never() { § }\nBEGIN { print \"B1\" }\n{ print \"A1\", $ }", nil},
		{"pattern-false-body", "0 { § }\n{ print \"A1\", $ }", nil},
		{"rule-after-next", "{ print \"B\", $; next }\n§ { print \"no\" }\nEND { print \"A1\" }", nil},
		{"rule-without-input", "BEGIN { print \"B1\" }\n§ { § }\nEND { print \"A1\" }", []File{}},
		{"rule-with-empty-array", "BEGIN { print \"B1\" }\n§ { § }\nEND { print \"A1\" }", []File{{Name: "e.json", Data: []byte("[]")}}},
		{"ENDFILE-without-values", "BEGINFILE { § }\nENDFILE { § }\nEND { print \"A1\" }", []File{{Name: "e.json", Data: []byte(" ")}}},
	}
	for _, u := range ups {
		files := u.files
		if files == nil {
			files = c11Input
		}
		if len(files) == 0 {
			files = nil
		}
		exprs := []c11Kind{{name: "(harmless control)", expr: "(7)"}}
		exprs = append(exprs, c11Kinds...)
		for _, k := range exprs {
			prog := c11Prelude + strings.ReplaceAll(u.prog, "§", k.expr)
			emit(Case{Req: RunReq(prog, nil, files, false), Fields: c11Fields, Group: "unevaluated/" + u.name, GroupFields: []string{"class", "out"},
				Meta: metaProg(prog, "fault-kind", k.name, "position", u.name+" (not evaluated)", "row", k.name, "col", u.name),
				Oracle: func(i Resp) string {
					if i["class"] != "ok" {
						return fmt.Sprintf("C11: %s sits where it is never evaluated (%s) but the run ended with class %s", k.name, u.name, i["class"])
					}
					return ""
				}})
		}
	}
}

func init() {
	register(Family{Name: "syntax-splice", Prop: "C11",
		Rule: "6 valid multi-rule programs that print in BEGIN, per element and in END; one of 30 fragments that is a syntax error in every context (illegal character, lone quote, each unbalanced bracket, `* *`, `== ==`, stray => and :, assignment/++/-- on literal, call, unary, sum, string, match, array; return outside function bodies, break/continue outside loop bodies - also in loop headers via match blocks) spliced at every token boundary, plus operands deleted before a closing token, plus the fragments inside -r selectors. Oracle: class syntax, output empty (selectors: exactly BEGIN's output), illegal character reported at its own line/col. Non-trivial = rejected.",
		Gen:  c11GenSplice})
	register(Family{Name: "fault-injection", Prop: "C11",
		Rule: "76 kinds of runtime fault (+ $index/$file in BEGIN) + 605 kinds of failing store (55 targets that cannot hold a value -- an index of a string inside and outside the string incl. == length, negative, fractional, non-numeric, the empty string, strings in variables / temporaries / object members / array elements; members and indices of numbers and booleans; method values of arrays, strings and numbers -- x 11 store forms = op= ++ -- prefix and postfix; quick: in a statement, as an operand and at a 5% sample of the other positions) (division, calls of non-functions, invalid regex, ~ with a non-string, container comparison, non-iterables, member/index stores on scalars, ++ on such, 10 printf faults, unknown $name, bad escapes, index before start, copying function/native/method values, bad index kinds, array .length/string-key/huge-index stores, call depth, match pattern faults, native argument faults, circular json) x 133 evaluated positions + 8 match-pattern-literal positions (statements in every rule kind / element / file / value, rule patterns, both operands of every operator, assignment sides, calls, literals, if/while/for clauses incl. initialiser and post, for-in iterable and bodies, match subject/bodies/pattern literals, print arguments, function bodies/returns/nesting, -r selectors) + random deeper expression nesting; each position has a fault-free control. Oracle: class runtime and output exactly the text printed before the fault. Matrix kind x position in the result file. Non-trivial = runtime error.",
		Gen:  c11GenFaults})
	register(Family{Name: "fault-unevaluated", Prop: "C11",
		Rule: "the same fault expressions at 22 positions that are never evaluated (short-circuit, untaken branches/cases, bodies of loops that do not run, code after break/continue/return/next/exit, uncalled functions, rules without input): class ok and the output equals the harmless control's (group).",
		Gen:  c11GenUnevaluated})
}

// ---------------------------------------------------------------------------
// family: regex-error-kinds
//
// Every pattern of c11RegexPatterns as the right operand of ~ / !~ in a program that prints
// before, around and after the match, written as a regex literal, a string, a variable, a
// function argument, a run-time concatenation, a document field and in a rule pattern; the match
// is first evaluated for the SECOND record.  Oracle: Go's regexp.Compile on the very pattern:
// an error means the run stops there with a runtime error (output so far kept, nothing after);
// otherwise the run completes and the match result is what regexp.MatchString gives.

func c11GenRegexKinds(r *rand.Rand, tier string, emit func(Case)) {
	forms := []string{"literal", "string", "variable", "argument", "concat", "doc-field", "rule-pattern", "negated", "begin-literal", "begin-string"}
	for _, pat := range c11RegexPatterns {
		re, cerr := regexp.Compile(pat)
		str, lit := c11PatLits(pat)
		row := "valid"
		if cerr != nil {
			row = c11RegexErrClass(cerr)
		}
		plain := strings.ToValidUTF8(strings.NewReplacer("\\", "", "\"", "").Replace(pat), "")
		for _, mood := range []string{"happy " + plain, "plain text ab", plain} {
			for _, form := range forms {
				if mood == "" || tier != "thorough" && mood != "happy "+plain && !chance(r, 0.35) {
					continue // (an empty mood is falsy: the match would not be evaluated for it)
				}
				operand, neg := "", false
				head := "function m(s, p) { return s ~ p }\n"
				begin := "BEGIN { print \"start\" }\n"
				var test string
				switch form {
				case "literal", "rule-pattern", "begin-literal":
					operand = lit
				case "doc-field":
					if !strings.ContainsAny(pat, "\"") && strings.ToValidUTF8(pat, "") == pat {
						operand = "$.pat"
					}
				default:
					operand = str
				}
				if operand == "" {
					continue
				}
				switch form {
				case "literal", "string", "doc-field":
					test = "$.mood ~ " + operand
				case "negated":
					test, neg = "$.mood !~ "+operand, true
				case "variable":
					begin = "BEGIN { print \"start\"; pv = " + operand + " }\n"
					test = "$.mood ~ pv"
				case "argument":
					test = "m($.mood, " + operand + ")"
				case "concat":
					h := r.Intn(len(pat) + 1)
					a, _ := c11PatLits(pat[:h])
					b, _ := c11PatLits(pat[h:])
					if a == "" || b == "" {
						continue
					}
					test = "$.mood ~ (" + a + " + " + b + ")"
				}
				doc := fmt.Sprintf(`[{"name": "a"}, {"name": "b", "mood": %s, "pat": %s}, {"name": "c", "mood": "other", "pat": "o"}]`, jsonString(mood), jsonString(strings.ToValidUTF8(pat, "")))
				var prog, want string
				wantClass := "ok"
				hit := func(subject string) bool {
					m := re.MatchString(subject)
					if neg {
						m = !m
					}
					return m
				}
				switch form {
				case "begin-literal", "begin-string":
					prog = fmt.Sprintf("BEGIN { print \"pre\"; r = %s ~ %s; print r; print \"post\" }\nEND { print \"end\" }\n", "\""+mood+"\"", operand)
					if cerr != nil {
						want, wantClass = "pre\n", "runtime"
					} else {
						want = fmt.Sprintf("pre\n%v\npost\nend\n", hit(mood))
					}
				case "rule-pattern":
					prog = begin + "{ print \"rec\", $.name }\n$.mood && $.mood ~ " + operand + " { print \"hit\", $.name }\n{ print \"done\", $.name }\nEND { print \"end\" }\n"
				default:
					prog = head + begin + "{ print \"rec\", $.name; if ($.mood && " + test + ") { print \"hit\", $.name }\n print \"done\", $.name }\nEND { print \"end\" }\n"
				}
				if want == "" {
					want = "start\nrec a\ndone a\nrec b\n"
					if cerr != nil {
						wantClass = "runtime"
					} else {
						if hit(mood) {
							want += "hit b\n"
						}
						want += "done b\nrec c\n"
						cpat := pat
						if form == "doc-field" {
							cpat = "o"
						}
						if m := regexp.MustCompile(cpat).MatchString("other"); m != neg {
							want += "hit c\n"
						}
						want += "done c\nend\n"
					}
				}
				wc, wo := wantClass, want
				emit(Case{Req: RunReq(prog, nil, []File{{Name: "in.json", Data: []byte(doc)}}, false), Fields: c11Fields,
					NonTrivial: func(i Resp) bool { return i["class"] == "runtime" || i["class"] == "ok" },
					Meta:       metaProg(prog, "pattern", strconv.QuoteToASCII(pat), "regexp.Compile", row, "form", form, "subject", mood, "input", doc, "row", row, "col", form),
					Oracle: func(i Resp) string {
						if i["class"] != wc || string(i.Bytes("out")) != wo {
							return fmt.Sprintf("C11: Go's regexp.Compile on the pattern %s says %s: expected class %s and output %q, got class %s and output %q", strconv.QuoteToASCII(pat), row, wc, wo, i["class"], i.Bytes("out"))
						}
						return ""
					}})
			}
		}
	}
}

// ---------------------------------------------------------------------------
// family: dollar-binding
//
// $-prefixed names in binding positions that DO bind them (function parameters, identifiers of
// match patterns) and in those that must not create them (for-in variables, stores), in one
// program with output before and after: where the name is bound the run goes on and the name is
// unknown again afterwards; everywhere else the run stops with a runtime error.

func c11GenDollarBinding(r *rand.Rand, tier string, emit func(Case)) {
	type tp struct {
		name, prog, want, class string
	}
	names := []string{"$x", "$tag", "$nosuch", "$Index", "$indexes", "$file2", "$_", "$a1", "$FILE"}
	for _, n := range names {
		n2 := n + "q"
		ts := []tp{
			{"parameter", "function f(N) { print \"in\", N; return N + 1 }\n{ print \"rec\", $; print f($) }\nEND { print \"end\" }", "rec 1\nin 1\n2\nrec 2\nin 2\n3\nend\n", "ok"},
			{"parameter-then-unknown", "function f(N) { return N + 1 }\n{ print \"rec\", $; print f($); print N; print \"after\" }", "rec 1\n2\n", "runtime"},
			{"parameter-missing-argument", "function f(a, N) { print \"in\", N; N = 5; return N }\nBEGIN { print \"pre\"; print f(1); print \"post\" }", "pre\nin null\n5\npost\n", "ok"},
			{"parameter-assigned-inside", "function f(N) { N = N + 10; N++; return N }\nBEGIN { print \"pre\"; print f(1); print \"post\" }", "pre\n12\npost\n", "ok"},
			{"parameter-forin-inside", "function f(N) { for (N in [7, 8]) print \"it\", N\n return N }\nBEGIN { print \"pre\"; print f(1); print \"post\" }", "pre\nit 7\nit 8\n8\npost\n", "ok"},
			{"parameter-visible-in-callee", "function g() { return N * 2 }\nfunction f(N) { return g() }\nBEGIN { print \"pre\"; print f(4); print g(); print \"post\" }", "pre\n8\n", "runtime"},
			{"match-identifier", "{ print \"rec\", $; print match ($) { N => N + 1 }\n print \"after\" }", "rec 1\n2\nafter\nrec 2\n3\nafter\n", "ok"},
			{"match-identifier-then-unknown", "{ print \"rec\", $; print match ($) { N => N + 1 }\n print N; print \"after\" }", "rec 1\n2\n", "runtime"},
			{"match-array-pattern", "BEGIN { print \"pre\"; print match ([1, 2]) { [N, M] => N + M }\n print \"post\" }", "pre\n3\npost\n", "ok"},
			{"match-block-body-store", "BEGIN { print \"pre\"; match (1) { N => { N = N + 5; print N } }\n print \"post\" }", "pre\n6\npost\n", "ok"},
			{"forin-variable", "BEGIN { print \"start\" }\n{ print \"rec\", $.name; if ($.tags is array) { for (N, M in $.tags) { print \" tag\", M, N } }\n print \"done\", $.name }\nEND { print \"end\" }", "start\nrec a\ndone a\nrec b\n", "runtime"},
			{"forin-index", "BEGIN { print \"start\" }\n{ print \"rec\", $.name; if ($.tags is array) { for (t, M in $.tags) { print \" tag\", M, t } }\n print \"done\", $.name }\nEND { print \"end\" }", "start\nrec a\ndone a\nrec b\n", "runtime"},
			{"forin-variable-not-reached", "BEGIN { print \"start\" }\n{ print \"rec\", $.name; if ($.nothing is array) { for (N in $.tags) { print \" tag\", N } }\n print \"done\", $.name }\nEND { print \"end\" }", "start\nrec a\ndone a\nrec b\ndone b\nrec c\ndone c\nend\n", "ok"},
			{"forin-variable-in-function", "function f(a) { for (N in a) print \"it\", N\n return 1 }\nBEGIN { print \"pre\"; f([]); print \"post\" }", "pre\n", "runtime"},
			{"forin-variable-twice", "BEGIN { print \"pre\"; for (i = 0; i < 2; i++) { print i; if (i == 1) { for (N in [1]) print \"in\" } }\n print \"post\" }", "pre\n0\n1\n", "runtime"},
			{"assign-then-read", "BEGIN { print \"pre\"; N = 1; print \"post\", N }", "pre\n", "runtime"},
			{"incr-in-pattern", "BEGIN { print \"pre\" }\nN++ > 0 { print \"body\" }\nEND { print \"end\" }", "pre\n", "runtime"},
		}
		for _, t := range ts {
			prog := strings.ReplaceAll(strings.ReplaceAll(t.prog, "N", n), "M", n2)
			prog = strings.ReplaceAll(prog, "E"+n+"D", "END") // the template's END / BEGIN keywords contain N
			prog = strings.ReplaceAll(prog, "BEGI"+n, "BEGIN")
			doc := `[1, 2]`
			if strings.Contains(prog, "$.name") {
				doc = `[{"name": "a"}, {"name": "b", "tags": ["x", "y"]}, {"name": "c"}]`
			}
			wc, wo := t.class, t.want
			emit(Case{Req: RunReq(prog, nil, []File{{Name: "in.json", Data: []byte(doc)}}, false), Fields: c11Fields,
				NonTrivial: func(i Resp) bool { return i["class"] == "runtime" || i["class"] == "ok" },
				Meta:       metaProg(prog, "name", n, "position", t.name, "input", doc, "row", t.name, "col", n),
				Oracle: func(i Resp) string {
					if i["class"] != wc || string(i.Bytes("out")) != wo {
						return fmt.Sprintf("C11: $-name %s as %s: expected class %s and output %q (a $-name is bound only by a parameter list or a match pattern, for that call / case; it is never created implicitly), got class %s and output %q", n, t.name, wc, wo, i["class"], i.Bytes("out"))
					}
					return ""
				}})
		}
	}
}

// ---------------------------------------------------------------------------
// family: fault-output-through-binary
//
// Output printed before a fault is kept -- also by the real binary, whose stdout is a pipe:
// programs that print a little, a lot (more than 64 KiB, and exactly 65535 / 65536 / 65537
// bytes) with and without a trailing newline, then hit a runtime fault, a JSON error in the
// input, a fault or a syntax error in a -r selector, in the first JSON value, in the same value
// as earlier output and in a later one.  The same request goes to the in-process evaluator
// (`run`) and to the binary (`cli`): stdout must be the same bytes, equal to the expectation
// computed here, and to the model's.

func c11GenFaultBinary(r *rand.Rand, tier string, emit func(Case)) {
	// quotients 12 / (2 - v) for the values used are integers
	quot := map[int]string{5: "-4", 1: "12", 3: "-12", 0: "6", -1: "4", 4: "-6", 8: "-2", 14: "-1", -2: "3", -4: "2", -10: "1"}
	var vals []int
	for v := range quot {
		vals = append(vals, v)
	}
	sortInts(vals)
	type amount struct {
		name, stmt, out string
	}
	line := "0123456789abcdefghijklmnopqrstuvwxyzABCDEFGHIJKLMNOPQRSTUVWXYZ.,"
	fill := func(n int) amount { // exactly n bytes, no newline anywhere
		// s doubles up to 1024 bytes; n = q * 1024 + rest
		q, rest := n/1024, n%1024
		st := fmt.Sprintf("s = \"%s\"; while (s.length() < 1024) s = s + s\n for (i = 0; i < %d; i++) printf(\"%%s\", s)\n", line[:64], q)
		out := strings.Repeat(strings.Repeat(line[:64], 16), q)
		if rest > 0 {
			st += fmt.Sprintf(" printf(\"%%s\", \"%s\")\n", strings.Repeat("y", rest))
			out += strings.Repeat("y", rest)
		}
		return amount{fmt.Sprintf("exactly-%d-bytes-no-newline", n), st, out}
	}
	amounts := []amount{
		{"nothing", "", ""},
		{"one-line", "print \"burst\"\n", "burst\n"},
		{"no-trailing-newline", "printf(\"burst\")\n", "burst"},
		{"lines-then-partial-line", "print \"b1\"; print \"b2\"; printf(\"%v;\", 3)\n", "b1\nb2\n3;"},
		{"70-KiB-of-lines", "for (i = 0; i < 1100; i++) print \"" + line + "\"\n", strings.Repeat(line+"\n", 1100)},
		{"200-KiB-then-partial-line", "for (i = 0; i < 3200; i++) print \"" + line + "\"\n printf(\"tail\")\n", strings.Repeat(line+"\n", 3200) + "tail"},
		fill(65535), fill(65536), fill(65537), fill(4096), fill(131072),
	}
	type fault struct {
		name  string
		sels  []string
		input string // the JSON text; FV marks where the faulting record's value goes
		class string
		// how the run goes: the values (arrays of records) processed, the index of the record at which it stops
		values [][]int
	}
	n := tierN(tier, 2, 8)
	for _, am := range amounts {
		for rep := 0; rep < n; rep++ {
			// 1-3 values of 1-3 records; the run stops in value fv at record fr
			nv := 1 + r.Intn(3)
			values := make([][]int, nv)
			for i := range values {
				values[i] = make([]int, 1+r.Intn(3))
				for j := range values[i] {
					values[i][j] = pick(r, vals)
				}
			}
			fv := r.Intn(nv)
			if rep%2 == 1 {
				fv = nv - 1
			}
			fr := r.Intn(len(values[fv]))
			for _, fk := range []string{"runtime-divide", "runtime-regex", "runtime-unknown-dollar", "json-malformed", "json-truncated", "selector-runtime", "selector-syntax", "runtime-in-END", "runtime-in-BEGIN", "none"} {
				if tier != "thorough" && am.name != "one-line" && am.name != "no-trailing-newline" && !chance(r, 0.5) {
					continue
				}
				render := func(vs [][]int, bad string) string {
					var sb strings.Builder
					for i, v := range vs {
						parts := make([]string, len(v))
						for j, x := range v {
							parts[j] = fmt.Sprint(x)
						}
						sb.WriteString("[" + strings.Join(parts, ", ") + "]")
						if i < len(vs)-1 || bad != "" {
							sb.WriteString("\n")
						}
					}
					sb.WriteString(bad)
					return sb.String()
				}
				prePrint, preOut := "print \"start\"", "start\n"
				if rep%3 == 2 {
					prePrint, preOut = "printf(\"start;\")", "start;"
				}
				faultStmt := "x = 12 / (2 - $)"
				var sels []string
				wantClass, wantExit := "runtime", "1"
				vs := make([][]int, nv)
				for i := range vs {
					vs[i] = append([]int{}, values[i]...)
				}
				input := ""
				stopV, stopR := fv, fr // the record at which the run stops (after "rec" and the burst)
				stopBefore := false    // the run stops before anything of value stopV is processed
				switch fk {
				case "runtime-divide":
					vs[fv][fr] = 2
				case "runtime-regex":
					vs[fv][fr] = 2
					faultStmt = "if ($ == 2) { x = \"a\" ~ \"a)\" } else x = 12 / (2 - $)"
				case "runtime-unknown-dollar":
					vs[fv][fr] = 2
					faultStmt = "if ($ == 2) { for ($t in [1]) { } } else x = 12 / (2 - $)"
				case "json-malformed":
					input = render(vs[:fv], pick(r, []string{"[4, }", "{\"a\" 1}", "[1, 2", "nul", "]", "\"abc"}))
					wantClass, stopBefore = "json", true
				case "json-truncated":
					input = render(vs[:fv], "[1, 2, ")
					wantClass, stopBefore = "json", true
				case "selector-runtime":
					// the selector fails for the value whose first record is 2
					vs[fv][0] = 2
					sels = []string{"match ($[0]) { 2 => 1 / 0, _ => $ }"}
					stopBefore = true
				case "selector-syntax":
					sels = []string{pick(r, []string{"$ +", "$[", "(", "$ $", "1 = 2"})}
					wantClass, stopBefore, stopV = "syntax", true, 0
				case "runtime-in-END", "runtime-in-BEGIN", "none":
					stopV = -1
				}
				for i := range vs { // no accidental fault elsewhere
					for j := range vs[i] {
						if vs[i][j] == 2 && !(i == fv && (j == fr || fk == "selector-runtime" && j == 0)) || (fk == "runtime-in-END" || fk == "runtime-in-BEGIN" || fk == "none" || strings.HasPrefix(fk, "json") || fk == "selector-syntax") && vs[i][j] == 2 {
							vs[i][j] = 5
						}
					}
				}
				if fk == "selector-runtime" {
					for i := 0; i < fv; i++ {
						if vs[i][0] == 2 {
							vs[i][0] = 5
						}
					}
					for j := 1; j < len(vs[fv]); j++ {
						if vs[fv][j] == 2 {
							vs[fv][j] = 5
						}
					}
				}
				if input == "" {
					input = render(vs, "")
					if chance(r, 0.5) {
						input += "\n"
					}
				}
				beginBody, endBody := prePrint, "print \"end\""
				if fk == "runtime-in-BEGIN" {
					beginBody = prePrint + "\n " + am.stmt + " x = 1 / 0; print \"not reached\""
				}
				if fk == "runtime-in-END" {
					endBody = "print \"END\"\n " + am.stmt + " x = [] < 1; print \"not reached\""
				}
				prog := "BEGIN { " + beginBody + " }\n{ print \"rec\", $\n " + am.stmt + " " + faultStmt + "; print \"ok\", x }\nEND { " + endBody + " }\n"
				// the expected output
				var want strings.Builder
				want.WriteString(preOut)
				if fk == "runtime-in-BEGIN" {
					want.WriteString(am.out)
				} else if fk != "selector-syntax" {
				values:
					for i, v := range vs {
						if stopBefore && i == stopV {
							break
						}
						for j, x := range v {
							want.WriteString(fmt.Sprintf("rec %d\n", x))
							want.WriteString(am.out)
							if i == stopV && j == stopR && !stopBefore {
								break values
							}
							want.WriteString("ok " + quot[x] + "\n")
						}
					}
					if fk == "runtime-in-END" {
						want.WriteString("END\n" + am.out)
					}
					if fk == "none" {
						want.WriteString("end\n")
						wantClass, wantExit = "ok", "0"
					}
				}
				wo, wc, we := want.String(), wantClass, wantExit
				g := fmt.Sprintf("fob/%s/%s/%d", am.name, fk, rep)
				meta := func(via string) map[string]string {
					m := metaProg(prog, "amount", am.name, "fault", fk, "input", input, "through", via, "expected-output-bytes", fmt.Sprint(len(wo)), "row", fk, "col", am.name+" "+via)
					if sels != nil {
						m["selectors"] = strings.Join(sels, "  ||  ")
					}
					return m
				}
				emit(Case{Req: RunReq(prog, sels, []File{{Name: "in.json", Data: []byte(input)}}, false), Fields: []string{"class", "out"}, Group: g, Meta: meta("library (run)"),
					NonTrivial: func(i Resp) bool { return i["class"] == wc },
					Oracle: func(i Resp) string {
						if i["class"] != wc || string(i.Bytes("out")) != wo {
							return fmt.Sprintf("C11: expected class %s and exactly the %d bytes printed before the fault (…%q), got class %s and %d bytes (…%q)", wc, len(wo), c11Tail(wo), i["class"], len(i.Bytes("out")), c11Tail(string(i.Bytes("out"))))
						}
						return ""
					}})
				var argv []string
				for _, s := range sels {
					argv = append(argv, "-r", s)
				}
				argv = append(argv, prog, "in.json")
				emit(Case{Req: CliReq(argv, nil, false, []CliFile{{Name: "in.json", Data: []byte(input)}}, ""), Fields: []string{"exit", "out", "err"}, Group: g, GroupFields: []string{"out"}, Meta: meta("binary (cli)"),
					NonTrivial: func(i Resp) bool { return i["exit"] == we },
					Oracle: func(i Resp) string {
						if i["exit"] != we || (we == "1") != (i["err"] == "1") || string(i.Bytes("out")) != wo {
							return fmt.Sprintf("C11: the binary must exit %s (error message on stderr: %v) with exactly the %d bytes printed before the fault on stdout (…%q); got exit %s, stderr %q, %d bytes (…%q)", we, we == "1", len(wo), c11Tail(wo), i["exit"], i.Bytes("stderr"), len(i.Bytes("out")), c11Tail(string(i.Bytes("out"))))
						}
						return ""
					}})
			}
		}
	}
}

func c11Tail(s string) string {
	if len(s) > 60 {
		return s[len(s)-60:]
	}
	return s
}

func sortInts(a []int) {
	for i := 1; i < len(a); i++ {
		for j := i; j > 0 && a[j] < a[j-1]; j-- {
			a[j], a[j-1] = a[j-1], a[j]
		}
	}
}

func init() {
	register(Family{Name: "regex-error-kinds", Prop: "C11",
		Rule: "about 150 patterns whose only special construct sits among plain text, several per error kind of Go's regexp/syntax (missing `)`, unexpected `)` incl. the witness `:)`, missing `]`, invalid nested repetition `a**` `a+*`, missing repetition argument `*a` `+a` `?a`, invalid repeat count `x{2,1}` `a{1001}` and nested oversized repeats, invalid escape `\\8` `\\q`, trailing backslash, invalid / unsupported `(?z)` `(?=a)` `(?P<n` duplicate group names, invalid class range `[z-a]` `[[:foo:]]`, invalid UTF-8) plus valid look-alikes (`a]` `a}` `a{` `a{,2}` `a{2,1` `\\.` `[)]` `(:)` `a|` `()` ...), as regex literal, string, variable, function argument, run-time concatenation, document field, rule pattern, under !~, and in BEGIN; subjects that contain the pattern's own text; the match is first evaluated for the second of three records. Oracle (implementation only): regexp.Compile on the very pattern decides between a runtime error there (output so far kept, nothing after) and the regexp.MatchString result; compared with the model where its regex port answers.",
		Gen:  c11GenRegexKinds})
	register(Family{Name: "dollar-binding", Prop: "C11",
		Rule: "9 unknown $-names x 17 programs that put the name into a binding position: function parameter (bound for the call: used, assigned, looped over, seen by a callee; unknown again afterwards), identifier of a match pattern incl. array patterns and block bodies (bound for the case; unknown afterwards), for-in loop variable and index variable (runtime error when the loop statement is reached, also over an empty array, in a function, in a later iteration; no error when not reached), assignment target, ++ in a rule pattern; output before and after. Oracle: exact class and output.",
		Gen:  c11GenDollarBinding})
	register(Family{Name: "fault-output-through-binary", Prop: "C11",
		Rule: "programs that print in BEGIN, per record and in END -- nothing, one line, text without a trailing newline, lines followed by a partial line, 70 KiB and 200 KiB of lines, and exactly 4096 / 65535 / 65536 / 65537 / 131072 bytes without any newline -- before the run is stopped by a runtime fault (division, invalid regex, unknown $-name as for-in variable) at a random record of a random value of a 1-3 value stream, by malformed or truncated JSON after 0-2 complete values, by a -r selector that fails for a later value or does not parse, by a fault in END or in BEGIN, and fault-free controls; each as a `run` request (in-process evaluator) and as a `cli` request (the real binary, stdout a pipe). Oracle: class / exit status and exactly the bytes printed before the fault (computed by the generator), the same bytes from the library and from the binary (group); both are also compared with the model.",
		Gen:  c11GenFaultBinary})
}

// ---------------------------------------------------------------------------
// family: regex-site-sequence
//
// ONE `~` / `!~` site whose right operand is not a literal -- a parameter, a for-in variable, an
// array element, a variable, an object member, a match binding, a member of `$` -- evaluated several
// times with a SEQUENCE of patterns: regex values and strings, valid ones first, then (mostly) one
// that is invalid or not a pattern at all, then more valid ones. Each evaluation prints its result.
// Oracle: Go's regexp on each pattern in turn: the results of the evaluations before the first
// faulty one are printed (each computed with ITS pattern and subject), the run stops there with a
// runtime error and prints nothing more; without a faulty one the run completes.

type c11SiteEntry struct {
	expr    string // the pattern as a jqawk expression
	pat     string
	subject string
	fault   string // "" | invalid | nonpattern
	jsonPat string // as a JSON value ("" = cannot come from a document)
}

var c11SiteValid = []string{"^a", "c$", "b+", "a.c", "[a-c]+", "zzz", "x|b", "(ab)", "^$", "b", "A", "a*", "^abc$", "[^a]", "ab?c", "\\d", "\\w+", "."}
var c11SiteSubjects = []string{"abc", "xaby", "b(", "", "zzz 1", "ABC", "c", "a)c", "7"}
var c11SiteNonPatterns = []string{"7", "null", "[1]", "{}", "true", "0"}

func c11SiteEntryOf(r *rand.Rand, fault string, invalid []string) c11SiteEntry {
	e := c11SiteEntry{subject: pick(r, c11SiteSubjects), fault: fault}
	switch fault {
	case "nonpattern":
		e.expr = pick(r, c11SiteNonPatterns)
		e.jsonPat = e.expr
		return e
	case "invalid":
		e.pat = pick(r, invalid)
	default:
		e.pat = pick(r, c11SiteValid)
	}
	str, lit := c11PatLits(e.pat)
	e.jsonPat = jsonString(e.pat)
	if lit != "" && (str == "" || chance(r, 0.6)) {
		e.expr = lit
	} else {
		e.expr = str
	}
	return e
}

func c11GenRegexSite(r *rand.Rand, tier string, emit func(Case)) {
	var invalid []string
	for _, p := range c11RegexPatterns {
		if _, err := regexp.Compile(p); err != nil && strings.ToValidUTF8(p, "") == p && !strings.ContainsAny(p, "\"\n/") && !strings.HasSuffix(p, "\\") {
			invalid = append(invalid, p)
		}
	}
	carriers := []string{"parameter", "for-in variable", "array element", "variable", "object member", "match binding", "recursion", "condition", "per record", "member of $", "rule pattern", "nested call"}
	n := tierN(tier, 1500, 20000)
	for i := 0; i < n; i++ {
		carrier := carriers[i%len(carriers)]
		k := 2 + r.Intn(5)
		// where the first faulty pattern sits: mostly after at least one valid one
		f := -1
		switch x := r.Intn(10); {
		case x < 6:
			f = 1 + r.Intn(k-1)
		case x < 7:
			f = 0
		case x < 8:
			f = k - 1
		}
		fromDoc := carrier == "member of $" || carrier == "rule pattern"
		es := make([]c11SiteEntry, k)
		for j := range es {
			fault := ""
			if j == f || j > f && f >= 0 && chance(r, 0.3) {
				fault = "invalid"
				if chance(r, 0.25) {
					fault = "nonpattern"
				}
			}
			es[j] = c11SiteEntryOf(r, fault, invalid)
			if fromDoc && es[j].fault == "" && es[j].subject == "" && carrier == "rule pattern" {
				es[j].subject = "abc"
			}
		}
		op, neg := "~", false
		if chance(r, 0.3) {
			op, neg = "!~", true
		}
		pats, subs := make([]string, k), make([]string, k)
		for j, e := range es {
			pats[j], subs[j] = e.expr, jsonString(e.subject)
		}
		setup := fmt.Sprintf("pats = [%s]; subs = [%s]; n = %d", strings.Join(pats, ", "), strings.Join(subs, ", "), k)
		var prog string
		files := c11Input
		line := func(j int, res bool) string { return fmt.Sprintf("%d %v\n", j, res) }
		switch carrier {
		case "parameter":
			prog = "function hit(s, r) { return s " + op + " r }\nBEGIN { print \"start\"; " + setup + "\n for (p, i in pats) { print i, hit(subs[i], p) }\n print \"done\" }\nEND { print \"end\" }\n"
		case "nested call":
			prog = "function hit(s, r) { return inner(s, r) }\nfunction inner(a, b) { return a " + op + " b }\nBEGIN { print \"start\"; " + setup + "\n for (i = 0; i < n; i++) { print i, hit(subs[i], pats[i]) }\n print \"done\" }\nEND { print \"end\" }\n"
		case "for-in variable":
			prog = "BEGIN { print \"start\"; " + setup + "\n for (p, i in pats) { print i, subs[i] " + op + " p }\n print \"done\" }\nEND { print \"end\" }\n"
		case "array element":
			prog = "BEGIN { print \"start\"; " + setup + "\n for (i = 0; i < n; i++) { print i, subs[i] " + op + " pats[i] }\n print \"done\" }\nEND { print \"end\" }\n"
		case "variable":
			prog = "BEGIN { print \"start\"; " + setup + "\n i = 0\n while (i < n) { pv = pats[i]; print i, subs[i] " + op + " pv; i++ }\n print \"done\" }\nEND { print \"end\" }\n"
		case "object member":
			prog = "BEGIN { print \"start\"; " + setup + "; o = {}\n for (i = 0; i < n; i++) { o.p = pats[i]; print i, subs[i] " + op + " o.p }\n print \"done\" }\nEND { print \"end\" }\n"
		case "match binding":
			prog = "BEGIN { print \"start\"; " + setup + "\n for (i = 0; i < n; i++) { match (pats[i]) { q => { print i, subs[i] " + op + " q } }\n }\n print \"done\" }\nEND { print \"end\" }\n"
		case "recursion":
			prog = "function walk(i) { if (i >= n) return 0\n print i, subs[i] " + op + " pats[i]\n return walk(i + 1) }\nBEGIN { print \"start\"; " + setup + "\n walk(0)\n print \"done\" }\nEND { print \"end\" }\n"
		case "condition":
			prog = "BEGIN { print \"start\"; " + setup + "\n for (i = 0; i < n; i++) { if (subs[i] " + op + " pats[i]) print i, \"true\"; else print i, \"false\" }\n print \"done\" }\nEND { print \"end\" }\n"
		case "per record":
			recs := make([]string, k)
			for j := range recs {
				recs[j] = fmt.Sprintf(`{"i": %d, "s": %s}`, j, subs[j])
			}
			files = []File{{Name: "in.json", Data: []byte("[" + strings.Join(recs, ", ") + "]")}}
			prog = "BEGIN { print \"start\"; " + setup + " }\n{ print $.i, $.s " + op + " pats[$.i] }\nEND { print \"done\"; print \"end\" }\n"
		case "member of $", "rule pattern":
			recs := make([]string, k)
			for j, e := range es {
				if e.jsonPat == "" {
					e.jsonPat = jsonString(e.pat)
				}
				recs[j] = fmt.Sprintf(`{"i": %d, "s": %s, "p": %s}`, j, subs[j], e.jsonPat)
			}
			files = []File{{Name: "in.json", Data: []byte(strings.Join(recs, "\n"))}}
			if carrier == "member of $" {
				prog = "BEGIN { print \"start\" }\n{ print $.i, $.s " + op + " $.p }\nEND { print \"done\"; print \"end\" }\n"
			} else {
				prog = "BEGIN { print \"start\" }\n$.s " + op + " $.p { print $.i, \"true\" }\n!($.s " + op + " $.p) { print $.i, \"false\" }\nEND { print \"done\"; print \"end\" }\n"
			}
		}
		want, wantClass := "start\n", "ok"
		for j, e := range es {
			if e.fault != "" {
				wantClass = "runtime"
				break
			}
			res := regexp.MustCompile(e.pat).MatchString(e.subject) != neg
			want += line(j, res)
		}
		if wantClass == "ok" {
			want += "done\nend\n"
		}
		var seq []string
		for _, e := range es {
			tag := "valid"
			if e.fault != "" {
				tag = e.fault
			}
			seq = append(seq, tag+" "+e.expr)
		}
		row := "no fault"
		if f >= 0 {
			row = fmt.Sprintf("first fault (%s) at evaluation %d", es[f].fault, min(f, 3))
			if f >= 3 {
				row += "+"
			}
		}
		wc, wo := wantClass, want
		emit(Case{Req: RunReq(prog, nil, files, false), Fields: c11Fields,
			NonTrivial: func(i Resp) bool { return i["class"] == "runtime" || i["class"] == "ok" },
			Meta:       metaProg(prog, "carrier", carrier, "operator", op, "patterns in order", strings.Join(seq, "  |  "), "input", string(files[0].Data), "row", row, "col", carrier),
			Oracle: func(i Resp) string {
				if i["class"] != wc || string(i.Bytes("out")) != wo {
					return fmt.Sprintf("C11: one %s site, patterns in order [%s]: expected class %s and output %q (each result from its own pattern; stop at the first faulty one), got class %s and output %q", op, strings.Join(seq, " | "), wc, wo, i["class"], i.Bytes("out"))
				}
				return ""
			}})
	}
}

// ---------------------------------------------------------------------------
// family: call-shadowed-name
//
// A name that is a function of the program (or a builtin) is bound, for a while, to something else
// -- by a parameter, a parameter of a CALLER (scoping is dynamic), a match binding, a for-in item or
// index variable, a parameter that is not passed, an assignment to the global -- and CALLED while
// that binding is in scope. Bound to a number, string, null, array, object, boolean or regex the
// call is a runtime error there; bound (match binding) to ANOTHER function or a builtin, that one is
// called; before the binding and after its scope the original function is called.

func c11GenCallShadowed(r *rand.Rand, tier string, emit func(Case)) {
	names := []string{"f", "max", "length", "x", "num", "json", "printf"}
	values := []struct{ expr, what string }{{"7", "number"}, {"\"s\"", "string"}, {"null", "null"}, {"[1]", "array"}, {"{a: 1}", "object"}, {"true", "boolean"}, {"/re/", "regex"}, {"0", "number"},
		{"other", "function"}, {"num", "builtin"}, {"json", "builtin"}}
	binders := []string{"parameter", "caller's parameter", "match binding", "for-in item", "for-in index", "parameter not passed", "global assignment", "second parameter", "parameter, call in a loop", "match binding in a function", "nested shadow"}
	rounds := tierN(tier, 3, 12)
	for round := 0; round < rounds; round++ {
		for _, name := range names {
			for _, binder := range binders {
				for _, v := range values {
					isFn := v.what == "function" || v.what == "builtin"
					if isFn && !strings.HasPrefix(binder, "match binding") {
						continue // a function value cannot be copied into a parameter / loop variable / global
					}
					if isFn && (name == "printf" || name == v.expr) {
						continue
					}
					builtin := name == "num" || name == "json" || name == "printf"
					arg := 2 + r.Intn(7)
					// the call, what it prints when the name means the original, and when it means v
					call := fmt.Sprintf("%s(%d)", name, arg)
					orig := fmt.Sprint(arg + 1)
					if builtin {
						orig = fmt.Sprint(arg)
					}
					bound := ""
					switch v.expr {
					case "other":
						bound = fmt.Sprint(arg * 10)
					case "num", "json":
						bound = fmt.Sprint(arg)
					}
					show := func(tag string) string { return "print \"" + tag + "\", " + call }
					res := func(tag, val string) string { return tag + " " + val + "\n" }
					if name == "printf" {
						call = fmt.Sprintf("printf(\"%%v|\\n\", %d)", arg)
						show = func(tag string) string {
							return fmt.Sprintf("print \"%s\"; printf(\"%%v|\\n\", %d)", tag, arg)
						}
						res = func(tag, val string) string { return tag + "\n" + val + "|\n" }
					}
					head := "function other(a) { return a * 10 }\n"
					if !builtin {
						head += "function " + name + "(a) { return a + 1 }\n"
					}
					body := "print \"in\"; " + show("r") + "; print \"after\""
					var funcs, begin string
					persists := false // the binding outlives the construct
					switch binder {
					case "parameter":
						funcs = "function g(" + name + ") { " + body + " }\n"
						begin = "g(" + v.expr + ")"
					case "second parameter":
						funcs = "function g(a, " + name + ") { " + body + " }\n"
						begin = "g(1, " + v.expr + ")"
					case "parameter not passed":
						if v.expr != "7" {
							continue
						}
						funcs = "function g(a, " + name + ") { " + body + " }\n"
						begin = "g(1)"
					case "parameter, call in a loop":
						funcs = "function g(" + name + ") { print \"in\"; for (i = 0; i < 2; i++) { " + show("r") + " }\n print \"after\" }\n"
						begin = "g(" + v.expr + ")"
					case "caller's parameter":
						funcs = "function outer(" + name + ") { inner() }\nfunction inner() { " + body + " }\n"
						begin = "outer(" + v.expr + ")"
					case "nested shadow":
						// the innermost binding wins: a parameter that holds the value, inside a caller whose parameter of the same name holds a string
						funcs = "function outer(" + name + ") { g(" + v.expr + ") }\nfunction g(" + name + ") { " + body + " }\n"
						begin = "outer(\"outer value\")"
					case "match binding":
						begin = "match (" + v.expr + ") { " + name + " => { " + body + " } }\n"
					case "match binding in a function":
						funcs = "function inner() { " + body + " }\nfunction g() { match (" + v.expr + ") { " + name + " => inner() }\n }\n"
						begin = "g()"
					case "for-in item":
						begin = "for (" + name + " in [" + v.expr + "]) { " + body + " }"
					case "for-in index":
						if v.expr != "7" {
							continue
						}
						begin = "for (it, " + name + " in [" + v.expr + "]) { " + body + " }"
					case "global assignment":
						if builtin {
							continue
						}
						begin = name + " = " + v.expr + "; " + body
						persists = true
					}
					prog := head + funcs + "BEGIN { " + show("start") + "\n " + begin + "\n " + show("out") + "\n}\nEND { " + show("end") + " }\n"
					want, wantClass := res("start", orig)+"in\n", "ok"
					if isFn {
						want += res("r", bound)
						if binder == "parameter, call in a loop" {
							want += res("r", bound)
						}
						want += "after\n" + res("out", orig) + res("end", orig)
					} else {
						wantClass = "runtime"
						if name == "printf" {
							want += "r\n" // printed by the statement before the call
						}
					}
					_ = persists
					wc, wo := wantClass, want
					emit(Case{Req: RunReq(prog, nil, c11Input, false), Fields: c11Fields,
						NonTrivial: func(i Resp) bool { return i["class"] == "runtime" || i["class"] == "ok" },
						Meta:       metaProg(prog, "name", name, "bound by", binder, "bound to", v.what+" "+v.expr, "row", binder, "col", v.what),
						Oracle: func(i Resp) string {
							if i["class"] != wc || string(i.Bytes("out")) != wo {
								return fmt.Sprintf("C11: the name %s is bound (%s) to the %s %s when it is called: expected class %s and output %q, got class %s and output %q", name, binder, v.what, v.expr, wc, wo, i["class"], i.Bytes("out"))
							}
							return ""
						}})
				}
			}
		}
	}
}

func init() {
	register(Family{Name: "regex-site-sequence", Prop: "C11",
		Rule: "ONE `~` / `!~` site whose right operand is not a literal (12 carriers: parameter, parameter of a nested call, for-in variable, array element, variable, object member, match binding, recursion, if-condition, element chosen per record, member of `$`, rule pattern over `$` members) evaluated 2-6 times with a sequence of patterns, regex values and strings mixed: valid ones (18 patterns x 9 subjects), then in 8 of 10 cases a faulty one -- an invalid pattern of c11RegexPatterns or a value that is not a pattern (number, null, array, object, boolean) -- at the 2nd or a later evaluation (6/10), the first (1/10) or the last (1/10), then further valid / faulty ones. Oracle: Go's regexp per pattern: the results before the first faulty evaluation are printed, each from its own pattern and subject, then class runtime and nothing more; no faulty one: the run completes. Compared with the model (class, out, line, col, src). Matrix: position of the first fault x carrier.",
		Gen:  c11GenRegexSite})
	register(Family{Name: "call-shadowed-name", Prop: "C11",
		Rule: "7 names (4 program functions, the builtins num / json / printf) x 11 ways of binding the name to something else while it is called (parameter, second parameter, parameter that is not passed, parameter with the call in a loop, a CALLER's parameter (dynamic scope), an inner parameter over a caller's parameter of the same name, match binding, match binding seen from a called function, for-in item, for-in index, assignment to the global) x 11 values (number, 0, string, null, array, object, boolean, regex: the call is a runtime error there; through a match binding also another program function and the builtins num / json: that one is called). The program calls the name before the binding, inside it and after its scope (and in END). Oracle: exact class and output; compared with the model (dynamic-chain resolution).",
		Gen:  c11GenCallShadowed})
}
