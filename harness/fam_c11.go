package main

// C11 — syntax errors pre-empt all execution; runtime faults stop the run at
// the fault: output before the fault is kept, nothing is printed after it and
// the fault is never swallowed, whatever syntactic position it occurs in.
//
// Families:
//   syntax-splice     a guaranteed syntax error spliced at every token boundary of valid multi-rule programs
//   fault-injection   every kind of runtime fault x every evaluated syntactic position (matrix in the result file)
//   fault-unevaluated the same faults at positions that are NOT evaluated: the run must be unaffected
//
// All compare class,out,line,col,src with the model and carry an
// implementation-only oracle.

import (
	"fmt"
	"math/rand"
	"strings"
)

var c11Fields = []string{"class", "out", "line", "col", "src"}

var c11Input = []File{{Name: "in.json", Data: []byte(`[1, 2]`)}}

// ---------------------------------------------------------------------------
// family 1: syntax-error splicing

// Seeds are written with every token separated by blanks (so a token boundary
// is a blank) and with region markers: «F … F» encloses what lies inside a
// function body (a `return` there is legal), «L … L» what lies inside a loop
// body (a `break`/`continue` there is legal). Every seed prints in BEGIN, per
// element and in END, so a run that is not pre-empted shows.
var c11Seeds = []string{
	`BEGIN { print "begin" ; n = 0 }
{ n += $ ; print "elem" , $index , $ }
$ > 1 { print "big" , $ }
END { print "end" , n }`,

	`function max ( a , b ) { «F
  if ( a > b ) { return a }
  return b
} F»
BEGIN { print "begin" , max ( 1 , 2 ) }
{ print max ( $ , 1 ) ; x = [ 1 , $ , { k : $ } ] ; print x [ 2 ] . k }
END { print "end" }`,

	`BEGIN {
  print "begin"
  i = 0
  while ( i < 3 ) «L {
    i ++
    if ( i == 2 ) continue
    print "i" , i
  } L»
  for ( j = 0 ; j < 2 ; j ++ ) «L print "j" , j L»
  for ( v , k in [ 5 , 6 ] ) «L { print k , v ; break } L»
}
{ print "elem" , $ }
END { print "end" }`,

	`BEGIN { print "begin" }
BEGINFILE { print "file" , $file }
{
  r = match ( $ ) {
    1 => "one" ,
    [ a , b ] => { print a ; b }
    _ => { print "other" }
  }
  print r
}
ENDFILE { print "endfile" }
END { print "end" ; printf ( "%v|%s\n" , [ 1 ] , "s" ) }`,

	`BEGIN { print "begin" ; k = 0 }
BEGIN { while ( k ++ < 2 && match ( k ) { _ => { print "head" , k } } == null ) «L { print "body" } L» }
{ for ( q = 0 ; q < 1 ; q = q + 1 + match ( 1 ) { _ => { print "post" } } ) «L { print "elem" , $ } L» }
END { print "end" }`,

	`function walk ( arr ) { «F
  for ( v in arr ) «L {
    if ( v is array ) { walk ( v ) ; continue }
    if ( v == 3 ) break
    print "v" , v
  } L»
  return arr . length ( )
} F»
BEGIN { print "begin" , walk ( [ 1 , [ 2 ] , 3 , 4 ] ) }
$ ~ /1/ || ! ( $ < 2 ) { print "elem" , - $ , $ % 2 , $ is number }
END { print "end" }`,

	// every statement kind ended by `;` (argument-less print, return, next, exit, ++, calls), `;` before `}`
	`function show ( a ) { «F
  print ; print a ; return ;
} F»
function two ( ) { «F print "two" ; return 2 ; } F»
BEGIN { print "begin" ; print ; show ( 1 ) ; x = two ( ) ; x ++ ; }
{ print ; if ( $ > 1 ) next ; print "elem" , $ ; }
END { print "end" ; print ; exit ; print "never" }`,

	// the same statements ended by a newline, unbraced bodies, `;` in front of else
	`BEGIN {
  print "begin"
  print
  i = 0
  while ( i < 3 ) «L {
    i ++
    if ( i == 1 ) { continue ; } else print
    if ( i == 2 ) { print ; break ; }
  } L»
  for ( j = 0 ; j < 2 ; j ++ ) «L print ; L»
  if ( i ) print ; else print "no" ;
}
{ print
  next
}
END { print "end"
  print
  exit
}`,
}

type c11Tok struct {
	text          string
	inFn, inLoop  bool // state at the boundary BEFORE this token
	closerFollows bool
	depth         int // bracket depth at the boundary BEFORE this token (0: between rules, where a program may end)
}

// c11Scan splits a seed into tokens ("\n" is a token) with the region state
// at the boundary before each token; the last entry is the end-of-text boundary.
func c11Scan(seed string) []c11Tok {
	var toks []c11Tok
	fn, loop, depth := 0, 0, 0
	lines := strings.Split(seed, "\n")
	for li, line := range lines {
		for _, w := range strings.Fields(line) {
			switch w {
			case "«F":
				fn++
			case "F»":
				fn--
			case "«L":
				loop++
			case "L»":
				loop--
			default:
				toks = append(toks, c11Tok{text: w, inFn: fn > 0, inLoop: loop > 0, depth: depth})
				switch w {
				case "{", "(", "[":
					depth++
				case "}", ")", "]":
					depth--
				}
			}
		}
		if li < len(lines)-1 {
			toks = append(toks, c11Tok{text: "\n", inFn: fn > 0, inLoop: loop > 0, depth: depth})
		}
	}
	toks = append(toks, c11Tok{text: "", inFn: fn > 0, inLoop: loop > 0, depth: depth})
	return toks
}

// c11Splice renders the tokens with frag inserted at boundary `at`; returns the
// text and the byte offset at which frag starts.
func c11Splice(toks []c11Tok, at int, frag string, skip int) (string, int) {
	var sb strings.Builder
	off := -1
	for i, t := range toks {
		if i == at {
			off = sb.Len()
			sb.WriteString(frag)
			if frag != "" {
				sb.WriteByte(' ')
			}
		}
		if i == skip {
			continue
		}
		sb.WriteString(t.text)
		if t.text != "\n" && t.text != "" {
			sb.WriteByte(' ')
		}
	}
	return sb.String(), off
}

// c11SpliceGlued is c11Splice with the blank before (glue&1) and / or after (glue&2) the
// fragment removed, so that it stands directly against its neighbours: `print;@ }`.
func c11SpliceGlued(toks []c11Tok, at int, frag string, glue int) (string, int) {
	text, off := c11Splice(toks, at, frag, -1)
	if glue&2 != 0 && off+len(frag) < len(text) && text[off+len(frag)] == ' ' {
		text = text[:off+len(frag)] + text[off+len(frag)+1:]
	}
	if glue&1 != 0 && off > 0 && text[off-1] == ' ' {
		text = text[:off-1] + text[off:]
		off--
	}
	return text, off
}

// bytes that can never start a token: the printable ones and every control byte that is
// not white space (NUL included: it must not be taken for the end of the program)
func c11IllegalBytes() []c11Frag {
	fs := []c11Frag{{"illegal-char-question", "?", ""}, {"illegal-char-caret", "^", ""}, {"illegal-char-backslash", "\\", ""}}
	for b := 0; b < 0x20; b++ {
		if b == '\t' || b == '\n' || b == '\r' {
			continue
		}
		fs = append(fs, c11Frag{fmt.Sprintf("illegal-char-0x%02x", b), string([]byte{byte(b)}), ""})
	}
	return append(fs, c11Frag{"illegal-char-0x7f", "\x7f", ""})
}

func c11LineCol(text string, off int) (int, int) {
	line, start := 1, 0
	for i := 0; i < off; i++ {
		if text[i] == '\n' {
			line++
			start = i + 1
		}
	}
	return line, off - start
}

type c11Frag struct {
	name, text string
	scope      string // "" anywhere, "nofn" outside function bodies, "noloop" outside loop bodies
}

var c11Frags = []c11Frag{
	{"illegal-char", "@", ""}, {"illegal-char-backquote", "`", ""}, {"lone-quote", "\"", ""},
	{"unexpected-rparen", ")", ""}, {"unexpected-rsquare", "]", ""}, {"unexpected-rcurly", "}", ""},
	{"unclosed-lparen", "(", ""}, {"unclosed-lsquare", "[", ""}, {"unclosed-lcurly", "{", ""},
	{"missing-operand", "* *", ""}, {"missing-operand-eq", "== ==", ""}, {"stray-arrow", "=>", ""}, {"stray-colon", ":", ""},
	{"assign-to-literal", "1 = 2", ""}, {"assign-to-call", "f ( ) = 3", ""}, {"assign-to-unary", "- a = 1", ""}, {"assign-to-sum", "a + b = 2", ""},
	{"compound-assign-to-literal", "1 += 2", ""}, {"assign-to-string", "\"s\" = 1", ""}, {"assign-to-match", "match ( 1 ) { 1 => 2 } = 3", ""},
	{"incr-literal", "1 ++", ""}, {"decr-call", "f ( ) --", ""}, {"prefix-incr-literal", "++ 1 ;", ""}, {"assign-to-array", "; [ 1 ] = 2", ""},
	// with a separator after or before, so that the statement would be complete if it were accepted
	{"return-outside-function", "return ;", "nofn"}, {"return-value-outside-function", "; return 1", "nofn"},
	{"break-outside-loop", "break ;", "noloop"}, {"break-outside-loop-after-separator", "; break", "noloop"},
	{"continue-outside-loop", "continue ;", "noloop"}, {"continue-outside-loop-after-separator", "; continue", "noloop"},
}

func c11SyntaxOracle(what string, wantLine, wantCol int) func(Resp) string {
	return func(i Resp) string {
		if i["class"] != "syntax" {
			return "C11: " + what + " must be a syntax error, got class " + i["class"] + " (msg=" + i["msg"] + ")"
		}
		if i.Bytes("out") != nil {
			return fmt.Sprintf("C11: a program with a syntax error printed %q before the error was reported", i.Bytes("out"))
		}
		if wantLine > 0 && (i["line"] != fmt.Sprint(wantLine) || i["col"] != fmt.Sprint(wantCol)) {
			return fmt.Sprintf("C11/C12: the illegal character is at line %d col %d but the error reports line %s col %s (a lexer error must not be overtaken by a later parser complaint)", wantLine, wantCol, i["line"], i["col"])
		}
		return ""
	}
}

func c11IsSyntax(i Resp) bool { return i["class"] == "syntax" }

func c11GenSplice(r *rand.Rand, tier string, emit func(Case)) {
	for si, seed := range c11Seeds {
		toks := c11Scan(seed)
		clean, _ := c11Splice(toks, -1, "", -1)
		emit(Case{Req: RunReq(clean, nil, c11Input, false), Fields: c11Fields,
			Meta: metaProg(clean, "seed", fmt.Sprint(si), "row", "(unspliced seed)", "col", fmt.Sprintf("seed%d", si)),
			Oracle: func(i Resp) string {
				if o := string(i.Bytes("out")); i["class"] != "ok" || !strings.Contains(o, "begin") || !strings.Contains(o, "\nend") {
					return "generator: the unspliced seed must run and print, got " + i.String()
				}
				return ""
			}})
		for at := range toks {
			for _, f := range c11Frags {
				if f.scope == "nofn" && toks[at].inFn || f.scope == "noloop" && toks[at].inLoop {
					continue
				}
				if tier == "quick" && si >= 2 && si != 4 && si < 6 && !chance(r, 0.4) { // seed 4 has the loop headers, 6 and 7 every statement end
					continue
				}
				text, off := c11Splice(toks, at, f.text, -1)
				wl, wc := 0, 0
				if strings.HasPrefix(f.name, "illegal-char") {
					wl, wc = c11LineCol(text, off)
				}
				emit(Case{Req: RunReq(text, nil, c11Input, false), Fields: c11Fields, NonTrivial: c11IsSyntax,
					Meta:   metaProg(text, "seed", fmt.Sprint(si), "spliced", f.text, "at-token-boundary", fmt.Sprint(at), "row", f.name, "col", fmt.Sprintf("seed%d", si)),
					Oracle: c11SyntaxOracle("the fragment `"+f.text+"` ("+f.name+") spliced at token boundary "+fmt.Sprint(at), wl, wc)})
			}
		}
		// illegal bytes (control bytes incl. NUL, ? ^ \) -- wherever the program could end
		// (bracket depth 0: in front of, between and after the rules) and at a sample of the
		// other boundaries; and the illegal characters standing directly against their
		// neighbours, in particular right after a `;` or a statement keyword
		spliceIllegal := func(at int, f c11Frag, glue int) {
			text, off := c11SpliceGlued(toks, at, f.text, glue)
			wl, wc := c11LineCol(text, off)
			emit(Case{Req: RunReq(text, nil, c11Input, false), Fields: c11Fields, NonTrivial: c11IsSyntax,
				Meta:   metaProg(text, "seed", fmt.Sprint(si), "spliced", fmt.Sprintf("%q", f.text), "at-token-boundary", fmt.Sprint(at), "glue", fmt.Sprint(glue), "row", f.name, "col", fmt.Sprintf("seed%d", si)),
				Oracle: c11SyntaxOracle(fmt.Sprintf("the byte %q (%s) spliced at token boundary %d", f.text, f.name, at), wl, wc)})
		}
		illegal := c11IllegalBytes()
		for at := range toks {
			prev := ""
			if at > 0 {
				prev = toks[at-1].text
			}
			afterSep := prev == ";" || strings.Contains(" print return next exit break continue else } ", " "+prev+" ")
			for _, f := range illegal {
				if tier == "thorough" || toks[at].depth == 0 && chance(r, 0.5) || afterSep && chance(r, 0.25) || chance(r, 0.03) {
					spliceIllegal(at, f, r.Intn(4))
				}
			}
			for _, f := range append([]c11Frag{c11Frags[0], c11Frags[1]}, illegal[:3]...) {
				for glue := 1; glue < 4; glue++ {
					if tier == "thorough" || afterSep && (f.text == "@" || chance(r, 0.3)) || chance(r, 0.06) {
						spliceIllegal(at, f, glue)
					}
				}
			}
		}
		// a missing operand by deletion: an operand that is followed by a closing
		// token and preceded by a binary operator is removed
		for at := 1; at+1 < len(toks); at++ {
			prev, next := toks[at-1].text, toks[at+1].text
			isOp := strings.Contains(" + - * / % == != < <= > >= ~ !~ && || = += -= , ", " "+prev+" ") && prev != ","
			isCloser := next == ";" || next == ")" || next == "]" || next == "}" || next == ","
			t := toks[at].text
			isOperand := t != "" && (t[0] == '"' || t[0] >= '0' && t[0] <= '9' || t[0] >= 'a' && t[0] <= 'z' || t[0] == '$') &&
				!strings.Contains(" print return if else for while in match break continue next exit is ", " "+t+" ")
			if !isOp || !isCloser || !isOperand {
				continue
			}
			text, _ := c11Splice(toks, -1, "", at)
			emit(Case{Req: RunReq(text, nil, c11Input, false), Fields: c11Fields, NonTrivial: c11IsSyntax,
				Meta:   metaProg(text, "seed", fmt.Sprint(si), "deleted-operand", t, "at-token", fmt.Sprint(at), "row", "missing-operand-by-deletion", "col", fmt.Sprintf("seed%d", si)),
				Oracle: c11SyntaxOracle("deleting the operand `"+t+"` between `"+prev+"` and `"+next+"`", 0, 0)})
		}
	}
	// program files with control bytes, through the real binary (-f): NUL cannot be passed
	// as an argument, a file can hold it
	{
		illegal := c11IllegalBytes()[3:]
		n := tierN(tier, 72, 600)
		for i := 0; i < n; i++ {
			f := illegal[i%len(illegal)]
			if i >= len(illegal) && i%3 != 0 || i == 1 {
				f = illegal[0] // NUL
			}
			si := r.Intn(len(c11Seeds))
			toks := c11Scan(c11Seeds[si])
			var top []int
			for at := range toks {
				if toks[at].depth == 0 {
					top = append(top, at)
				}
			}
			at := pick(r, top)
			if chance(r, 0.25) {
				at = r.Intn(len(toks))
			}
			text, _ := c11SpliceGlued(toks, at, f.text, r.Intn(4))
			if i < len(illegal) {
				// every byte once as the very last byte of the file (and once more followed by a newline only)
				text, _ = c11SpliceGlued(toks, len(toks)-1, f.text, 2+r.Intn(2))
				if i%2 == 1 {
					text += "\n"
				}
			} else if chance(r, 0.3) {
				text += " }}} print (" // whatever follows is not looked at if the byte ends the program
			}
			files := []CliFile{{Name: "in.json", Data: c11Input[0].Data}, {Name: "prog.jqawk", Data: []byte(text)}}
			emit(Case{Req: CliReq([]string{"-f", "prog.jqawk", "in.json"}, nil, false, files, ""), Fields: []string{"exit", "out", "err"},
				NonTrivial: func(i Resp) bool { return i["exit"] == "1" },
				Meta:       metaProg(text, "seed", fmt.Sprint(si), "spliced", fmt.Sprintf("%q", f.text), "at-token-boundary", fmt.Sprint(at), "row", f.name, "col", "binary -f"),
				Oracle: func(i Resp) string {
					if i["exit"] == "0" || i["exit"] == "" || i.Bytes("out") != nil || i["err"] != "1" {
						return fmt.Sprintf("C11: a program file containing the byte %q outside strings must be a syntax error (non-zero exit, message on stderr, no output); got exit %s, stdout %q, stderr %q", f.text, i["exit"], i.Bytes("out"), i.Bytes("stderr"))
					}
					return ""
				}})
		}
	}
	// the same errors inside a -r selector: nothing of the file's value may be
	// processed; what BEGIN printed before the selector was looked at stays
	selProg := "BEGIN { print \"begin\" }\n{ print \"elem\", $ }\nEND { print \"end\" }"
	for _, f := range c11Frags {
		for _, sel := range []string{f.text, "$ " + f.text, f.text + " $", "[ $ , " + f.text + " ]", "match ( $ ) { _ => { " + f.text + " } }"} {
			if f.name == "unclosed-lparen" && sel == f.text+" $" || f.name == "unclosed-lsquare" && sel == f.text+" $" || f.name == "unexpected-rsquare" && strings.HasPrefix(sel, "[ $") {
				continue
			}
			if (f.name == "unclosed-lcurly" || f.name == "unexpected-rcurly" || f.name == "prefix-incr-literal") && strings.HasPrefix(sel, "match") {
				continue
			}
			for _, sels := range [][]string{{sel}, {"$", sel}} {
				emit(Case{Req: RunReq(selProg, sels, c11Input, false), Fields: c11Fields, NonTrivial: c11IsSyntax,
					Meta: metaProg(selProg, "selectors", strings.Join(sels, "  ||  "), "row", f.name, "col", "selector"),
					Oracle: func(i Resp) string {
						if i["class"] != "syntax" {
							return "C11: a selector with the fragment `" + f.text + "` must be a syntax error, got class " + i["class"]
						}
						if string(i.Bytes("out")) != "begin\n" {
							return fmt.Sprintf("C11: with a syntax error in a selector no rule may run for the value (all selectors are parsed before any rule); output was %q", i.Bytes("out"))
						}
						return ""
					}})
			}
		}
	}
}

// ---------------------------------------------------------------------------
// family 2: runtime-fault injection

const c11Prelude = "function f() { return 1 }\n" +
	"function g(a, b, c) { return a }\n" +
	"function side(m) { print m; return 1 }\n" +
	"function rec(n) { return rec(n + 1) }\n" +
	"BEGIN { cx = 5; sx = 5; ss = \"a\"; sa = [1, 2]; circ = [1]; circ[0] = circ; s3 = \"abc\"; se = \"\"; sb = true; so = {s: \"xy\", a: [\"pq\", 7]} }\n"

type c11Kind struct {
	name, expr string
	self       bool // self-contained: usable in a -r selector (no program globals/functions)
	slow       bool
}

// every expression is parenthesised, so it can stand in any operand position
var c11Kinds = []c11Kind{
	{"div-by-zero", "(1 / 0)", true, false},
	{"mod-by-zero", "(1 % 0)", true, false},
	{"div-by-zero-computed", "(sx / (sx - 5))", false, false},
	{"compound-div-by-zero", "(dz /= 0)", true, false},
	{"call-number", "(5())", true, false},
	{"call-number-variable", "(cx())", false, false},
	{"call-null", "(null())", true, false},
	{"call-unset", "(nosuchfn(1))", true, false},
	{"call-string", "(\"s\"())", true, false},
	{"call-missing-method", "([1].nosuch())", true, false},
	{"regex-invalid-string", "(\"a\" ~ \"(\")", true, false},
	{"regex-invalid-literal", "(\"a\" ~ /(/)", true, false},
	{"regex-invalid-negated", "(\"a\" !~ \"[\")", true, false},
	{"tilde-number-rhs", "(\"a\" ~ 1)", true, false},
	{"tilde-null-rhs", "(\"a\" ~ null)", true, false},
	{"tilde-array-rhs", "(\"a\" !~ [])", true, false},
	{"compare-array-number", "([] < 1)", true, false},
	{"compare-number-object", "(1 == {})", true, false},
	{"compare-arrays", "([1] != [1])", true, false},
	{"compare-object-string", "({} >= \"a\")", true, false},
	{"iterate-number", "(match (0) { _ => { for (it in 5) { } } })", true, false},
	{"iterate-null", "(match (0) { _ => { for (it in null) { } } })", true, false},
	{"iterate-bool", "(match (0) { _ => { for (it, ix in true) { } } })", true, false},
	{"iterate-function", "(match (0) { _ => { for (it in printf) { } } })", true, false},
	{"set-member-on-number", "((t1 = 5).y = 1)", true, false},
	{"set-member-on-number-variable", "(sx.y = 1)", false, false},
	{"set-index-on-string", "((t2 = \"a\")[0] = \"b\")", true, false},
	{"set-index-on-string-variable", "(ss[0] = \"b\")", false, false},
	{"set-member-on-string", "((t2 = \"a\").k = 1)", true, false},
	{"set-member-on-bool", "((t3 = true).k = 1)", true, false},
	{"set-member-on-null-literal", "(null.x = 1)", true, false},
	{"incr-member-of-number", "((t1 = 5).y++)", true, false},
	{"prefix-decr-member-of-number", "(--(t1 = 5).y)", true, false},
	{"incr-string-index", "((t2 = \"a\")[0]++)", true, false},
	{"printf-missing-argument", "(printf(\"%s\"))", true, false},
	{"printf-wrong-kind-s", "(printf(\"%s\", 1))", true, false},
	{"printf-wrong-kind-f", "(printf(\"x%f\", \"a\"))", true, false},
	{"printf-unknown-directive", "(printf(\"x%q\", 1))", true, false},
	{"printf-dangling-percent", "(printf(\"abc%\"))", true, false},
	{"printf-no-arguments", "(printf())", true, false},
	{"printf-format-not-string", "(printf(1))", true, false},
	{"printf-width-too-large", "(printf(\"%99999s\", \"a\"))", true, false},
	{"printf-width-dangling", "(printf(\"ab%5\"))", true, false},
	{"printf-second-argument-missing", "(printf(\"%v %v\", 1))", true, false},
	{"unknown-dollar-name", "($nosuch)", true, false},
	{"bad-escape", "(\"a\\qb\")", true, false},
	{"bad-escape-at-end", "(\"abc\\\")", true, false},
	{"index-before-start", "([1, 2][-5])", true, false},
	{"index-before-start-variable", "(sa[-3])", false, false},
	{"copy-function-assign", "(t4 = f)", false, false},
	{"copy-function-array-element", "([1, f])", false, false},
	{"copy-function-object-value", "({k: f})", false, false},
	{"copy-function-argument", "(g(f))", false, false},
	{"copy-native-assign", "(t4 = printf)", true, false},
	{"copy-native-array-element", "([json])", true, false},
	{"copy-native-argument", "(num(num))", true, false},
	{"copy-method-assign", "(t4 = [1].push)", true, false},
	{"index-object-with-bool", "({a: 1}[true])", true, false},
	{"index-array-with-null", "([1][null])", true, false},
	{"index-string-with-array", "(\"s\"[[]])", true, false},
	{"index-number-with-bool", "(5[false])", true, false},
	{"assign-array-length", "([1, 2].length = 1)", true, false},
	{"assign-array-string-key", "((t5 = [1])[\"k\"] = 1)", true, false},
	{"assign-array-index-too-large", "((t5 = [1])[2000000] = 1)", true, false},
	{"call-depth-exceeded", "(rec(0))", false, true},
	{"match-unsupported-pattern", "(match (1) { 1 + 1 => 2 })", true, false},
	{"match-compare-container", "(match ([1]) { 1 => 2 })", true, false},
	{"num-no-arguments", "(num())", true, false},
	{"json-two-arguments", "(json(1, 2))", true, false},
	{"json-circular", "(json(circ))", false, false},
	{"push-no-arguments", "([1].push())", true, false},
	{"pop-with-argument", "([1].pop(1))", true, false},
	{"split-number", "(\"a\".split(1))", true, false},
	{"split-no-arguments", "(\"a\".split())", true, false},
	{"contains-container", "([[1]].contains(1))", true, false},
	{"pluck-bool", "({a: 1}.pluck(true))", true, false},
}

// c11StoreKinds: stores (= op= ++ --) whose target cannot hold a value: an index of a string
// inside AND outside the string (first, last, == length, far beyond, negative within and
// beyond, fractional, non-numeric; the empty string; strings in variables, temporaries,
// object members, array elements), a member / index of a number, of a boolean, and a
// method value of an array, string or number.  Each is a runtime error, never a silent no-op.
func c11StoreKinds() []c11Kind {
	type tgt struct{ name, expr string }
	var ts []tgt
	for _, ix := range []string{"0", "1", "2", "3", "4", "50", "2000000", "-1", "-3", "-4", "-50", "1.5", "\"k\"", "(1 + 2)", "s3.length()"} {
		ts = append(ts, tgt{"string-variable-index " + ix, "s3[" + ix + "]"})
	}
	for _, t := range []tgt{
		{"empty-string-index 0", "se[0]"}, {"empty-string-index -1", "se[-1]"}, {"empty-string-index 1", "se[1]"}, {"empty-string-member", "se.k"},
		{"string-temporary-index 0", "(t2 = \"a\")[0]"}, {"string-temporary-index 1", "(t2 = \"a\")[1]"}, {"string-temporary-index 7", "(t2 = \"a\")[7]"}, {"empty-temporary-index 0", "(t2 = \"\")[0]"},
		{"string-in-object-index 1", "so.s[1]"}, {"string-in-object-index 2", "so.s[2]"}, {"string-in-object-index -1", "so.s[-1]"}, {"string-in-object-index 9", "so[\"s\"][9]"},
		{"string-in-array-index 0", "so.a[0][0]"}, {"string-in-array-index 2", "so.a[0][2]"}, {"string-in-array-index -3", "so.a[-2][-3]"},
		{"char-of-char", "s3[1][0]"}, {"char-of-char-beyond", "s3[1][1]"}, {"member-of-missing-char", "s3[5].a"}, {"member-of-char", "s3[0].a"},
		{"number-member", "sx.y"}, {"number-index 0", "sx[0]"}, {"number-index 1", "sx[1]"}, {"number-in-array-index", "sa[0][0]"}, {"number-in-object-member", "so.a[1].k"}, {"number-temporary-member", "(t1 = 5).y"},
		{"bool-index 0", "sb[0]"}, {"bool-index 1", "sb[1]"}, {"bool-index -1", "sb[-1]"}, {"bool-member", "sb.k"}, {"bool-temporary-index", "(t3 = true)[0]"}, {"bool-temporary-false-index", "(t3 = false)[2]"},
		{"array-method push", "sa.push"}, {"array-method length", "sa.length"}, {"array-method pop", "sa.pop"}, {"array-method sort", "sa[\"sort\"]"},
		{"string-method length", "s3.length"}, {"string-method upper", "s3.upper"}, {"string-method split", "s3[\"split\"]"}, {"number-method floor", "sx.floor"}, {"number-method round", "sx[\"round\"]"},
	} {
		ts = append(ts, t)
	}
	var ks []c11Kind
	for _, t := range ts {
		self := !strings.ContainsAny(t.expr[:2], "s") || strings.HasPrefix(t.expr, "(")
		for _, f := range []struct{ name, form string }{
			{"=", "(T = 1)"}, {"= string", "(T = \"z\")"}, {"= itself", "(T = T)"}, {"+=", "(T += 1)"}, {"-=", "(T -= 1)"}, {"*=", "(T *= 2)"}, {"/=", "(T /= 2)"},
			{"postfix ++", "(T++)"}, {"postfix --", "(T--)"}, {"prefix ++", "(++T)"}, {"prefix --", "(--T)"},
		} {
			ks = append(ks, c11Kind{name: "store/" + t.name + " " + f.name, expr: strings.ReplaceAll(f.form, "T", t.expr), self: self})
		}
	}
	return ks
}

type c11Pos struct {
	name     string
	prog     string   // § is the hole; the prelude is put in front
	sels     []string // § is the hole (then prog has none)
	files    []File
	want     string // output of the run up to the fault
	harmless string // what to put into the hole for the fault-free control (default "(7)")
}

func c11Positions() []c11Pos {
	two := []File{{Name: "a.json", Data: []byte(`[1]`)}, {Name: "b.json", Data: []byte(`[2]`)}}
	jsonl := []File{{Name: "in.jsonl", Data: []byte("1\n2\n")}}
	ps := []c11Pos{
		// statements in every kind of rule
		{name: "statement/BEGIN", prog: "BEGIN { print \"B1\"; §; print \"A1\" }\n{ print \"A2\" }\nEND { print \"A3\" }", want: "B1\n"},
		{name: "statement/BEGIN-only-statement", prog: "BEGIN { § }\nBEGIN { print \"A1\" }\nEND { print \"A2\" }", want: ""},
		{name: "statement/second-BEGIN", prog: "BEGIN { print \"B1\" }\nBEGIN { print \"B2\"; §; print \"A1\" }\nBEGIN { print \"A2\" }", want: "B1\nB2\n"},
		{name: "statement/END", prog: "BEGIN { print \"B1\" }\n{ print \"B2\", $ }\nEND { print \"B3\"; §; print \"A1\" }\nEND { print \"A2\" }", want: "B1\nB2 1\nB2 2\nB3\n"},
		{name: "statement/BEGINFILE", prog: "BEGINFILE { print \"B1\"; §; print \"A1\" }\n{ print \"A2\" }\nENDFILE { print \"A3\" }\nEND { print \"A4\" }", want: "B1\n"},
		{name: "statement/ENDFILE", prog: "{ print \"B1\", $ }\nENDFILE { print \"B2\"; §; print \"A1\" }\nENDFILE { print \"A2\" }\nEND { print \"A3\" }", want: "B1 1\nB1 2\nB2\n"},
		{name: "statement/rule-body", prog: "{ print \"B1\", $; §; print \"A1\" }\n{ print \"A2\" }\nEND { print \"A3\" }", want: "B1 1\n"},
		{name: "statement/rule-body-second-element", prog: "{ print \"B\", $ }\n$ == 2 { print \"B2\"; §; print \"A1\" }\n{ print \"b\", $ }\nEND { print \"A3\" }", want: "B 1\nb 1\nB 2\nB2\n"},
		{name: "statement/rule-body-second-file", prog: "BEGINFILE { print \"bf\", $file }\n$ == 2 { print \"B2\"; §; print \"A1\" }\n{ print \"b\", $ }\nENDFILE { print \"ef\" }", files: two, want: "bf a.json\nb 1\nef\nbf b.json\nB2\n"},
		{name: "statement/rule-body-second-value", prog: "$ == 2 { print \"B2\"; §; print \"A1\" }\n{ print \"b\", $ }\nEND { print \"A2\" }", files: jsonl, want: "b 1\nB2\n"},
		{name: "statement/after-next-survivor", prog: "$ == 1 { print \"B1\"; next }\n{ print \"B2\"; §; print \"A1\" }", want: "B1\nB2\n"},
		// rule patterns
		{name: "pattern/whole", prog: "BEGIN { print \"B1\" }\n§ { print \"A1\" }\nEND { print \"A2\" }", want: "B1\n"},
		{name: "pattern/bare", prog: "BEGIN { print \"B1\" }\n§\nEND { print \"A2\" }", want: "B1\n"},
		{name: "pattern/second-rule", prog: "{ print \"B1\", $ }\n§ { print \"A1\" }\nEND { print \"A2\" }", want: "B1 1\n"},
		{name: "pattern/operand", prog: "BEGIN { print \"B1\" }\n$ > 0 && § { print \"A1\" }\nEND { print \"A2\" }", want: "B1\n"},
		{name: "pattern/second-element", prog: "$ == 2 && § { print \"A1\" }\n{ print \"B\", $ }", want: "B 1\n"},
	}
	stmt := func(name, s string, opt ...string) {
		p := c11Pos{name: name, prog: "BEGIN { print \"B1\"; " + s + "\nprint \"A1\" }\nEND { print \"A2\" }", want: "B1\n"}
		for i := 0; i+1 < len(opt); i += 2 {
			switch opt[i] {
			case "harmless":
				p.harmless = opt[i+1]
			case "want":
				p.want = opt[i+1]
			}
		}
		ps = append(ps, p)
	}
	// operands of every operator
	for _, op := range []string{"*", "/", "%", "+", "-", "==", "!=", "<", "<=", ">", ">=", "&&", "||"} {
		stmt("operand/left-of "+op, "r = § "+op+" 2")
		l := "2"
		if op == "||" {
			l = "0"
		}
		stmt("operand/right-of "+op, "r = "+l+" "+op+" §")
	}
	stmt("operand/left-of ~", "r = § ~ \"a\"")
	stmt("operand/right-of ~", "r = \"a\" ~ §", "harmless", "(\"a\")")
	stmt("operand/left-of !~", "r = § !~ \"a\"")
	stmt("operand/right-of !~", "r = \"a\" !~ §", "harmless", "(\"a\")")
	stmt("operand/left-of is", "r = § is number")
	stmt("operand/right-after-side-effect", "r = side(\"B2\") + §", "want", "B1\nB2\n")
	stmt("operand/left-before-side-effect", "r = § + side(\"A9\")")
	stmt("operand/unary-not", "r = !§")
	stmt("operand/unary-minus", "r = -§")
	stmt("operand/unary-plus", "r = +§")
	stmt("operand/group", "r = ((§))")
	stmt("operand/assign-rhs", "r = §")
	stmt("operand/assign-rhs-chain", "r = r2 = §")
	stmt("operand/assign-rhs-member", "ro.a.b = §")
	for _, op := range []string{"+=", "-=", "*=", "/="} {
		stmt("operand/compound-rhs "+op, "r "+op+" §")
	}
	stmt("operand/assign-target-index", "rx[§] = 1")
	stmt("operand/assign-target-base", "§.foo = 1", "harmless", "(rq)")
	stmt("operand/member-base", "r = §.foo")
	stmt("operand/index-base", "r = §[0]")
	stmt("operand/index", "r = sa[§]", "harmless", "(0)")
	stmt("operand/index-nested", "r = [[1]][0][§]", "harmless", "(0)")
	stmt("operand/postfix-incr-base", "§.y++", "harmless", "(rq)")
	stmt("operand/prefix-decr-base", "--§.y", "harmless", "(rq)")
	stmt("operand/postfix-incr-index", "rx[§]++", "harmless", "(0)")
	// calls
	stmt("call/only-argument", "r = g(§)")
	stmt("call/second-argument", "r = g(1, §)")
	stmt("call/between-side-effects", "r = g(side(\"B2\"), §, side(\"A9\"))", "want", "B1\nB2\n")
	stmt("call/native-argument-printf", "printf(\"A0 %v\\n\", §)")
	stmt("call/native-argument-num", "r = num(§)")
	stmt("call/native-argument-json", "r = json(§)")
	stmt("call/method-argument", "r = [1].push(§)")
	stmt("call/method-argument-string", "r = \"a\".split(§)", "harmless", "(\"a\")")
	stmt("call/callee", "r = §(1)", "harmless", "(g)")
	stmt("call/method-receiver", "r = §.length()", "harmless", "([1])")
	stmt("call/extra-argument", "r = f(§)")
	// literals
	stmt("literal/array-element", "r = [1, §, 3]")
	stmt("literal/array-first-element", "r = [§]")
	stmt("literal/array-after-side-effect", "r = [side(\"B2\"), §, side(\"A9\")]", "want", "B1\nB2\n")
	stmt("literal/object-value", "r = {a: 1, b: §, c: side(\"A9\")}")
	stmt("literal/nested", "r = {a: [[§]]}")
	// conditions and loops
	stmt("if/condition", "if (§) { print \"A3\" } else { print \"A4\" }")
	stmt("if/then-body", "if (1) { print \"B2\"; §; print \"A3\" }", "want", "B1\nB2\n")
	stmt("if/else-body", "if (0) { print \"A3\" } else { print \"B2\"; §; print \"A4\" }", "want", "B1\nB2\n")
	stmt("if/unbraced-body", "if (1) §")
	stmt("while/condition", "while (§) { print \"A3\"; break }")
	stmt("while/condition-second-test", "k = 0\nwhile (k == 0 || §) { print \"B2\"; k++; if (k > 1) break }", "want", "B1\nB2\n")
	stmt("while/body", "k = 0\nwhile (k < 2) { k++; print \"B2\", k; §; print \"A3\" }", "want", "B1\nB2 1\n")
	stmt("for/initialiser", "for (§; 0; 0) { print \"A3\" }")
	stmt("for/initialiser-assign", "for (i = §; i < 0; i++) { print \"A3\" }")
	stmt("for/condition", "for (i = 0; §; i++) { print \"A3\"; break }")
	stmt("for/condition-operand", "for (i = 0; i < 2 && §; i++) { print \"A3\"; break }")
	stmt("for/post", "for (i = 0; i < 2; §) { print \"B2\", i; i++ }", "want", "B1\nB2 0\n")
	stmt("for/post-operand", "for (i = 0; i < 2; i = i + 1 + 0 * §) { print \"B2\", i }", "want", "B1\nB2 0\n")
	stmt("for/body", "for (i = 0; i < 2; i++) { print \"B2\", i; §; print \"A3\" }", "want", "B1\nB2 0\n")
	stmt("for/body-second-round", "for (i = 0; i < 2; i++) { print \"B2\", i; if (i == 1) { § } }", "want", "B1\nB2 0\nB2 1\n")
	stmt("for-in/iterable", "for (x in §) { print \"A3\" }", "harmless", "([1])")
	stmt("for-in/iterable-with-index", "for (x, i in §) { print \"A3\" }", "harmless", "({a: 1})")
	stmt("for-in/iterable-element", "for (x in [1, §]) { print \"A3\" }")
	stmt("for-in/array-body", "for (x in [1, 2]) { print \"B2\", x; §; print \"A3\" }", "want", "B1\nB2 1\n")
	stmt("for-in/object-body", "for (k, v in {a: 1, b: 2}) { print \"B2\", k, v; §; print \"A3\" }", "want", "B1\nB2 a 1\n")
	stmt("for-in/string-body", "for (c in \"xy\") { print \"B2\", c; §; print \"A3\" }", "want", "B1\nB2 x\n")
	stmt("for-in/body-second-round", "for (x in [1, 2]) { print \"B2\", x; if (x == 2) { § } }", "want", "B1\nB2 1\nB2 2\n")
	stmt("for-in/nested-loops", "for (x in [1, 2]) { for (y = 0; y < 2; y++) { print \"B2\", x, y; if (x == 2 && y == 1) § } }", "want", "B1\nB2 1 0\nB2 1 1\nB2 2 0\nB2 2 1\n")
	// match
	stmt("match/subject", "r = match (§) { _ => 1 }")
	stmt("match/case-body-expression", "r = match (1) { 1 => § }")
	stmt("match/case-body-block", "match (1) { _ => { print \"B2\"; §; print \"A3\" } }", "want", "B1\nB2\n")
	stmt("match/second-case", "r = match (2) { 1 => side(\"A9\"), 2 => § }")
	stmt("match/array-pattern-body", "match ([1, 2]) { [a, b] => { print \"B2\", a, b; § } }", "want", "B1\nB2 1 2\n")
	stmt("match/in-loop-header", "k = 0\nwhile (k++ < 2 && match (k) { _ => { print \"B2\", k; § } } == null) { print \"B3\" }", "want", "B1\nB2 1\n")
	// print
	stmt("print/only-argument", "print §")
	stmt("print/first-argument", "print §, \"A3\"")
	stmt("print/last-argument", "print \"A3\", §")
	stmt("print/middle-argument", "print \"A3\", §, \"A4\"")
	// functions
	fn := func(name, defs, body, want string) {
		ps = append(ps, c11Pos{name: name, prog: defs + "\n" + body, want: want})
	}
	fn("function/body-statement", "function fb() { print \"B2\"; §; print \"A3\" }", "BEGIN { print \"B1\"; fb(); print \"A1\" }\nEND { print \"A2\" }", "B1\nB2\n")
	fn("function/return-value", "function fr() { print \"B2\"; return § }", "BEGIN { print \"B1\"; r = fr(); print \"A1\" }\nEND { print \"A2\" }", "B1\nB2\n")
	fn("function/nested-call", "function fb() { print \"B2\"; fc(); print \"A3\" }\nfunction fc() { print \"B3\"; r = [§]; print \"A4\" }", "BEGIN { print \"B1\"; fb(); print \"A1\" }\nEND { print \"A2\" }", "B1\nB2\nB3\n")
	fn("function/called-from-pattern", "function fr() { print \"B2\"; return § }", "BEGIN { print \"B1\" }\nfr() { print \"A1\" }\nEND { print \"A2\" }", "B1\nB2\n")
	fn("function/called-from-END", "function fb() { print \"B3\"; §; print \"A3\" }", "BEGIN { print \"B1\" }\n{ print \"B2\", $ }\nEND { fb(); print \"A1\" }", "B1\nB2 1\nB2 2\nB3\n")
	fn("function/called-as-argument", "function fr() { print \"B2\"; return § }", "BEGIN { print \"B1\"; print \"A0\", g(1, fr()); print \"A1\" }", "B1\nB2\n")
	fn("function/in-loop-second-call", "function fb(n) { print \"B2\", n; if (n == 2) { § } }", "BEGIN { print \"B1\"; for (x in [1, 2, 3]) fb(x)\nprint \"A1\" }", "B1\nB2 1\nB2 2\n")
	fn("function/match-in-function-in-loop", "function fb(n) { return match (n) { 2 => { print \"B3\"; § }, _ => n } }", "{ print \"B2\", $; for (x in [$]) { r = fb(x) }\nprint \"b\", r }", "B2 1\nb 1\nB2 2\nB3\n")
	fn("function/argument-default-null", "function fb(a, b) { print \"B2\", b; r = b || §; print \"A3\" }", "BEGIN { print \"B1\"; fb(1); print \"A1\" }", "B1\nB2 null\n")
	// selectors (self-contained kinds only)
	selProg := "BEGIN { print \"B1\" }\n{ print \"A1\", $ }\nEND { print \"A2\" }"
	ps = append(ps,
		c11Pos{name: "selector/whole", prog: selProg, sels: []string{"§"}, want: "B1\n"},
		c11Pos{name: "selector/second-of-two", prog: selProg, sels: []string{"$", "§"}, want: "B1\n"},
		c11Pos{name: "selector/operand", prog: selProg, sels: []string{"[$[0], §]"}, want: "B1\n"},
		c11Pos{name: "selector/in-match-block", prog: selProg, sels: []string{"match ($) { _ => { print \"B2\"; §; print \"A3\" } }"}, want: "B1\nB2\n"},
		c11Pos{name: "selector/second-value", prog: selProg, sels: []string{"match ($) { 2 => §, _ => $ }"}, files: jsonl, want: "B1\nA1 1\n"},
		c11Pos{name: "selector/second-file", prog: "BEGINFILE { print \"bf\", $file }\n{ print \"b\", $ }", sels: []string{"match ($[0]) { 2 => §, _ => $ }"}, files: two, want: "bf a.json\nb 1\n"},
	)
	return ps
}

// expression contexts for deeper nesting (thorough tier): no output of their own
var c11Nest = []string{"(g(1, §))", "([1, §][1])", "(0 + §)", "(§ || 0)", "(1 && §)", "(match (1) { _ => § })", "({a: §}.a)", "(-§)", "(g(§, 2))", "(nr = §)", "(match (§) { q => q })", "([§].length())"}

func (p c11Pos) request(e string) (string, string, []string) {
	files := p.files
	if files == nil {
		files = c11Input
	}
	if p.sels != nil {
		sels := make([]string, len(p.sels))
		for i, s := range p.sels {
			sels[i] = strings.ReplaceAll(s, "§", e)
		}
		return RunReq(p.prog, sels, files, false), p.prog, sels
	}
	prog := c11Prelude + strings.ReplaceAll(p.prog, "§", e)
	return RunReq(prog, nil, files, false), prog, nil
}

func c11FaultCase(p c11Pos, k c11Kind, e string, nest string) Case {
	req, prog, sels := p.request(e)
	meta := metaProg(prog, "fault-kind", k.name, "fault-expression", e, "position", p.name, "expected-output", p.want, "row", k.name, "col", p.name)
	if sels != nil {
		meta["selectors"] = strings.Join(sels, "  ||  ")
	}
	if nest != "" {
		meta["nesting"] = nest
	}
	want := p.want
	return Case{Req: req, Fields: c11Fields, Meta: meta,
		NonTrivial: func(i Resp) bool { return i["class"] == "runtime" },
		Oracle: func(i Resp) string {
			if i["class"] != "runtime" {
				return fmt.Sprintf("C11: fault %s at position %s was not reported as a runtime error: class %s, output %q", k.name, p.name, i["class"], i.Bytes("out"))
			}
			if got := string(i.Bytes("out")); got != want {
				return fmt.Sprintf("C11: fault %s at position %s: output must be exactly what was printed before the fault %q, got %q", k.name, p.name, want, got)
			}
			return ""
		}}
}

func c11GenFaults(r *rand.Rand, tier string, emit func(Case)) {
	ps := c11Positions()
	for _, p := range ps {
		// the fault-free control validates the expectation written into the position
		h := p.harmless
		if h == "" {
			h = "(7)"
		}
		req, prog, sels := p.request(h)
		want := p.want
		meta := metaProg(prog, "position", p.name, "fault-kind", "(none: harmless "+h+")", "row", "(harmless control)", "col", p.name)
		if sels != nil {
			meta["selectors"] = strings.Join(sels, "  ||  ")
		}
		emit(Case{Req: req, Fields: c11Fields, Meta: meta,
			Oracle: func(i Resp) string {
				if i["class"] != "ok" || !strings.HasPrefix(string(i.Bytes("out")), want) {
					return fmt.Sprintf("generator: the fault-free control of position %s must succeed with output starting %q, got %s", p.name, want, i.String())
				}
				return ""
			}})
		for _, k := range c11Kinds {
			if p.sels != nil && !k.self {
				continue
			}
			if k.slow && tier == "quick" && !chance(r, 0.25) {
				continue
			}
			emit(c11FaultCase(p, k, k.expr, ""))
		}
	}
	// stores into what cannot hold a value: every kind in a plain statement and as an operand, and at
	// a sample of the other positions (thorough: at every position)
	for _, k := range c11StoreKinds() {
		for _, p := range ps {
			if p.sels != nil && !k.self {
				continue
			}
			if tier != "thorough" && p.name != "statement/BEGIN" && p.name != "operand/assign-rhs" && !chance(r, 0.05) {
				continue
			}
			emit(c11FaultCase(p, k, k.expr, ""))
		}
	}
	// $index / $file before any input: only meaningful in BEGIN
	for _, k := range []c11Kind{{"dollar-index-in-BEGIN", "($index)", true, false}, {"dollar-file-in-BEGIN", "($file)", true, false}} {
		for _, p := range ps {
			if strings.HasPrefix(p.prog, "BEGIN { print \"B1\"; ") && p.sels == nil {
				emit(c11FaultCase(p, k, k.expr, ""))
			}
		}
	}
	// the pattern of a match case is only evaluated when it is a literal
	lit := func(name, s, want string, expectFault bool) {
		prog := c11Prelude + "BEGIN { print \"B1\"; " + s + "\nprint \"A1\" }"
		meta := metaProg(prog, "position", name, "row", "bad-escape", "col", name)
		if expectFault {
			p := c11Pos{name: name, want: want}
			c := c11FaultCase(p, c11Kind{name: "bad-escape"}, "", "")
			c.Req, c.Meta = RunReq(prog, nil, c11Input, false), meta
			emit(c)
		} else {
			emit(Case{Req: RunReq(prog, nil, c11Input, false), Fields: c11Fields, Meta: meta, Oracle: func(i Resp) string {
				if i["class"] != "ok" || string(i.Bytes("out")) != want {
					return fmt.Sprintf("C11: position %s is not evaluated, expected success with %q, got %s", name, want, i.String())
				}
				return ""
			}})
		}
	}
	lit("match/case-pattern-literal", "r = match (\"x\") { \"\\q\" => 1, _ => 2 }", "B1\n", true)
	lit("match/case-pattern-second-alternative", "r = match (\"x\") { \"y\", \"\\q\" => 1, _ => 2 }", "B1\n", true)
	lit("match/case-pattern-in-array-pattern", "r = match ([\"x\"]) { [\"\\q\"] => 1, _ => 2 }", "B1\n", true)
	lit("match/case-pattern-second-case", "r = match (\"x\") { \"y\" => 1, \"a\\\" => 2 }", "B1\n", true)
	lit("match/case-pattern-after-matching-alternative (not evaluated)", "r = match (\"x\") { \"x\", \"\\q\" => 1, _ => 2 }\nprint r", "B1\n1\nA1\n", false)
	lit("match/case-pattern-after-matching-case (not evaluated)", "r = match (\"x\") { \"x\" => 1, \"\\q\" => 2 }\nprint r", "B1\n1\nA1\n", false)
	lit("match/case-pattern-array-length-differs (not evaluated)", "r = match ([1, 2]) { [\"\\q\"] => 1, _ => 2 }\nprint r", "B1\n2\nA1\n", false)
	lit("match/case-pattern-unset-subject (literal still evaluated)", "r = match (unsetvar) { \"\\q\" => 1, _ => 2 }", "B1\n", true)

	// random deeper nesting of the fault inside expressions
	n := tierN(tier, 1500, 150000)
	stores := c11StoreKinds()
	for i := 0; i < n; i++ {
		p, k := pick(r, ps), pick(r, c11Kinds)
		if chance(r, 0.35) {
			k = pick(r, stores)
		}
		if p.sels != nil && !k.self || k.slow && !chance(r, 0.1) {
			continue
		}
		e := k.expr
		var names []string
		for d := 1 + r.Intn(3); d > 0; d-- {
			t := pick(r, c11Nest)
			if p.sels != nil && strings.Contains(t, "g(") {
				continue
			}
			e = strings.ReplaceAll(t, "§", e)
			names = append(names, t)
		}
		emit(c11FaultCase(p, k, e, strings.Join(names, " <- ")))
	}
}

// positions where the expression is not evaluated at all
func c11GenUnevaluated(r *rand.Rand, tier string, emit func(Case)) {
	type up struct {
		name, prog string
		files      []File
	}
	ups := []up{
		{"and-after-false", "BEGIN { print \"B1\"; r = 0 && §; print \"A1\", r }", nil},
		{"or-after-true", "BEGIN { print \"B1\"; r = 1 || §; print \"A1\", r }", nil},
		{"or-after-call", "BEGIN { print \"B1\"; r = f() || §; print \"A1\", r }", nil},
		{"and-chain", "BEGIN { print \"B1\"; r = 1 && 0 && §; print \"A1\", r }", nil},
		{"if-false-body", "BEGIN { print \"B1\"; if (0) { § }\nprint \"A1\" }", nil},
		{"else-not-taken", "BEGIN { print \"B1\"; if (1) { print \"B2\" } else { § }\nprint \"A1\" }", nil},
		{"while-false-body", "BEGIN { print \"B1\"; while (0) { § }\nprint \"A1\" }", nil},
		{"for-false-body-and-post", "BEGIN { print \"B1\"; for (i = 0; i < 0; §) { § }\nprint \"A1\" }", nil},
		{"for-in-empty-body", "BEGIN { print \"B1\"; for (x in []) { § }\nprint \"A1\" }", nil},
		{"after-break", "BEGIN { print \"B1\"; for (x in [1, 2]) { print x; break; § }\nprint \"A1\" }", nil},
		{"after-continue", "BEGIN { print \"B1\"; for (x in [1, 2]) { print x; continue; § }\nprint \"A1\" }", nil},
		{"after-return", "function fz() { print \"B2\"; return 3; § }\nBEGIN { print \"B1\"; print fz(); print \"A1\" }", nil},
		{"after-next", "{ print \"B\", $; next; § }\nEND { print \"A1\" }", nil},
		{"after-exit", "BEGIN { print \"B1\"; exit; § }\nEND { § }", nil},
		{"untaken-match-case", "BEGIN { print \"B1\"; r = match (1) { 2 => §, _ => 3 }\nprint \"A1\", r }", nil},
		{"match-case-after-taken", "BEGIN { print \"B1\"; r = match (1) { 1 => 4, _ => § }\nprint \"A1\", r }", nil},
		{"function-never-called", "function never() { § }\nBEGIN { print \"B1\" }\n{ print \"A1\", $ }", nil},
		{"pattern-false-body", "0 { § }\n{ print \"A1\", $ }", nil},
		{"rule-after-next", "{ print \"B\", $; next }\n§ { print \"no\" }\nEND { print \"A1\" }", nil},
		{"rule-without-input", "BEGIN { print \"B1\" }\n§ { § }\nEND { print \"A1\" }", []File{}},
		{"rule-with-empty-array", "BEGIN { print \"B1\" }\n§ { § }\nEND { print \"A1\" }", []File{{Name: "e.json", Data: []byte("[]")}}},
		{"ENDFILE-without-values", "BEGINFILE { § }\nENDFILE { § }\nEND { print \"A1\" }", []File{{Name: "e.json", Data: []byte(" ")}}},
	}
	for _, u := range ups {
		files := u.files
		if files == nil {
			files = c11Input
		}
		if len(files) == 0 {
			files = nil
		}
		exprs := []c11Kind{{name: "(harmless control)", expr: "(7)"}}
		exprs = append(exprs, c11Kinds...)
		for _, k := range exprs {
			prog := c11Prelude + strings.ReplaceAll(u.prog, "§", k.expr)
			emit(Case{Req: RunReq(prog, nil, files, false), Fields: c11Fields, Group: "unevaluated/" + u.name, GroupFields: []string{"class", "out"},
				Meta: metaProg(prog, "fault-kind", k.name, "position", u.name+" (not evaluated)", "row", k.name, "col", u.name),
				Oracle: func(i Resp) string {
					if i["class"] != "ok" {
						return fmt.Sprintf("C11: %s sits where it is never evaluated (%s) but the run ended with class %s", k.name, u.name, i["class"])
					}
					return ""
				}})
		}
	}
}

func init() {
	register(Family{Name: "syntax-splice", Prop: "C11",
		Rule: "6 valid multi-rule programs that print in BEGIN, per element and in END; one of 30 fragments that is a syntax error in every context (illegal character, lone quote, each unbalanced bracket, `* *`, `== ==`, stray => and :, assignment/++/-- on literal, call, unary, sum, string, match, array; return outside function bodies, break/continue outside loop bodies - also in loop headers via match blocks) spliced at every token boundary, plus operands deleted before a closing token, plus the fragments inside -r selectors. Oracle: class syntax, output empty (selectors: exactly BEGIN's output), illegal character reported at its own line/col. Non-trivial = rejected.",
		Gen:  c11GenSplice})
	register(Family{Name: "fault-injection", Prop: "C11",
		Rule: "76 kinds of runtime fault (+ $index/$file in BEGIN) + 605 kinds of failing store (55 targets that cannot hold a value -- an index of a string inside and outside the string incl. == length, negative, fractional, non-numeric, the empty string, strings in variables / temporaries / object members / array elements; members and indices of numbers and booleans; method values of arrays, strings and numbers -- x 11 store forms = op= ++ -- prefix and postfix; quick: in a statement, as an operand and at a 5% sample of the other positions) (division, calls of non-functions, invalid regex, ~ with a non-string, container comparison, non-iterables, member/index stores on scalars, ++ on such, 10 printf faults, unknown $name, bad escapes, index before start, copying function/native/method values, bad index kinds, array .length/string-key/huge-index stores, call depth, match pattern faults, native argument faults, circular json) x 133 evaluated positions + 8 match-pattern-literal positions (statements in every rule kind / element / file / value, rule patterns, both operands of every operator, assignment sides, calls, literals, if/while/for clauses incl. initialiser and post, for-in iterable and bodies, match subject/bodies/pattern literals, print arguments, function bodies/returns/nesting, -r selectors) + random deeper expression nesting; each position has a fault-free control. Oracle: class runtime and output exactly the text printed before the fault. Matrix kind x position in the result file. Non-trivial = runtime error.",
		Gen:  c11GenFaults})
	register(Family{Name: "fault-unevaluated", Prop: "C11",
		Rule: "the same fault expressions at 22 positions that are never evaluated (short-circuit, untaken branches/cases, bodies of loops that do not run, code after break/continue/return/next/exit, uncalled functions, rules without input): class ok and the output equals the harmless control's (group).",
		Gen:  c11GenUnevaluated})
}
