package main

// Line protocol shared by the implementation runner and the Lean model driver
// (jqmodel). One request per line, one response per line; byte fields are hex.

import (
	"encoding/hex"
	"fmt"
	"sort"
	"strings"
)

func hx(b []byte) string {
	if len(b) == 0 {
		return "-"
	}
	return hex.EncodeToString(b)
}

func hxs(s string) string { return hx([]byte(s)) }

func unhx(s string) ([]byte, error) {
	if s == "-" || s == "" {
		return nil, nil
	}
	return hex.DecodeString(s)
}

// File is one input stream of a run request.
type File struct {
	Name   string
	Data   []byte
	IOErr  bool  // the reader fails (non-EOF error) after Data
	Chunks []int // implementation only: sizes of successive reads (nil = all at once); a negative entry is a Read that returns (0, nil)
	// DataErr (implementation only): the Read call that hands out the last bytes of Data
	// returns the terminal error (io.EOF, or the I/O error of IOErr) in the SAME call, as
	// the io.Reader contract allows (cf. testing/iotest.DataErrReader). On the wire: a
	// trailing "!" on the chunk list; a (0, nil) read is the token "z".
	DataErr bool
	// Exact (implementation only): the chunk sizes are the sizes of the bursts in which the
	// bytes ARRIVE: a Read whose buffer is smaller than what is left of the current burst gets a
	// full buffer and the next Read continues in the same burst, so that the read boundaries
	// include every burst boundary whatever buffer sizes the decoder uses (without Exact a chunk
	// larger than the buffer is cut down to it and the schedule shifts). On the wire: a leading
	// "x" token of the chunk list.
	Exact bool
}

// RunReq builds a "run" request line.
func RunReq(prog string, sels []string, files []File, wantJSON bool) string {
	s := "-"
	if len(sels) > 0 {
		parts := make([]string, len(sels))
		for i, x := range sels {
			parts[i] = hxs(x)
		}
		s = strings.Join(parts, ",")
	}
	f := "-"
	if len(files) > 0 {
		parts := make([]string, len(files))
		for i, x := range files {
			tail := "e"
			if x.IOErr {
				tail = "i"
			}
			ch := ""
			if len(x.Chunks) > 0 || x.DataErr || x.Exact {
				cs := make([]string, 0, len(x.Chunks)+1)
				if x.Exact {
					cs = append(cs, "x")
				}
				for _, c := range x.Chunks {
					if c < 0 {
						cs = append(cs, "z")
					} else {
						cs = append(cs, fmt.Sprint(c))
					}
				}
				ch = ":" + strings.Join(cs, ",")
				if x.DataErr {
					ch += "!"
				}
			}
			parts[i] = hxs(x.Name) + ":" + hx(x.Data) + ":" + tail + ch
		}
		f = strings.Join(parts, ";")
	}
	flags := "-"
	if wantJSON {
		flags = "j"
	}
	return "run " + hxs(prog) + " " + s + " " + f + " " + flags
}

// RunReqFuzz builds a "run" request whose run is made with fuzzing=true (flag z; implementation only).
func RunReqFuzz(prog string, sels []string, files []File) string {
	return strings.TrimSuffix(RunReq(prog, sels, files, false), "-") + "z"
}

// Resp is a parsed response line: "R k=v k=v ...".
type Resp map[string]string

func ParseResp(line string) Resp {
	r := Resp{}
	line = strings.TrimSpace(line)
	if !strings.HasPrefix(line, "R") {
		r["class"] = "garbled"
		r["raw"] = line
		return r
	}
	for _, kv := range strings.Fields(line)[1:] {
		i := strings.IndexByte(kv, '=')
		if i < 0 {
			continue
		}
		r[kv[:i]] = kv[i+1:]
	}
	return r
}

func (r Resp) String() string {
	keys := make([]string, 0, len(r))
	for k := range r {
		keys = append(keys, k)
	}
	sort.Strings(keys)
	var sb strings.Builder
	sb.WriteString("R")
	for _, k := range keys {
		sb.WriteString(" " + k + "=" + r[k])
	}
	return sb.String()
}

// Bytes decodes a hex field.
func (r Resp) Bytes(k string) []byte {
	b, _ := unhx(r[k])
	return b
}

// Skippable says that the model declined the case (never a pass or a fail).
func (r Resp) Skippable() bool {
	c := r["class"]
	return c == "unmodelled" || c == "oof" || c == "timeout" || c == "crash"
}
