package main

// C02 — rules run in awk order over every input shape, with $, $index and
// $file bound (src/evaluator.go readRules, evalRules, evalPatternRules,
// EvalProgram).
//
// Families:
//   sched-trace   random programs in which every rule prints a distinctive tag
//                 plus $, $index, $file; next/exit everywhere; compared with the
//                 model, plus generic trace laws on the implementation
//   sched-ref     a restricted program class whose exact trace is predicted by
//                 an independent Go reference of the schedule (c02RefRun)
//   sched-perm    systematic: all source orders of one rule per kind (+2 pattern
//                 rules) x one control statement at every place x inputs,
//                 checked against the same reference
//   root-assign   BEGINFILE `$ = ...`, element writes seen by later rules and by
//                 ENDFILE, two BEGINFILE rules, selectors
//   var-assign    programs that ASSIGN to $file, $index and $ in every rule kind
//                 and print all three at the start of every rule, over several
//                 values per file, several files, the same file twice, selectors;
//                 the reference re-binds exactly what the driver re-binds ($file
//                 per decoded value, $index per array element, $ per rule / element)
//   many-rules    13-60 rules (around the threshold 10-16 too) of all kinds in arbitrary
//                 source order, many rules of the same kind, every rule printing its
//                 own tag: the relative order within every kind is observable;
//                 predicted by the reference schedule (c02RefRun)
//   long-schedules  5 000 - 200 000 elements (one array, JSONL, chunks, several
//                 files) that leave their rules by next (body / function / nested
//                 functions / match body / pattern), exit at a late element;
//                 counts predicted in closed form
//   schedule-through-binary  the sched-trace programs run by the real binary with 0-3 -r
//                 selectors (commas, brackets, quotes in the selector text), several
//                 files, JSONL, stdin: tied to the in-process run and to the model
//   root-changed-during-walk  the root array is changed THROUGH ANOTHER NAME while it is
//                 walked: an alias taken in BEGINFILE (directly, through a second
//                 BEGINFILE rule, a function parameter, a function result, an object
//                 member, an array element, a selector root, a root assigned in
//                 BEGINFILE) and pattern rules that push, store ahead / behind / past
//                 the end, reassign `$`, pop, popfirst or re-bind the alias; the runs
//                 are those of the array as it was when the walk began (c02WRun)
//   begin-before-live-input  the real binary with a stdin pipe / FIFO whose writer has sent 0, 1, 2 bytes and
//                 stays open: the BEGIN output is there (and a run that ends in BEGIN has ended)
//                 before a further byte or end of input arrives
//   literal-file-names  file arguments whose names contain [ ] ? * \ { } ~ $ blanks , ; = or begin with
//                 dashes, next to the sibling files a pattern / list / option reading would pick:
//                 the trace names exactly the files of the command line, in its order

import (
	"encoding/json"
	"fmt"
	"math/rand"
	"os"
	"sort"
	"strconv"
	"strings"
)

const (
	c02B = iota
	c02E
	c02BF
	c02EF
	c02P
)

var c02Kw = []string{"BEGIN", "END", "BEGINFILE", "ENDFILE", ""}
var c02TagPrefix = []string{"B", "E", "BF", "EF", "P"}

// `next` reached while a *pattern* is evaluated (through a function call) used
// to surface the internal error "next" (class sentinel); repaired in /repo
// (8900bea: the remaining rules are skipped for that element), generated since.
const c02NextInPattern = true

// ---------------------------------------------------------------- inputs

var c02Elems = []string{"0", "1", "2", "3", "4", "5", `"a"`, `"ba"`, `"x"`, `"5"`, "null", "true", "false", "[1,2]", `{"a":1}`, "2.5", `""`}

func c02Array(r *rand.Rand, n int) string {
	parts := make([]string, n)
	for i := range parts {
		if chance(r, 0.6) {
			parts[i] = strconv.Itoa(r.Intn(6))
		} else {
			parts[i] = pick(r, c02Elems)
		}
	}
	return "[" + strings.Join(parts, pick(r, []string{",", ", "})) + "]"
}

// c02Root: the text of one top-level JSON value; isArr tells whether it is an array.
func c02Root(r *rand.Rand) (string, bool) {
	switch k := r.Intn(20); {
	case k < 9:
		return c02Array(r, r.Intn(5)), true
	case k < 12:
		return pick(r, []string{`{}`, `{"a":1}`, `{"a":{"b":2}}`, `{"list":[1,2,3]}`, `{"a":[3,4],"list":[{"a":1},2]}`,
			`{"a":"s","list":[],"k":null}`, `{"list":7,"a":[[1],[2,3]]}`, `{"b":1,"a":[5,"a",2]}`}), false
	case k < 14:
		return pick(r, []string{"0", "1", "2", "7", "-3", "2.5", "1e3"}), false
	case k < 15:
		return pick(r, []string{`"a"`, `"hello"`, `""`, `"x y"`}), false
	case k < 16:
		return "null", false
	case k < 17:
		return pick(r, []string{"true", "false"}), false
	default:
		return pick(r, []string{"[[1,2],[3]]", "[[],[[]]]", `[{"a":[1]},{"list":[2]}]`, `[[1,"a"],{"a":[2,3],"list":[4]},5]`,
			`[{"a":1,"list":[1,2]},{"a":2,"list":[]}]`, "[[[1,2],[3,4]],[[5]]]"}), true
	}
}

func c02Sep(r *rand.Rand, prev, next string) string {
	seps := []string{" ", "\n", "\t", "\n\n", "  ", "\r\n"}
	if prev == "" || next == "" {
		return pick(r, append(seps, "", ""))
	}
	p, n := prev[len(prev)-1], next[0]
	if p == ']' || p == '}' || p == '"' || n == '[' || n == '{' || n == '"' {
		seps = append(seps, "", "")
	}
	return pick(r, seps)
}

var c02Names = []string{"a.json", "b.json", "c.json"}

// c02Inputs: 0-3 files with 0-3 values each.
func c02Inputs(r *rand.Rand) (files []File, firstArr bool, nvals int) {
	nf := pick(r, []int{0, 1, 1, 1, 1, 1, 2, 2, 2, 3, 3})
	first := true
	for i := 0; i < nf; i++ {
		nv := pick(r, []int{0, 1, 1, 1, 1, 2, 2, 2, 3, 3})
		var vals []string
		for j := 0; j < nv; j++ {
			v, isArr := c02Root(r)
			if first {
				firstArr, first = isArr, false
			}
			vals = append(vals, v)
		}
		nvals += nv
		var sb strings.Builder
		prev := ""
		for _, v := range vals {
			sb.WriteString(c02Sep(r, prev, v))
			sb.WriteString(v)
			prev = v
		}
		sb.WriteString(c02Sep(r, prev, ""))
		files = append(files, File{Name: c02Names[i], Data: []byte(sb.String())})
	}
	return
}

func c02Sels(r *rand.Rand) []string {
	pool := []string{"$", "$.a", "$[0]", "[$, 1]", "$.list", "$", "$.a", "$[0]", "$.list", "$[1]", "$.a.b", "{x: $}", "$.list[0]"}
	if chance(r, 0.08) {
		// next / exit executed by a selector: skips this root / ends the run
		pool = []string{"$", "match ($ is array) { true => { next }, _ => $ }", "match ($ is number) { true => { exit }, _ => $ }", "match ($) { 2 => { next }, _ => [$] }"}
	}
	switch r.Intn(10) {
	case 0, 1, 2, 3, 4:
		return nil
	case 5, 6, 7:
		return []string{pick(r, pool)}
	default:
		return []string{pick(r, pool), pick(r, pool)}
	}
}

func c02FilesMeta(files []File) string {
	var sb strings.Builder
	for _, f := range files {
		fmt.Fprintf(&sb, "%s=%q ", f.Name, string(f.Data))
	}
	return sb.String()
}

// ---------------------------------------------------------------- sched-trace

type c02Gen struct {
	r        *rand.Rand
	firstArr bool
	idxSafe  bool // $index is certainly known whenever a pattern rule runs
	nvals    int
	used     map[string]bool // helper functions used
	unmarked bool            // an exit without an EXIT marker line was generated
	asg      bool            // this program assigns to $file / $index and prints them in every rule that can
}

// a statement and whether it must be followed by a newline (match) / may not be followed by ';' (brace)
type c02Stmt struct {
	text  string
	brace bool
	nl    bool
}

func (g *c02Gen) printStmt(kind int, tag string) c02Stmt {
	r := g.r
	q := strconv.Quote(tag)
	args := []string{q, "$"}
	switch kind {
	case c02B:
		if chance(r, 0.04) {
			args = append(args, pick(r, []string{"$file", "$index"})) // targeted fault: unknown in BEGIN
		}
	case c02E:
		if g.nvals > 0 && chance(r, 0.4) {
			args = append(args, "$file")
		}
		if g.idxSafe && chance(r, 0.2) {
			args = append(args, "$index")
		}
	case c02BF, c02EF:
		if chance(r, 0.7) {
			args = append(args, "$file")
		}
		if chance(r, 0.04) {
			args = append(args, "$index") // stale or unknown
		}
	case c02P:
		p := 0.04
		if g.idxSafe {
			p = 0.6
		}
		if chance(r, p) {
			args = append(args, "$index")
		}
		if chance(r, 0.4) {
			args = append(args, "$file")
		}
	}
	if chance(r, 0.3) {
		args = append(args, "c")
	}
	if g.asg && kind != c02B && (kind != c02E || g.nvals > 0) && !strings.Contains(strings.Join(args, " "), "$file") {
		args = append(args, "$file")
	}
	return c02Stmt{text: "print " + strings.Join(args, ", ")}
}

func (g *c02Gen) cond(kind int) string {
	r := g.r
	switch kind {
	case c02B, c02E:
		return pick(r, []string{"true", "false", "c > 1", "$ == null", "c"})
	case c02BF, c02EF:
		return pick(r, []string{"true", "c > 2", "$ is array", "$ is object", `$file == "b.json"`, "$ is number && $ > 1", "c % 2 == 1"})
	default:
		if g.idxSafe && chance(r, 0.2) {
			return pick(r, []string{"$index == 1", "$index > 0", "$index % 2 == 1"})
		}
		return pick(r, []string{"$ is number && $ == 2", "$ is number && $ > 1", "$ == 2", "c > 2", "$ is string", `$file == "b.json"`, "$ is number && $ == 2", "$ is array", "true", "$ ~ /a/"})
	}
}

func (g *c02Gen) control(kind int, tag string) (c02Stmt, bool) {
	for {
		st, has := g.control1(kind, tag)
		// exits cut the trace short: keep them, but in fewer rules (and fewer still in BEGIN)
		if has && strings.Contains(st.text, "exit") && chance(g.r, map[bool]float64{true: 0.8, false: 0.55}[kind == c02B]) {
			continue
		}
		return st, has
	}
}

func (g *c02Gen) control1(kind int, tag string) (c02Stmt, bool) {
	r := g.r
	q := strconv.Quote(tag)
	exitBlk := fmt.Sprintf(`{ print %s, "EXIT"; exit }`, q)
	nextBlk := fmt.Sprintf(`{ print %s, "NEXT"; next }`, q)
	switch k := r.Intn(100); {
	case k < 45:
		return c02Stmt{}, false
	case k < 52:
		return c02Stmt{text: "next"}, true
	case k < 56:
		if chance(r, 0.3) {
			g.unmarked = true
			return c02Stmt{text: "exit"}, true
		}
		return c02Stmt{text: exitBlk, brace: true}, true
	case k < 66:
		return c02Stmt{text: "if (" + g.cond(kind) + ") " + nextBlk, brace: true}, true
	case k < 74:
		return c02Stmt{text: "if (" + g.cond(kind) + ") " + exitBlk, brace: true}, true
	case k < 77:
		return c02Stmt{text: "if (" + g.cond(kind) + ") " + nextBlk + " else " + exitBlk, brace: true}, true
	case k < 80:
		g.used["fnext"] = true
		return c02Stmt{text: "fnext(" + q + ")"}, true
	case k < 83:
		g.used["fexit"] = true
		return c02Stmt{text: "fexit(" + q + ")"}, true
	case k < 87:
		g.used["fmaybe"] = true
		return c02Stmt{text: "x = fmaybe(" + q + ", $)"}, true
	case k < 90:
		g.used["fdeep"] = true
		return c02Stmt{text: fmt.Sprintf("if (%s) fdeep(%s, %d)", g.cond(kind), q, r.Intn(4))}, true
	case k < 93:
		return c02Stmt{text: fmt.Sprintf(`for (i = 0; i < 3; i++) { if (i == %d) { print %s, "loop-NEXT", i; next } }`, r.Intn(4), q), brace: true}, true
	case k < 95:
		return c02Stmt{text: fmt.Sprintf(`for (y in [1, 2]) { if (%s) %s }`, g.cond(kind), exitBlk), brace: true}, true
	case k < 97:
		return c02Stmt{text: fmt.Sprintf(`w = 0; while (w < 2) { w++; if (%s) %s }`, g.cond(kind), nextBlk), brace: true}, true
	default:
		what := pick(r, []string{exitBlk, nextBlk})
		return c02Stmt{text: fmt.Sprintf(`match ($) { 2, "a" => %s, _ => 0 }`, what), nl: true}, true
	}
}

func c02Join(r *rand.Rand, stmts []c02Stmt) string {
	var sb strings.Builder
	for i, s := range stmts {
		sb.WriteString(s.text)
		if i == len(stmts)-1 {
			break
		}
		switch {
		case s.nl:
			sb.WriteString("\n")
		case s.brace:
			sb.WriteString(pick(r, []string{" ", "\n", "\n  "}))
		default:
			sb.WriteString(pick(r, []string{"; ", "\n", ";\n  "}))
		}
	}
	if len(stmts) > 0 && stmts[len(stmts)-1].nl {
		sb.WriteString("\n")
	}
	return sb.String()
}

func (g *c02Gen) body(kind int, tag string) string {
	r := g.r
	var stmts []c02Stmt
	if chance(r, 0.35) {
		stmts = append(stmts, c02Stmt{text: pick(r, []string{"c++", "c = c + 1", "c += 1"})})
	}
	pr := g.printStmt(kind, tag)
	ctl, has := g.control(kind, tag)
	after := c02Stmt{text: fmt.Sprintf(`print %s, "after"`, strconv.Quote(tag))}
	if !has {
		stmts = append(stmts, pr)
	} else {
		switch r.Intn(4) {
		case 0:
			stmts = append(stmts, ctl, pr)
		case 1:
			stmts = append(stmts, pr, ctl)
		case 2:
			stmts = append(stmts, pr, ctl, after)
		default:
			ctl2, has2 := g.control(kind, tag)
			stmts = append(stmts, ctl, pr)
			if has2 {
				stmts = append(stmts, ctl2, after)
			}
		}
	}
	if g.asg && kind != c02B && chance(r, 0.45) {
		// an assignment to a variable the driver binds: lasts until the driver binds it again
		// ($file: the next JSON value; $index: the next array element)
		pool := []string{`$file = "F"`, `$file = $file + "'"`, `$file = c`, `$file = [$file]`, `$file = "` + tag + `"`}
		if g.idxSafe && (kind == c02P || chance(r, 0.3)) {
			pool = append(pool, "$index = 40", "$index += 100", `$index = "i"`, "$index = $index * 2")
		}
		st := c02Stmt{text: pick(r, pool)}
		at := r.Intn(len(stmts) + 1)
		stmts = append(stmts[:at], append([]c02Stmt{st}, stmts[at:]...)...)
	}
	if kind == c02P && chance(r, 0.08) {
		// a write to the element, seen by later rules and by ENDFILE
		stmts = append(stmts, c02Stmt{text: pick(r, []string{`if ($ is number) $ = $ + 10`, `if ($ is string) $ = "W"`, `if ($ is object) $.z = 1`})})
	}
	return "{ " + c02Join(r, stmts) + " }"
}

var c02SafePatterns = []string{"true", "false", "0", "1", `""`, `"x"`, "null", "u", "$ is number && $ > 1", "$index % 2 == 0", "$ ~ /a/", "$ is number", "$ is object", "$ is array", "$ == 2", "$ > 1", "$.a", "$index == 0", "$index < 2", "$file == \"a.json\"", "c > 1", "c", "$ is null", "$ is string && $ ~ /^b/"}
var c02OtherPatterns = []string{"!u", "[]", "{}", "(1)", "-1", "/a/", "!($ is number)", "[$][0]", "(c < 3)"}

func (g *c02Gen) pattern(safeStart bool) string {
	r := g.r
	if !safeStart && chance(r, 0.2) {
		return pick(r, c02OtherPatterns)
	}
	if chance(r, 0.06) {
		g.used["fexitp"] = true
		return "fexitp($)"
	}
	if c02NextInPattern && chance(r, 0.05) {
		g.used["fnextp"] = true
		return "fnextp($)"
	}
	for {
		p := pick(r, c02SafePatterns)
		if strings.Contains(p, "$index") && !g.idxSafe && !chance(r, 0.1) {
			continue
		}
		if (p == "$ == 2" || p == "$ > 1") && !chance(r, 0.4) {
			continue // runtime error on containers: keep, but rarer
		}
		return p
	}
}

var c02Funcs = map[string]string{
	"fnext":  `function fnext(t) { print t, "fnext-NEXT"; next; print t, "unreachable" }`,
	"fexit":  `function fexit(t) { print t, "EXIT"; exit; print t, "unreachable" }`,
	"fmaybe": "function fmaybe(t, v) { if (v is number && v > 1) { print t, \"fmaybe-NEXT\", v; next }\n return v }",
	"fdeep":  "function fdeep(t, n) { if (n <= 0) { print t, \"EXIT\"; exit }\n return fdeep(t, n - 1) }",
	"fexitp": "function fexitp(v) { if (v is number && v > 3) { print \"PAT\", \"EXIT\"; exit }\n return v is number }",
	"fnextp": "function fnextp(v) { if (v is number && v > 3) { next }\n return true }",
}

type c02Prog struct {
	text        string
	kinds       []int    // kind of each rule in source order
	tags        []string // tag of each rule
	anyBodyless bool
}

// program: rules of every kind in mixed source order.
func (g *c02Gen) program() c02Prog {
	r := g.r
	n := 2 + r.Intn(8)
	if chance(r, 0.06) {
		n = 13 + r.Intn(28) // many rules: the order within a kind must not depend on the size of the program
	}
	var p c02Prog
	for i := 0; i < n; i++ {
		k := pick(r, []int{c02B, c02B, c02E, c02E, c02BF, c02BF, c02EF, c02EF, c02P, c02P, c02P, c02P, c02P})
		p.kinds = append(p.kinds, k)
		p.tags = append(p.tags, c02TagPrefix[k]+strconv.Itoa(i))
	}
	var parts []string
	prevBodyless := false
	for i, k := range p.kinds {
		tag := p.tags[i]
		var txt string
		bodyless := false
		if k == c02P {
			pat := ""
			if prevBodyless || chance(r, 0.7) {
				pat = g.pattern(prevBodyless)
			}
			if pat != "" && chance(r, 0.2) {
				bodyless = true
				txt = pat
			} else if pat != "" {
				txt = pat + pick(r, []string{" ", "\n", " "}) + g.body(k, tag)
			} else {
				txt = g.body(k, tag)
			}
			// after a body-less rule the next pattern rule must start with a pattern from the safe list
			prevBodyless = bodyless
		} else {
			if chance(r, 0.03) {
				txt = c02Kw[k] // body-less special rule: print $
				bodyless = true
			} else {
				txt = c02Kw[k] + pick(r, []string{" ", " ", "\n"}) + g.body(k, tag)
			}
			prevBodyless = bodyless // `BEGIN` followed by `{` would take it as its body
		}
		if bodyless {
			p.anyBodyless = true
		}
		parts = append(parts, txt)
	}
	// helper functions at random places between the rules
	for _, name := range []string{"fnext", "fexit", "fmaybe", "fdeep", "fexitp", "fnextp"} {
		if g.used[name] {
			at := r.Intn(len(parts) + 1)
			// never between a body-less pattern rule and its successor's leading pattern: harmless, `function` is a keyword
			parts = append(parts[:at], append([]string{c02Funcs[name]}, parts[at:]...)...)
		}
	}
	var sb strings.Builder
	for i, s := range parts {
		sb.WriteString(s)
		if i < len(parts)-1 {
			if strings.HasSuffix(s, "}") {
				sb.WriteString(pick(r, []string{"\n", "\n", " ", "\n\n"}))
			} else {
				sb.WriteString("\n")
			}
		}
	}
	p.text = sb.String()
	return p
}

func c02LineKind(line string) int {
	tag := line
	if i := strings.IndexByte(line, ' '); i >= 0 {
		tag = line[:i]
	}
	switch {
	case strings.HasPrefix(tag, "BF"):
		return c02BF
	case strings.HasPrefix(tag, "EF"):
		return c02EF
	case strings.HasPrefix(tag, "B"):
		return c02B
	case strings.HasPrefix(tag, "E"):
		return c02E
	case strings.HasPrefix(tag, "P"):
		return c02P
	}
	return -1
}

func c02TagNum(line string) int {
	tag := line
	if i := strings.IndexByte(line, ' '); i >= 0 {
		tag = line[:i]
	}
	tag = strings.TrimLeft(tag, "BEFPAT")
	e := 0
	for e < len(tag) && tag[e] >= '0' && tag[e] <= '9' {
		e++
	}
	n, err := strconv.Atoi(tag[:e])
	if err != nil {
		return -1
	}
	return n
}

// c02TraceOracle: laws every trace of a tagged program satisfies.
// allTagged: every output line starts with a rule tag (no body-less rules).
func c02TraceOracle(allTagged bool) func(Resp) string {
	return func(i Resp) string {
		switch i["class"] {
		case "sentinel", "panic", "other", "garbled":
			return "outcome class " + i["class"] + " (" + i["msg"] + "): an internal signal or crash surfaced"
		case "syntax":
			return "generator produced a syntax error (generator issue, not a property violation): " + i["msg"]
		}
		if !allTagged {
			return ""
		}
		out := string(i.Bytes("out"))
		lines := strings.Split(strings.TrimSuffix(out, "\n"), "\n")
		if out == "" {
			lines = nil
		}
		phase := 0 // 0 BEGIN, 1 files, 2 END
		lastB, lastE := -1, -1
		for n, ln := range lines {
			k := c02LineKind(ln)
			if k < 0 {
				return fmt.Sprintf("line %d %q carries no rule tag", n, ln)
			}
			switch k {
			case c02B:
				if phase != 0 {
					return fmt.Sprintf("BEGIN output %q after non-BEGIN output (line %d)", ln, n)
				}
				if t := c02TagNum(ln); t < lastB {
					return fmt.Sprintf("BEGIN rules out of source order at line %d %q", n, ln)
				} else {
					lastB = t
				}
			case c02E:
				phase = 2
				if t := c02TagNum(ln); t < lastE {
					return fmt.Sprintf("END rules out of source order at line %d %q", n, ln)
				} else {
					lastE = t
				}
			default:
				if phase == 2 {
					return fmt.Sprintf("per-file output %q after END output (line %d)", ln, n)
				}
				phase = 1
			}
			if strings.HasSuffix(ln, " EXIT") || strings.Contains(ln, " EXIT ") {
				if n != len(lines)-1 {
					return fmt.Sprintf("output continues after exit (line %d %q, then %q)", n, ln, lines[n+1])
				}
				if i["class"] != "ok" {
					return "exit did not end the run successfully: class " + i["class"]
				}
			}
		}
		return ""
	}
}

// ---------------------------------------------------------------- the reference schedule

const (
	c02PatNone = iota
	c02PatTrue
	c02PatFalse
	c02PatZero
	c02PatEmptyStr
	c02PatNull
	c02PatUnset
	c02PatIdxEven
	c02PatGt
	c02PatEq
	c02PatOne
	c02PatStrX
	c02PatNextIf // pnext($, k): `next` executed while the pattern is evaluated when $ == k, else true
)

const (
	c02OpPrint = iota
	c02OpPrintIdx
	c02OpPrintFile
	c02OpPrintC
	c02OpInc
	c02OpNext
	c02OpExit
	c02OpIfNext
	c02OpIfExit
	c02OpCallNext
	c02OpCallExit
	c02OpSetNum // $ = k
	c02OpSetArr // $ = [k, k+1]
	// assignments to the driver's variables (family var-assign)
	c02OpPrintAll  // print tag, $, $index, $file
	c02OpSetFile   // $file = "own<k>"
	c02OpAppFile   // $file = $file + "+"
	c02OpSetIdx    // $index = 10 + k
	c02OpAddIdx    // $index += 10
	c02OpFnSetFile // setf("own<k>"): the assignment happens inside a function
)

type c02RAct struct{ op, k int }

type c02RRule struct {
	kind     int
	tag      string
	pat, k   int
	bodyless bool
	acts     []c02RAct
}

func c02PatSrc(p, k int) string {
	switch p {
	case c02PatTrue:
		return "true"
	case c02PatFalse:
		return "false"
	case c02PatZero:
		return "0"
	case c02PatEmptyStr:
		return `""`
	case c02PatNull:
		return "null"
	case c02PatUnset:
		return "u"
	case c02PatIdxEven:
		return "$index % 2 == 0"
	case c02PatGt:
		return fmt.Sprintf("$ > %d", k)
	case c02PatEq:
		return fmt.Sprintf("$ == %d", k)
	case c02PatOne:
		return "1"
	case c02PatStrX:
		return `"x"`
	case c02PatNextIf:
		return fmt.Sprintf("pnext($, %d)", k)
	}
	return ""
}

func c02ActSrc(a c02RAct, tag string) (string, bool) {
	q := strconv.Quote(tag)
	switch a.op {
	case c02OpPrint:
		return "print " + q + ", $", false
	case c02OpPrintIdx:
		return "print " + q + ", $, $index", false
	case c02OpPrintFile:
		return "print " + q + ", $, $file", false
	case c02OpPrintC:
		return "print " + q + ", c", false
	case c02OpInc:
		return "c++", false
	case c02OpNext:
		return "next", false
	case c02OpExit:
		return "exit", false
	case c02OpIfNext:
		return fmt.Sprintf("if ($ == %d) next", a.k), false
	case c02OpIfExit:
		return fmt.Sprintf("if ($ == %d) { exit }", a.k), true
	case c02OpCallNext:
		return "rnext(" + q + ")", false
	case c02OpSetNum:
		return fmt.Sprintf("$ = %d", a.k), false
	case c02OpSetArr:
		return fmt.Sprintf("$ = [%d, %d]", a.k, a.k+1), false
	case c02OpPrintAll:
		return "print " + q + ", $, $index, $file", false
	case c02OpSetFile:
		return fmt.Sprintf("$file = \"own%d\"", a.k), false
	case c02OpAppFile:
		return `$file = $file + "+"`, false
	case c02OpSetIdx:
		return fmt.Sprintf("$index = %d", 10+a.k), false
	case c02OpAddIdx:
		return "$index += 10", false
	case c02OpFnSetFile:
		return fmt.Sprintf("setf(\"own%d\")", a.k), false
	default:
		return "rexit(" + q + ")", false
	}
}

func c02RRender(r *rand.Rand, rules []c02RRule) string {
	var sb strings.Builder
	usesNext, usesExit, usesPNext, usesSetF := false, false, false, false
	for i, ru := range rules {
		if ru.kind != c02P {
			sb.WriteString(c02Kw[ru.kind])
			sb.WriteString(" ")
		} else if ru.pat != c02PatNone {
			if ru.pat == c02PatNextIf {
				usesPNext = true
			}
			sb.WriteString(c02PatSrc(ru.pat, ru.k))
			if !ru.bodyless {
				sb.WriteString(pick(r, []string{" ", "\n"}))
			}
		}
		if !ru.bodyless {
			sb.WriteString("{ ")
			for j, a := range ru.acts {
				s, brace := c02ActSrc(a, ru.tag)
				if a.op == c02OpCallNext {
					usesNext = true
				}
				if a.op == c02OpCallExit {
					usesExit = true
				}
				if a.op == c02OpFnSetFile {
					usesSetF = true
				}
				sb.WriteString(s)
				if j < len(ru.acts)-1 {
					if brace {
						sb.WriteString("\n")
					} else {
						sb.WriteString(pick(r, []string{"; ", "\n"}))
					}
				}
			}
			sb.WriteString(" }")
		}
		if i < len(rules)-1 {
			sb.WriteString("\n")
		}
	}
	if usesNext {
		sb.WriteString("\nfunction rnext(t) { print t, \"rnext\"; next; print \"unreachable\" }")
	}
	if usesPNext {
		sb.WriteString("\nfunction pnext(v, k) { if (v == k) next\n return true }")
	}
	if usesExit {
		sb.WriteString("\nfunction rexit(t) { print t, \"rexit\"; exit; print \"unreachable\" }")
	}
	if usesSetF {
		sb.WriteString("\nfunction setf(v) { $file = v }")
	}
	return sb.String()
}

func c02Render(v any) string {
	switch x := v.(type) {
	case nil:
		return "null"
	case float64:
		return strconv.FormatFloat(x, 'f', -1, 64)
	case []any:
		parts := make([]string, len(x))
		for i, e := range x {
			parts[i] = c02Render(e)
		}
		return "[" + strings.Join(parts, ", ") + "]"
	}
	return "?"
}

type c02RefState struct {
	out      strings.Builder
	idxKnown bool
	idx      int
	file     string
	c        int
	cSet     bool
	// where a read of / an assignment to an unbound $index or $file stopped the run
	// (errAct < 0: in the rule's pattern); the generator of var-assign uses it to
	// keep most programs free of that fault
	errTag string
	errAct int
	errWhy string
}

func (s *c02RefState) unbound(ru c02RRule, act int, why string) int {
	s.errTag, s.errAct, s.errWhy = ru.tag, act, why
	return c02FlowErr
}

const (
	c02FlowOK = iota
	c02FlowNext
	c02FlowExit
	c02FlowErr
	c02FlowSkip // outside what the reference knows
)

func (s *c02RefState) cmpNum(v any, k int, gt bool) (bool, int) {
	switch x := v.(type) {
	case nil:
		return false, c02FlowOK
	case float64:
		if gt {
			return x > float64(k), c02FlowOK
		}
		return x == float64(k), c02FlowOK
	case []any:
		return false, c02FlowErr // cannot compare array and number
	}
	return false, c02FlowSkip
}

// runBody runs a rule body with `$` bound to the location cell.
func (s *c02RefState) runBody(ru c02RRule, cell *any) int {
	if ru.bodyless {
		s.out.WriteString(c02Render(*cell) + "\n")
		return c02FlowOK
	}
	for ai, a := range ru.acts {
		dollar := *cell
		switch a.op {
		case c02OpPrintAll:
			if !s.idxKnown {
				return s.unbound(ru, ai, "idx")
			}
			if s.file == "" {
				return s.unbound(ru, ai, "file")
			}
			s.out.WriteString(ru.tag + " " + c02Render(dollar) + " " + strconv.Itoa(s.idx) + " " + s.file + "\n")
		case c02OpSetFile, c02OpFnSetFile:
			if s.file == "" {
				return s.unbound(ru, ai, "file") // unknown variable $file: $-names are never created by use
			}
			s.file = "own" + strconv.Itoa(a.k)
		case c02OpAppFile:
			if s.file == "" {
				return s.unbound(ru, ai, "file")
			}
			s.file += "+"
		case c02OpSetIdx:
			if !s.idxKnown {
				return s.unbound(ru, ai, "idx")
			}
			s.idx = 10 + a.k
		case c02OpAddIdx:
			if !s.idxKnown {
				return s.unbound(ru, ai, "idx")
			}
			s.idx += 10
		case c02OpSetNum:
			*cell = float64(a.k)
		case c02OpSetArr:
			*cell = []any{float64(a.k), float64(a.k + 1)}
		case c02OpPrint:
			s.out.WriteString(ru.tag + " " + c02Render(dollar) + "\n")
		case c02OpPrintIdx:
			if !s.idxKnown {
				return s.unbound(ru, ai, "idx")
			}
			s.out.WriteString(ru.tag + " " + c02Render(dollar) + " " + strconv.Itoa(s.idx) + "\n")
		case c02OpPrintFile:
			if s.file == "" {
				return s.unbound(ru, ai, "file")
			}
			s.out.WriteString(ru.tag + " " + c02Render(dollar) + " " + s.file + "\n")
		case c02OpPrintC:
			if s.cSet {
				s.out.WriteString(ru.tag + " " + strconv.Itoa(s.c) + "\n")
			} else {
				s.out.WriteString(ru.tag + " <unknown>\n")
			}
		case c02OpInc:
			s.c++
			s.cSet = true
		case c02OpNext:
			return c02FlowNext
		case c02OpExit:
			return c02FlowExit
		case c02OpIfNext, c02OpIfExit:
			b, fl := s.cmpNum(dollar, a.k, false)
			if fl != c02FlowOK {
				return fl
			}
			if b {
				if a.op == c02OpIfNext {
					return c02FlowNext
				}
				return c02FlowExit
			}
		case c02OpCallNext:
			s.out.WriteString(ru.tag + " rnext\n")
			return c02FlowNext
		case c02OpCallExit:
			s.out.WriteString(ru.tag + " rexit\n")
			return c02FlowExit
		}
	}
	return c02FlowOK
}

// special runs the BEGIN/END/BEGINFILE/ENDFILE rules. shared != nil: every rule sees that
// cell (BEGINFILE: the root cell itself); otherwise each rule gets a fresh cell holding
// `fresh` (BEGIN/END: null; ENDFILE: the root value as selected).
func (s *c02RefState) special(rules []c02RRule, kind int, shared *any, fresh any) int {
	for _, ru := range rules {
		if ru.kind != kind {
			continue
		}
		cell := shared
		if cell == nil {
			c := fresh
			cell = &c
		}
		switch fl := s.runBody(ru, cell); fl {
		case c02FlowOK, c02FlowNext: // next just finishes the rule
		default:
			return fl
		}
	}
	return c02FlowOK
}

func (s *c02RefState) elem(rules []c02RRule, cell *any) int {
	for _, ru := range rules {
		dollar := *cell
		if ru.kind != c02P {
			continue
		}
		match := true
		switch ru.pat {
		case c02PatFalse, c02PatZero, c02PatEmptyStr, c02PatNull, c02PatUnset:
			match = false
		case c02PatIdxEven:
			if !s.idxKnown {
				return s.unbound(ru, -1, "idx")
			}
			match = s.idx%2 == 0
		case c02PatGt, c02PatEq:
			b, fl := s.cmpNum(dollar, ru.k, ru.pat == c02PatGt)
			if fl != c02FlowOK {
				return fl
			}
			match = b
		case c02PatNextIf:
			b, fl := s.cmpNum(dollar, ru.k, false)
			if fl != c02FlowOK {
				return fl
			}
			if b {
				return c02FlowOK // next: the remaining rules are abandoned for this element
			}
		}
		if !match {
			continue
		}
		switch fl := s.runBody(ru, cell); fl {
		case c02FlowOK:
		case c02FlowNext:
			return c02FlowOK
		default:
			return fl
		}
	}
	return c02FlowOK
}

func c02ApplySel(sel string, v any) (any, bool) {
	switch {
	case sel == "$":
		return v, true
	case sel == "[$, 1]":
		return []any{v, 1.0}, true
	case strings.HasPrefix(sel, "$[") && strings.HasSuffix(sel, "]"):
		k, err := strconv.Atoi(sel[2 : len(sel)-1])
		if err != nil {
			return nil, false
		}
		if a, ok := v.([]any); ok && k < len(a) {
			return a[k], true
		}
		return nil, true
	}
	return nil, false
}

// c02RefRun predicts class and output of a restricted program: the schedule of
// the property statement written out directly.
func c02RefRun(rules []c02RRule, files []File, sels []string) (class string, out string) {
	class, out, _ = c02RefRunState(rules, files, sels)
	return
}

func c02RefRunState(rules []c02RRule, files []File, sels []string) (class string, out string, s *c02RefState) {
	s = &c02RefState{}
	class, out = c02RefRun1(s, rules, files, sels)
	return
}

func c02RefRun1(s *c02RefState, rules []c02RRule, files []File, sels []string) (class string, out string) {
	fin := func(fl int) (string, string) {
		switch fl {
		case c02FlowErr:
			return "runtime", s.out.String()
		case c02FlowSkip:
			return "skip", ""
		}
		return "ok", s.out.String()
	}
	if fl := s.special(rules, c02B, nil, nil); fl != c02FlowOK {
		return fin(fl)
	}
	for _, f := range files {
		dec := json.NewDecoder(strings.NewReader(string(f.Data)))
		for {
			var v any
			if err := dec.Decode(&v); err != nil {
				break // inputs of this family are valid streams
			}
			s.file = f.Name
			var roots []any
			if len(sels) == 0 {
				roots = []any{v}
			}
			for _, sel := range sels {
				rv, ok := c02ApplySel(sel, c02DeepCopy(v)) // each selector works on its own conversion
				if !ok {
					return "skip", ""
				}
				roots = append(roots, rv)
			}
			for ri := range roots {
				rootCell := &roots[ri]
				rootVal := *rootCell // as selected, before BEGINFILE; containers are shared
				if fl := s.special(rules, c02BF, rootCell, nil); fl != c02FlowOK {
					return fin(fl)
				}
				if arr, ok := (*rootCell).([]any); ok {
					for i := range arr {
						s.idx, s.idxKnown = i, true
						if fl := s.elem(rules, &arr[i]); fl != c02FlowOK {
							return fin(fl)
						}
					}
				} else if fl := s.elem(rules, rootCell); fl != c02FlowOK {
					return fin(fl)
				}
				if fl := s.special(rules, c02EF, nil, rootVal); fl != c02FlowOK {
					return fin(fl)
				}
			}
		}
	}
	return fin(s.special(rules, c02E, nil, nil))
}

func c02DeepCopy(v any) any {
	if a, ok := v.([]any); ok {
		c := make([]any, len(a))
		for i, e := range a {
			c[i] = c02DeepCopy(e)
		}
		return c
	}
	return v
}

func c02RefOracle(class, out string) func(Resp) string {
	return func(i Resp) string {
		if class == "skip" {
			return ""
		}
		if i["class"] != class {
			return fmt.Sprintf("schedule reference expects class %s, implementation says %s (%s)", class, i["class"], i["msg"])
		}
		if got := string(i.Bytes("out")); got != out {
			return fmt.Sprintf("trace differs from the schedule of the property: expected %q, got %q", out, got)
		}
		return ""
	}
}

// inputs of the reference families: ints, null, (nested) arrays of ints
func c02RefValue(r *rand.Rand) string {
	switch k := r.Intn(12); {
	case k < 6:
		n := r.Intn(5)
		parts := make([]string, n)
		for i := range parts {
			parts[i] = strconv.Itoa(r.Intn(5))
		}
		return "[" + strings.Join(parts, ",") + "]"
	case k < 8:
		return strconv.Itoa(r.Intn(5))
	case k < 9:
		return "null"
	case k < 10:
		return "[null,2,null]"
	default:
		return pick(r, []string{"[[1,2],3]", "[[],[2],[3,4,0]]", "[null,2,null]", "[[0,1,2,3],[2,2]]", "[4,[2]]"})
	}
}

func c02RefFiles(r *rand.Rand) []File {
	nf := pick(r, []int{0, 1, 1, 1, 2, 2, 3})
	var files []File
	first := true
	for i := 0; i < nf; i++ {
		nv := pick(r, []int{0, 1, 1, 1, 2, 2, 3})
		vals := make([]string, nv)
		for j := range vals {
			vals[j] = c02RefValue(r)
			if first && chance(r, 0.85) {
				vals[j] = pick(r, []string{"[1,2,3]", "[0]", "[2,1]", "[3,2,2,4]", "[]", "[4,0,2]"}) // $index known from the start
			}
			first = false
		}
		files = append(files, File{Name: c02Names[i], Data: []byte(strings.Join(vals, pick(r, []string{" ", "\n", "\t "})))})
	}
	return files
}

func c02RefRule(r *rand.Rand, kind int, idx int) c02RRule {
	ru := c02RRule{kind: kind, tag: c02TagPrefix[kind] + strconv.Itoa(idx)}
	if kind == c02P {
		ru.pat = pick(r, []int{c02PatNone, c02PatNone, c02PatNone, c02PatTrue, c02PatFalse, c02PatZero, c02PatEmptyStr, c02PatNull, c02PatUnset,
			c02PatIdxEven, c02PatIdxEven, c02PatGt, c02PatGt, c02PatEq, c02PatOne, c02PatStrX, c02PatNextIf})
		ru.k = r.Intn(4)
		if ru.pat != c02PatNone && chance(r, 0.15) {
			ru.bodyless = true
			return ru
		}
	}
	pr := c02RAct{op: c02OpPrint}
	switch kind {
	case c02P:
		pr.op = pick(r, []int{c02OpPrint, c02OpPrintIdx, c02OpPrintIdx, c02OpPrintFile})
	case c02BF, c02EF:
		pr.op = pick(r, []int{c02OpPrint, c02OpPrintFile, c02OpPrintFile})
	case c02E:
		pr.op = pick(r, []int{c02OpPrint, c02OpPrintC, c02OpPrintC})
	}
	var ctl *c02RAct
	switch k := r.Intn(20); {
	case k < 10:
	case k < 12:
		ctl = &c02RAct{op: c02OpNext}
	case k < 13:
		ctl = &c02RAct{op: c02OpExit}
	case k < 16:
		if kind == c02P {
			ctl = &c02RAct{op: c02OpIfNext, k: r.Intn(4)}
		}
	case k < 18:
		if kind == c02P {
			ctl = &c02RAct{op: c02OpIfExit, k: r.Intn(5)}
		}
	case k < 19:
		ctl = &c02RAct{op: c02OpCallNext}
	default:
		ctl = &c02RAct{op: c02OpCallExit}
	}
	if chance(r, 0.4) {
		ru.acts = append(ru.acts, c02RAct{op: c02OpInc})
	}
	if chance(r, 0.18) {
		// an assignment to $: replaces the root (BEGINFILE), the element (pattern rules),
		// or a cell that is forgotten afterwards (BEGIN, END, ENDFILE)
		set := c02RAct{op: pick(r, []int{c02OpSetNum, c02OpSetArr}), k: r.Intn(4)}
		if kind == c02P {
			set.op = c02OpSetNum
		}
		if chance(r, 0.6) {
			ru.acts = append(ru.acts, set, pr)
		} else {
			ru.acts = append(ru.acts, pr, set)
		}
	}
	if ctl == nil {
		ru.acts = append(ru.acts, pr)
	} else {
		switch r.Intn(3) {
		case 0:
			ru.acts = append(ru.acts, *ctl, pr)
		case 1:
			ru.acts = append(ru.acts, pr, *ctl)
		default:
			ru.acts = append(ru.acts, pr, *ctl, c02RAct{op: c02OpPrintC})
		}
	}
	return ru
}

// ---------------------------------------------------------------- var-assign
//
// What the driver binds, and when (src/evaluator.go EvalProgram, evalPatternRules):
//   $file   a fresh global cell before EVERY decoded JSON value (not per selector root,
//           not per element); unbound before the first value (BEGIN) — reading or
//           assigning it there is the runtime error "unknown variable $file"
//   $index  a fresh cell before every ELEMENT of an array root; never touched for
//           non-array roots, BEGINFILE, ENDFILE, END (they see the last value, stale)
//   $       BEGIN/END: a fresh null cell per rule; BEGINFILE: the root cell (shared by
//           the BEGINFILE rules); pattern rules: the element cell (or the root cell);
//           ENDFILE: a fresh cell per rule holding the root value as selected
// An assignment by the program therefore lasts exactly until the next such binding.

func c02AssignRule(r *rand.Rand, kind int, idx int) c02RRule {
	ru := c02RRule{kind: kind, tag: c02TagPrefix[kind] + strconv.Itoa(idx)}
	if kind == c02P {
		ru.pat = pick(r, []int{c02PatNone, c02PatNone, c02PatNone, c02PatNone, c02PatTrue, c02PatFalse, c02PatIdxEven, c02PatIdxEven, c02PatGt, c02PatEq, c02PatNextIf})
		ru.k = r.Intn(4)
		if ru.pat != c02PatNone && chance(r, 0.06) {
			ru.bodyless = true
			return ru
		}
	}
	show := c02RAct{op: c02OpPrintAll}
	if kind == c02B {
		show.op = c02OpPrint
	}
	ru.acts = append(ru.acts, show) // every rule starts by printing $, $index, $file
	var pool []c02RAct
	switch kind {
	case c02B:
		pool = []c02RAct{{op: c02OpSetNum, k: r.Intn(4)}, {op: c02OpSetArr, k: r.Intn(4)}, {op: c02OpInc},
			{op: c02OpSetFile, k: r.Intn(3)}, {op: c02OpSetIdx, k: r.Intn(3)}} // the last two: unbound there (kept in few programs)
	case c02P:
		pool = []c02RAct{{op: c02OpSetNum, k: r.Intn(4)}, {op: c02OpSetFile, k: r.Intn(3)}, {op: c02OpSetFile, k: r.Intn(3)}, {op: c02OpAppFile},
			{op: c02OpSetIdx, k: r.Intn(3)}, {op: c02OpSetIdx, k: r.Intn(3)}, {op: c02OpAddIdx}, {op: c02OpFnSetFile, k: r.Intn(3)}, {op: c02OpInc}}
	default:
		pool = []c02RAct{{op: c02OpSetNum, k: r.Intn(4)}, {op: c02OpSetArr, k: r.Intn(4)}, {op: c02OpSetFile, k: r.Intn(3)}, {op: c02OpSetFile, k: r.Intn(3)}, {op: c02OpAppFile},
			{op: c02OpSetIdx, k: r.Intn(3)}, {op: c02OpAddIdx}, {op: c02OpFnSetFile, k: r.Intn(3)}, {op: c02OpInc}}
	}
	na := pick(r, []int{0, 1, 1, 1, 2, 2, 3})
	for i := 0; i < na; i++ {
		ru.acts = append(ru.acts, pick(r, pool))
	}
	if na > 0 && chance(r, 0.4) {
		ru.acts = append(ru.acts, show) // the assignment is visible at once
	}
	if chance(r, 0.25) {
		var ctl c02RAct
		switch k := r.Intn(10); {
		case k < 3:
			ctl = c02RAct{op: c02OpNext}
		case k < 4:
			ctl = c02RAct{op: c02OpCallNext}
		case k < 7 && kind == c02P:
			ctl = c02RAct{op: c02OpIfNext, k: r.Intn(4)}
		case k < 8 && kind == c02P:
			ctl = c02RAct{op: c02OpIfExit, k: r.Intn(5)}
		case k < 9:
			ctl = c02RAct{op: c02OpCallExit}
		default:
			ctl = c02RAct{op: c02OpNext}
		}
		at := r.Intn(len(ru.acts)) + 1 // never before the opening print
		ru.acts = append(ru.acts[:at], append([]c02RAct{ctl}, ru.acts[at:]...)...)
	}
	return ru
}

// c02AssignFiles: 1-3 files with 1-4 values each (JSONL or concatenated); a later
// file may carry the NAME of an earlier one (the same file given twice).
func c02AssignFiles(r *rand.Rand) []File {
	nf := pick(r, []int{1, 1, 2, 2, 2, 3})
	var files []File
	for i := 0; i < nf; i++ {
		nv := pick(r, []int{1, 2, 2, 3, 3, 4})
		vals := make([]string, nv)
		for j := range vals {
			switch k := r.Intn(10); {
			case k < 6:
				vals[j] = pick(r, []string{"[1,2,3]", "[0]", "[2,1]", "[3,2,2,4]", "[4,0,2]", "[2,2]", "[1,3]"})
			case k < 7:
				vals[j] = "[]"
			case k < 9:
				vals[j] = strconv.Itoa(r.Intn(5))
			default:
				vals[j] = pick(r, []string{"null", "[[1,2],3]", "[null,2]"})
			}
		}
		if i == 0 && chance(r, 0.9) {
			vals[0] = pick(r, []string{"[1,2,3]", "[0]", "[2,1]", "[3,2,2,4]", "[4,0,2]"}) // $index bound early in most runs
		}
		sep := pick(r, []string{"\n", "\n", " ", "\r\n", "\t"})
		name := c02Names[i]
		data := strings.Join(vals, sep) + pick(r, []string{"", "\n"})
		if i > 0 && chance(r, 0.3) {
			prev := files[r.Intn(i)]
			name = prev.Name
			if chance(r, 0.5) {
				data = string(prev.Data)
			}
		}
		files = append(files, File{Name: name, Data: []byte(data)})
	}
	return files
}

// c02AssignCase: one program of the family with its prediction. Unless keepFaults,
// reads of / assignments to an unbound $index or $file are taken out again (the
// reference tells where the run stopped), so that most runs reach END.
func c02AssignCase(r *rand.Rand) (prog string, files []File, sels []string, class, out string, faults int) {
	kinds := []int{c02B, c02BF, c02P, c02P, c02EF, c02E} // every rule kind at least once
	for n := r.Intn(4); n > 0; n-- {
		kinds = append(kinds, pick(r, []int{c02BF, c02EF, c02P, c02P, c02P, c02E, c02B}))
	}
	r.Shuffle(len(kinds), func(a, b int) { kinds[a], kinds[b] = kinds[b], kinds[a] })
	rules := make([]c02RRule, len(kinds))
	for j, k := range kinds {
		rules[j] = c02AssignRule(r, k, j)
	}
	for j := 0; j+1 < len(rules); j++ {
		if rules[j].bodyless && rules[j+1].kind == c02P && rules[j+1].pat == c02PatNone {
			rules[j+1].pat = c02PatTrue
		}
	}
	files = c02AssignFiles(r)
	switch r.Intn(10) {
	case 0, 1, 2:
		sels = []string{pick(r, []string{"$", "$", "$[0]", "$[1]", "[$, 1]"})}
	case 3, 4:
		sels = []string{pick(r, []string{"$", "$[0]", "[$, 1]"}), pick(r, []string{"$", "$", "$[1]", "[$, 1]"})}
	}
	keepFaults := chance(r, 0.06)
	var st *c02RefState
	for iter := 0; ; iter++ {
		class, out, st = c02RefRunState(rules, files, sels)
		if st.errWhy == "" || keepFaults || iter > 60 {
			break
		}
		for j := range rules {
			if rules[j].tag != st.errTag {
				continue
			}
			if st.errAct < 0 {
				rules[j].pat = c02PatTrue
				break
			}
			a := &rules[j].acts[st.errAct]
			switch {
			case a.op == c02OpPrintAll && st.errWhy == "idx":
				a.op = c02OpPrintFile
			case a.op == c02OpPrintAll:
				a.op = c02OpPrintIdx
			case a.op == c02OpPrintIdx || a.op == c02OpPrintFile:
				a.op = c02OpPrint
			default: // an assignment to the unbound variable
				rules[j].acts = append(append([]c02RAct{}, rules[j].acts[:st.errAct]...), rules[j].acts[st.errAct+1:]...)
			}
			break
		}
	}
	if st.errWhy != "" {
		faults = 1
	}
	prog = c02RRender(r, rules)
	return
}

// ---------------------------------------------------------------- many-rules
//
// readRules partitions the rules by kind and must keep the source order within every
// kind however many rules the program has (an unstable sort, a map, a fixed-size table
// or a recursive split would only show beyond some number of rules). Every rule prints
// its own tag, so the position of each rule among the rules of its kind is observable.

// c02ManyKinds: the kinds of nr rules under one of several source-order profiles.
func c02ManyKinds(r *rand.Rand, nr int) (kinds []int, profile string) {
	all := []int{c02B, c02E, c02BF, c02EF, c02P}
	kinds = make([]int, nr)
	switch r.Intn(6) {
	case 0:
		profile = "uniform"
		for i := range kinds {
			kinds[i] = pick(r, all)
		}
	case 1:
		profile = "mostly-pattern"
		for i := range kinds {
			kinds[i] = c02P
			if chance(r, 0.2) {
				kinds[i] = pick(r, all)
			}
		}
	case 2:
		// BEGIN, pattern rules, END: the shape of most real programs, already in phase order
		profile = "begin-patterns-end"
		for i := range kinds {
			kinds[i] = c02P
		}
		kinds[0], kinds[nr-1] = c02B, c02E
	case 3:
		// blocks of one kind each, in a random order of the kinds (sorted, reversed, ...)
		profile = "blocks"
		order := append([]int{}, all...)
		r.Shuffle(len(order), func(a, b int) { order[a], order[b] = order[b], order[a] })
		cuts := make([]int, len(order))
		for i := 0; i < nr; i++ {
			cuts[r.Intn(len(cuts))]++
		}
		i := 0
		for k, c := range cuts {
			for ; c > 0; c-- {
				kinds[i] = order[k]
				i++
			}
		}
	case 4:
		// two kinds only, strictly alternating or random
		profile = "two-kinds"
		a, b := pick(r, all), pick(r, all)
		alt := chance(r, 0.5)
		for i := range kinds {
			kinds[i] = a
			if (alt && i%2 == 1) || (!alt && chance(r, 0.5)) {
				kinds[i] = b
			}
		}
	default:
		// one dominant kind (any of the five) with the others sprinkled in
		profile = "one-dominant"
		d := pick(r, all)
		for i := range kinds {
			kinds[i] = d
			if chance(r, 0.25) {
				kinds[i] = pick(r, all)
			}
		}
	}
	return
}

// c02ManyRule: a rule that (nearly always) prints its tag; patterns mostly absent or
// true; a control statement only with probability pctl (exits a third of those).
func c02ManyRule(r *rand.Rand, kind, idx int, pctl float64) c02RRule {
	ru := c02RRule{kind: kind, tag: c02TagPrefix[kind] + strconv.Itoa(idx)}
	if kind == c02P {
		ru.pat = pick(r, []int{c02PatNone, c02PatNone, c02PatNone, c02PatNone, c02PatNone, c02PatTrue, c02PatTrue, c02PatOne, c02PatStrX,
			c02PatGt, c02PatEq, c02PatIdxEven, c02PatFalse, c02PatUnset})
		ru.k = r.Intn(4)
		if ru.pat == c02PatGt {
			ru.k = r.Intn(2)
		}
		if ru.pat != c02PatNone && chance(r, 0.06) {
			ru.bodyless = true
			return ru
		}
	}
	pr := c02RAct{op: c02OpPrint}
	switch kind {
	case c02P:
		pr.op = pick(r, []int{c02OpPrint, c02OpPrint, c02OpPrintIdx, c02OpPrintFile, c02OpPrintC})
	case c02BF, c02EF:
		pr.op = pick(r, []int{c02OpPrint, c02OpPrintFile, c02OpPrintC})
	case c02B, c02E:
		pr.op = pick(r, []int{c02OpPrint, c02OpPrintC})
	}
	if chance(r, 0.3) {
		ru.acts = append(ru.acts, c02RAct{op: c02OpInc}) // a shared counter: the order also shows in the numbers
	}
	ru.acts = append(ru.acts, pr)
	if chance(r, pctl) {
		var ctl c02RAct
		switch k := r.Intn(9); {
		case k < 2:
			ctl = c02RAct{op: c02OpNext}
		case k < 3:
			ctl = c02RAct{op: c02OpCallNext}
		case k < 6 && kind == c02P:
			ctl = c02RAct{op: c02OpIfNext, k: r.Intn(4)}
		case k < 7 && kind == c02P:
			ctl = c02RAct{op: c02OpIfExit, k: r.Intn(5)}
		case k < 8:
			ctl = c02RAct{op: c02OpCallExit}
		default:
			ctl = c02RAct{op: c02OpExit}
		}
		if chance(r, 0.5) {
			ru.acts = append(ru.acts, ctl, c02RAct{op: c02OpPrintC})
		} else {
			ru.acts = append([]c02RAct{ctl}, ru.acts...)
		}
	}
	return ru
}

// c02ManyOracle: the exact comparison with the reference schedule; when the output is
// the expected multiset of lines in another order, the message says so (that is what a
// partition of the rules that loses the source order looks like).
func c02ManyOracle(class, out string) func(Resp) string {
	ref := c02RefOracle(class, out)
	return func(i Resp) string {
		w := ref(i)
		if w == "" || i["class"] != class {
			return w
		}
		got := strings.Split(string(i.Bytes("out")), "\n")
		want := strings.Split(out, "\n")
		if len(got) != len(want) {
			return w
		}
		a, b := append([]string{}, got...), append([]string{}, want...)
		sort.Strings(a)
		sort.Strings(b)
		if strings.Join(a, "\n") != strings.Join(b, "\n") {
			return w
		}
		for n := range got {
			if got[n] != want[n] {
				return fmt.Sprintf("the expected lines in another order: rules did not run in source order (line %d is %q, the schedule of the property gives %q); %s", n, got[n], want[n], w)
			}
		}
		return w
	}
}

// ---------------------------------------------------------------- long-schedules
//
// Thousands of elements, each of which (or every K-th) leaves its rules early.
// The counters printed by END (and by a periodic rule) have a closed form; a
// schedule that loses elements, stops early, runs rules of an abandoned element
// or lets residue of the abandoned rules (frames, bindings) pile up shows there.

var c02LongHows = []string{"body", "fn", "fn-deep", "match-body", "match-in-fn", "pattern-fn", "pattern-match"}
var c02LongShapes = []string{"one-array", "jsonl-scalars", "jsonl-chunks", "three-files"}

func c02Cnt(n int) string {
	if n == 0 {
		return "<unknown>" // never assigned
	}
	return strconv.Itoa(n)
}

// c02LongInput builds the files and the sequence of roots (each a list of element values).
func c02LongInput(n int, shape string) (files []File, roots [][]int, isArr []bool) {
	arr := func(lo, hi int) (string, []int) {
		var sb strings.Builder
		var el []int
		sb.WriteByte('[')
		for i := lo; i < hi; i++ {
			if i > lo {
				sb.WriteByte(',')
			}
			sb.WriteString(strconv.Itoa(i))
			el = append(el, i)
		}
		sb.WriteByte(']')
		return sb.String(), el
	}
	scalars := func(lo, hi int) string {
		var sb strings.Builder
		for i := lo; i < hi; i++ {
			sb.WriteString(strconv.Itoa(i))
			sb.WriteByte('\n')
			roots = append(roots, []int{i})
			isArr = append(isArr, false)
		}
		return sb.String()
	}
	chunks := func(lo, hi, size int) string {
		var sb strings.Builder
		for i := lo; i < hi; i += size {
			e := i + size
			if e > hi {
				e = hi
			}
			t, el := arr(i, e)
			sb.WriteString(t)
			sb.WriteByte('\n')
			roots = append(roots, el)
			isArr = append(isArr, true)
		}
		return sb.String()
	}
	switch shape {
	case "one-array":
		t, el := arr(0, n)
		roots = append(roots, el)
		isArr = append(isArr, true)
		files = []File{{Name: "in.json", Data: []byte(t)}}
	case "jsonl-scalars":
		files = []File{{Name: "in.jsonl", Data: []byte(scalars(0, n))}}
	case "jsonl-chunks":
		files = []File{{Name: "in.jsonl", Data: []byte(chunks(0, n, 100))}}
	default:
		a, b := n/3, 2*n/3
		t, el := arr(0, a)
		roots = append(roots, el)
		isArr = append(isArr, true)
		files = append(files, File{Name: "a.json", Data: []byte(t)})
		files = append(files, File{Name: "b.jsonl", Data: []byte(scalars(a, b))})
		files = append(files, File{Name: "a.json", Data: []byte(chunks(b, n, 37))})
	}
	return
}

// c02Long emits one case: n elements 0..n-1; the elements divisible by k leave their
// rules the way `how` says; exitForm != "" ends the run at element exitAt.
func c02Long(n int, how, shape string, k int, exitForm string, exitAt int, emit func(Case)) {
	files, roots, isArr := c02LongInput(n, shape)
	period := n/5 + 1
	var fns, rules []string
	rules = append(rules, "BEGINFILE { bf++ }", "{ seen++ }")
	switch exitForm {
	case "body":
		rules = append(rules, fmt.Sprintf("$ == %d { exit }", exitAt))
	case "fn":
		fns = append(fns, fmt.Sprintf("function stop(v) { if (v == %d) exit\n return v }", exitAt))
		rules = append(rules, "{ stop($) }")
	case "pattern":
		fns = append(fns, fmt.Sprintf("function stopp(v) { if (v == %d) exit\n return false }", exitAt))
		rules = append(rules, "stopp($) { never++ }")
	}
	usesRem := false
	switch how {
	case "body":
		rules = append(rules, fmt.Sprintf("$ %% %d == 0 { left++; next }", k), "{ kept++ }")
	case "fn":
		fns = append(fns, fmt.Sprintf("function skip(v) { if (v %% %d == 0) { next }\n return v }", k))
		rules = append(rules, "{ skip($); kept++ }")
	case "fn-deep":
		fns = append(fns, "function a1(v) { return a2(v) + 0 }", fmt.Sprintf("function a2(v) { if (v %% %d == 0) next\n return v }", k))
		rules = append(rules, "{ x = a1($); kept++ }")
	case "match-body":
		usesRem = true
		rules = append(rules, fmt.Sprintf("{ match ($ %% %d) { 0 => { next }, r => { rem = rem + r } }\n kept++ }", k))
	case "match-in-fn":
		usesRem = true
		fns = append(fns, fmt.Sprintf("function cls(v) { return match (v %% %d) { 0 => { next }, r => r } }", k))
		rules = append(rules, "{ rem = rem + cls($); kept++ }")
	case "pattern-fn":
		fns = append(fns, fmt.Sprintf("function pskip(v) { if (v %% %d == 0) next\n return true }", k))
		rules = append(rules, "pskip($) { kept++ }")
	default: // pattern-match
		rules = append(rules, fmt.Sprintf("match ($ %% %d) { 0 => { next }, r => true } { kept++ }", k))
	}
	// $index: bound for every element of an array root, stale (the last element's) for a scalar root,
	// unbound while no array element has been seen
	idxBound := shape != "jsonl-scalars"
	if idxBound {
		rules = append(rules, "{ after++; last = $; li = $index }")
	} else {
		rules = append(rules, "{ after++; last = $ }")
	}
	rules = append(rules,
		fmt.Sprintf("$ %% %d == 1 { print \"at\", $, seen, kept, after }", period),
		"{ fin++ }",
		"ENDFILE { ef++ }",
		"END { print seen, kept, after, last, li, bf, ef, rem, left, fin, v is unknown, r is unknown }")
	if usesRem {
		rules = append([]string{"BEGIN { rem = 0 }"}, rules...) // a name first used inside a match body would be local to it
	}
	prog := strings.Join(append(fns, rules...), "\n") + "\n"

	var w strings.Builder
	seen, kept, after, last, bf, ef, rem, left := 0, 0, 0, -1, 0, 0, 0, 0
	idx, li := -1, -1
	exited := false
run:
	for ri, root := range roots {
		bf++
		for pos, i := range root {
			if isArr[ri] {
				idx = pos
			}
			seen++
			if exitForm != "" && i == exitAt {
				exited = true
				break run
			}
			if i%k == 0 {
				if how == "body" {
					left++
				}
				continue
			}
			kept++
			if usesRem {
				rem += i % k
			}
			after++
			last = i
			if idxBound {
				li = idx
			}
			if i%period == 1 {
				fmt.Fprintf(&w, "at %d %d %d %d\n", i, seen, kept, after)
			}
		}
		ef++
	}
	if !exited {
		lastS := "<unknown>"
		if last >= 0 {
			lastS = strconv.Itoa(last)
		}
		remS := "<unknown>"
		if usesRem {
			remS = strconv.Itoa(rem)
		}
		liS := "<unknown>"
		if li >= 0 {
			liS = strconv.Itoa(li)
		}
		fmt.Fprintf(&w, "%s %s %s %s %s %s %s %s %s %s true true\n", c02Cnt(seen), c02Cnt(kept), c02Cnt(after), lastS, liS, c02Cnt(bf), c02Cnt(ef), remS, c02Cnt(left), c02Cnt(after))
	}
	want := w.String()
	// the model's stream decoder takes time quadratic in the number of top-level values
	// (50 000 scalars: ~55 s); beyond 20 000 roots the closed form alone decides
	implOnly := len(roots) > 20000
	emit(Case{Req: RunReq(prog, nil, files, false), Fields: []string{"class", "out", "depth"}, ImplOnly: implOnly,
		Meta: metaProg(prog, "input", fmt.Sprintf("%d elements 0..%d, shape %s (%d roots, %d files)", n, n-1, shape, len(roots), len(files)),
			"how", how, "every", strconv.Itoa(k), "exit", fmt.Sprintf("%s@%d", exitForm, exitAt), "reference", strconv.Quote(want)),
		Oracle: func(i Resp) string {
			if i["class"] != "ok" {
				return fmt.Sprintf("a run in which %d elements leave their rules by next (%s) must end successfully: class %s (%s), output %q", n/k, how, i["class"], i["msg"], short(string(i.Bytes("out"))))
			}
			if got := string(i.Bytes("out")); got != want {
				return fmt.Sprintf("counts differ from the schedule of the property (every element visited once, next abandons that element's remaining rules only, END once at the end unless exit): expected %q, got %q", want, got)
			}
			if d, ok := i["depth"]; ok && d != "0" {
				return "frames left on the evaluator stack at the end of the run: depth " + d
			}
			return ""
		},
		NonTrivial: func(i Resp) bool { return i["class"] == "ok" }})
}

func c02Permutations(n int) [][]int {
	if n == 1 {
		return [][]int{{0}}
	}
	var res [][]int
	for _, p := range c02Permutations(n - 1) {
		for at := 0; at <= len(p); at++ {
			q := append(append(append([]int{}, p[:at]...), n-1), p[at:]...)
			res = append(res, q)
		}
	}
	return res
}

// ---------------------------------------------------------------- registration

func init() {
	register(Family{
		Name: "sched-trace", Prop: "C02",
		Rule: "2-9 rules (6 % of the programs: 13-40 rules) of all five kinds in mixed source order, each printing its tag with $ (and $index, $file, a counter); in 15 % of the programs the rules also assign to $file / $index (constants, containers, derived values) and every rule prints $file; patterns of every truth value, body-less rules, next/exit plain, conditional, in loops, match arms and called functions; 0-3 files x 0-3 values x 0-2 selectors x roots of every shape; oracle: BEGIN output first, END output last, both in source order, nothing after an EXIT marker, no sentinel; non-trivial = ok/runtime with output",
		Gen: func(r *rand.Rand, tier string, emit func(Case)) {
			n := tierN(tier, 6000, 150000)
			for i := 0; i < n; i++ {
				files, firstArr, nvals := c02Inputs(r)
				sels := c02Sels(r)
				g := &c02Gen{r: r, firstArr: firstArr, idxSafe: firstArr && len(sels) == 0, nvals: nvals, used: map[string]bool{}, asg: nvals > 0 && chance(r, 0.15)}
				p := g.program()
				allTagged := !p.anyBodyless // body-less rules print an untagged line
				emit(Case{Req: RunReq(p.text, sels, files, false), Fields: []string{"class", "out"},
					Meta:   metaProg(p.text, "selectors", strings.Join(sels, " | "), "files", c02FilesMeta(files)),
					Oracle: c02TraceOracle(allTagged)})
			}
		},
	})

	register(Family{
		Name: "sched-ref", Prop: "C02",
		Rule: "restricted programs (patterns none/true/false/0/\"\"/null/unset/$index%2==0/$>k/$==k, body-less rules, print of $/$index/$file/counter, next/exit plain, conditional and through a function) over ints, null and nested int arrays, selectors $, $[k], [$, 1]; the exact trace is predicted by an independent Go reference of the schedule and compared on the implementation (oracle) as well as with the model",
		Gen: func(r *rand.Rand, tier string, emit func(Case)) {
			n := tierN(tier, 5000, 120000)
			for i := 0; i < n; i++ {
				nr := 1 + r.Intn(8)
				rules := make([]c02RRule, nr)
				for j := range rules {
					rules[j] = c02RefRule(r, pick(r, []int{c02B, c02E, c02BF, c02EF, c02P, c02P, c02P, c02P}), j)
				}
				// a body-less pattern rule must not be followed by `{`
				for j := 0; j+1 < nr; j++ {
					if rules[j].bodyless && rules[j+1].kind == c02P && rules[j+1].pat == c02PatNone {
						rules[j+1].pat = c02PatTrue
					}
				}
				files := c02RefFiles(r)
				var sels []string
				switch r.Intn(10) {
				case 0, 1:
					sels = []string{pick(r, []string{"$", "$[0]", "$[1]", "[$, 1]", "$[3]"})}
				case 2, 3:
					sels = []string{pick(r, []string{"$", "$[0]", "$[1]", "[$, 1]"}), pick(r, []string{"$", "$[0]", "$[1]", "$[2]"})}
				}
				prog := c02RRender(r, rules)
				class, out := c02RefRun(rules, files, sels)
				emit(Case{Req: RunReq(prog, sels, files, false), Fields: []string{"class", "out"},
					Meta:   metaProg(prog, "selectors", strings.Join(sels, " | "), "files", c02FilesMeta(files), "reference", class+" "+strconv.Quote(out)),
					Oracle: c02RefOracle(class, out)})
			}
		},
	})

	register(Family{
		Name: "sched-perm", Prop: "C02",
		Rule: "systematic: every source order (720) of BEGIN, END, BEGINFILE, ENDFILE and two pattern rules ($ > 1 {..}, pnext($, 3) {..} whose pattern executes next) x one control statement (none / next / exit / if ($ == 2) next / exit through a function) placed before or after the print of one rule x 3 inputs; quick tier samples the space, thorough enumerates it; checked against the Go schedule reference and the model",
		Gen: func(r *rand.Rand, tier string, emit func(Case)) {
			perms := c02Permutations(6)
			base := []c02RRule{
				{kind: c02B, acts: []c02RAct{{op: c02OpInc}, {op: c02OpPrint}}},
				{kind: c02E, acts: []c02RAct{{op: c02OpPrintC}}},
				{kind: c02BF, acts: []c02RAct{{op: c02OpPrintFile}}},
				{kind: c02EF, acts: []c02RAct{{op: c02OpPrintFile}}},
				{kind: c02P, pat: c02PatGt, k: 1, acts: []c02RAct{{op: c02OpInc}, {op: c02OpPrintIdx}}},
				{kind: c02P, acts: []c02RAct{{op: c02OpPrint}}},
			}
			inputs := [][]File{
				{{Name: "a.json", Data: []byte("[1,2,3] 5")}, {Name: "b.json", Data: []byte("[]\n[2,4]")}},
				{{Name: "a.json", Data: []byte("[3,2,1]")}},
				{{Name: "a.json", Data: []byte("")}, {Name: "b.json", Data: []byte("[0,2] 2 [2]")}},
			}
			if c02NextInPattern {
				base[5] = c02RRule{kind: c02P, pat: c02PatNextIf, k: 3, acts: []c02RAct{{op: c02OpPrint}}}
			}
			ctls := []c02RAct{{op: c02OpNext}, {op: c02OpExit}, {op: c02OpIfNext, k: 2}, {op: c02OpCallExit}, {op: c02OpIfExit, k: 2}, {op: c02OpCallNext}}
			type cfg struct{ perm, rule, ctl, pos, in int }
			var space []cfg
			for p := range perms {
				for in := range inputs {
					space = append(space, cfg{p, -1, 0, 0, in})
					for ru := 0; ru < 6; ru++ {
						for c := range ctls {
							if (ctls[c].op == c02OpIfNext || ctls[c].op == c02OpIfExit) && base[ru].kind != c02P {
								continue
							}
							for pos := 0; pos < 2; pos++ {
								space = append(space, cfg{p, ru, c, pos, in})
							}
						}
					}
				}
			}
			if tier != "thorough" {
				r.Shuffle(len(space), func(i, j int) { space[i], space[j] = space[j], space[i] })
				space = space[:4000]
			}
			for _, c := range space {
				rules := make([]c02RRule, 6)
				for j, b := range perms[c.perm] {
					ru := base[b]
					ru.tag = c02TagPrefix[ru.kind] + strconv.Itoa(j)
					ru.acts = append([]c02RAct{}, ru.acts...)
					if b == c.rule {
						if c.pos == 0 {
							ru.acts = append([]c02RAct{ctls[c.ctl]}, ru.acts...)
						} else {
							ru.acts = append(ru.acts, ctls[c.ctl], c02RAct{op: c02OpPrintC})
						}
					}
					rules[j] = ru
				}
				prog := c02RRender(r, rules)
				class, out := c02RefRun(rules, inputs[c.in], nil)
				emit(Case{Req: RunReq(prog, nil, inputs[c.in], false), Fields: []string{"class", "out"},
					Meta:   metaProg(prog, "files", c02FilesMeta(inputs[c.in]), "reference", class+" "+strconv.Quote(out)),
					Oracle: c02RefOracle(class, out)})
			}
		},
	})

	register(Family{
		Name: "var-assign", Prop: "C02",
		Rule: "every rule kind (BEGIN, BEGINFILE, pattern rules with and without patterns, ENDFILE, END; 6-9 rules in random source order) starts by printing $, $index, $file and then ASSIGNS to $file (constant, append, inside a function), $index (constant, += 10) and $ (number, array), prints again, may leave by next/exit; 1-3 files x 1-4 values (JSONL / concatenated), a later file may repeat the name (and content) of an earlier one, 0-2 selectors; the Go reference re-binds $file per decoded value, $index per array element, $ per rule/element exactly as EvalProgram does, so an assignment lasts until the next binding and no longer; reads of unbound $index/$file are generated in 6 % of the programs only; compared with the reference (oracle) and the model",
		Gen: func(r *rand.Rand, tier string, emit func(Case)) {
			n := tierN(tier, 5000, 100000)
			for i := 0; i < n; i++ {
				prog, files, sels, class, out, faults := c02AssignCase(r)
				emit(Case{Req: RunReq(prog, sels, files, false), Fields: []string{"class", "out"},
					Meta:   metaProg(prog, "selectors", strings.Join(sels, " | "), "files", c02FilesMeta(files), "reference", class+" "+strconv.Quote(out), "unbound-read", strconv.Itoa(faults)),
					Oracle: c02RefOracle(class, out)})
			}
		},
	})

	register(Family{
		Name: "many-rules", Prop: "C02",
		Rule: "programs of 13-60 rules (a third of them 10-16 rules, around the size where small-input shortcuts of sorting / partitioning end) of all five kinds under six source-order profiles (uniform mix, mostly pattern rules, BEGIN + pattern rules + END, blocks of one kind in a random order of the kinds, two alternating kinds, one dominant kind with the others sprinkled in): several to dozens of rules of the same kind, each printing its own tag with $ / $index / $file / a shared counter, patterns mostly absent or true (some false / unset / $ > k / $ == k / $index % 2 == 0, a few body-less), a control statement (next / exit plain, conditional, through a function) in about two rules per program and in none in half of the programs; a block of systematic programs: N = 10..64 rules `print tag` only, for each profile; 0-3 files x 0-3 values, 0-2 selectors; the exact trace is predicted by the Go schedule reference (oracle) and compared with the model",
		Gen: func(r *rand.Rand, tier string, emit func(Case)) {
			one := func(nr int, pctl float64, plain bool) {
				kinds, profile := c02ManyKinds(r, nr)
				rules := make([]c02RRule, nr)
				for j, k := range kinds {
					if plain {
						rules[j] = c02RRule{kind: k, tag: c02TagPrefix[k] + strconv.Itoa(j), acts: []c02RAct{{op: c02OpPrint}}}
					} else {
						rules[j] = c02ManyRule(r, k, j, pctl)
					}
				}
				for j := 0; j+1 < nr; j++ {
					if rules[j].bodyless && rules[j+1].kind == c02P && rules[j+1].pat == c02PatNone {
						rules[j+1].pat = c02PatTrue
					}
				}
				files := c02RefFiles(r)
				for try := 0; try < 3 && (len(files) == 0 || len(files[0].Data) == 0); try++ {
					files = c02RefFiles(r) // mostly with input: the per-file kinds run at all
				}
				var sels []string
				switch r.Intn(10) {
				case 0, 1:
					sels = []string{pick(r, []string{"$", "$[0]", "$[1]", "[$, 1]"})}
				case 2:
					sels = []string{pick(r, []string{"$", "$[0]", "[$, 1]"}), pick(r, []string{"$", "$[1]", "[$, 1]"})}
				}
				prog := c02RRender(r, rules)
				class, out := c02RefRun(rules, files, sels)
				perKind := make([]int, 5)
				for _, k := range kinds {
					perKind[k]++
				}
				emit(Case{Req: RunReq(prog, sels, files, false), Fields: []string{"class", "out"},
					Meta: metaProg(prog, "selectors", strings.Join(sels, " | "), "files", c02FilesMeta(files), "reference", class+" "+strconv.Quote(out),
						"rules", strconv.Itoa(nr), "profile", profile, "per-kind B/E/BF/EF/P", fmt.Sprint(perKind)),
					Oracle: c02ManyOracle(class, out)})
			}
			// systematic: every size 10..64, plain tagged prints only (nothing cuts the trace short)
			for rep := tierN(tier, 4, 40); rep > 0; rep-- {
				for nr := 10; nr <= 64; nr++ {
					one(nr, 0, true)
				}
			}
			n := tierN(tier, 2500, 50000)
			for i := 0; i < n; i++ {
				nr := 13 + r.Intn(48)
				if chance(r, 0.33) {
					nr = 10 + r.Intn(7)
				}
				pctl := 0.0
				if chance(r, 0.5) {
					pctl = 2.0 / float64(nr)
				}
				one(nr, pctl, false)
			}
		},
	})

	register(Family{
		Name: "long-schedules", Prop: "C02",
		Rule: "inputs of 5 000 and 10 000 elements (thorough: also 50 000 and 200 000) as one array, as JSONL of scalars, as JSONL of 100-element arrays, and spread over three files (two under the same name); the elements divisible by K (1, 2, 3, 7: every / every K-th element) leave their rules by next in a rule body / in a function / two functions deep / in a match body / in a match inside a function / in a function called from a pattern / in a match expression that is the pattern; further rules count what still runs; some runs exit at a late element (from a body, a function, a pattern); sizes 4095-4097 around the call-depth limit; END prints the counters, a periodic rule prints them on the way; oracle: closed-form counts computed in Go, class ok, depth 0; compared with the model",
		Gen: func(r *rand.Rand, tier string, emit func(Case)) {
			ks := []int{1, 2, 3, 7}
			for _, how := range c02LongHows {
				for _, shape := range c02LongShapes {
					c02Long(5000, how, shape, pick(r, ks), "", 0, emit)
				}
				c02Long(10000, how, pick(r, c02LongShapes), pick(r, ks[1:]), "", 0, emit)
			}
			for _, form := range []string{"body", "fn", "pattern"} {
				for _, shape := range []string{"one-array", "three-files"} {
					n := 5000
					c02Long(n, pick(r, c02LongHows[1:]), shape, pick(r, ks), form, n-1-r.Intn(n/10), emit)
				}
			}
			for _, n := range []int{4095, 4096, 4097} {
				for _, how := range []string{"fn", "fn-deep", "match-in-fn", "pattern-fn", "pattern-match"} {
					c02Long(n, how, "one-array", 1, "", 0, emit)
				}
			}
			if tier == "thorough" {
				for _, how := range c02LongHows {
					for _, shape := range c02LongShapes {
						c02Long(50000, how, shape, pick(r, ks), "", 0, emit)
					}
					c02Long(200000, how, pick(r, c02LongShapes), pick(r, ks[1:]), "", 0, emit)
					c02Long(200000, how, "one-array", 1, "fn", 199000+r.Intn(1000), emit)
				}
			}
		},
	})

	register(Family{
		Name: "root-assign", Prop: "C02",
		Rule: "BEGINFILE rules that replace the root (`$ = E`, E an array/scalar/object/part of $) or write an element, pattern rules that write to their element or to a member, a second BEGINFILE rule and ENDFILE/END rules that print what they see; 1-2 files, 1-3 values, 0-2 selectors; compared with the model; oracle: BEGIN first / END last / no sentinel",
		Gen: func(r *rand.Rand, tier string, emit func(Case)) {
			n := tierN(tier, 3000, 60000)
			assigns := []string{"$ = [5, 6, 7]", "$ = $.list", "$ = 7", `$ = "s"`, "$ = [$, 1]", "$ = null", "$ = {a: 1, list: [8, 9]}", "$ = []", "$ = $[0]", "$ = [[1], [2, 3]]",
				"if ($ is array) $[0] = 9", "if ($ is object) $.k = 9", "if ($ is array) $ = $[1]", "$ = $", "x = $; $ = x", "if ($ is array) $.push(99)", "if ($ is number) $ = $ + 1", "if ($ is object) $.a = 5",
				"$ = [5, 6, 7]", "$ = [[1, 2], 3]", "$ = [$, $]", "if (!($ is array)) $.a = 5"}
			writes := []string{"", "", `$ = "w"`, "if ($ is number) $ = $ * 2", "if ($ is object) $.z = 1", "if ($ is array) $[0] = \"q\"", "$ = [$]", "$ = null", "if ($ is object) $.a = [1]", "$ = 0"}
			for i := 0; i < n; i++ {
				// rule templates: kind prefix, text with %T for the tag; tags are numbered after shuffling
				type tpl struct{ pre, text string }
				var rules []tpl
				rules = append(rules, tpl{"BF", fmt.Sprintf("BEGINFILE { print \"%%T\", $; %s\n print \"%%Tb\", $ }", pick(r, assigns))})
				if chance(r, 0.5) {
					rules = append(rules, tpl{"BF", fmt.Sprintf("BEGINFILE { print \"%%T\", $, $file; %s\n }", pick(r, assigns))})
				}
				idx := ""
				if chance(r, 0.12) {
					idx = ", $index"
				}
				pat := pick(r, []string{"", "", "", "$ is number ", "true ", "!($ is null) ", "$ is array "})
				if chance(r, 0.06) {
					pat = "$index % 2 == 0 "
				}
				rules = append(rules, tpl{"P", fmt.Sprintf("%s{ print \"%%T\", $%s; %s\n }", pat, idx, pick(r, writes))})
				if chance(r, 0.6) {
					rules = append(rules, tpl{"P", fmt.Sprintf("{ print \"%%T\", $; %s\n }", pick(r, writes))})
				}
				rules = append(rules, tpl{"EF", `ENDFILE { print "%T", $, $file }`})
				if chance(r, 0.3) {
					rules = append(rules, tpl{"EF", `ENDFILE { $ = 0; print "%T", $ }`}, tpl{"EF", `ENDFILE { print "%T", $ }`})
				}
				rules = append(rules, tpl{"E", `END { print "%T", $ }`})
				if chance(r, 0.3) {
					rules = append(rules, tpl{"B", `BEGIN { $ = 3; print "%T", $ }`}, tpl{"B", `BEGIN { print "%T", $ }`})
				}
				r.Shuffle(len(rules), func(a, b int) { rules[a], rules[b] = rules[b], rules[a] })
				texts := make([]string, len(rules))
				for k, t := range rules {
					texts[k] = strings.ReplaceAll(t.text, "%T", t.pre+strconv.Itoa(k))
				}
				prog := strings.Join(texts, "\n")
				nf := 1 + r.Intn(2)
				var files []File
				for f := 0; f < nf; f++ {
					nv := 1 + r.Intn(3)
					vals := make([]string, nv)
					for j := range vals {
						vals[j], _ = c02Root(r)
					}
					files = append(files, File{Name: c02Names[f], Data: []byte(strings.Join(vals, pick(r, []string{" ", "\n"})))})
				}
				var sels []string
				for k := pick(r, []int{0, 0, 0, 1, 1, 2}); k > 0; k-- {
					sels = append(sels, pick(r, []string{"$", "$[0]", "[$, 1]", "$[1]", "$", "[$, 1]", "$.a", "$.list", "{x: $}"}))
				}
				emit(Case{Req: RunReq(prog, sels, files, false), Fields: []string{"class", "out"},
					Meta:   metaProg(prog, "selectors", strings.Join(sels, " | "), "files", c02FilesMeta(files)),
					Oracle: c02TraceOracle(true)})
			}
		},
	})
}

// ---------------------------------------------------------------- schedule-through-binary

// selectors whose text contains commas, brackets, quotes, blanks at the ends: a command line
// that treats a -r value as anything but ONE expression text changes the roots
var c02BinSels = []string{
	"$", "$.a", "$[0]", "$.list", "$[1]", "$.a.b", "$.list[0]",
	"[$, 1]", "[$.a, $.list]", "[$[1], $[0]]", "[1,2,3]", "[[1, 2], [3, [4, 5]]]",
	`{x: $, "y,z": [1, 2]}`, `{"a": [$, $]}.a`, `$["a"]`, `$['list']`, `["x, y", 'p,q']`,
	`"a,b,c".split(",")`, `'k,v'`, `"[1, 2]"`,
	"match ($ is array) { true => $[0], _ => [$, \"k,v\"] }",
	"match ($) { 1, 2 => [$, $], _ => $ }",
	" $ ", "$ ,", ",", "[$,", "$, $",
}

func c02BinSelectors(r *rand.Rand) []string {
	pool := c02BinSels
	if chance(r, 0.08) {
		// next / exit executed by a selector: skips this root / ends the run
		pool = []string{"$", "[$, 0]", "match ($ is array) { true => { next }, _ => [$, $] }", "match ($ is number) { true => { exit }, _ => $ }", "match ($) { 2, 3 => { next }, _ => [$] }"}
	}
	n := pick(r, []int{0, 1, 1, 1, 2, 2, 2, 3, 3})
	var sels []string
	for k := 0; k < n; k++ {
		s := pick(r, pool)
		for (strings.HasSuffix(s, ",") || s == "$, $") && chance(r, 0.7) {
			s = pick(r, pool) // ill-formed selectors: a small share
		}
		sels = append(sels, s)
	}
	return sels
}

// c02Binary: the trace programs of sched-trace through the real binary, tied to the in-process
// run of the same program, selectors and inputs.
func c02Binary(r *rand.Rand, n int, emit func(Case)) {
	for i := 0; i < n; i++ {
		files, firstArr, nvals := c02Inputs(r)
		useStdin := len(files) == 0 && chance(r, 0.8)
		var stdin []byte
		lib := files
		if useStdin {
			// no file argument: the binary reads stdin under the name <stdin>
			one, fa, nv := c02Inputs(r)
			for len(one) == 0 {
				one, fa, nv = c02Inputs(r)
			}
			firstArr, nvals = fa, nv
			stdin = one[0].Data
			lib = []File{{Name: "<stdin>", Data: stdin}}
		} else if len(files) == 0 {
			lib = []File{{Name: "<stdin>"}} // stdin is /dev/null: one empty input
		}
		if len(files) >= 2 && chance(r, 0.15) {
			files = append(files, files[0]) // the same file twice
			lib = files
		}
		sels := c02BinSelectors(r)
		g := &c02Gen{r: r, firstArr: firstArr, idxSafe: firstArr && len(sels) == 0, nvals: nvals, used: map[string]bool{}, asg: nvals > 0 && chance(r, 0.15)}
		var p c02Prog
		if chance(r, 0.25) {
			// the plain trace: one rule of each kind printing everything the driver binds
			p = c02Prog{text: "BEGIN { print \"B0\" }\nBEGINFILE { print \"BF1\", $file, $ }\n{ print \"P2\", $index, $ }\nENDFILE { print \"EF3\", $file, $ }\nEND { print \"E4\", $file }"}
		} else {
			p = g.program()
		}
		sc := &c14Scenario{dashes: strings.HasPrefix(p.text, "-") || chance(r, 0.1)}
		var disk []CliFile
		var names []string
		seen := map[string]bool{}
		for _, f := range files {
			names = append(names, f.Name)
			if !seen[f.Name] {
				seen[f.Name] = true
				disk = append(disk, CliFile{Name: f.Name, Data: f.Data})
			}
		}
		argv := sc.argv(r, p.text, sels, "", "", names)
		grp := fmt.Sprintf("bin-%d", i)
		meta := metaProg(p.text, "argv", strings.Join(argv, " ␣ "), "selectors", strings.Join(sels, " | "), "files", c02FilesMeta(lib))
		trace := c02TraceOracle(!p.anyBodyless)
		nIn := len(lib)
		emit(Case{ID: grp + "/cli", Req: CliReq(argv, stdin, useStdin, disk, ""), Fields: c14CliFields, Group: grp, Meta: meta, NonTrivial: c14NT,
			Oracle: func(i Resp) string {
				if w := c14Basic(i); w != "" {
					return w
				}
				if i["exit"] == "" {
					return ""
				}
				// the trace laws on what the binary printed
				cl := "ok"
				if i["exit"] != "0" {
					cl = "runtime"
					if strings.Contains(string(i.Bytes("stderr")), "syntax error") && len(sels) == 0 {
						cl = "syntax"
					}
				}
				return trace(Resp{"class": cl, "out": i["out"], "msg": short(string(i.Bytes("stderr")))})
			}})
		emit(Case{ID: grp + "/lib", Req: RunReq(p.text, sels, lib, false), Fields: []string{"class", "out"}, Group: grp, Meta: meta,
			GroupCheck: func(first, self Resp) string {
				if first["exit"] == "" {
					return ""
				}
				return c14CliVsLib(first, self, "", nIn)
			},
			Oracle: func(i Resp) string {
				if i["class"] == "syntax" && len(sels) > 0 {
					return "" // an ill-formed selector
				}
				return trace(i)
			}})
	}
}

func init() {
	register(Family{
		Name: "schedule-through-binary", Prop: "C02",
		Rule: "the trace programs of sched-trace (and the plain five-rule trace) run by the REAL BINARY with 0-3 -r selectors in every flag spelling — selectors containing commas, brackets, both quotes, match arms, blanks at the ends, a small share ill-formed — over 0-3 files (the same file twice, JSONL, stdin when no file is named): exit/stdout/stderr-present compared with the model of the wrapper; one Group per scenario ties the binary to the in-process run of the same program, selectors and files (exit 0 <=> class ok, identical stdout), which is itself compared with the model; the trace laws of sched-trace are applied to the binary's stdout",
		Gen: func(r *rand.Rand, tier string, emit func(Case)) {
			if os.Getenv("JQAWK_BIN") == "" {
				emit(Case{ID: "no-binary", Req: "cli - - - -", ImplOnly: true, Oracle: c14Basic,
					Meta: map[string]string{"problem": "env JQAWK_BIN is not set; this family runs the real binary"}})
				return
			}
			c02Binary(r, tierN(tier, 1500, 12000), emit)
		},
	})
}

// ---------------------------------------------------------------- root-changed-during-walk

// The reference of this family keeps arrays as lists of cells, like the property text: the
// walk visits the cells the root HAD when the walk began, in index order, and reads each
// cell's value when its turn comes. Values are small integers and null.

type c02WCell struct{ v any } // int or nil (null)

type c02WArr struct{ cells []*c02WCell }

const (
	c02WPush     = iota // A.push(E)
	c02WSetAbs          // A[k] = E (past the end: filled with null up to k)
	c02WSetRel          // A[$index + k] = E (k may be negative)
	c02WSetElem         // $ = E
	c02WPop             // A.pop()
	c02WPopFirst        // A.popfirst()
	c02WRebind          // A = [7, 8]: the name no longer means the root
	c02WNext            // next
)

const (
	c02WConst   = iota // k
	c02WIdxPlus        // $index + k
	c02WElem           // $
	c02WElemMul        // $ * 10 + k
)

type c02WExpr struct{ kind, k int }

type c02WAct struct {
	kind, k int
	e       c02WExpr
}

const (
	c02WAlways  = iota
	c02WIdxEq   // $index == k
	c02WIdxLt   // $index < k
	c02WElemLt  // $ < k
	c02WIdxMod  // $index % 2 == k
	c02WLenLt   // A.length() < k
	c02WIdxPos  // $index > 0
	c02WIdxLast // $index == A.length() - 1
)

type c02WRule struct {
	cond, ck int
	trace    bool
	acts     []c02WAct
}

type c02WProg struct {
	alias int  // how the second name is taken, see c02WAliasNames
	src   int  // 0 the input array, 1 the selector $.list of an object, 2 BEGINFILE assigns a literal array to $
	viaFn bool // the changes are made by functions called from the rules
	lit   []int
	rules []c02WRule
}

var c02WAliasNames = []string{"beginfile", "second-beginfile", "function-parameter", "function-result", "object-member", "array-element", "first-root-only"}

func (p *c02WProg) name() string {
	switch p.alias {
	case 4:
		return "box.r"
	case 5:
		return "box[0]"
	}
	return "all"
}

func c02WExprSrc(e c02WExpr) string {
	switch e.kind {
	case c02WConst:
		return strconv.Itoa(e.k)
	case c02WIdxPlus:
		return fmt.Sprintf("$index + %d", e.k)
	case c02WElem:
		return "$"
	}
	return fmt.Sprintf("$ * 10 + %d", e.k)
}

func (p *c02WProg) text() string {
	A := p.name()
	var sb strings.Builder
	sb.WriteString("BEGIN { all = null; tmp = null; box = null }\n")
	if p.viaFn {
		fmt.Fprintf(&sb, "function grow(v) { %s.push(v) }\nfunction setat(i, v) { %s[i] = v }\nfunction shrink() { return %s.pop() }\nfunction behead() { return %s.popfirst() }\n", A, A, A, A)
	}
	pre := "print \"BF\", $"
	if p.src == 2 {
		parts := make([]string, len(p.lit))
		for i, v := range p.lit {
			parts[i] = strconv.Itoa(v)
		}
		pre += "; $ = [" + strings.Join(parts, ", ") + "]"
	}
	switch p.alias {
	case 0:
		fmt.Fprintf(&sb, "BEGINFILE { %s; all = $ }\n", pre)
	case 1:
		fmt.Fprintf(&sb, "BEGINFILE { %s; tmp = $ }\nBEGINFILE { all = tmp }\n", pre)
	case 2:
		fmt.Fprintf(&sb, "function keep(a) { all = a }\nBEGINFILE { %s; keep($) }\n", pre)
	case 3:
		fmt.Fprintf(&sb, "function whole() { return $ }\nBEGINFILE { %s; all = whole() }\n", pre)
	case 4:
		fmt.Fprintf(&sb, "BEGINFILE { %s; box = {r: $} }\n", pre)
	case 5:
		fmt.Fprintf(&sb, "BEGINFILE { %s; box = [$] }\n", pre)
	case 6:
		fmt.Fprintf(&sb, "BEGINFILE { %s; if (all is null) all = $ }\n", pre)
	}
	sb.WriteString("{ print \"T\", $index, $ }\n")
	for ri, ru := range p.rules {
		switch ru.cond {
		case c02WIdxEq:
			fmt.Fprintf(&sb, "$index == %d ", ru.ck)
		case c02WIdxLt:
			fmt.Fprintf(&sb, "$index < %d ", ru.ck)
		case c02WElemLt:
			fmt.Fprintf(&sb, "$ < %d ", ru.ck)
		case c02WIdxMod:
			fmt.Fprintf(&sb, "$index %% 2 == %d ", ru.ck)
		case c02WLenLt:
			fmt.Fprintf(&sb, "%s.length() < %d ", A, ru.ck)
		case c02WIdxPos:
			sb.WriteString("$index > 0 ")
		case c02WIdxLast:
			fmt.Fprintf(&sb, "$index == %s.length() - 1 ", A)
		}
		var st []string
		if ru.trace {
			st = append(st, fmt.Sprintf("print \"P%d\", $index, $", ri))
		}
		for _, a := range ru.acts {
			e := c02WExprSrc(a.e)
			switch a.kind {
			case c02WPush:
				if p.viaFn {
					st = append(st, "grow("+e+")")
				} else {
					st = append(st, A+".push("+e+")")
				}
			case c02WSetAbs:
				if p.viaFn {
					st = append(st, fmt.Sprintf("setat(%d, %s)", a.k, e))
				} else {
					st = append(st, fmt.Sprintf("%s[%d] = %s", A, a.k, e))
				}
			case c02WSetRel:
				ix := fmt.Sprintf("$index + %d", a.k)
				if a.k < 0 {
					ix = fmt.Sprintf("$index - %d", -a.k)
				}
				if p.viaFn {
					st = append(st, fmt.Sprintf("setat(%s, %s)", ix, e))
				} else {
					st = append(st, fmt.Sprintf("%s[%s] = %s", A, ix, e))
				}
			case c02WSetElem:
				st = append(st, "$ = "+e)
			case c02WPop:
				if p.viaFn {
					st = append(st, "shrink()")
				} else {
					st = append(st, A+".pop()")
				}
			case c02WPopFirst:
				if p.viaFn {
					st = append(st, "behead()")
				} else {
					st = append(st, A+".popfirst()")
				}
			case c02WRebind:
				st = append(st, A+" = [7, 8]")
			case c02WNext:
				st = append(st, "next")
			}
		}
		sb.WriteString("{ " + strings.Join(st, "; ") + " }\n")
	}
	fmt.Fprintf(&sb, "{ print \"Z\", $index, $, %s.length() }\n", A)
	fmt.Fprintf(&sb, "ENDFILE { print \"EF\", $, %s }\nEND { print \"E\", %s }", A, A)
	return sb.String()
}

func c02WShow(v any) string {
	switch x := v.(type) {
	case nil:
		return "null"
	case int:
		return strconv.Itoa(x)
	case *c02WArr:
		parts := make([]string, len(x.cells))
		for i, c := range x.cells {
			parts[i] = c02WShow(c.v)
		}
		return "[" + strings.Join(parts, ", ") + "]"
	}
	return "?"
}

func c02WNum(v any) int {
	if n, ok := v.(int); ok {
		return n
	}
	return 0 // null counts as 0 in arithmetic
}

// c02WRun: the trace the property demands for the roots (each a list of ints / nil). walks
// lists, per root, how many elements the root had when its walk began; gap says that the
// walked array grew after a pop() during its own walk (the documented modelling gap: what
// `$` holds at the re-used position is not fixed by the model, only the number of runs is).
func c02WRun(p *c02WProg, roots [][]any) (class, out string, walks []int, gap bool) {
	var sb strings.Builder
	var alias *c02WArr
	for _, rv := range roots {
		orig := &c02WArr{}
		for _, v := range rv {
			orig.cells = append(orig.cells, &c02WCell{v})
		}
		root := orig
		fmt.Fprintf(&sb, "BF %s\n", c02WShow(orig))
		if p.src == 2 {
			root = &c02WArr{}
			for _, v := range p.lit {
				root.cells = append(root.cells, &c02WCell{v})
			}
		}
		if p.alias != 6 || alias == nil {
			alias = root
		}
		snapshot := append([]*c02WCell(nil), root.cells...)
		walks = append(walks, len(snapshot))
		popped := false
		grew := func(a *c02WArr) {
			if a == root && popped {
				gap = true
			}
		}
		for idx, cell := range snapshot {
			fmt.Fprintf(&sb, "T %d %s\n", idx, c02WShow(cell.v))
			skip := false
			for ri, ru := range p.rules {
				var hold bool
				switch ru.cond {
				case c02WAlways:
					hold = true
				case c02WIdxEq:
					hold = idx == ru.ck
				case c02WIdxLt:
					hold = idx < ru.ck
				case c02WElemLt:
					hold = cell.v == nil || cell.v.(int) < ru.ck // null sorts before every number
				case c02WIdxMod:
					hold = idx%2 == ru.ck
				case c02WLenLt:
					hold = len(alias.cells) < ru.ck
				case c02WIdxPos:
					hold = idx > 0
				case c02WIdxLast:
					hold = idx == len(alias.cells)-1
				}
				if !hold {
					continue
				}
				if ru.trace {
					fmt.Fprintf(&sb, "P%d %d %s\n", ri, idx, c02WShow(cell.v))
				}
				for _, a := range ru.acts {
					var val any
					switch a.e.kind {
					case c02WConst:
						val = a.e.k
					case c02WIdxPlus:
						val = idx + a.e.k
					case c02WElem:
						val = cell.v
					case c02WElemMul:
						val = c02WNum(cell.v)*10 + a.e.k
					}
					switch a.kind {
					case c02WPush:
						alias.cells = append(alias.cells[:len(alias.cells):len(alias.cells)], &c02WCell{val})
						grew(alias)
					case c02WSetAbs, c02WSetRel:
						ix := a.k
						if a.kind == c02WSetRel {
							ix += idx
						}
						if ix < 0 {
							ix += len(alias.cells)
							if ix < 0 {
								return "runtime", sb.String(), walks, gap
							}
						}
						for len(alias.cells) <= ix {
							alias.cells = append(alias.cells[:len(alias.cells):len(alias.cells)], &c02WCell{nil})
							grew(alias)
						}
						alias.cells[ix].v = val
					case c02WSetElem:
						cell.v = val
					case c02WPop:
						if n := len(alias.cells); n > 0 {
							alias.cells = alias.cells[: n-1 : n-1]
							if alias == root {
								popped = true
							}
						}
					case c02WPopFirst:
						if len(alias.cells) > 0 {
							alias.cells = alias.cells[1:]
						}
					case c02WRebind:
						alias = &c02WArr{cells: []*c02WCell{{7}, {8}}}
					case c02WNext:
						skip = true
					}
					if skip {
						break
					}
				}
				if skip {
					break
				}
			}
			if !skip {
				fmt.Fprintf(&sb, "Z %d %s %d\n", idx, c02WShow(cell.v), len(alias.cells))
			}
		}
		fmt.Fprintf(&sb, "EF %s %s\n", c02WShow(orig), c02WShow(alias))
	}
	fmt.Fprintf(&sb, "E %s\n", c02WShow(alias))
	return "ok", sb.String(), walks, gap
}

func c02WGenExpr(r *rand.Rand, big bool) c02WExpr {
	if big {
		switch r.Intn(3) {
		case 0:
			return c02WExpr{c02WConst, 50 + r.Intn(40)}
		case 1:
			return c02WExpr{c02WIdxPlus, 100}
		}
		return c02WExpr{c02WElemMul, 50}
	}
	switch r.Intn(6) {
	case 0, 1:
		return c02WExpr{c02WConst, r.Intn(100)}
	case 2:
		return c02WExpr{c02WIdxPlus, pick(r, []int{1, 10, 100})}
	case 3:
		return c02WExpr{c02WElem, 0}
	}
	return c02WExpr{c02WElemMul, pick(r, []int{0, 1, 50})}
}

// c02WGenRule: one rule that changes the walked array (or its own element). Rules that can make
// the array longer get a condition that holds for boundedly many elements, so that even a walk
// that followed the live array would end.
func c02WGenRule(r *rand.Rand, n int, pops bool) c02WRule {
	ru := c02WRule{trace: chance(r, 0.4)}
	na := pick(r, []int{1, 1, 1, 2, 2, 3})
	growth, onlyNear := false, true
	for k := 0; k < na; k++ {
		var a c02WAct
		w := r.Intn(100)
		if pops && k == 0 && chance(r, 0.5) {
			w = 78 + r.Intn(16) // a program that shrinks the array
		}
		switch {
		case w < 36:
			a = c02WAct{kind: c02WPush}
			growth = true
		case w < 48:
			a = c02WAct{kind: c02WSetAbs, k: r.Intn(n + 3)}
			growth, onlyNear = true, false
		case w < 64:
			a = c02WAct{kind: c02WSetRel, k: pick(r, []int{-1, 1, 1, 2})}
			if a.k > 0 {
				growth = true
			}
			if a.k > 1 {
				onlyNear = false
			}
		case w < 78:
			a = c02WAct{kind: c02WSetElem}
		case w < 88 && pops:
			a = c02WAct{kind: c02WPop}
		case w < 94 && pops:
			a = c02WAct{kind: c02WPopFirst}
		case w < 97:
			a = c02WAct{kind: c02WRebind}
		default:
			a = c02WAct{kind: c02WSetElem}
		}
		ru.acts = append(ru.acts, a)
	}
	if chance(r, 0.06) {
		ru.acts = append(ru.acts, c02WAct{kind: c02WNext})
	}
	// the condition
	if growth {
		switch w := r.Intn(10); {
		case w < 3:
			ru.cond, ru.ck = c02WIdxEq, r.Intn(n+1)
		case w < 5:
			ru.cond, ru.ck = c02WIdxLt, 1+r.Intn(3)
		case w < 7:
			ru.cond, ru.ck = c02WLenLt, n+1+r.Intn(4)
		case w < 9 && onlyNear:
			ru.cond, ru.ck = c02WElemLt, 1+r.Intn(6)
		default:
			ru.cond, ru.ck = c02WIdxEq, r.Intn(n+1)
		}
	} else {
		switch r.Intn(9) {
		case 0, 1:
			ru.cond = c02WAlways
		case 2:
			ru.cond, ru.ck = c02WIdxEq, r.Intn(n+1)
		case 3:
			ru.cond, ru.ck = c02WIdxLt, 1+r.Intn(3)
		case 4:
			ru.cond, ru.ck = c02WElemLt, 1+r.Intn(6)
		case 5:
			ru.cond, ru.ck = c02WIdxMod, r.Intn(2)
		case 6:
			ru.cond, ru.ck = c02WLenLt, n+1+r.Intn(4)
		case 7:
			ru.cond = c02WIdxPos
		case 8:
			ru.cond = c02WIdxLast
		}
	}
	for i := range ru.acts {
		ru.acts[i].e = c02WGenExpr(r, ru.cond == c02WElemLt)
	}
	return ru
}

// c02WWalkOracle: the number of runs and their $index per root, read off the "T" lines.
func c02WWalkOracle(walks []int) func(Resp) string {
	return func(i Resp) string {
		if i["class"] != "ok" {
			return fmt.Sprintf("expected a complete run, implementation says %s (%s)", i["class"], i["msg"])
		}
		var got [][]string
		for _, l := range strings.Split(string(i.Bytes("out")), "\n") {
			switch {
			case strings.HasPrefix(l, "BF "):
				got = append(got, nil)
			case strings.HasPrefix(l, "T ") && len(got) > 0:
				got[len(got)-1] = append(got[len(got)-1], strings.Fields(l)[1])
			}
		}
		if len(got) != len(walks) {
			return fmt.Sprintf("%d roots were walked, expected %d", len(got), len(walks))
		}
		for k, n := range walks {
			want := make([]string, n)
			for j := range want {
				want[j] = strconv.Itoa(j)
			}
			if strings.Join(got[k], ",") != strings.Join(want, ",") {
				return fmt.Sprintf("root %d had %d elements when its walk began: the pattern rules must run for $index %v, they ran for %v", k, n, want, got[k])
			}
		}
		return ""
	}
}

func c02WCase(r *rand.Rand, pops bool) (Case, bool) {
	p := &c02WProg{alias: r.Intn(len(c02WAliasNames)), src: pick(r, []int{0, 0, 0, 0, 1, 2}), viaFn: chance(r, 0.25)}
	if p.src == 2 {
		for k := r.Intn(6); k > 0; k-- {
			p.lit = append(p.lit, r.Intn(10))
		}
	}
	nf := pick(r, []int{1, 1, 1, 2})
	var files []File
	var roots [][]any
	maxN := 0
	for f := 0; f < nf; f++ {
		var vals []string
		for k := pick(r, []int{1, 1, 1, 2, 3}); k > 0; k-- {
			n := pick(r, []int{0, 1, 2, 3, 3, 4, 4, 5, 6})
			root := make([]any, n)
			parts := make([]string, n)
			for j := range root {
				if chance(r, 0.06) {
					root[j], parts[j] = nil, "null"
				} else {
					v := r.Intn(10)
					root[j], parts[j] = v, strconv.Itoa(v)
				}
			}
			if n > maxN {
				maxN = n
			}
			t := "[" + strings.Join(parts, ",") + "]"
			if p.src == 1 {
				t = `{"a":1,"list":` + t + `}`
			}
			vals = append(vals, t)
			roots = append(roots, root)
		}
		files = append(files, File{Name: c02Names[f], Data: []byte(strings.Join(vals, pick(r, []string{" ", "\n"})))})
	}
	if p.src == 2 {
		maxN = len(p.lit)
	}
	for k := pick(r, []int{1, 1, 2, 2, 3}); k > 0; k-- {
		p.rules = append(p.rules, c02WGenRule(r, maxN, pops))
	}
	var sels []string
	if p.src == 1 {
		sels = []string{"$.list"}
	}
	class, out, walks, gap := c02WRun(p, roots)
	prog := p.text()
	hasPop := false
	for _, ru := range p.rules {
		for _, a := range ru.acts {
			if a.kind == c02WPop || a.kind == c02WPopFirst {
				hasPop = true
			}
		}
	}
	row := "grow/store"
	if hasPop {
		row = "pop"
	}
	meta := metaProg(prog, "selectors", strings.Join(sels, " | "), "files", c02FilesMeta(files), "alias", c02WAliasNames[p.alias], "row", row)
	c := Case{Req: RunReq(prog, sels, files, false), Fields: []string{"class", "out"}, Meta: meta}
	if gap {
		// the walked array grew after a pop() during its own walk: only the schedule is fixed
		if class != "ok" {
			return c, false
		}
		meta["row"] = "pop-then-grow (implementation only)"
		c.ImplOnly = true
		c.Oracle = c02WWalkOracle(walks)
		return c, true
	}
	exact := c02RefOracle(class, out)
	walk := c02WWalkOracle(walks)
	c.Oracle = func(i Resp) string {
		if class == "ok" {
			if w := walk(i); w != "" {
				return w
			}
		}
		return exact(i)
	}
	return c, true
}

func init() {
	register(Family{
		Name: "root-changed-during-walk", Prop: "C02",
		Rule: "an array root that is changed through a second name while its elements are processed: the name is taken in BEGINFILE (directly / by a second BEGINFILE rule / as a function parameter / as a function result / as an object member / as an array element / only for the first root), the root is the input array, a selector root or an array assigned to $ in BEGINFILE; 1-3 pattern rules (directly or through functions) push, store at absolute and $index-relative positions ahead, behind and past the end (auto-fill), assign $, pop, popfirst, re-bind the name, next; 1-2 files with 1-3 roots of 0-6 elements; every run prints $index and $ (first rule, traced rules, last rule with the live length), ENDFILE prints $ and the name. Expected from the model and from the reference of the property (c02WRun: the cells the root had when the walk began, in index order, values read at their turn); oracle 1: per root exactly one run per initial element, $index 0..n-1; oracle 2: the whole trace. Programs in which the walked array grows after a pop() during its own walk are implementation-only with oracle 1 (DESIGN section 2: what $ holds at the re-used slot is unmodelled)",
		Gen: func(r *rand.Rand, tier string, emit func(Case)) {
			// the witnesses of the seeded change, literally
			for _, w := range []struct{ prog, in, out string }{
				{`BEGINFILE { all = $ } $ < 3 { all.push($ * 10) } { print $index, $ } ENDFILE { print "end", $ }`, "[1,2,3]", "0 1\n1 2\n2 3\nend [1, 2, 3, 10, 20]\n"},
				{`BEGINFILE { all = $ } $index == 0 { all.pop() } { print $index, $ } ENDFILE { print "end", $ }`, "[1,2,3,4]", "0 1\n1 2\n2 3\n3 4\nend [1, 2, 3]\n"},
				{`BEGINFILE { all = $ } $index == 0 { all.popfirst() } { print $index, $ } ENDFILE { print "end", $ }`, "[1,2,3,4]", "0 1\n1 2\n2 3\n3 4\nend [2, 3, 4]\n"},
				{`BEGINFILE { all = $ } $index == 1 { all[5] = 9 } { print $index, $ } ENDFILE { print "end", $ }`, "[1,2,3]", "0 1\n1 2\n2 3\nend [1, 2, 3, null, null, 9]\n"},
			} {
				files := []File{{Name: "in.json", Data: []byte(w.in)}}
				emit(Case{Req: RunReq(w.prog, nil, files, false), Fields: []string{"class", "out"},
					Meta: metaProg(w.prog, "files", c02FilesMeta(files)), Oracle: c02RefOracle("ok", w.out)})
			}
			n := tierN(tier, 4000, 60000)
			for i := 0; i < n; i++ {
				if c, ok := c02WCase(r, i%2 == 0); ok {
					emit(c)
				}
			}
		},
	})
}

// ---------------------------------------------------------------- begin-before-live-input
//
// BEGIN rules run before ANY input is read, and `exit` in BEGIN ends the run at once: observable
// only while the input is still alive. The real binary gets a stdin pipe / a FIFO file argument
// (alone, after a regular file, /dev/stdin by name) whose writer has sent 0, 1, 2 (or, as control,
// 3 and more) bytes and then waits with the stream open. What stdout must hold at that moment is
// what the library prints when its reader fails right after those bytes (nothing that needs more
// input, no ENDFILE, no END), and it begins with the BEGIN output known by construction.

type c02LiveProg struct {
	text  string
	begin string // what the BEGIN rules print (known by construction)
	exits bool   // the run ends in BEGIN (exit or a runtime error): the binary must end without further input
	code  string // expected exit status of an `exits` program
}

var c02LiveProgs = []c02LiveProg{
	{"BEGIN { print \"begin\"; exit }", "begin\n", true, "0"},
	{"BEGIN { print \"begin\"; exit }\n{ print \"no\", $ }\nEND { print \"END\", 1 }", "begin\n", true, "0"},
	{"BEGIN { exit }\n{ print \"no\" }", "", true, "0"},
	{"BEGIN { print \"b1\" }\nBEGIN { print \"b2\"; x = 1 / 0 }\n{ print \"no\" }", "b1\nb2\n", true, "1"},
	{"function f() { print \"in f\"; exit }\nBEGIN { f() }\n{ print \"no\" }", "in f\n", true, "0"},
	{"BEGIN { print \"begin\" }\n{ print \"got\", $; exit }", "begin\n", false, ""},
	{"BEGIN { print \"begin\" }\nBEGINFILE { print \"bf\", $file }\n{ print \"got\", $ }\nENDFILE { print \"ef\" }\nEND { print \"END\", 1 }", "begin\n", false, ""},
	{"BEGIN { print \"only\" }", "only\n", false, ""},
	{"{ print \"got\", $ }\nBEGIN { n = 3; print \"late BEGIN\", n }\nBEGIN { print \"second\" }", "late BEGIN 3\nsecond\n", false, ""},
	{"BEGIN { $ = [1]; print \"begin\", $ }\n{ print \"got\", $ }", "begin [1]\n", false, ""},
}

// the bytes sent before the wait, and a rest that completes them
var c02LiveFirsts = [][2]string{
	{"", "[1, 2]\n"}, {"", ""}, {"7", "\n8\n"}, {"7", "7"}, {"[", "1]\n"}, {" ", "3 "}, {"\"", "s\" 4"}, {"t", "rue"}, {"x", ""}, {"\n", "{}"},
	{"7\n", "8\n"}, {"7 ", ""}, {"[]", "[2]"}, {"{}", "\n"}, {"\"\"", "1"}, {"12", "3 4"}, {"\n\n", "5"}, {"[1", "]"}, {"-1", " 2"}, {"1x", ""},
	{"[1]", "\n[2]\n"}, {"7\n8", "9\n"}, {"nul", "l 1"}, {"{\"a\":1}", "{\"a\":"}, {"[1]\n[2]\n", "[3]\n"}, {"\xef\xbb\xbf", "[1]"}, {"\xef\xbb", "\xbf7"},
}

func c02GenLive(r *rand.Rand, tier string, emit func(Case)) {
	if os.Getenv("JQAWK_BIN") == "" {
		emit(Case{ID: "no-binary", Req: "cli - - - -", ImplOnly: true, Oracle: c14Basic,
			Meta: map[string]string{"problem": "env JQAWK_BIN is not set; this family runs the real binary"}})
		return
	}
	modes := []string{"stdin", "fifo", "file-then-fifo", "devstdin", "fifo-then-file"}
	regular := CliFile{Name: "first.json", Data: []byte("[10, 20]\n{\"a\": 1}\n")}
	const waitMs = 3000
	n := 0
	one := func(p c02LiveProg, first, rest []byte, mode string) {
		n++
		whole := append(append([]byte{}, first...), rest...)
		// what the library prints when the input ends in a read failure right after `first`
		lib := []File{{Name: "in.fifo", Data: first, IOErr: true}}
		var argv []string
		var plainReq, stagedReq, modelReq string
		wait := func(want string) int {
			if p.exits || want == "" {
				return len(want) + 1000 // wait for the END OF THE PROCESS (or the time limit)
			}
			return len(want)
		}
		switch mode {
		case "stdin":
			lib[0].Name = "<stdin>"
			argv = []string{p.text}
			plainReq = CliReq(argv, whole, true, nil, "")
		case "devstdin":
			lib[0].Name = "/dev/stdin"
			argv = []string{p.text, "/dev/stdin"}
			plainReq = CliReq(argv, whole, true, nil, "")
			modelReq = CliReq(argv, nil, false, []CliFile{{Name: "/dev/stdin", Data: whole}}, "")
		case "fifo":
			argv = []string{p.text, "in.fifo"}
			plainReq = CliReq(argv, nil, false, []CliFile{{Name: "in.fifo", Data: whole}}, "")
		case "file-then-fifo":
			lib = append([]File{{Name: regular.Name, Data: regular.Data}}, lib...)
			argv = []string{p.text, regular.Name, "in.fifo"}
			plainReq = CliReq(argv, nil, false, []CliFile{regular, {Name: "in.fifo", Data: whole}}, "")
		case "fifo-then-file":
			argv = []string{p.text, "in.fifo", regular.Name}
			plainReq = CliReq(argv, nil, false, []CliFile{{Name: "in.fifo", Data: whole}, regular}, "")
		}
		_, want := c03InProcOut(p.text, lib)
		w := wait(want)
		switch mode {
		case "stdin", "devstdin":
			stagedReq = CliStagedReq(argv, "stdin", first, rest, nil, w)
		case "fifo":
			stagedReq = CliStagedReq(argv, "fifo", nil, nil, []CliFile{{Name: "in.fifo", Fifo: true, Data: first, Rest: rest}}, w)
		case "file-then-fifo":
			stagedReq = CliStagedReq(argv, "fifo", nil, nil, []CliFile{regular, {Name: "in.fifo", Fifo: true, Data: first, Rest: rest}}, w)
		case "fifo-then-file":
			stagedReq = CliStagedReq(argv, "fifo", nil, nil, []CliFile{{Name: "in.fifo", Fifo: true, Data: first, Rest: rest}, regular}, w)
		}
		stagedReq += fmt.Sprintf(",d=%d", waitMs)
		if modelReq == "" {
			modelReq = plainReq
		}
		g := fmt.Sprintf("live-%d", n)
		meta := func(variant string) map[string]string {
			return metaProg(p.text, "argv", strings.Join(argv, " ␣ "), "input kind", mode, "sent before the wait", strconv.Quote(string(first)), "sent after the wait", strconv.Quote(string(rest)),
				"stdout expected while the input is still open", strconv.Quote(want), "variant", variant, "row", mode, "col", fmt.Sprintf("%d bytes sent", min(len(first), 3)))
		}
		fields := []string{"exit", "out", "err"}
		emit(Case{ID: g + "/plain", Req: plainReq, ModelReq: modelReq, Fields: fields, Group: g, Meta: meta("all bytes at once, then end of input: reference of the group"),
			NonTrivial: func(i Resp) bool { return i["exit"] != "" && i["out"] != "-" }})
		begin, exits, code := p.begin, p.exits, p.code
		emit(Case{ID: g + "/live", Req: stagedReq, ModelReq: modelReq, Fields: fields, Group: g, GroupFields: []string{"exit", "out", "stderr"},
			Meta:       meta(fmt.Sprintf("the first part, then a pause with the stream open (at most %d ms), then the rest", waitMs)),
			NonTrivial: func(i Resp) bool { return i["early"] != "" && i["early"] != "-" },
			Oracle: func(i Resp) string {
				switch i["class"] {
				case "badrequest", "crash", "garbled", "nobinary":
					return "harness problem running the binary: " + i.String()
				}
				if i["exit"] == "" {
					return ""
				}
				got := string(i.Bytes("early"))
				if !strings.HasPrefix(got, begin) {
					return fmt.Sprintf("C02: BEGIN rules run before any input is read: with %q sent and the input still open, stdout held %q after %s ms; the BEGIN rules print %q", first, got, i["earlyms"], begin)
				}
				if got != want {
					return fmt.Sprintf("while the input was still open and only %q had been sent, stdout held %q after %s ms; what can run without more input prints %q", first, got, i["earlyms"], want)
				}
				if exits {
					if ms, err := strconv.Atoi(i["earlyms"]); err != nil || ms >= waitMs {
						return fmt.Sprintf("C02: the run ends in BEGIN (exit / error) without reading input, but the binary was still running %s ms later, with its input open and only %q sent", i["earlyms"], first)
					}
					if i["exit"] != code || string(i.Bytes("out")) != begin {
						return fmt.Sprintf("C02: the run ends in BEGIN: expected status %s and stdout %q, got status %s and %q", code, begin, i["exit"], i.Bytes("out"))
					}
				}
				return ""
			}})
	}
	for pi, p := range c02LiveProgs {
		for fi, f := range c02LiveFirsts {
			for mi, mode := range modes {
				// quick: one input kind per (program, first part), rotating; every kind with nothing sent
				if tier != "thorough" && mi != (pi+fi)%len(modes) && !(fi == 0 && pi < 6) {
					continue
				}
				one(p, []byte(f[0]), []byte(f[1]), mode)
			}
		}
	}
	// random first parts: a prefix of a random stream
	for k := tierN(tier, 30, 1500); k > 0; k-- {
		data := c03Stream(r, 1+r.Intn(3), true)
		cut := r.Intn(min(len(data), 4) + 1)
		if chance(r, 0.2) {
			cut = r.Intn(len(data) + 1)
		}
		one(pick(r, c02LiveProgs), data[:cut], data[cut:], pick(r, modes))
	}
}

func init() {
	register(Family{
		Name: "begin-before-live-input", Prop: "C02",
		Rule: "the real binary with an input that is ALIVE: a stdin pipe, a FIFO file argument (alone, after and before a regular file) or /dev/stdin by name, whose writer has sent 0, 1, 2 bytes (a digit, a blank, an opening bracket or quote, a newline, `7\\n`, `[]`, `{}`, `\"\"`, two thirds of a byte order mark, ...; 3 and more bytes as control) and keeps the stream open. 10 programs: BEGIN with exit (alone, with rules and END behind it, silent, inside a function), a runtime error in the second BEGIN rule, BEGIN plus rules (with exit at the first value; BEGINFILE / ENDFILE / END; BEGIN rules written after the pattern rule; BEGIN assigning $), BEGIN only. The harness waits until stdout holds what the LIBRARY prints when its reader fails right after the bytes sent (or the process has ended, or 3 s have passed), records stdout, then sends the rest and closes. Oracle (C02): that early stdout begins with the BEGIN output known by construction and equals the library's; a run that ends in BEGIN has ended (status 0, or 1 for the error; stdout = the BEGIN output) before the wait is over, i.e. without a further byte and without end of input. Group: final exit / stdout / stderr equal to the run on the complete bytes at once, which is compared with the model of the wrapper.",
		Gen:  c02GenLive,
	})
}

// ---------------------------------------------------------------- literal-file-names
//
// The files are processed in command-line order, each one exactly as named, and $file names it.
// A file name is any byte string without '/' and NUL: names that some layer could take for a
// pattern, a list, an option, an expansion or a quoted word -- next to sibling files that such a
// reading would pick instead (each file holds different numbers, so reading the wrong file, an
// extra file, or the right files in another order shows in the trace).

// a name and the siblings a non-literal reading of it leads to
var c02OddNames = []struct {
	name string
	sibs []string
}{
	{"log[1].json", []string{"log1.json"}}, {"[ab].json", []string{"a.json", "b.json"}}, {"[a-c]x.json", []string{"ax.json", "bx.json"}}, {"[!a].json", []string{"b.json", "!.json"}},
	{"[^a].json", []string{"b.json", "^.json"}}, {"what?.json", []string{"whatX.json", "what1.json"}}, {"?.json", []string{"a.json", "b.json"}}, {"*.json", []string{"a.json", "zz.json"}},
	{"*", []string{"a.json", "b"}}, {"a*.json", []string{"a.json", "ab.json"}}, {"a\\*.json", []string{"a*.json", "ab.json"}}, {"a\\b.json", []string{"ab.json"}}, {"\\a.json", []string{"a.json"}},
	{"{a,b}.json", []string{"a.json", "b.json"}}, {"~", []string{"root"}}, {"~a.json", []string{"a.json"}}, {"$HOME", []string{"root"}}, {"$x.json", []string{".json", "x.json"}}, {"${x}", []string{"x"}},
	{"a b.json", []string{"a", "b.json"}}, {"a,b.json", []string{"a", "b.json"}}, {"a;b.json", []string{"a", "b.json"}}, {"k=v.json", []string{"k", "v.json"}}, {"a\tb.json", []string{"a", "b.json"}},
	{"a\nb.json", []string{"a", "b.json"}}, {"-x.json", []string{"x.json"}}, {"--", []string{"a.json"}}, {"-", []string{"a.json"}}, {"-r", []string{"$"}}, {"-f", []string{"prog.jqawk"}}, {"-o", []string{"out.json"}},
	{"--x.json", []string{"x.json"}}, {"-r=$.a", []string{"$.a"}}, {"a.json ", []string{"a.json"}}, {" a.json", []string{"a.json"}}, {"'a.json'", []string{"a.json"}}, {"\"a.json\"", []string{"a.json"}},
	{"[", []string{"a.json"}}, {"]", []string{"a.json"}}, {"[]", []string{"a.json"}}, {"[a", []string{"a"}}, {"a]", []string{"a"}}, {"[a]", []string{"a"}}, {"[[]", []string{"["}}, {"**", []string{"a.json", "b"}},
	{"a?", []string{"ab", "a"}}, {"<stdin>", []string{"stdin"}}, {"%41.json", []string{"A.json"}}, {"a.json?", []string{"a.json", "a.jsonl"}}, {"x[0-9]*.json", []string{"x1.json", "x12.json"}},
	{"é?.json", []string{"éa.json"}}, {"?", []string{"a", "b"}}, {"\\", []string{"a"}}, {"\\\\", []string{"\\"}}, {"a\\", []string{"a"}}, {"#a.json", []string{"a.json"}}, {"!a", []string{"a"}}, {"`a`", []string{"a"}},
	{"a|b", []string{"a", "b"}}, {"a&b", []string{"a", "b"}}, {"(a)", []string{"a"}}, {"a>b", []string{"a", "b"}}, {"@a.json", []string{"a.json"}}, {"a:b", []string{"a", "b"}}, {"..json", []string{"a.json"}}, {"...", []string{"a"}},
}

const c02NamesProg = "BEGIN { print \"B\" }\nBEGINFILE { print \"BF\", $file }\n{ print \"P\", $file, $index, $ }\nENDFILE { print \"EF\", $file }\nEND { print \"E\" }"

func c02GenNames(r *rand.Rand, tier string, emit func(Case)) {
	if os.Getenv("JQAWK_BIN") == "" {
		emit(Case{ID: "no-binary", Req: "cli - - - -", ImplOnly: true, Oracle: c14Basic,
			Meta: map[string]string{"problem": "env JQAWK_BIN is not set; this family runs the real binary"}})
		return
	}
	n := 0
	one := func(odd []int, order string, via string, missing bool, withStdin bool) {
		n++
		// the directory: the odd names, their siblings, two ordinary files
		var dirNames []string
		seen := map[string]bool{}
		add := func(s string) {
			if !seen[s] {
				seen[s] = true
				dirNames = append(dirNames, s)
			}
		}
		for _, k := range odd {
			add(c02OddNames[k].name)
			for _, s := range c02OddNames[k].sibs {
				add(s)
			}
		}
		add("a.json")
		add("zz.json")
		if via == "-f" {
			add("prog.jqawk") // holds the program; never an input unless named
		}
		r.Shuffle(len(dirNames), func(a, b int) { dirNames[a], dirNames[b] = dirNames[b], dirNames[a] })
		// what each file holds: 1-2 arrays of 0-2 numbers that tell the files apart
		type content struct {
			data  []byte
			trace func(name string) string
		}
		contents := map[string]content{}
		var disk []CliFile
		gone := ""
		if missing {
			gone = c02OddNames[odd[0]].name
		}
		for k, name := range dirNames {
			if name == "prog.jqawk" {
				disk = append(disk, CliFile{Name: name, Data: []byte(c02NamesProg)})
				contents[name] = content{nil, nil}
				continue
			}
			var sb strings.Builder
			var arrays [][]int
			for a := 0; a < 1+(k+n)%2; a++ {
				var arr []int
				for e := 0; e < (k+a+n)%3; e++ {
					arr = append(arr, (k+1)*100+a*10+e)
				}
				arrays = append(arrays, arr)
				parts := make([]string, len(arr))
				for i, v := range arr {
					parts[i] = strconv.Itoa(v)
				}
				sb.WriteString("[" + strings.Join(parts, ", ") + "]\n")
			}
			arrs := arrays
			contents[name] = content{[]byte(sb.String()), func(nm string) string {
				var t strings.Builder
				for _, arr := range arrs {
					t.WriteString("BF " + nm + "\n")
					for i, v := range arr {
						fmt.Fprintf(&t, "P %s %d %d\n", nm, i, v)
					}
					t.WriteString("EF " + nm + "\n")
				}
				return t.String()
			}}
			if name != gone {
				disk = append(disk, CliFile{Name: name, Data: []byte(sb.String())})
			}
		}
		// the command line
		var names []string
		oddNames := make([]string, len(odd))
		for i, k := range odd {
			oddNames[i] = c02OddNames[k].name
		}
		sib := func(k int) string { return pick(r, c02OddNames[k].sibs) }
		switch order {
		case "alone":
			names = oddNames[:1]
		case "odd-then-sibling":
			names = []string{oddNames[0], sib(odd[0])}
		case "sibling-then-odd":
			names = []string{sib(odd[0]), oddNames[0]}
		case "between":
			names = []string{"zz.json", oddNames[0], "a.json"}
		case "twice":
			names = []string{oddNames[0], "a.json", oddNames[0]}
		case "all-odd":
			names = append([]string{}, oddNames...)
		case "all-odd-reversed":
			for i := len(oddNames) - 1; i >= 0; i-- {
				names = append(names, oddNames[i])
			}
			names = append(names, sib(odd[0]))
		default: // random
			for k := 1 + r.Intn(4); k > 0; k-- {
				names = append(names, pick(r, dirNames))
			}
			names[r.Intn(len(names))] = oddNames[0]
		}
		var argv []string
		switch via {
		case "-f":
			argv = []string{"-f", "prog.jqawk"}
			if strings.HasPrefix(names[0], "-") || n%3 == 0 {
				argv = append(argv, "--")
			}
		case "dashes":
			argv = []string{"--", c02NamesProg}
		default:
			argv = []string{c02NamesProg}
		}
		argv = append(argv, names...)
		for _, nm := range names {
			if contents[nm].trace == nil {
				return // the program text as input: a JSON error, not what this family is about
			}
		}
		want, wantExit := "B\n", "0"
		for _, nm := range names {
			if nm == gone {
				want, wantExit = "", "1" // the inputs are opened before anything runs
				break
			}
			want += contents[nm].trace(nm)
		}
		if wantExit == "0" {
			want += "E\n"
		}
		var stdin []byte
		if withStdin {
			stdin = []byte("[999]\n")
		}
		emit(Case{ID: fmt.Sprintf("names-%d", n), Req: CliReq(argv, stdin, withStdin, disk, ""), Fields: c14CliFields, NonTrivial: c14NT,
			Meta: metaProg(c02NamesProg, "argv", strings.Join(argv[:len(argv)-len(names)], " ␣ "), "file arguments", strconv.Quote(strings.Join(names, " ␣ ")), "directory", strconv.Quote(strings.Join(dirNames, " ␣ ")),
				"missing", strconv.Quote(gone), "expected stdout", strconv.Quote(want), "row", order, "col", via),
			Oracle: func(i Resp) string {
				if w := c14Basic(i); w != "" {
					return w
				}
				if i["exit"] == "" {
					return ""
				}
				if i["exit"] != wantExit || string(i.Bytes("out")) != want {
					return fmt.Sprintf("C02: files are processed in command-line order, each exactly as named: file arguments %q: expected status %s and the trace %q, got status %s and %q (stderr %q)",
						names, wantExit, want, i["exit"], i.Bytes("out"), short(string(i.Bytes("stderr"))))
				}
				return ""
			}})
	}
	orders := []string{"alone", "odd-then-sibling", "sibling-then-odd", "between", "twice", "all-odd", "all-odd-reversed", "random"}
	vias := []string{"inline", "-f", "dashes"}
	for k := range c02OddNames {
		for oi, order := range orders {
			if tier != "thorough" && oi >= 2 && (k+oi)%3 != 0 {
				continue
			}
			odd := []int{k}
			if strings.HasPrefix(order, "all-odd") {
				odd = append(odd, (k+7)%len(c02OddNames), (k+19)%len(c02OddNames))
			}
			one(odd, order, vias[(k+oi)%3], false, (k+oi)%4 == 0)
			if tier == "thorough" {
				one(odd, order, vias[(k+oi+1)%3], false, false)
			}
		}
		one([]int{k}, pick(r, orders[:5]), vias[k%3], true, false)
	}
	for k := tierN(tier, 150, 4000); k > 0; k-- {
		odd := []int{r.Intn(len(c02OddNames))}
		for chance(r, 0.5) && len(odd) < 4 {
			odd = append(odd, r.Intn(len(c02OddNames)))
		}
		one(odd, pick(r, orders), pick(r, vias), chance(r, 0.08), chance(r, 0.2))
	}
}

func init() {
	register(Family{
		Name: "literal-file-names", Prop: "C02",
		Rule: "the real binary with file arguments whose NAMES contain [ ] ? * \\ { } ~ $ blank tab newline , ; = : | & ( ) < > ` ' \" # ! @ % or begin with one or two dashes (66 names: bracket classes and ranges, negated classes, ?, *, **, escaped metacharacters, malformed patterns such as `[`, `[a`, `[]`, brace lists, ~ and $ expansions, word lists, option look-alikes -r -f -o -- -, quoted names, `<stdin>`), each in a directory that also holds the files a pattern / list / option / expansion reading of the name would lead to, and two ordinary files; every file holds different numbers. Command lines: the name alone, before / after one of its siblings, between two ordinary files, twice, three odd names in both orders, random picks from the directory; program inline, after `--`, or through -f (with `--` before a name that begins with a dash); sometimes stdin carries a value that must not be read; a tenth of the cases with the odd name MISSING while its siblings exist (status 1, nothing runs). Oracle (C02): stdout is exactly the trace built from the command line -- B, then per file argument in order and per value BF name / P name index value / EF name, then E -- with the numbers of exactly the named files. Compared with the model of the wrapper (exit, stdout, diagnostic flag), which looks names up literally.",
		Gen:  c02GenNames,
	})
}
