package main

// C02 — rules run in awk order over every input shape, with $, $index and
// $file bound (src/evaluator.go readRules, evalRules, evalPatternRules,
// EvalProgram).
//
// Families:
//   sched-trace   random programs in which every rule prints a distinctive tag
//                 plus $, $index, $file; next/exit everywhere; compared with the
//                 model, plus generic trace laws on the implementation
//   sched-ref     a restricted program class whose exact trace is predicted by
//                 an independent Go reference of the schedule (c02RefRun)
//   sched-perm    systematic: all source orders of one rule per kind (+2 pattern
//                 rules) x one control statement at every place x inputs,
//                 checked against the same reference
//   root-assign   BEGINFILE `$ = ...`, element writes seen by later rules and by
//                 ENDFILE, two BEGINFILE rules, selectors

import (
	"encoding/json"
	"fmt"
	"math/rand"
	"strconv"
	"strings"
)

const (
	c02B = iota
	c02E
	c02BF
	c02EF
	c02P
)

var c02Kw = []string{"BEGIN", "END", "BEGINFILE", "ENDFILE", ""}
var c02TagPrefix = []string{"B", "E", "BF", "EF", "P"}

// `next` reached while a *pattern* is evaluated (through a function call) used
// to surface the internal error "next" (class sentinel); repaired in /repo
// (8900bea: the remaining rules are skipped for that element), generated since.
const c02NextInPattern = true

// ---------------------------------------------------------------- inputs

var c02Elems = []string{"0", "1", "2", "3", "4", "5", `"a"`, `"ba"`, `"x"`, `"5"`, "null", "true", "false", "[1,2]", `{"a":1}`, "2.5", `""`}

func c02Array(r *rand.Rand, n int) string {
	parts := make([]string, n)
	for i := range parts {
		if chance(r, 0.6) {
			parts[i] = strconv.Itoa(r.Intn(6))
		} else {
			parts[i] = pick(r, c02Elems)
		}
	}
	return "[" + strings.Join(parts, pick(r, []string{",", ", "})) + "]"
}

// c02Root: the text of one top-level JSON value; isArr tells whether it is an array.
func c02Root(r *rand.Rand) (string, bool) {
	switch k := r.Intn(20); {
	case k < 9:
		return c02Array(r, r.Intn(5)), true
	case k < 12:
		return pick(r, []string{`{}`, `{"a":1}`, `{"a":{"b":2}}`, `{"list":[1,2,3]}`, `{"a":[3,4],"list":[{"a":1},2]}`,
			`{"a":"s","list":[],"k":null}`, `{"list":7,"a":[[1],[2,3]]}`, `{"b":1,"a":[5,"a",2]}`}), false
	case k < 14:
		return pick(r, []string{"0", "1", "2", "7", "-3", "2.5", "1e3"}), false
	case k < 15:
		return pick(r, []string{`"a"`, `"hello"`, `""`, `"x y"`}), false
	case k < 16:
		return "null", false
	case k < 17:
		return pick(r, []string{"true", "false"}), false
	default:
		return pick(r, []string{"[[1,2],[3]]", "[[],[[]]]", `[{"a":[1]},{"list":[2]}]`, `[[1,"a"],{"a":[2,3],"list":[4]},5]`,
			`[{"a":1,"list":[1,2]},{"a":2,"list":[]}]`, "[[[1,2],[3,4]],[[5]]]"}), true
	}
}

func c02Sep(r *rand.Rand, prev, next string) string {
	seps := []string{" ", "\n", "\t", "\n\n", "  ", "\r\n"}
	if prev == "" || next == "" {
		return pick(r, append(seps, "", ""))
	}
	p, n := prev[len(prev)-1], next[0]
	if p == ']' || p == '}' || p == '"' || n == '[' || n == '{' || n == '"' {
		seps = append(seps, "", "")
	}
	return pick(r, seps)
}

var c02Names = []string{"a.json", "b.json", "c.json"}

// c02Inputs: 0-3 files with 0-3 values each.
func c02Inputs(r *rand.Rand) (files []File, firstArr bool, nvals int) {
	nf := pick(r, []int{0, 1, 1, 1, 1, 1, 2, 2, 2, 3, 3})
	first := true
	for i := 0; i < nf; i++ {
		nv := pick(r, []int{0, 1, 1, 1, 1, 2, 2, 2, 3, 3})
		var vals []string
		for j := 0; j < nv; j++ {
			v, isArr := c02Root(r)
			if first {
				firstArr, first = isArr, false
			}
			vals = append(vals, v)
		}
		nvals += nv
		var sb strings.Builder
		prev := ""
		for _, v := range vals {
			sb.WriteString(c02Sep(r, prev, v))
			sb.WriteString(v)
			prev = v
		}
		sb.WriteString(c02Sep(r, prev, ""))
		files = append(files, File{Name: c02Names[i], Data: []byte(sb.String())})
	}
	return
}

func c02Sels(r *rand.Rand) []string {
	pool := []string{"$", "$.a", "$[0]", "[$, 1]", "$.list", "$", "$.a", "$[0]", "$.list", "$[1]", "$.a.b", "{x: $}", "$.list[0]"}
	if chance(r, 0.08) {
		// next / exit executed by a selector: skips this root / ends the run
		pool = []string{"$", "match ($ is array) { true => { next }, _ => $ }", "match ($ is number) { true => { exit }, _ => $ }", "match ($) { 2 => { next }, _ => [$] }"}
	}
	switch r.Intn(10) {
	case 0, 1, 2, 3, 4:
		return nil
	case 5, 6, 7:
		return []string{pick(r, pool)}
	default:
		return []string{pick(r, pool), pick(r, pool)}
	}
}

func c02FilesMeta(files []File) string {
	var sb strings.Builder
	for _, f := range files {
		fmt.Fprintf(&sb, "%s=%q ", f.Name, string(f.Data))
	}
	return sb.String()
}

// ---------------------------------------------------------------- sched-trace

type c02Gen struct {
	r        *rand.Rand
	firstArr bool
	idxSafe  bool // $index is certainly known whenever a pattern rule runs
	nvals    int
	used     map[string]bool // helper functions used
	unmarked bool            // an exit without an EXIT marker line was generated
}

// a statement and whether it must be followed by a newline (match) / may not be followed by ';' (brace)
type c02Stmt struct {
	text  string
	brace bool
	nl    bool
}

func (g *c02Gen) printStmt(kind int, tag string) c02Stmt {
	r := g.r
	q := strconv.Quote(tag)
	args := []string{q, "$"}
	switch kind {
	case c02B:
		if chance(r, 0.04) {
			args = append(args, pick(r, []string{"$file", "$index"})) // targeted fault: unknown in BEGIN
		}
	case c02E:
		if g.nvals > 0 && chance(r, 0.4) {
			args = append(args, "$file")
		}
		if g.idxSafe && chance(r, 0.2) {
			args = append(args, "$index")
		}
	case c02BF, c02EF:
		if chance(r, 0.7) {
			args = append(args, "$file")
		}
		if chance(r, 0.04) {
			args = append(args, "$index") // stale or unknown
		}
	case c02P:
		p := 0.04
		if g.idxSafe {
			p = 0.6
		}
		if chance(r, p) {
			args = append(args, "$index")
		}
		if chance(r, 0.4) {
			args = append(args, "$file")
		}
	}
	if chance(r, 0.3) {
		args = append(args, "c")
	}
	return c02Stmt{text: "print " + strings.Join(args, ", ")}
}

func (g *c02Gen) cond(kind int) string {
	r := g.r
	switch kind {
	case c02B, c02E:
		return pick(r, []string{"true", "false", "c > 1", "$ == null", "c"})
	case c02BF, c02EF:
		return pick(r, []string{"true", "c > 2", "$ is array", "$ is object", `$file == "b.json"`, "$ is number && $ > 1", "c % 2 == 1"})
	default:
		if g.idxSafe && chance(r, 0.2) {
			return pick(r, []string{"$index == 1", "$index > 0", "$index % 2 == 1"})
		}
		return pick(r, []string{"$ is number && $ == 2", "$ is number && $ > 1", "$ == 2", "c > 2", "$ is string", `$file == "b.json"`, "$ is number && $ == 2", "$ is array", "true", "$ ~ /a/"})
	}
}

func (g *c02Gen) control(kind int, tag string) (c02Stmt, bool) {
	for {
		st, has := g.control1(kind, tag)
		// exits cut the trace short: keep them, but in fewer rules (and fewer still in BEGIN)
		if has && strings.Contains(st.text, "exit") && chance(g.r, map[bool]float64{true: 0.8, false: 0.55}[kind == c02B]) {
			continue
		}
		return st, has
	}
}

func (g *c02Gen) control1(kind int, tag string) (c02Stmt, bool) {
	r := g.r
	q := strconv.Quote(tag)
	exitBlk := fmt.Sprintf(`{ print %s, "EXIT"; exit }`, q)
	nextBlk := fmt.Sprintf(`{ print %s, "NEXT"; next }`, q)
	switch k := r.Intn(100); {
	case k < 45:
		return c02Stmt{}, false
	case k < 52:
		return c02Stmt{text: "next"}, true
	case k < 56:
		if chance(r, 0.3) {
			g.unmarked = true
			return c02Stmt{text: "exit"}, true
		}
		return c02Stmt{text: exitBlk, brace: true}, true
	case k < 66:
		return c02Stmt{text: "if (" + g.cond(kind) + ") " + nextBlk, brace: true}, true
	case k < 74:
		return c02Stmt{text: "if (" + g.cond(kind) + ") " + exitBlk, brace: true}, true
	case k < 77:
		return c02Stmt{text: "if (" + g.cond(kind) + ") " + nextBlk + " else " + exitBlk, brace: true}, true
	case k < 80:
		g.used["fnext"] = true
		return c02Stmt{text: "fnext(" + q + ")"}, true
	case k < 83:
		g.used["fexit"] = true
		return c02Stmt{text: "fexit(" + q + ")"}, true
	case k < 87:
		g.used["fmaybe"] = true
		return c02Stmt{text: "x = fmaybe(" + q + ", $)"}, true
	case k < 90:
		g.used["fdeep"] = true
		return c02Stmt{text: fmt.Sprintf("if (%s) fdeep(%s, %d)", g.cond(kind), q, r.Intn(4))}, true
	case k < 93:
		return c02Stmt{text: fmt.Sprintf(`for (i = 0; i < 3; i++) { if (i == %d) { print %s, "loop-NEXT", i; next } }`, r.Intn(4), q), brace: true}, true
	case k < 95:
		return c02Stmt{text: fmt.Sprintf(`for (y in [1, 2]) { if (%s) %s }`, g.cond(kind), exitBlk), brace: true}, true
	case k < 97:
		return c02Stmt{text: fmt.Sprintf(`w = 0; while (w < 2) { w++; if (%s) %s }`, g.cond(kind), nextBlk), brace: true}, true
	default:
		what := pick(r, []string{exitBlk, nextBlk})
		return c02Stmt{text: fmt.Sprintf(`match ($) { 2, "a" => %s, _ => 0 }`, what), nl: true}, true
	}
}

func c02Join(r *rand.Rand, stmts []c02Stmt) string {
	var sb strings.Builder
	for i, s := range stmts {
		sb.WriteString(s.text)
		if i == len(stmts)-1 {
			break
		}
		switch {
		case s.nl:
			sb.WriteString("\n")
		case s.brace:
			sb.WriteString(pick(r, []string{" ", "\n", "\n  "}))
		default:
			sb.WriteString(pick(r, []string{"; ", "\n", ";\n  "}))
		}
	}
	if len(stmts) > 0 && stmts[len(stmts)-1].nl {
		sb.WriteString("\n")
	}
	return sb.String()
}

func (g *c02Gen) body(kind int, tag string) string {
	r := g.r
	var stmts []c02Stmt
	if chance(r, 0.35) {
		stmts = append(stmts, c02Stmt{text: pick(r, []string{"c++", "c = c + 1", "c += 1"})})
	}
	pr := g.printStmt(kind, tag)
	ctl, has := g.control(kind, tag)
	after := c02Stmt{text: fmt.Sprintf(`print %s, "after"`, strconv.Quote(tag))}
	if !has {
		stmts = append(stmts, pr)
	} else {
		switch r.Intn(4) {
		case 0:
			stmts = append(stmts, ctl, pr)
		case 1:
			stmts = append(stmts, pr, ctl)
		case 2:
			stmts = append(stmts, pr, ctl, after)
		default:
			ctl2, has2 := g.control(kind, tag)
			stmts = append(stmts, ctl, pr)
			if has2 {
				stmts = append(stmts, ctl2, after)
			}
		}
	}
	if kind == c02P && chance(r, 0.08) {
		// a write to the element, seen by later rules and by ENDFILE
		stmts = append(stmts, c02Stmt{text: pick(r, []string{`if ($ is number) $ = $ + 10`, `if ($ is string) $ = "W"`, `if ($ is object) $.z = 1`})})
	}
	return "{ " + c02Join(r, stmts) + " }"
}

var c02SafePatterns = []string{"true", "false", "0", "1", `""`, `"x"`, "null", "u", "$ is number && $ > 1", "$index % 2 == 0", "$ ~ /a/", "$ is number", "$ is object", "$ is array", "$ == 2", "$ > 1", "$.a", "$index == 0", "$index < 2", "$file == \"a.json\"", "c > 1", "c", "$ is null", "$ is string && $ ~ /^b/"}
var c02OtherPatterns = []string{"!u", "[]", "{}", "(1)", "-1", "/a/", "!($ is number)", "[$][0]", "(c < 3)"}

func (g *c02Gen) pattern(safeStart bool) string {
	r := g.r
	if !safeStart && chance(r, 0.2) {
		return pick(r, c02OtherPatterns)
	}
	if chance(r, 0.06) {
		g.used["fexitp"] = true
		return "fexitp($)"
	}
	if c02NextInPattern && chance(r, 0.05) {
		g.used["fnextp"] = true
		return "fnextp($)"
	}
	for {
		p := pick(r, c02SafePatterns)
		if strings.Contains(p, "$index") && !g.idxSafe && !chance(r, 0.1) {
			continue
		}
		if (p == "$ == 2" || p == "$ > 1") && !chance(r, 0.4) {
			continue // runtime error on containers: keep, but rarer
		}
		return p
	}
}

var c02Funcs = map[string]string{
	"fnext":  `function fnext(t) { print t, "fnext-NEXT"; next; print t, "unreachable" }`,
	"fexit":  `function fexit(t) { print t, "EXIT"; exit; print t, "unreachable" }`,
	"fmaybe": "function fmaybe(t, v) { if (v is number && v > 1) { print t, \"fmaybe-NEXT\", v; next }\n return v }",
	"fdeep":  "function fdeep(t, n) { if (n <= 0) { print t, \"EXIT\"; exit }\n return fdeep(t, n - 1) }",
	"fexitp": "function fexitp(v) { if (v is number && v > 3) { print \"PAT\", \"EXIT\"; exit }\n return v is number }",
	"fnextp": "function fnextp(v) { if (v is number && v > 3) { next }\n return true }",
}

type c02Prog struct {
	text        string
	kinds       []int    // kind of each rule in source order
	tags        []string // tag of each rule
	anyBodyless bool
}

// program: rules of every kind in mixed source order.
func (g *c02Gen) program() c02Prog {
	r := g.r
	n := 2 + r.Intn(8)
	var p c02Prog
	for i := 0; i < n; i++ {
		k := pick(r, []int{c02B, c02B, c02E, c02E, c02BF, c02BF, c02EF, c02EF, c02P, c02P, c02P, c02P, c02P})
		p.kinds = append(p.kinds, k)
		p.tags = append(p.tags, c02TagPrefix[k]+strconv.Itoa(i))
	}
	var parts []string
	prevBodyless := false
	for i, k := range p.kinds {
		tag := p.tags[i]
		var txt string
		bodyless := false
		if k == c02P {
			pat := ""
			if prevBodyless || chance(r, 0.7) {
				pat = g.pattern(prevBodyless)
			}
			if pat != "" && chance(r, 0.2) {
				bodyless = true
				txt = pat
			} else if pat != "" {
				txt = pat + pick(r, []string{" ", "\n", " "}) + g.body(k, tag)
			} else {
				txt = g.body(k, tag)
			}
			// after a body-less rule the next pattern rule must start with a pattern from the safe list
			prevBodyless = bodyless
		} else {
			if chance(r, 0.03) {
				txt = c02Kw[k] // body-less special rule: print $
				bodyless = true
			} else {
				txt = c02Kw[k] + pick(r, []string{" ", " ", "\n"}) + g.body(k, tag)
			}
			prevBodyless = bodyless // `BEGIN` followed by `{` would take it as its body
		}
		if bodyless {
			p.anyBodyless = true
		}
		parts = append(parts, txt)
	}
	// helper functions at random places between the rules
	for _, name := range []string{"fnext", "fexit", "fmaybe", "fdeep", "fexitp", "fnextp"} {
		if g.used[name] {
			at := r.Intn(len(parts) + 1)
			// never between a body-less pattern rule and its successor's leading pattern: harmless, `function` is a keyword
			parts = append(parts[:at], append([]string{c02Funcs[name]}, parts[at:]...)...)
		}
	}
	var sb strings.Builder
	for i, s := range parts {
		sb.WriteString(s)
		if i < len(parts)-1 {
			if strings.HasSuffix(s, "}") {
				sb.WriteString(pick(r, []string{"\n", "\n", " ", "\n\n"}))
			} else {
				sb.WriteString("\n")
			}
		}
	}
	p.text = sb.String()
	return p
}

func c02LineKind(line string) int {
	tag := line
	if i := strings.IndexByte(line, ' '); i >= 0 {
		tag = line[:i]
	}
	switch {
	case strings.HasPrefix(tag, "BF"):
		return c02BF
	case strings.HasPrefix(tag, "EF"):
		return c02EF
	case strings.HasPrefix(tag, "B"):
		return c02B
	case strings.HasPrefix(tag, "E"):
		return c02E
	case strings.HasPrefix(tag, "P"):
		return c02P
	}
	return -1
}

func c02TagNum(line string) int {
	tag := line
	if i := strings.IndexByte(line, ' '); i >= 0 {
		tag = line[:i]
	}
	tag = strings.TrimLeft(tag, "BEFPAT")
	e := 0
	for e < len(tag) && tag[e] >= '0' && tag[e] <= '9' {
		e++
	}
	n, err := strconv.Atoi(tag[:e])
	if err != nil {
		return -1
	}
	return n
}

// c02TraceOracle: laws every trace of a tagged program satisfies.
// allTagged: every output line starts with a rule tag (no body-less rules).
func c02TraceOracle(allTagged bool) func(Resp) string {
	return func(i Resp) string {
		switch i["class"] {
		case "sentinel", "panic", "other", "garbled":
			return "outcome class " + i["class"] + " (" + i["msg"] + "): an internal signal or crash surfaced"
		case "syntax":
			return "generator produced a syntax error (generator issue, not a property violation): " + i["msg"]
		}
		if !allTagged {
			return ""
		}
		out := string(i.Bytes("out"))
		lines := strings.Split(strings.TrimSuffix(out, "\n"), "\n")
		if out == "" {
			lines = nil
		}
		phase := 0 // 0 BEGIN, 1 files, 2 END
		lastB, lastE := -1, -1
		for n, ln := range lines {
			k := c02LineKind(ln)
			if k < 0 {
				return fmt.Sprintf("line %d %q carries no rule tag", n, ln)
			}
			switch k {
			case c02B:
				if phase != 0 {
					return fmt.Sprintf("BEGIN output %q after non-BEGIN output (line %d)", ln, n)
				}
				if t := c02TagNum(ln); t < lastB {
					return fmt.Sprintf("BEGIN rules out of source order at line %d %q", n, ln)
				} else {
					lastB = t
				}
			case c02E:
				phase = 2
				if t := c02TagNum(ln); t < lastE {
					return fmt.Sprintf("END rules out of source order at line %d %q", n, ln)
				} else {
					lastE = t
				}
			default:
				if phase == 2 {
					return fmt.Sprintf("per-file output %q after END output (line %d)", ln, n)
				}
				phase = 1
			}
			if strings.HasSuffix(ln, " EXIT") || strings.Contains(ln, " EXIT ") {
				if n != len(lines)-1 {
					return fmt.Sprintf("output continues after exit (line %d %q, then %q)", n, ln, lines[n+1])
				}
				if i["class"] != "ok" {
					return "exit did not end the run successfully: class " + i["class"]
				}
			}
		}
		return ""
	}
}

// ---------------------------------------------------------------- the reference schedule

const (
	c02PatNone = iota
	c02PatTrue
	c02PatFalse
	c02PatZero
	c02PatEmptyStr
	c02PatNull
	c02PatUnset
	c02PatIdxEven
	c02PatGt
	c02PatEq
	c02PatOne
	c02PatStrX
	c02PatNextIf // pnext($, k): `next` executed while the pattern is evaluated when $ == k, else true
)

const (
	c02OpPrint = iota
	c02OpPrintIdx
	c02OpPrintFile
	c02OpPrintC
	c02OpInc
	c02OpNext
	c02OpExit
	c02OpIfNext
	c02OpIfExit
	c02OpCallNext
	c02OpCallExit
	c02OpSetNum // $ = k
	c02OpSetArr // $ = [k, k+1]
)

type c02RAct struct{ op, k int }

type c02RRule struct {
	kind     int
	tag      string
	pat, k   int
	bodyless bool
	acts     []c02RAct
}

func c02PatSrc(p, k int) string {
	switch p {
	case c02PatTrue:
		return "true"
	case c02PatFalse:
		return "false"
	case c02PatZero:
		return "0"
	case c02PatEmptyStr:
		return `""`
	case c02PatNull:
		return "null"
	case c02PatUnset:
		return "u"
	case c02PatIdxEven:
		return "$index % 2 == 0"
	case c02PatGt:
		return fmt.Sprintf("$ > %d", k)
	case c02PatEq:
		return fmt.Sprintf("$ == %d", k)
	case c02PatOne:
		return "1"
	case c02PatStrX:
		return `"x"`
	case c02PatNextIf:
		return fmt.Sprintf("pnext($, %d)", k)
	}
	return ""
}

func c02ActSrc(a c02RAct, tag string) (string, bool) {
	q := strconv.Quote(tag)
	switch a.op {
	case c02OpPrint:
		return "print " + q + ", $", false
	case c02OpPrintIdx:
		return "print " + q + ", $, $index", false
	case c02OpPrintFile:
		return "print " + q + ", $, $file", false
	case c02OpPrintC:
		return "print " + q + ", c", false
	case c02OpInc:
		return "c++", false
	case c02OpNext:
		return "next", false
	case c02OpExit:
		return "exit", false
	case c02OpIfNext:
		return fmt.Sprintf("if ($ == %d) next", a.k), false
	case c02OpIfExit:
		return fmt.Sprintf("if ($ == %d) { exit }", a.k), true
	case c02OpCallNext:
		return "rnext(" + q + ")", false
	case c02OpSetNum:
		return fmt.Sprintf("$ = %d", a.k), false
	case c02OpSetArr:
		return fmt.Sprintf("$ = [%d, %d]", a.k, a.k+1), false
	default:
		return "rexit(" + q + ")", false
	}
}

func c02RRender(r *rand.Rand, rules []c02RRule) string {
	var sb strings.Builder
	usesNext, usesExit, usesPNext := false, false, false
	for i, ru := range rules {
		if ru.kind != c02P {
			sb.WriteString(c02Kw[ru.kind])
			sb.WriteString(" ")
		} else if ru.pat != c02PatNone {
			if ru.pat == c02PatNextIf {
				usesPNext = true
			}
			sb.WriteString(c02PatSrc(ru.pat, ru.k))
			if !ru.bodyless {
				sb.WriteString(pick(r, []string{" ", "\n"}))
			}
		}
		if !ru.bodyless {
			sb.WriteString("{ ")
			for j, a := range ru.acts {
				s, brace := c02ActSrc(a, ru.tag)
				if a.op == c02OpCallNext {
					usesNext = true
				}
				if a.op == c02OpCallExit {
					usesExit = true
				}
				sb.WriteString(s)
				if j < len(ru.acts)-1 {
					if brace {
						sb.WriteString("\n")
					} else {
						sb.WriteString(pick(r, []string{"; ", "\n"}))
					}
				}
			}
			sb.WriteString(" }")
		}
		if i < len(rules)-1 {
			sb.WriteString("\n")
		}
	}
	if usesNext {
		sb.WriteString("\nfunction rnext(t) { print t, \"rnext\"; next; print \"unreachable\" }")
	}
	if usesPNext {
		sb.WriteString("\nfunction pnext(v, k) { if (v == k) next\n return true }")
	}
	if usesExit {
		sb.WriteString("\nfunction rexit(t) { print t, \"rexit\"; exit; print \"unreachable\" }")
	}
	return sb.String()
}

func c02Render(v any) string {
	switch x := v.(type) {
	case nil:
		return "null"
	case float64:
		return strconv.FormatFloat(x, 'f', -1, 64)
	case []any:
		parts := make([]string, len(x))
		for i, e := range x {
			parts[i] = c02Render(e)
		}
		return "[" + strings.Join(parts, ", ") + "]"
	}
	return "?"
}

type c02RefState struct {
	out      strings.Builder
	idxKnown bool
	idx      int
	file     string
	c        int
	cSet     bool
}

const (
	c02FlowOK = iota
	c02FlowNext
	c02FlowExit
	c02FlowErr
	c02FlowSkip // outside what the reference knows
)

func (s *c02RefState) cmpNum(v any, k int, gt bool) (bool, int) {
	switch x := v.(type) {
	case nil:
		return false, c02FlowOK
	case float64:
		if gt {
			return x > float64(k), c02FlowOK
		}
		return x == float64(k), c02FlowOK
	case []any:
		return false, c02FlowErr // cannot compare array and number
	}
	return false, c02FlowSkip
}

// runBody runs a rule body with `$` bound to the location cell.
func (s *c02RefState) runBody(ru c02RRule, cell *any) int {
	if ru.bodyless {
		s.out.WriteString(c02Render(*cell) + "\n")
		return c02FlowOK
	}
	for _, a := range ru.acts {
		dollar := *cell
		switch a.op {
		case c02OpSetNum:
			*cell = float64(a.k)
		case c02OpSetArr:
			*cell = []any{float64(a.k), float64(a.k + 1)}
		case c02OpPrint:
			s.out.WriteString(ru.tag + " " + c02Render(dollar) + "\n")
		case c02OpPrintIdx:
			if !s.idxKnown {
				return c02FlowErr
			}
			s.out.WriteString(ru.tag + " " + c02Render(dollar) + " " + strconv.Itoa(s.idx) + "\n")
		case c02OpPrintFile:
			if s.file == "" {
				return c02FlowErr
			}
			s.out.WriteString(ru.tag + " " + c02Render(dollar) + " " + s.file + "\n")
		case c02OpPrintC:
			if s.cSet {
				s.out.WriteString(ru.tag + " " + strconv.Itoa(s.c) + "\n")
			} else {
				s.out.WriteString(ru.tag + " <unknown>\n")
			}
		case c02OpInc:
			s.c++
			s.cSet = true
		case c02OpNext:
			return c02FlowNext
		case c02OpExit:
			return c02FlowExit
		case c02OpIfNext, c02OpIfExit:
			b, fl := s.cmpNum(dollar, a.k, false)
			if fl != c02FlowOK {
				return fl
			}
			if b {
				if a.op == c02OpIfNext {
					return c02FlowNext
				}
				return c02FlowExit
			}
		case c02OpCallNext:
			s.out.WriteString(ru.tag + " rnext\n")
			return c02FlowNext
		case c02OpCallExit:
			s.out.WriteString(ru.tag + " rexit\n")
			return c02FlowExit
		}
	}
	return c02FlowOK
}

// special runs the BEGIN/END/BEGINFILE/ENDFILE rules. shared != nil: every rule sees that
// cell (BEGINFILE: the root cell itself); otherwise each rule gets a fresh cell holding
// `fresh` (BEGIN/END: null; ENDFILE: the root value as selected).
func (s *c02RefState) special(rules []c02RRule, kind int, shared *any, fresh any) int {
	for _, ru := range rules {
		if ru.kind != kind {
			continue
		}
		cell := shared
		if cell == nil {
			c := fresh
			cell = &c
		}
		switch fl := s.runBody(ru, cell); fl {
		case c02FlowOK, c02FlowNext: // next just finishes the rule
		default:
			return fl
		}
	}
	return c02FlowOK
}

func (s *c02RefState) elem(rules []c02RRule, cell *any) int {
	for _, ru := range rules {
		dollar := *cell
		if ru.kind != c02P {
			continue
		}
		match := true
		switch ru.pat {
		case c02PatFalse, c02PatZero, c02PatEmptyStr, c02PatNull, c02PatUnset:
			match = false
		case c02PatIdxEven:
			if !s.idxKnown {
				return c02FlowErr
			}
			match = s.idx%2 == 0
		case c02PatGt, c02PatEq:
			b, fl := s.cmpNum(dollar, ru.k, ru.pat == c02PatGt)
			if fl != c02FlowOK {
				return fl
			}
			match = b
		case c02PatNextIf:
			b, fl := s.cmpNum(dollar, ru.k, false)
			if fl != c02FlowOK {
				return fl
			}
			if b {
				return c02FlowOK // next: the remaining rules are abandoned for this element
			}
		}
		if !match {
			continue
		}
		switch fl := s.runBody(ru, cell); fl {
		case c02FlowOK:
		case c02FlowNext:
			return c02FlowOK
		default:
			return fl
		}
	}
	return c02FlowOK
}

func c02ApplySel(sel string, v any) (any, bool) {
	switch {
	case sel == "$":
		return v, true
	case sel == "[$, 1]":
		return []any{v, 1.0}, true
	case strings.HasPrefix(sel, "$[") && strings.HasSuffix(sel, "]"):
		k, err := strconv.Atoi(sel[2 : len(sel)-1])
		if err != nil {
			return nil, false
		}
		if a, ok := v.([]any); ok && k < len(a) {
			return a[k], true
		}
		return nil, true
	}
	return nil, false
}

// c02RefRun predicts class and output of a restricted program: the schedule of
// the property statement written out directly.
func c02RefRun(rules []c02RRule, files []File, sels []string) (class string, out string) {
	s := &c02RefState{}
	fin := func(fl int) (string, string) {
		switch fl {
		case c02FlowErr:
			return "runtime", s.out.String()
		case c02FlowSkip:
			return "skip", ""
		}
		return "ok", s.out.String()
	}
	if fl := s.special(rules, c02B, nil, nil); fl != c02FlowOK {
		return fin(fl)
	}
	for _, f := range files {
		dec := json.NewDecoder(strings.NewReader(string(f.Data)))
		for {
			var v any
			if err := dec.Decode(&v); err != nil {
				break // inputs of this family are valid streams
			}
			s.file = f.Name
			var roots []any
			if len(sels) == 0 {
				roots = []any{v}
			}
			for _, sel := range sels {
				rv, ok := c02ApplySel(sel, c02DeepCopy(v)) // each selector works on its own conversion
				if !ok {
					return "skip", ""
				}
				roots = append(roots, rv)
			}
			for ri := range roots {
				rootCell := &roots[ri]
				rootVal := *rootCell // as selected, before BEGINFILE; containers are shared
				if fl := s.special(rules, c02BF, rootCell, nil); fl != c02FlowOK {
					return fin(fl)
				}
				if arr, ok := (*rootCell).([]any); ok {
					for i := range arr {
						s.idx, s.idxKnown = i, true
						if fl := s.elem(rules, &arr[i]); fl != c02FlowOK {
							return fin(fl)
						}
					}
				} else if fl := s.elem(rules, rootCell); fl != c02FlowOK {
					return fin(fl)
				}
				if fl := s.special(rules, c02EF, nil, rootVal); fl != c02FlowOK {
					return fin(fl)
				}
			}
		}
	}
	return fin(s.special(rules, c02E, nil, nil))
}

func c02DeepCopy(v any) any {
	if a, ok := v.([]any); ok {
		c := make([]any, len(a))
		for i, e := range a {
			c[i] = c02DeepCopy(e)
		}
		return c
	}
	return v
}

func c02RefOracle(class, out string) func(Resp) string {
	return func(i Resp) string {
		if class == "skip" {
			return ""
		}
		if i["class"] != class {
			return fmt.Sprintf("schedule reference expects class %s, implementation says %s (%s)", class, i["class"], i["msg"])
		}
		if got := string(i.Bytes("out")); got != out {
			return fmt.Sprintf("trace differs from the schedule of the property: expected %q, got %q", out, got)
		}
		return ""
	}
}

// inputs of the reference families: ints, null, (nested) arrays of ints
func c02RefValue(r *rand.Rand) string {
	switch k := r.Intn(12); {
	case k < 6:
		n := r.Intn(5)
		parts := make([]string, n)
		for i := range parts {
			parts[i] = strconv.Itoa(r.Intn(5))
		}
		return "[" + strings.Join(parts, ",") + "]"
	case k < 8:
		return strconv.Itoa(r.Intn(5))
	case k < 9:
		return "null"
	case k < 10:
		return "[null,2,null]"
	default:
		return pick(r, []string{"[[1,2],3]", "[[],[2],[3,4,0]]", "[null,2,null]", "[[0,1,2,3],[2,2]]", "[4,[2]]"})
	}
}

func c02RefFiles(r *rand.Rand) []File {
	nf := pick(r, []int{0, 1, 1, 1, 2, 2, 3})
	var files []File
	first := true
	for i := 0; i < nf; i++ {
		nv := pick(r, []int{0, 1, 1, 1, 2, 2, 3})
		vals := make([]string, nv)
		for j := range vals {
			vals[j] = c02RefValue(r)
			if first && chance(r, 0.85) {
				vals[j] = pick(r, []string{"[1,2,3]", "[0]", "[2,1]", "[3,2,2,4]", "[]", "[4,0,2]"}) // $index known from the start
			}
			first = false
		}
		files = append(files, File{Name: c02Names[i], Data: []byte(strings.Join(vals, pick(r, []string{" ", "\n", "\t "})))})
	}
	return files
}

func c02RefRule(r *rand.Rand, kind int, idx int) c02RRule {
	ru := c02RRule{kind: kind, tag: c02TagPrefix[kind] + strconv.Itoa(idx)}
	if kind == c02P {
		ru.pat = pick(r, []int{c02PatNone, c02PatNone, c02PatNone, c02PatTrue, c02PatFalse, c02PatZero, c02PatEmptyStr, c02PatNull, c02PatUnset,
			c02PatIdxEven, c02PatIdxEven, c02PatGt, c02PatGt, c02PatEq, c02PatOne, c02PatStrX, c02PatNextIf})
		ru.k = r.Intn(4)
		if ru.pat != c02PatNone && chance(r, 0.15) {
			ru.bodyless = true
			return ru
		}
	}
	pr := c02RAct{op: c02OpPrint}
	switch kind {
	case c02P:
		pr.op = pick(r, []int{c02OpPrint, c02OpPrintIdx, c02OpPrintIdx, c02OpPrintFile})
	case c02BF, c02EF:
		pr.op = pick(r, []int{c02OpPrint, c02OpPrintFile, c02OpPrintFile})
	case c02E:
		pr.op = pick(r, []int{c02OpPrint, c02OpPrintC, c02OpPrintC})
	}
	var ctl *c02RAct
	switch k := r.Intn(20); {
	case k < 10:
	case k < 12:
		ctl = &c02RAct{op: c02OpNext}
	case k < 13:
		ctl = &c02RAct{op: c02OpExit}
	case k < 16:
		if kind == c02P {
			ctl = &c02RAct{op: c02OpIfNext, k: r.Intn(4)}
		}
	case k < 18:
		if kind == c02P {
			ctl = &c02RAct{op: c02OpIfExit, k: r.Intn(5)}
		}
	case k < 19:
		ctl = &c02RAct{op: c02OpCallNext}
	default:
		ctl = &c02RAct{op: c02OpCallExit}
	}
	if chance(r, 0.4) {
		ru.acts = append(ru.acts, c02RAct{op: c02OpInc})
	}
	if chance(r, 0.18) {
		// an assignment to $: replaces the root (BEGINFILE), the element (pattern rules),
		// or a cell that is forgotten afterwards (BEGIN, END, ENDFILE)
		set := c02RAct{op: pick(r, []int{c02OpSetNum, c02OpSetArr}), k: r.Intn(4)}
		if kind == c02P {
			set.op = c02OpSetNum
		}
		if chance(r, 0.6) {
			ru.acts = append(ru.acts, set, pr)
		} else {
			ru.acts = append(ru.acts, pr, set)
		}
	}
	if ctl == nil {
		ru.acts = append(ru.acts, pr)
	} else {
		switch r.Intn(3) {
		case 0:
			ru.acts = append(ru.acts, *ctl, pr)
		case 1:
			ru.acts = append(ru.acts, pr, *ctl)
		default:
			ru.acts = append(ru.acts, pr, *ctl, c02RAct{op: c02OpPrintC})
		}
	}
	return ru
}

func c02Permutations(n int) [][]int {
	if n == 1 {
		return [][]int{{0}}
	}
	var res [][]int
	for _, p := range c02Permutations(n - 1) {
		for at := 0; at <= len(p); at++ {
			q := append(append(append([]int{}, p[:at]...), n-1), p[at:]...)
			res = append(res, q)
		}
	}
	return res
}

// ---------------------------------------------------------------- registration

func init() {
	register(Family{
		Name: "sched-trace", Prop: "C02",
		Rule: "2-9 rules of all five kinds in mixed source order, each printing its tag with $ (and $index, $file, a counter); patterns of every truth value, body-less rules, next/exit plain, conditional, in loops, match arms and called functions; 0-3 files x 0-3 values x 0-2 selectors x roots of every shape; oracle: BEGIN output first, END output last, both in source order, nothing after an EXIT marker, no sentinel; non-trivial = ok/runtime with output",
		Gen: func(r *rand.Rand, tier string, emit func(Case)) {
			n := tierN(tier, 6000, 150000)
			for i := 0; i < n; i++ {
				files, firstArr, nvals := c02Inputs(r)
				sels := c02Sels(r)
				g := &c02Gen{r: r, firstArr: firstArr, idxSafe: firstArr && len(sels) == 0, nvals: nvals, used: map[string]bool{}}
				p := g.program()
				allTagged := !p.anyBodyless // body-less rules print an untagged line
				emit(Case{Req: RunReq(p.text, sels, files, false), Fields: []string{"class", "out"},
					Meta:   metaProg(p.text, "selectors", strings.Join(sels, " | "), "files", c02FilesMeta(files)),
					Oracle: c02TraceOracle(allTagged)})
			}
		},
	})

	register(Family{
		Name: "sched-ref", Prop: "C02",
		Rule: "restricted programs (patterns none/true/false/0/\"\"/null/unset/$index%2==0/$>k/$==k, body-less rules, print of $/$index/$file/counter, next/exit plain, conditional and through a function) over ints, null and nested int arrays, selectors $, $[k], [$, 1]; the exact trace is predicted by an independent Go reference of the schedule and compared on the implementation (oracle) as well as with the model",
		Gen: func(r *rand.Rand, tier string, emit func(Case)) {
			n := tierN(tier, 5000, 120000)
			for i := 0; i < n; i++ {
				nr := 1 + r.Intn(8)
				rules := make([]c02RRule, nr)
				for j := range rules {
					rules[j] = c02RefRule(r, pick(r, []int{c02B, c02E, c02BF, c02EF, c02P, c02P, c02P, c02P}), j)
				}
				// a body-less pattern rule must not be followed by `{`
				for j := 0; j+1 < nr; j++ {
					if rules[j].bodyless && rules[j+1].kind == c02P && rules[j+1].pat == c02PatNone {
						rules[j+1].pat = c02PatTrue
					}
				}
				files := c02RefFiles(r)
				var sels []string
				switch r.Intn(10) {
				case 0, 1:
					sels = []string{pick(r, []string{"$", "$[0]", "$[1]", "[$, 1]", "$[3]"})}
				case 2, 3:
					sels = []string{pick(r, []string{"$", "$[0]", "$[1]", "[$, 1]"}), pick(r, []string{"$", "$[0]", "$[1]", "$[2]"})}
				}
				prog := c02RRender(r, rules)
				class, out := c02RefRun(rules, files, sels)
				emit(Case{Req: RunReq(prog, sels, files, false), Fields: []string{"class", "out"},
					Meta:   metaProg(prog, "selectors", strings.Join(sels, " | "), "files", c02FilesMeta(files), "reference", class+" "+strconv.Quote(out)),
					Oracle: c02RefOracle(class, out)})
			}
		},
	})

	register(Family{
		Name: "sched-perm", Prop: "C02",
		Rule: "systematic: every source order (720) of BEGIN, END, BEGINFILE, ENDFILE and two pattern rules ($ > 1 {..}, pnext($, 3) {..} whose pattern executes next) x one control statement (none / next / exit / if ($ == 2) next / exit through a function) placed before or after the print of one rule x 3 inputs; quick tier samples the space, thorough enumerates it; checked against the Go schedule reference and the model",
		Gen: func(r *rand.Rand, tier string, emit func(Case)) {
			perms := c02Permutations(6)
			base := []c02RRule{
				{kind: c02B, acts: []c02RAct{{op: c02OpInc}, {op: c02OpPrint}}},
				{kind: c02E, acts: []c02RAct{{op: c02OpPrintC}}},
				{kind: c02BF, acts: []c02RAct{{op: c02OpPrintFile}}},
				{kind: c02EF, acts: []c02RAct{{op: c02OpPrintFile}}},
				{kind: c02P, pat: c02PatGt, k: 1, acts: []c02RAct{{op: c02OpInc}, {op: c02OpPrintIdx}}},
				{kind: c02P, acts: []c02RAct{{op: c02OpPrint}}},
			}
			inputs := [][]File{
				{{Name: "a.json", Data: []byte("[1,2,3] 5")}, {Name: "b.json", Data: []byte("[]\n[2,4]")}},
				{{Name: "a.json", Data: []byte("[3,2,1]")}},
				{{Name: "a.json", Data: []byte("")}, {Name: "b.json", Data: []byte("[0,2] 2 [2]")}},
			}
			if c02NextInPattern {
				base[5] = c02RRule{kind: c02P, pat: c02PatNextIf, k: 3, acts: []c02RAct{{op: c02OpPrint}}}
			}
			ctls := []c02RAct{{op: c02OpNext}, {op: c02OpExit}, {op: c02OpIfNext, k: 2}, {op: c02OpCallExit}, {op: c02OpIfExit, k: 2}, {op: c02OpCallNext}}
			type cfg struct{ perm, rule, ctl, pos, in int }
			var space []cfg
			for p := range perms {
				for in := range inputs {
					space = append(space, cfg{p, -1, 0, 0, in})
					for ru := 0; ru < 6; ru++ {
						for c := range ctls {
							if (ctls[c].op == c02OpIfNext || ctls[c].op == c02OpIfExit) && base[ru].kind != c02P {
								continue
							}
							for pos := 0; pos < 2; pos++ {
								space = append(space, cfg{p, ru, c, pos, in})
							}
						}
					}
				}
			}
			if tier != "thorough" {
				r.Shuffle(len(space), func(i, j int) { space[i], space[j] = space[j], space[i] })
				space = space[:4000]
			}
			for _, c := range space {
				rules := make([]c02RRule, 6)
				for j, b := range perms[c.perm] {
					ru := base[b]
					ru.tag = c02TagPrefix[ru.kind] + strconv.Itoa(j)
					ru.acts = append([]c02RAct{}, ru.acts...)
					if b == c.rule {
						if c.pos == 0 {
							ru.acts = append([]c02RAct{ctls[c.ctl]}, ru.acts...)
						} else {
							ru.acts = append(ru.acts, ctls[c.ctl], c02RAct{op: c02OpPrintC})
						}
					}
					rules[j] = ru
				}
				prog := c02RRender(r, rules)
				class, out := c02RefRun(rules, inputs[c.in], nil)
				emit(Case{Req: RunReq(prog, nil, inputs[c.in], false), Fields: []string{"class", "out"},
					Meta:   metaProg(prog, "files", c02FilesMeta(inputs[c.in]), "reference", class+" "+strconv.Quote(out)),
					Oracle: c02RefOracle(class, out)})
			}
		},
	})

	register(Family{
		Name: "root-assign", Prop: "C02",
		Rule: "BEGINFILE rules that replace the root (`$ = E`, E an array/scalar/object/part of $) or write an element, pattern rules that write to their element or to a member, a second BEGINFILE rule and ENDFILE/END rules that print what they see; 1-2 files, 1-3 values, 0-2 selectors; compared with the model; oracle: BEGIN first / END last / no sentinel",
		Gen: func(r *rand.Rand, tier string, emit func(Case)) {
			n := tierN(tier, 3000, 60000)
			assigns := []string{"$ = [5, 6, 7]", "$ = $.list", "$ = 7", `$ = "s"`, "$ = [$, 1]", "$ = null", "$ = {a: 1, list: [8, 9]}", "$ = []", "$ = $[0]", "$ = [[1], [2, 3]]",
				"if ($ is array) $[0] = 9", "if ($ is object) $.k = 9", "if ($ is array) $ = $[1]", "$ = $", "x = $; $ = x", "if ($ is array) $.push(99)", "if ($ is number) $ = $ + 1", "if ($ is object) $.a = 5",
				"$ = [5, 6, 7]", "$ = [[1, 2], 3]", "$ = [$, $]", "if (!($ is array)) $.a = 5"}
			writes := []string{"", "", `$ = "w"`, "if ($ is number) $ = $ * 2", "if ($ is object) $.z = 1", "if ($ is array) $[0] = \"q\"", "$ = [$]", "$ = null", "if ($ is object) $.a = [1]", "$ = 0"}
			for i := 0; i < n; i++ {
				// rule templates: kind prefix, text with %T for the tag; tags are numbered after shuffling
				type tpl struct{ pre, text string }
				var rules []tpl
				rules = append(rules, tpl{"BF", fmt.Sprintf("BEGINFILE { print \"%%T\", $; %s\n print \"%%Tb\", $ }", pick(r, assigns))})
				if chance(r, 0.5) {
					rules = append(rules, tpl{"BF", fmt.Sprintf("BEGINFILE { print \"%%T\", $, $file; %s\n }", pick(r, assigns))})
				}
				idx := ""
				if chance(r, 0.12) {
					idx = ", $index"
				}
				pat := pick(r, []string{"", "", "", "$ is number ", "true ", "!($ is null) ", "$ is array "})
				if chance(r, 0.06) {
					pat = "$index % 2 == 0 "
				}
				rules = append(rules, tpl{"P", fmt.Sprintf("%s{ print \"%%T\", $%s; %s\n }", pat, idx, pick(r, writes))})
				if chance(r, 0.6) {
					rules = append(rules, tpl{"P", fmt.Sprintf("{ print \"%%T\", $; %s\n }", pick(r, writes))})
				}
				rules = append(rules, tpl{"EF", `ENDFILE { print "%T", $, $file }`})
				if chance(r, 0.3) {
					rules = append(rules, tpl{"EF", `ENDFILE { $ = 0; print "%T", $ }`}, tpl{"EF", `ENDFILE { print "%T", $ }`})
				}
				rules = append(rules, tpl{"E", `END { print "%T", $ }`})
				if chance(r, 0.3) {
					rules = append(rules, tpl{"B", `BEGIN { $ = 3; print "%T", $ }`}, tpl{"B", `BEGIN { print "%T", $ }`})
				}
				r.Shuffle(len(rules), func(a, b int) { rules[a], rules[b] = rules[b], rules[a] })
				texts := make([]string, len(rules))
				for k, t := range rules {
					texts[k] = strings.ReplaceAll(t.text, "%T", t.pre+strconv.Itoa(k))
				}
				prog := strings.Join(texts, "\n")
				nf := 1 + r.Intn(2)
				var files []File
				for f := 0; f < nf; f++ {
					nv := 1 + r.Intn(3)
					vals := make([]string, nv)
					for j := range vals {
						vals[j], _ = c02Root(r)
					}
					files = append(files, File{Name: c02Names[f], Data: []byte(strings.Join(vals, pick(r, []string{" ", "\n"})))})
				}
				var sels []string
				for k := pick(r, []int{0, 0, 0, 1, 1, 2}); k > 0; k-- {
					sels = append(sels, pick(r, []string{"$", "$[0]", "[$, 1]", "$[1]", "$", "[$, 1]", "$.a", "$.list", "{x: $}"}))
				}
				emit(Case{Req: RunReq(prog, sels, files, false), Fields: []string{"class", "out"},
					Meta:   metaProg(prog, "selectors", strings.Join(sels, " | "), "files", c02FilesMeta(files)),
					Oracle: c02TraceOracle(true)})
			}
		},
	})
}
