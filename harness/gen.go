package main

// Shared generator helpers: pools, JSON documents, jqawk literals.

import (
	"fmt"
	"math/rand"
	"strconv"
	"strings"
)

func pick[T any](r *rand.Rand, xs []T) T { return xs[r.Intn(len(xs))] }

func chance(r *rand.Rand, p float64) bool { return r.Float64() < p }

// tierN picks a case count by tier.
func tierN(tier string, quick, thorough int) int {
	if tier == "thorough" {
		return thorough
	}
	return quick
}

var asciiWords = []string{"", "a", "abc", "Hello", "x y", "10", "9", "007", "1e3", " 1", "-2.5", "0", "true", "null", "a,b,,c", "tab\there"}
var utf8Words = []string{"é", "日本", "añb", "🙂", "ß"}

// jsonString renders s as a JSON string literal (valid UTF-8 expected).
func jsonString(s string) string {
	var sb strings.Builder
	sb.WriteByte('"')
	for _, c := range s {
		switch {
		case c == '"':
			sb.WriteString(`\"`)
		case c == '\\':
			sb.WriteString(`\\`)
		case c == '\n':
			sb.WriteString(`\n`)
		case c == '\t':
			sb.WriteString(`\t`)
		case c < 0x20:
			fmt.Fprintf(&sb, `\u%04x`, c)
		default:
			sb.WriteRune(c)
		}
	}
	sb.WriteByte('"')
	return sb.String()
}

var jsonNumbers = []string{"0", "-0", "1", "2", "3", "10", "-7", "2.5", "0.1", "1e3", "1E-2", "123456789", "9007199254740993", "1e21", "1e-7", "5e-324", "1.7976931348623157e308", "3.14159"}

type jsonCfg struct {
	maxDepth  int
	maxWidth  int
	strings   []string
	numbers   []string
	noObjects bool
}

func defaultJSONCfg() jsonCfg {
	return jsonCfg{maxDepth: 3, maxWidth: 4, strings: append(append([]string{}, asciiWords...), utf8Words...), numbers: jsonNumbers}
}

// genJSON produces the text of a random JSON value.
func genJSON(r *rand.Rand, c jsonCfg, depth int) string {
	k := r.Intn(10)
	if depth >= c.maxDepth && k >= 6 {
		k = r.Intn(6)
	}
	switch k {
	case 0:
		return "null"
	case 1:
		return pick(r, []string{"true", "false"})
	case 2, 3:
		return pick(r, c.numbers)
	case 4, 5:
		return jsonString(pick(r, c.strings))
	case 6, 7:
		n := r.Intn(c.maxWidth + 1)
		parts := make([]string, n)
		for i := range parts {
			parts[i] = genJSON(r, c, depth+1)
		}
		return "[" + strings.Join(parts, pick(r, []string{",", ", ", " , "})) + "]"
	default:
		if c.noObjects {
			return pick(r, c.numbers)
		}
		n := r.Intn(c.maxWidth + 1)
		parts := make([]string, n)
		keys := []string{"a", "b", "c", "name", "k1", "length", "x y", "é", "10"}
		r.Shuffle(len(keys), func(i, j int) { keys[i], keys[j] = keys[j], keys[i] })
		for i := range parts {
			parts[i] = jsonString(keys[i%len(keys)]) + pick(r, []string{":", ": "}) + genJSON(r, c, depth+1)
		}
		return "{" + strings.Join(parts, ",") + "}"
	}
}

// strLit renders s as a jqawk string literal. jqawk strings end at the first
// matching quote and know only the escapes \n \t \\, so s must not contain
// both quote characters; ok=false if it cannot be written.
func strLit(r *rand.Rand, s string) (string, bool) {
	q := byte('"')
	if strings.ContainsRune(s, '"') {
		if strings.ContainsRune(s, '\'') {
			return "", false
		}
		q = '\''
	} else if !strings.ContainsRune(s, '\'') && r != nil && chance(r, 0.5) {
		q = '\''
	}
	var sb strings.Builder
	sb.WriteByte(q)
	for i := 0; i < len(s); i++ {
		switch s[i] {
		case '\\':
			sb.WriteString(`\\`)
		case '\n':
			sb.WriteString(`\n`)
		case '\t':
			sb.WriteString(`\t`)
		default:
			sb.WriteByte(s[i])
		}
	}
	sb.WriteByte(q)
	return sb.String(), true
}

func mustStrLit(s string) string {
	l, ok := strLit(nil, s)
	if !ok {
		panic("unwritable string literal: " + s)
	}
	return l
}

// numLit renders a non-negative decimal as a jqawk numeric literal
// (digits with an optional fraction); negative numbers use unary minus.
func numLit(f float64) string {
	s := strconv.FormatFloat(f, 'f', -1, 64)
	if strings.HasPrefix(s, "-") {
		return "(-" + s[1:] + ")"
	}
	return s
}

func metaProg(prog string, extra ...string) map[string]string {
	m := map[string]string{"program": prog}
	for i := 0; i+1 < len(extra); i += 2 {
		m[extra[i]] = extra[i+1]
	}
	return m
}
