package main

import (
	"encoding/json"
	"flag"
	"fmt"
	"os"
	"time"
)

func main() {
	if len(os.Args) < 2 {
		fmt.Fprintln(os.Stderr, "usage: harness implworker | check ... | replay <file> -model <path> | families")
		os.Exit(2)
	}
	self, _ := os.Executable()
	switch os.Args[1] {
	case "implworker":
		implWorkerMain()
	case "families":
		for _, f := range families {
			fmt.Println(f.Prop, f.Name)
		}
	case "check":
		fs := flag.NewFlagSet("check", flag.ExitOnError)
		prop := fs.String("prop", "", "property id")
		tier := fs.String("tier", "quick", "quick|thorough")
		seed := fs.Int64("seed", 1, "seed")
		model := fs.String("model", "", "path to jqmodel")
		replayDir := fs.String("replay-dir", "replays", "where replay files go")
		out := fs.String("out", "result.json", "result file")
		only := fs.String("family", "", "run only this family")
		fs.Parse(os.Args[2:])
		os.Exit(runCheck(*prop, *tier, *seed, *model, self, *replayDir, *out, *only))
	case "replay":
		fs := flag.NewFlagSet("replay", flag.ExitOnError)
		model := fs.String("model", "", "path to jqmodel")
		fs.Parse(os.Args[3:])
		b, err := os.ReadFile(os.Args[2])
		if err != nil {
			fmt.Fprintln(os.Stderr, err)
			os.Exit(2)
		}
		var doc map[string]interface{}
		json.Unmarshal(b, &doc)
		req, _ := doc["request"].(string)
		if req == "" {
			fmt.Println("replay file carries no request (no-failing-input-found):", doc["what"])
			os.Exit(1)
		}
		iw := &worker{argv: []string{self, "implworker"}, timeout: 20 * time.Second}
		mw := &worker{argv: modelArgv(*model), timeout: 60 * time.Second}
		mreq := req
		if m, _ := doc["model_request"].(string); m != "" {
			mreq = m
		}
		impl := ParseResp(iw.ask(req))
		mod := ParseResp(mw.ask(mreq))
		iw.stop()
		mw.stop()
		fmt.Println("request:       ", short(req))
		if m, ok := doc["meta"].(map[string]interface{}); ok {
			for k, v := range m {
				fmt.Printf("  %s: %v\n", k, v)
			}
		}
		fmt.Println("implementation:", impl.String())
		fmt.Println("model:         ", mod.String())
		differ := false
		if fl, ok := doc["fields_compared"].([]interface{}); ok {
			for _, f := range fl {
				k := f.(string)
				if impl[k] != mod[k] && !mod.Skippable() {
					fmt.Printf("DIFF %s: impl=%s model=%s\n", k, short(impl[k]), short(mod[k]))
					differ = true
				}
			}
		}
		fmt.Println("recorded:", doc["kind"], "-", doc["what"])
		if differ || doc["kind"] != "disagree" {
			os.Exit(1)
		}
		os.Exit(0)
	case "ask":
		iw := &worker{argv: []string{self, "implworker"}, timeout: 20 * time.Second}
		fmt.Println(iw.ask(os.Args[2]))
		iw.stop()
	default:
		fmt.Fprintln(os.Stderr, "unknown subcommand")
		os.Exit(2)
	}
}
