package main

// C17 — print renders every value in one well-defined, terminating,
// re-readable format.
//
// Every case is compared with the model on class, out. Implementation-only
// oracles: the exact format ([a, b], {"k": v}, keys sorted, one space between
// arguments, one newline), re-parse of escape-free containers with Go's JSON
// decoder (bit-exact numbers), strconv.ParseFloat of every printed number,
// <circular reference> exactly at the point of recurrence, sharing printed in
// full. A rendering that does not terminate is a timeout = violation (core.go).
//
// print-current-record: a bare print / a body-less rule renders the value $ has AT THAT
// MOMENT: the same record is printed several times with in-place updates in between
// (expected text from the ideal interpreter of fam_c09.go).
// print-bookkeeping: print applied directly to results that carry internal bookkeeping
// (missing elements and members, string characters, method values, results of ++ and
// assignments, match results): null is the word null in every position.
// print-nested-writers: a print whose argument list calls functions that print themselves
// (1-3 levels), executed repeatedly: every print writes its own arguments.

import (
	"fmt"
	"math"
	"math/rand"
	"sort"
	"strconv"
	"strings"
)

var c17Fields = []string{"class", "out"}

// c17Pretty: the rendering the property prescribes for a decoded JSON tree.
func c17Pretty(v interface{}, top bool) string {
	switch x := v.(type) {
	case nil:
		return "null"
	case bool:
		if x {
			return "true"
		}
		return "false"
	case float64:
		return strconv.FormatFloat(x, 'f', -1, 64)
	case string:
		if top {
			return x
		}
		return `"` + x + `"`
	case []interface{}:
		parts := make([]string, len(x))
		for i, e := range x {
			parts[i] = c17Pretty(e, false)
		}
		return "[" + strings.Join(parts, ", ") + "]"
	case map[string]interface{}:
		keys := make([]string, 0, len(x))
		for k := range x {
			keys = append(keys, k)
		}
		sort.Strings(keys)
		parts := make([]string, len(keys))
		for i, k := range keys {
			parts[i] = `"` + k + `": ` + c17Pretty(x[k], false)
		}
		return "{" + strings.Join(parts, ", ") + "}"
	}
	return "?"
}

// c17CheckRendering checks one rendered value (text) against the value it shows.
func c17CheckRendering(text string, want interface{}, top bool) string {
	switch x := want.(type) {
	case float64:
		if strings.ContainsAny(text, "eE") {
			return "number printed with an exponent: " + short(text)
		}
		f, err := strconv.ParseFloat(text, 64)
		if err != nil {
			return "printed number does not read back: " + short(text)
		}
		if math.Float64bits(f) != math.Float64bits(x) {
			return fmt.Sprintf("printed number reads back as a different double: %s -> %x, value %x", short(text), math.Float64bits(f), math.Float64bits(x))
		}
	case []interface{}, map[string]interface{}:
		if vgStringsPlain(want) {
			got, err := vgDecodeOne([]byte(text))
			if err != nil {
				return "rendering of an escape-free container is not JSON: " + err.Error() + ": " + short(text)
			}
			if !vgEqual(got, want) {
				return "rendering re-parses to a different value: want " + vgShow(want) + " got " + vgShow(got)
			}
		}
	}
	if exp := c17Pretty(want, top); text != exp {
		return "rendering differs from the prescribed format: want " + short(exp) + " got " + short(text)
	}
	return ""
}

func c17Lines(i Resp) ([]string, string) {
	if i["class"] != "ok" {
		return nil, "class=" + i["class"] + " msg=" + i["msg"] + " (the program cannot fail)"
	}
	out := string(i.Bytes("out"))
	if out == "" {
		return nil, ""
	}
	if !strings.HasSuffix(out, "\n") {
		return nil, "output does not end with a newline: " + short(out)
	}
	return strings.Split(out[:len(out)-1], "\n"), ""
}

func c17Records(vals []interface{}) []interface{} {
	var recs []interface{}
	for _, v := range vals {
		if arr, ok := v.([]interface{}); ok {
			recs = append(recs, arr...)
		} else {
			recs = append(recs, v)
		}
	}
	return recs
}

func c17NoNewline(v interface{}) bool {
	switch x := v.(type) {
	case string:
		return !strings.Contains(x, "\n")
	case []interface{}:
		for _, e := range x {
			if !c17NoNewline(e) {
				return false
			}
		}
	case map[string]interface{}:
		for k, e := range x {
			if strings.Contains(k, "\n") || !c17NoNewline(e) {
				return false
			}
		}
	}
	return true
}

// c17PerRecord: one output line per record; shape says how the record appears on its line.
func c17PerRecord(recs []interface{}, shape string) func(Resp) string {
	return func(i Resp) string {
		lines, w := c17Lines(i)
		if w != "" {
			return w
		}
		if len(lines) != len(recs) {
			return fmt.Sprintf("%d output lines for %d records", len(lines), len(recs))
		}
		for k, rec := range recs {
			line := lines[k]
			var w string
			switch shape {
			case "top":
				w = c17CheckRendering(line, rec, true)
			case "twice":
				one := c17Pretty(rec, true)
				if line != one+" "+one {
					w = "two arguments are not joined by exactly one space: " + short(line)
				}
			case "array":
				w = c17CheckRendering(line, []interface{}{rec, rec}, true)
			case "object":
				w = c17CheckRendering(line, map[string]interface{}{"k": rec, "a b": []interface{}{rec}}, true)
			}
			if w != "" {
				return fmt.Sprintf("record %d: %s", k, w)
			}
		}
		return ""
	}
}

type c17Arg struct {
	expr string
	want string // exact rendering as a top-level argument
}

func c17SpecialArgs() []c17Arg {
	return []c17Arg{
		{"f", "<function>"}, {"printf", "<nativefunction>"}, {"json", "<nativefunction>"}, {"num", "<nativefunction>"}, {"[1].length", "<nativefunction>"}, {"'x'.upper", "<nativefunction>"},
		{"{}.pluck", "<nativefunction>"}, {"(2).floor", "<nativefunction>"}, {"/re/", "<regex>"}, {"/a[b]+/", "<regex>"}, {"unset1", "<unknown>"}, {"[unset2]", "[<unknown>]"}, {"{a: unset3}", `{"a": <unknown>}`},
		{"[/re/, 1]", "[<regex>, 1]"}, {"{r: /x/}", `{"r": <regex>}`}, {"[[unset4, null]]", "[[<unknown>, null]]"}, {"null", "null"}, {"true", "true"}, {"false", "false"}, {"''", ""}, {"'a b'", "a b"},
		{"['a b', '']", `["a b", ""]`}, {"[]", "[]"}, {"{}", "{}"}, {"[[]]", "[[]]"}, {"[{}]", "[{}]"}, {"{a: []}", `{"a": []}`}, {"{a: {}}", `{"a": {}}`}, {"[[], [], {}]", "[[], [], {}]"},
		{"num('inf')", "+Inf"}, {"num('-inf')", "-Inf"}, {"num('nan')", "NaN"}, {"[num('inf')]", "[+Inf]"}, {"$", "null"}, {"[$]", "[null]"},
		{"(1 == 1)", "true"}, {"(1 is string)", "false"}, {"'<circular reference>'", "<circular reference>"}, {"['<function>']", `["<function>"]`},
	}
}

func init() {
	register(Family{
		Name: "print-documents", Prop: "C17",
		Rule: "documents (3/4 escape-free strings, 1/4 with every escape; empty containers at every depth, depth <= 8, numeric extremes, streams) printed by `{ print }`, `{ print $ }` and a body-less rule (one Group: outputs must be identical), twice in one print, and wrapped into new containers; oracle: one line per record, exact format, escape-free containers re-parse with Go's decoder to the record, numbers read back bit-identically",
		Gen: func(r *rand.Rand, tier string, emit func(Case)) {
			n := tierN(tier, 3000, 30000)
			for i := 0; i < n; i++ {
				cfg := vgPlainCfg()
				if chance(r, 0.25) {
					cfg = vgRichCfg()
				}
				data := vgStream(r, cfg)
				vals, err := vgDecodeAll([]byte(data))
				if err != nil || len(vals) == 0 {
					continue
				}
				recs := c17Records(vals)
				lineSafe := true
				for _, rec := range recs {
					lineSafe = lineSafe && c17NoNewline(rec)
				}
				files := vgDocFile(data)
				mk := func(prog, shape string) Case {
					c := Case{Req: RunReq(prog, nil, files, false), Fields: c17Fields, Meta: metaProg(prog, "input", data, "shape", shape)}
					if lineSafe {
						c.Oracle = c17PerRecord(recs, shape)
					}
					return c
				}
				grp := fmt.Sprintf("doc%d", i)
				for _, prog := range []string{"{ print }", "{ print $ }", "true", "{ v = $; print v }"} {
					c := mk(prog, "top")
					c.Group, c.GroupFields = grp, c17Fields
					emit(c)
				}
				switch r.Intn(3) {
				case 0:
					emit(mk("{ print $, $ }", "twice"))
				case 1:
					emit(mk("{ print [$, $] }", "array"))
				default:
					emit(mk("{ print {k: $, 'a b': [$]} }", "object"))
				}
			}
		},
	})

	register(Family{
		Name: "print-numbers", Prop: "C17",
		Rule: "numbers of every magnitude: arrays of pool numbers (0, -0, 2^53+-1, 1e21, 1e-7, 5e-324, max double, long fractions) and random bit patterns from documents, and numbers computed by the program (0.1 + 0.2, 1 / 3, halves, num('5e-324')); printed at the top level and inside containers; oracle: no exponent, strconv.ParseFloat gives the identical bits (expected bits from Go's decoding of the document / from json() in the same run)",
		Gen: func(r *rand.Rand, tier string, emit func(Case)) {
			n := tierN(tier, 3000, 30000)
			for i := 0; i < n; i++ {
				k := 1 + r.Intn(8)
				nums := make([]string, k)
				for j := range nums {
					if chance(r, 0.5) {
						nums[j] = pick(r, vgNumberPool)
					} else {
						f := math.Float64frombits(r.Uint64())
						for math.IsNaN(f) || math.IsInf(f, 0) {
							f = math.Float64frombits(r.Uint64())
						}
						nums[j] = strconv.FormatFloat(f, pick(r, []byte{'g', 'e'}), -1, 64)
					}
				}
				data := "[" + strings.Join(nums, ", ") + "]"
				vals, err := vgDecodeAll([]byte(data))
				if err != nil {
					continue
				}
				recs := c17Records(vals)
				prog, shape := "{ print }", "top"
				if chance(r, 0.3) {
					prog, shape = "{ print [$, $] }", "array"
				}
				emit(Case{Req: RunReq(prog, nil, vgDocFile(data), false), Fields: c17Fields, Meta: metaProg(prog, "input", data), Oracle: c17PerRecord(recs, shape)})
				// the whole array as one value (BEGINFILE sees the root itself)
				if chance(r, 0.3) {
					prog := "BEGINFILE { print }"
					emit(Case{Req: RunReq(prog, nil, vgDocFile(data), false), Fields: c17Fields, Meta: metaProg(prog, "input", data), Oracle: c17PerRecord(vals, "top")})
				}
			}
			m := tierN(tier, 1500, 15000)
			for i := 0; i < m; i++ {
				x := pick(r, vgLitNumbers)
				expr, want := x.expr, x.val
				if chance(r, 0.5) {
					// arithmetic on two pool numbers, evaluated by jqawk; expected bits come from json()
					y := pick(r, vgLitNumbers)
					op := pick(r, []string{"+", "-", "*"})
					expr = "(" + x.expr + " " + op + " " + y.expr + ")"
					switch op {
					case "+":
						want = vgAdd(x.val, y.val)
					case "-":
						want = vgAdd(x.val, -y.val)
					default:
						want = vgMul(x.val, y.val)
					}
				}
				if math.IsInf(want, 0) || math.IsNaN(want) {
					continue
				}
				prog := "BEGIN { x = " + expr + "; print x; print [x]; print json(x) }"
				w := want
				emit(Case{Req: RunReq(prog, nil, nil, false), Fields: c17Fields, Meta: metaProg(prog, "expect-bits", fmt.Sprintf("%x", math.Float64bits(want))),
					Oracle: func(i Resp) string {
						lines, msg := c17Lines(i)
						if msg != "" {
							return msg
						}
						if len(lines) != 3 {
							return "expected three lines"
						}
						if m := c17CheckRendering(lines[0], w, true); m != "" {
							return m
						}
						if m := c17CheckRendering(lines[1], []interface{}{w}, true); m != "" {
							return m
						}
						j, err := strconv.ParseFloat(lines[2], 64)
						p, err2 := strconv.ParseFloat(lines[0], 64)
						if err != nil || err2 != nil || math.Float64bits(j) != math.Float64bits(p) {
							return "print and json() of the same number read back differently: " + lines[0] + " vs " + lines[2]
						}
						return ""
					}})
			}
		},
	})

	register(Family{
		Name: "print-arguments", Prop: "C17",
		Rule: "print with 1-5 arguments (literal trees, functions, builtins, bound methods, regex values, unset variables, non-finite numbers, empty containers) followed by one print per argument; oracle: the first line is the later lines joined by exactly one space, each print ends with exactly one newline, the special values render as <function> <nativefunction> <regex> <unknown>; bare print in BEGIN / END / pattern rules",
		Gen: func(r *rand.Rand, tier string, emit func(Case)) {
			special := c17SpecialArgs()
			n := tierN(tier, 3000, 30000)
			for i := 0; i < n; i++ {
				k := 1 + r.Intn(5)
				args := make([]c17Arg, k)
				for j := range args {
					if chance(r, 0.45) {
						args[j] = pick(r, special)
					} else {
						l := vgLitTree(r, 1, true)
						want := ""
						if !strings.Contains(l.expr, "vgunset") {
							want = c17Pretty(l.tree, true)
						}
						args[j] = c17Arg{l.expr, want}
					}
				}
				exprs := make([]string, k)
				for j, a := range args {
					exprs[j] = a.expr
				}
				prog := "function f() { return 1 }\nBEGIN { print " + strings.Join(exprs, ", ")
				for _, e := range exprs {
					prog += "; print " + e
				}
				prog += " }"
				as := args
				emit(Case{Req: RunReq(prog, nil, nil, false), Fields: c17Fields, Meta: metaProg(prog), Oracle: func(i Resp) string {
					lines, msg := c17Lines(i)
					if msg != "" {
						return msg
					}
					if len(lines) != len(as)+1 {
						return fmt.Sprintf("expected %d lines, got %d: %s", len(as)+1, len(lines), short(string(i.Bytes("out"))))
					}
					if lines[0] != strings.Join(lines[1:], " ") {
						return "print a, b, … is not the single renderings joined by one space: " + short(lines[0])
					}
					for j, a := range as {
						if a.want != "" && lines[j+1] != a.want {
							return fmt.Sprintf("argument %s renders as %s, expected %s", a.expr, short(lines[j+1]), a.want)
						}
					}
					return ""
				}, NonTrivial: func(i Resp) bool { return i["class"] == "ok" }})
			}
			// bare print, and the ill-formed stream
			exact := func(prog, doc, want, class string) {
				var files []File
				if doc != "" {
					files = vgDocFile(doc)
				}
				emit(Case{Req: RunReq(prog, nil, files, false), Fields: c17Fields, Meta: metaProg(prog, "input", doc, "expect", class+" "+want), NonTrivial: func(i Resp) bool { return true }, Oracle: func(i Resp) string {
					if i["class"] != class || string(i.Bytes("out")) != want {
						return "expected class " + class + " and exactly " + strconv.Quote(want) + ", got class=" + i["class"] + " out=" + strconv.Quote(string(i.Bytes("out")))
					}
					return ""
				}})
			}
			type bp struct{ prog, doc, want string }
			for _, x := range []bp{
				{"BEGIN { print }", "", "null\n"}, {"END { print }", `[1]`, "null\n"}, {"BEGIN { print; print $ }", "", "null\nnull\n"},
				{"{ print; print $ }", `{"a": [1, "x"]}`, "{\"a\": [1, \"x\"]}\n{\"a\": [1, \"x\"]}\n"}, {"{ print\nprint }", `["s", 2]`, "s\ns\n2\n2\n"},
				{"BEGINFILE { print } ENDFILE { print }", `[1, [2]]`, "[1, [2]]\n[1, [2]]\n"}, {"function p() { print }\n{ p() }", `["a b"]`, "a b\n"},
				{"$ > 1", `[1, 2, 3]`, "2\n3\n"}, {"$.a", `[{"a": 1}, {"a": 0}, {"a": "x"}]`, "{\"a\": 1}\n{\"a\": \"x\"}\n"}, {"{ print }\n{ print }", `"x"`, "x\nx\n"},
				{"{ if (true) print; else print 1 }", `[7]`, "7\n"}, {"{ print '' }", `[7]`, "\n"}, {"{ print '', '' }", `[7]`, " \n"}, {"{ print 'a\\nb' }", `[7]`, "a\nb\n"},
				{"function g() { print 'g'; return 2 }\nBEGIN { print 1, g(), 3 }", "", "g\n1 2 3\n"},
				{"BEGIN { x = 1; print x, x++, x }", "", "2 1 2\n"}, {"BEGIN { print 1, }", "", "1\n"},
			} {
				exact(x.prog, x.doc, x.want, "ok")
			}
			// all arguments are evaluated before anything is written; malformed print statements
			for _, x := range []bp{
				{"BEGIN { print 'x'; print 1, 1 / 0, 3; print 'y' }", "runtime", "x\n"},
				{"function f() { return 1 }\nBEGIN { print 'x'; print [1, f] }", "runtime", "x\n"},
				{"BEGIN { print 'x'; print nosuch() }", "runtime", "x\n"},
				{"BEGIN { print 'x'; print $file }", "runtime", "x\n"},
				{"BEGIN { print 1 2 }", "syntax", ""}, {"BEGIN { print 1,, 2 }", "syntax", ""}, {"BEGIN { print , }", "syntax", ""},
			} {
				exact(x.prog, "", x.want, x.doc)
			}
		},
	})

	register(Family{
		Name: "print-graphs", Prop: "C17",
		Rule: "values built by push / member assignment: cycles of length 1-5 through arrays, objects and mixtures (printed from a ring member and from outside), random graphs, and acyclic graphs with shared sub-structures; oracle: exact text computed on the graph — <circular reference> exactly where a container is its own ancestor, shared containers in full both times; escape-free acyclic values re-parse to the tree (also compared with json() printed in the same run)",
		Gen: func(r *rand.Rand, tier string, emit func(Case)) {
			n := tierN(tier, 5000, 50000)
			for i := 0; i < n; i++ {
				var g *vgGraph
				var kind string
				plain := chance(r, 0.7)
				switch r.Intn(4) {
				case 0, 1:
					ln := 1 + r.Intn(5)
					kinds := pick(r, []byte{'a', 'o', 'm'})
					g = vgRing(r, ln, kinds, plain)
					kind = fmt.Sprintf("ring of %d (%c)", ln, kinds)
					if chance(r, 0.3) {
						out := g.newCont(pick(r, []byte{'a', 'o'}))
						g.link(r, out, g.conts[r.Intn(ln)], "into")
						g.link(r, out, g.conts[r.Intn(ln)], "again")
						kind += " entered from outside twice"
					}
				case 2:
					g = vgRandomGraph(r, 1+r.Intn(5), false, plain, true)
					kind = "random graph"
				default:
					g = vgRandomGraph(r, 2+r.Intn(4), true, plain, false)
					kind = "acyclic with sharing"
				}
				// print one to three of the containers with one statement
				np := 1 + r.Intn(3)
				ids := make([]int, np)
				vars := make([]string, np)
				wants := make([]string, np)
				for j := range ids {
					ids[j] = pick(r, g.conts)
					vars[j] = g.varOf(ids[j])
					wants[j] = g.pretty(ids[j], nil, true)
				}
				want := strings.Join(wants, " ") + "\n"
				tree, ok := g.tree(ids[0], nil)
				prog := "BEGIN { " + g.prog() + "; print " + strings.Join(vars, ", ")
				withJSON := ok && np == 1 && g.plainStrings() && !strings.Contains(g.prog(), "vgunset")
				if withJSON {
					prog += "; print json(" + vars[0] + ")"
				}
				prog += " }"
				emit(Case{Req: RunReq(prog, nil, nil, false), Fields: c17Fields, Meta: metaProg(prog, "kind", kind, "expect", want), Oracle: func(i Resp) string {
					if i["class"] != "ok" {
						return "class=" + i["class"] + " msg=" + i["msg"] + " (print cannot fail)"
					}
					out := string(i.Bytes("out"))
					if !strings.HasPrefix(out, want) {
						return "rendering differs: want " + short(want) + " got " + short(out)
					}
					if withJSON {
						a, err1 := vgDecodeOne([]byte(strings.TrimSuffix(want, "\n")))
						b, err2 := vgDecodeOne([]byte(out[len(want):]))
						if err1 != nil || err2 != nil || !vgEqual(a, b) || !vgEqual(a, tree) {
							return "rendering and json() of an escape-free acyclic value do not re-parse to the same tree: " + short(out)
						}
					} else if out != want {
						return "extra output: " + short(out)
					}
					return ""
				}})
			}
			// hand-written corner cases
			type hc struct{ prog, want string }
			for _, x := range []hc{
				{"BEGIN { a = [1]; a.push(a); print a }", "[1, <circular reference>]\n"},
				{"BEGIN { o = {}; o.self = o; print o }", "{\"self\": <circular reference>}\n"},
				{"BEGIN { a = [1]; b = [a, a]; print b }", "[[1], [1]]\n"},
				{"BEGIN { a = []; b = {x: a, y: a, z: [a]}; print b, a }", "{\"x\": [], \"y\": [], \"z\": [[]]} []\n"},
				{"BEGIN { a = [1]; o = {k: a}; a.push(o); print a; print o }", "[1, {\"k\": <circular reference>}]\n{\"k\": [1, <circular reference>]}\n"},
				{"BEGIN { a = [1]; a.push(a); a.push(a); print a }", "[1, <circular reference>, <circular reference>]\n"},
				{"BEGIN { a = []; b = [a]; a.push(b); c = [a, b]; print c }", "[[[<circular reference>]], [[<circular reference>]]]\n"},
				{"BEGIN { a = [1]; a.push(a); a.pop(); print a }", "[1]\n"},
				{"BEGIN { a = [[1]]; b = a[0]; b.push(a); print a, b }", "[[1, <circular reference>]] [1, [<circular reference>]]\n"},
				{"BEGIN { a = [1]; b = [1]; c = [a, b]; print c }", "[[1], [1]]\n"},
				{"{ $.me = $; print }", "{\"d\": 1, \"me\": <circular reference>}\n"},
			} {
				want := x.want
				var files []File
				if strings.HasPrefix(x.prog, "{") {
					files = vgDocFile(`{"d": 1}`)
				}
				emit(Case{Req: RunReq(x.prog, nil, files, false), Fields: c17Fields, Meta: metaProg(x.prog, "expect", want), Oracle: func(i Resp) string {
					if i["class"] != "ok" || string(i.Bytes("out")) != want {
						return "expected exactly " + strconv.Quote(want) + ", got class=" + i["class"] + " out=" + strconv.Quote(string(i.Bytes("out")))
					}
					return ""
				}})
			}
		},
	})

	register(Family{
		Name: "print-built-values", Prop: "C17",
		Rule: "escape-free values built by literals and by auto-creating path assignments (o.a.b = 1, a[3] = 1), printed and then printed with json() in the same run; oracle: the print line has the exact format, re-parses with Go's decoder to the generator's tree, and equals the re-parse of the json() text",
		Gen: func(r *rand.Rand, tier string, emit func(Case)) {
			n := tierN(tier, 4000, 40000)
			for i := 0; i < n; i++ {
				var build, expr string
				var tree interface{}
				if chance(r, 0.5) {
					l := vgLitTree(r, 0, true)
					if strings.Contains(l.expr, "vgunset") {
						continue
					}
					build, expr, tree = "v = "+l.expr, "v", l.tree
				} else {
					build, tree = vgAutoProg(r, "o", true)
					expr = "o"
				}
				prog := "BEGIN { " + build + "; print " + expr + "; print json(" + expr + ") }"
				t := tree
				emit(Case{Req: RunReq(prog, nil, nil, false), Fields: c17Fields, Meta: metaProg(prog, "expect", c17Pretty(tree, true)), Oracle: func(i Resp) string {
					if i["class"] != "ok" {
						return "class=" + i["class"] + " msg=" + i["msg"] + " (the program cannot fail)"
					}
					out := string(i.Bytes("out"))
					nl := strings.IndexByte(out, '\n')
					if nl < 0 {
						return "no newline"
					}
					if w := c17CheckRendering(out[:nl], t, true); w != "" {
						return w
					}
					j, err := vgDecodeOne([]byte(out[nl+1:]))
					if err != nil || !vgEqual(j, t) {
						return "json() text does not parse to the value: " + short(out[nl+1:])
					}
					return ""
				}})
			}
		},
	})
}

// ---------------------------------------------------------------- print-current-record

// c17Current builds one program that prints the same record several times — bare print,
// print $, body-less rules, a function that prints — with in-place updates of the record
// between the prints (statements of fam_c09's generator, chosen with the state in view:
// member / index assignment at any depth, compound assignment, ++ --, push / pop /
// popfirst, writes through aliases, parameters, for-in variables and match bindings,
// `$ = ...`). ideal: the same program with every observation written as `print $`.
func c17Current(r *rand.Rand) (prog, doc string, funcs []*c09Func, ideal []*c09Stmt, bf, ef int, nobs int) {
	doc = c09GenDoc(r, 0, true)
	if chance(r, 0.25) {
		doc = "[" + doc
		for k := r.Intn(3); k > 0; k-- {
			doc += ", " + c09GenDoc(r, 0, true)
		}
		doc += "]"
	}
	g := &c09Gen{r: r, in: c09NewInterp(c09Helpers...), errOK: 0}
	root := &c09Cell{c09Decode(doc)}
	g.in.root = root
	if root.v.k == 'a' {
		g.in.root = root.v.a.e[0]
	}
	funcs = c09Helpers
	var rules []string // finished rules
	var cur []string   // statements of the rule being written
	prevBodyless := false
	closeRule := func() {
		if len(cur) == 0 {
			return
		}
		head := ""
		if prevBodyless {
			head = pick(r, []string{"1 ", "true "}) // `{` right after a body-less rule would be taken as its body
		} else if chance(r, 0.2) {
			head = pick(r, []string{"1 ", "true ", "!false "})
		}
		rules = append(rules, head+"{\n  "+strings.Join(cur, "\n  ")+"\n}")
		cur = nil
		prevBodyless = false
	}
	ok := true
	add := func(text string, ss ...*c09Stmt) {
		for _, st := range ss {
			ideal = append(ideal, st)
			if ok && g.in.exec(st) != nil {
				ok = false // the run ends here; nothing more is generated
			}
		}
		if text != "" {
			cur = append(cur, strings.TrimSuffix(text, "\n"))
		}
	}
	show := c09Print(c09V("$"))
	observe := func() {
		nobs++
		switch k := r.Intn(12); {
		case k < 4:
			add("print", show)
		case k < 5:
			add("print $", show)
		case k < 7:
			if chance(r, 0.5) {
				add("print", show)
				add("print $", show)
			} else {
				add("print $", show)
				add("print", show)
			}
		case k < 10:
			// a rule without a body
			closeRule()
			ideal = append(ideal, show)
			if ok && g.in.exec(show) != nil {
				ok = false
			}
			rules = append(rules, pick(r, []string{"true", "1", "!false", `"x"`}))
			prevBodyless = true
		case k < 11:
			add("print", show)
			add("print", show)
		default:
			add("show()", show)
		}
		if chance(r, 0.4) {
			closeRule()
		}
	}
	// aliases into the record: updates through them change the record in place as well
	alias := c09Do(&c09Asg{c09V("b"), c09V("$")})
	add(alias.text(), alias)
	if p := g.genPath(1, 2, 'c'); p != nil {
		st := c09Do(&c09Asg{c09V("a"), p})
		add(st.text(), st)
	}
	if chance(r, 0.5) {
		st := c09Do(&c09Asg{c09V("c"), c09ScalarLit(r)})
		add(st.text(), st)
	}
	observe()
	for n := 2 + r.Intn(5); n > 0 && ok; n-- {
		for m := 1 + r.Intn(2); m > 0 && ok; m-- {
			if p := g.genPath(0, 3, 'a'); p != nil && chance(r, 0.2) {
				// results of array methods stored back into the record
				var st *c09Stmt
				switch r.Intn(4) {
				case 0:
					st = c09Do(&c09Asg{p, &c09Call{p, "sort", nil}})
				case 1:
					st = c09Do(&c09Asg{g.genPath(1, 3, 0), &c09Call{p, "pop", nil}})
				case 2:
					st = c09Do(&c09Call{p, "push", []c09Expr{&c09Call{p, "length", nil}}})
				default:
					st = c09Do(&c09Asg{g.genPath(1, 2, 0), &c09Call{p, "sort", nil}})
				}
				add(st.text(), st)
				continue
			}
			for _, st := range g.genStmt() {
				add(st.text(), st)
			}
		}
		if ok {
			observe()
		}
	}
	closeRule()
	var sb strings.Builder
	for _, f := range funcs {
		sb.WriteString(f.text())
	}
	sb.WriteString("function show() { print }\n")
	if chance(r, 0.4) {
		bf = 1
		sb.WriteString("BEGINFILE { print }\n")
	}
	sb.WriteString(strings.Join(rules, "\n") + "\n")
	if chance(r, 0.5) {
		ef = 1 + r.Intn(2)
		sb.WriteString([]string{"", "ENDFILE { print }\n", "ENDFILE { print; print $ }\n"}[ef])
	}
	return sb.String(), doc, funcs, ideal, bf, ef, nobs
}

// c17RunCurrent: what the program of c17Current must print: BEGINFILE shows the root as
// read, every observation shows the record as it is at that moment, ENDFILE shows the
// root as selected (its containers are shared with the records, so updates in place show).
func c17RunCurrent(funcs []*c09Func, body []*c09Stmt, doc string, bf, ef int) (class, out string, lateStrIdx bool) {
	in := c09NewInterp(funcs...)
	root := &c09Cell{c09Decode(doc)}
	orig := root.v
	for ; bf > 0; bf-- {
		in.out.WriteString(c09Pretty(root.v, false) + "\n")
	}
	cells := []*c09Cell{root}
	if root.v.k == 'a' {
		cells = append([]*c09Cell{}, root.v.a.e...)
	}
	for _, c := range cells {
		in.root = c
		if err := in.execAll(body); err != nil {
			if err == c09ErrUnsupported {
				return "unsupported", "", false
			}
			return "runtime", in.out.String(), in.lateStrIdx > 0
		}
	}
	for ; ef > 0; ef-- {
		in.out.WriteString(c09Pretty(orig, false) + "\n")
	}
	return "ok", in.out.String(), in.lateStrIdx > 0
}

// ---------------------------------------------------------------- print-bookkeeping

type c17BK struct {
	expr   string
	top    string // rendering as a print argument ("" = left to the model)
	nested string // rendering inside a container ("" = left to the model, "!" = not storable)
	pure   bool   // evaluating it twice gives the same
	null   bool   // the value is null: the word null in every position, json() and %v included
}

const c17BKSetup = `a = [1, 2]; o = {k: 1, n: null}; s = "abc"; e = []; n1 = 1`
const c17BKFuncs = "function f(v) { return v }\nfunction g() { return a[9] }\nfunction h(v) { return v[5] }\n"
const c17BKDoc = `{"xs": [1, 2], "o": {"a": {}}, "s": "hello", "n": 5, "z": null}`

func c17BKPool() []c17BK {
	var pool []c17BK
	for _, e := range []string{
		// array elements past the end (variables, the document, literals, computed indices, results of methods)
		"a[9]", "a[2]", "$.xs[2]", "$.xs[7]", "e[0]", "[][0]", "[1][1]", "$.xs[2 + 0]", "a[1 + 8]", "a[a[1]]", "[1, 2, 3].sort()[5]", `"a,b".split(",")[4]`, "$.xs[$.n]",
		// numeric index / member of an unset variable
		"u1[3]", "u2[0]", "u3[1][2]", "u4.k", "u5.k.j", "u6[a[0]]",
		// string index out of range
		"s[7]", "s[3]", `"xyz"[5]`, "$.s[9]", `""[0]`,
		// missing object members, at depth, through scalars and nulls
		"o.zz", "$.o.a.b.c", "$.nope", "$.o.a.zz", "o.k.j", "o.zz.y", `o["no such"]`, `{p: 1}.pluck("q").q`,
		// members that ARE null, the literal
		"o.n", "$.z", "null",
		// chains through a missing element
		"a[9][0]", "s[7][0]", "a[9].k", "$.xs[5].deep.er",
		// handed on by match, functions, assignments, methods
		"match (5) { 5 => a[9] }", "match (1) { 2 => 0 }", "match (a[9]) { q => q }", "match (s[7]) { q => q }", "f(a[9])", "f(s[7])", "f(u1[3])", "g()", "h(a)", "h(s)",
		"[].pop()", "e.pop()", "e.popfirst()", "(y = a[9])", "(y = s[7])", "(y = o.zz)", "(o.fresh = a[9])", "(a[4] = u1[0])",
	} {
		pure := !strings.Contains(e, "pop") && !strings.Contains(e, " = ")
		pool = append(pool, c17BK{expr: e, top: "null", nested: "null", pure: pure, null: true})
	}
	pool = append(pool, []c17BK{
		// string characters
		{"s[0]", "a", `"a"`, true, false}, {"s[1]", "b", `"b"`, true, false}, {"s[2]", "c", `"c"`, true, false}, {`"xyz"[2]`, "z", `"z"`, true, false}, {"$.s[1]", "e", `"e"`, true, false},
		{"s[1][0]", "b", `"b"`, true, false}, {"f(s[1])", "b", `"b"`, true, false}, {"match (s[1]) { q => q }", "b", `"b"`, true, false},
		// negative indices count from the end
		{"a[-1]", "2", "2", true, false}, {"a[-2]", "1", "1", true, false}, {"$.xs[-1]", "2", "2", true, false},
		// method values
		{"a.length", "<nativefunction>", "!", true, false}, {"s.upper", "<nativefunction>", "!", true, false}, {"o.pluck", "<nativefunction>", "!", true, false},
		{"$.xs.push", "<nativefunction>", "!", true, false}, {"(5).floor", "<nativefunction>", "!", true, false}, {"a[0].round", "<nativefunction>", "!", true, false}, {"s[1].upper", "<nativefunction>", "!", true, false},
		// results of assignments and ++ / --
		{"(x = 5)", "5", "5", false, false}, {`(x = "t")`, "t", `"t"`, false, false}, {"n1++", "1", "1", false, false}, {"++n1", "2", "2", false, false}, {"n1--", "1", "1", false, false}, {"--n1", "0", "0", false, false},
		{"(n1 += 4)", "5", "5", false, false}, {"(a[1] += 2)", "4", "4", false, false}, {"(a[5] = 7)", "7", "7", false, false}, {`(o.new = "v")`, "v", `"v"`, false, false}, {"(o.d.e = 1)", "1", "1", false, false},
		{"$.n++", "5", "5", false, false}, {"++$.n", "6", "6", false, false}, {"($.n -= 1)", "4", "4", false, false}, {"(q = [1, 2])", "[1, 2]", "[1, 2]", false, false}, {"a[0]++", "1", "1", false, false}, {"$.xs[1]--", "2", "2", false, false},
		{"(u7[2] = 3)", "3", "3", false, false}, {"u8[1]++", "", "", false, false}, {"++u9.k", "", "", false, false}, {"o.zz++", "", "", false, false},
		// match results, predicates and arithmetic over missing values
		{`match (a[9]) { null => "was-null", q => q }`, "was-null", `"was-null"`, true, false}, {`match (s[1]) { "b" => 1, q => 2 }`, "1", "1", true, false}, {"match (a[0]) { q => q }", "1", "1", true, false},
		{"a.contains(9)", "false", "false", true, false}, {"json(a[9])", "null", `"null"`, true, false}, {"json(s[7])", "null", `"null"`, true, false}, {"a[9] is null", "true", "true", true, false}, {"u1[3] is null", "true", "true", true, false},
		{"s[7] is null", "true", "true", true, false}, {"a[9] + 1", "1", "1", true, false}, {"-a[9]", "-0", "-0", true, false}, {"a[9] == null", "true", "true", true, false}, {"!a[9]", "true", "true", true, false},
		{"a.length()", "2", "2", true, false}, {"s.length()", "3", "3", true, false}, {"a[1]", "2", "2", true, false}, {"o.k", "1", "1", true, false}, {"$.o", `{"a": {}}`, `{"a": {}}`, true, false}, {"$.xs", "[1, 2]", "[1, 2]", true, false},
	}...)
	return pool
}

// c17BKCase emits one program: the setup, then one statement; want == "" leaves the
// expectation to the model; mustNull: whatever else, the output may not lose the word null.
func c17BKCase(emit func(Case), stmt, want string, nulls int, row, col string) {
	prog := c17BKFuncs + "{\n  " + c17BKSetup + "\n  " + stmt + "\n}\n"
	emit(Case{Req: RunReq(prog, nil, vgDocFile(c17BKDoc), false), Fields: c17Fields,
		Meta: metaProg(prog, "input", c17BKDoc, "expect", strconv.Quote(want), "row", row, "col", col),
		Oracle: func(i Resp) string {
			out := string(i.Bytes("out"))
			if want != "" {
				if i["class"] != "ok" || out != want {
					return "expected exactly " + strconv.Quote(want) + ", got class=" + i["class"] + " out=" + strconv.Quote(out)
				}
				return ""
			}
			if i["class"] == "ok" && strings.Count(out, "null") < nulls {
				return fmt.Sprintf("%d null value(s) printed, but the word null appears %d times in %s", nulls, strings.Count(out, "null"), strconv.Quote(out))
			}
			return ""
		},
		NonTrivial: func(i Resp) bool { return i["class"] == "ok" || i["class"] == "runtime" }})
}

func init() {
	register(Family{
		Name: "print-current-record", Prop: "C17",
		Rule: "the same record printed 3-8 times by bare print, print $, both (either order), bare print twice, body-less rules (true, 1, !false, \"x\") and a function that prints, in one or several rules, with 1-2 in-place updates between the prints: statements chosen with the state in view (member / index assignment at depth 0-4 with auto-creation, compound assignment, ++ --, push / pop / popfirst, results of sort / pop / length stored back into the record, writes through the aliases a = $.path and b = $, through parameters, for-in variables and match bindings, `$ = ...`); object roots and arrays of 1-3 records; 40 % also print the root in BEGINFILE and 50 % in ENDFILE (bare print, print $) after the records were updated; oracle: the ideal interpreter of C09 with every observation read as `print $` (a bare print / body-less rule prints the value $ has at that moment); compared with the model on class and out",
		Gen: func(r *rand.Rand, tier string, emit func(Case)) {
			n := tierN(tier, 3000, 40000)
			for i := 0; i < n; i++ {
				prog, doc, funcs, ideal, bf, ef, nobs := c17Current(r)
				class, out, late := c17RunCurrent(funcs, ideal, doc, bf, ef)
				c := Case{Req: RunReq(prog, nil, vgDocFile(doc), false), Fields: c17Fields,
					Meta:       metaProg(prog, "input", doc, "observations", strconv.Itoa(nobs), "ideal_class", class),
					NonTrivial: func(i Resp) bool { return i["class"] == "ok" || i["class"] == "runtime" }}
				if class != "unsupported" {
					if late {
						c.ImplOnly = true // fam_c09.go c09Interp.lateStrIdx: a known inaccuracy of the model; the ideal interpreter decides
						c.Meta["model"] = "not asked: store through a string index whose base became a container"
					}
					want := out
					c.Oracle = func(i Resp) string {
						if i["class"] != class {
							return fmt.Sprintf("ideal interpreter: class %s expected, implementation says %s (msg %s)", class, i["class"], i["msg"])
						}
						if got := string(i.Bytes("out")); got != want {
							return "a bare print / body-less rule / print $ did not print the value $ has at that moment: " + c09FirstDiff(got, want)
						}
						return ""
					}
				}
				emit(c)
			}
		},
	})

	register(Family{
		Name: "print-bookkeeping", Prop: "C17",
		Rule: "print applied DIRECTLY to expression results that carry internal bookkeeping: 60 expressions yielding null (array elements past the end of variables / document arrays / literals / method results with constant and computed indices, numeric index and member of an unset variable, string index out of range, missing object members at any depth and through scalars, members that are null, chains through a missing element, the same handed on by match / functions / assignments / pop of an empty array), string characters, negative indices, method values, results of assignments and ++ / -- (variables, elements, members, document paths, auto-created targets), match results, predicates and arithmetic over missing values; each alone, between two other arguments, twice in one print, inside an array / object literal, through printf %v, through json(), after assignment to a variable and as a function argument (systematic: every expression x every position), plus random print lists of 2-6 of the pure ones; oracle: exact text where the property fixes it (null is the word null in EVERY position, arguments joined by one space, strings bare at the top and quoted inside containers), otherwise the word null appears once per null value; compared with the model on class and out",
		Gen: func(r *rand.Rand, tier string, emit func(Case)) {
			pool := c17BKPool()
			for _, e := range pool {
				row := "value"
				if e.null {
					row = "null"
				} else if e.nested == "!" {
					row = "method"
				} else if !e.pure {
					row = "side-effect"
				}
				w := func(s string) string {
					if e.top == "" {
						return ""
					}
					return s
				}
				c17BKCase(emit, "print "+e.expr, w(e.top+"\n"), 0, row, "alone")
				c17BKCase(emit, `print "<", `+e.expr+`, ">"`, w("< "+e.top+" >\n"), 0, row, "in-list")
				c17BKCase(emit, "print "+e.expr+", 2", w(e.top+" 2\n"), 0, row, "first-of-two")
				if e.nested != "!" {
					c17BKCase(emit, "v = "+e.expr+"\n  print v", w(e.top+"\n"), 0, row, "via-variable")
				} else {
					c17BKCase(emit, "v = "+e.expr+"\n  print v", "", 0, row, "via-variable") // a method value cannot be stored: left to the model
				}
				if e.pure {
					c17BKCase(emit, "print "+e.expr+", "+e.expr, w(e.top+" "+e.top+"\n"), 0, row, "twice")
					c17BKCase(emit, "print "+e.expr+"\n  print "+e.expr, w(e.top+"\n"+e.top+"\n"), 0, row, "two-prints")
				}
				if e.nested != "!" {
					wn := func(s string) string {
						if e.nested == "" {
							return ""
						}
						return s
					}
					c17BKCase(emit, "print ["+e.expr+"]", wn("["+e.nested+"]\n"), 0, row, "array-literal")
					c17BKCase(emit, "print {k: "+e.expr+"}", wn(`{"k": `+e.nested+"}\n"), 0, row, "object-literal")
					c17BKCase(emit, "print [0, ["+e.expr+`], "s"], `+e.expr, "", 0, row, "nested-and-direct")
				}
				nulls := 0
				want := ""
				if e.null {
					nulls, want = 1, "null|\n"
				}
				c17BKCase(emit, `printf("%v|\n", `+e.expr+")", want, nulls, row, "printf-%v")
				if e.null {
					want = "null\n"
				}
				c17BKCase(emit, "print json("+e.expr+")", want, nulls, row, "json()")
				if e.nested != "!" {
					c17BKCase(emit, "print f("+e.expr+")", w(e.top+"\n"), 0, row, "function-argument")
				}
			}
			var pure, pureNull []c17BK
			for _, e := range pool {
				if e.pure && e.top != "" {
					pure = append(pure, e)
					if e.null {
						pureNull = append(pureNull, e)
					}
				}
			}
			n := tierN(tier, 1500, 20000)
			for i := 0; i < n; i++ {
				k := 2 + r.Intn(5)
				exprs, tops := make([]string, k), make([]string, k)
				for j := range exprs {
					e := pick(r, pure)
					if chance(r, 0.6) {
						e = pick(r, pureNull) // mostly the null-valued ones
					}
					exprs[j], tops[j] = e.expr, e.top
					if chance(r, 0.15) && e.nested != "!" {
						exprs[j], tops[j] = "["+e.expr+"]", "["+e.nested+"]"
					}
				}
				c17BKCase(emit, "print "+strings.Join(exprs, ", "), strings.Join(tops, " ")+"\n", 0, "list", fmt.Sprintf("%d-arguments", k))
			}
		},
	})
}

// ---------------------------------------------------------------- writers inside a print list

// print-nested-writers: a print (or printf) whose argument list calls functions that themselves
// print (1-3 levels deep, 1-5 arguments on each level), executed again and again -- over several
// records, in loops, after prints of other widths. Every print writes ITS OWN arguments: the
// lines of the inner prints come first (the arguments are evaluated before anything of the
// outer line is written), then the outer line with the values the calls returned. The
// reference below runs the same little program on integers.

// c17WArg is one argument of a print inside a writer function (or of the top statement)
type c17WArg struct {
	kind int    // 0 literal text, 1 parameter + c, 2 call of function fn with (parameter + c)
	lit  string // kind 0: the jqawk expression and its rendering
	show string
	c    int
	fn   int
}

type c17WFn struct {
	id     int
	printf bool // writes its line with printf instead of print
	args   []c17WArg
	second []c17WArg // an optional second print (no calls) after the first
}

func (f *c17WFn) ret(x int) int { return 2*x + f.id }

func c17WArgs(r *rand.Rand, n int, deeper []int, callProb float64) []c17WArg {
	lits := [][2]string{{"'t'", "t"}, {"\"two words\"", "two words"}, {"7", "7"}, {"null", "null"}, {"true", "true"}, {"[1, 2]", "[1, 2]"}, {"''", ""}, {"{k: 'v'}", `{"k": "v"}`}}
	args := make([]c17WArg, n)
	for i := range args {
		switch {
		case len(deeper) > 0 && chance(r, callProb):
			args[i] = c17WArg{kind: 2, fn: pick(r, deeper), c: r.Intn(4)}
		case chance(r, 0.5):
			args[i] = c17WArg{kind: 1, c: r.Intn(10)}
		default:
			l := pick(r, lits)
			args[i] = c17WArg{kind: 0, lit: l[0], show: l[1]}
		}
	}
	return args
}

func c17WExprs(args []c17WArg, param string) []string {
	out := make([]string, len(args))
	for i, a := range args {
		arg := param
		if a.c != 0 {
			arg = fmt.Sprintf("%s + %d", param, a.c)
		}
		switch a.kind {
		case 0:
			out[i] = a.lit
		case 1:
			out[i] = arg
			if a.c != 0 {
				out[i] = "(" + arg + ")"
			}
		default:
			out[i] = fmt.Sprintf("w%d(%s)", a.fn, arg)
		}
	}
	return out
}

// c17WLine writes what a print / printf statement with these arguments writes, after running the calls
func c17WLine(fns []*c17WFn, args []c17WArg, x int, printf bool, out *strings.Builder) {
	parts := make([]string, len(args))
	for i, a := range args {
		switch a.kind {
		case 0:
			parts[i] = a.show
		case 1:
			parts[i] = strconv.Itoa(x + a.c)
		default:
			parts[i] = strconv.Itoa(c17WRun(fns, fns[a.fn], x+a.c, out))
		}
	}
	if printf {
		out.WriteString("<" + strings.Join(parts, "|") + ">\n")
	} else {
		out.WriteString(strings.Join(parts, " ") + "\n")
	}
}

func c17WRun(fns []*c17WFn, f *c17WFn, x int, out *strings.Builder) int {
	c17WLine(fns, f.args, x, f.printf, out)
	if f.second != nil {
		c17WLine(fns, f.second, x, false, out)
	}
	return f.ret(x)
}

func c17WStmt(args []c17WArg, param string, printf bool) string {
	ex := c17WExprs(args, param)
	if printf {
		vs := make([]string, len(ex))
		for i := range vs {
			vs[i] = "%v"
		}
		return "printf('<" + strings.Join(vs, "|") + ">\\n', " + strings.Join(ex, ", ") + ")"
	}
	return "print " + strings.Join(ex, ", ")
}

func c17GenNestedWriters(r *rand.Rand, tier string, emit func(Case)) {
	one := func(levels int, forceTop int, row string) {
		// functions w0.. : level 1 functions may call level 2, those level 3
		var fns []*c17WFn
		byLevel := make([][]int, levels+1)
		for lv := levels; lv >= 1; lv-- {
			for k := 1 + r.Intn(2); k > 0; k-- {
				byLevel[lv] = append(byLevel[lv], -1)
			}
		}
		id := 0
		for lv := 1; lv <= levels; lv++ {
			for k := range byLevel[lv] {
				byLevel[lv][k] = id
				id++
			}
		}
		fns = make([]*c17WFn, id)
		for lv := levels; lv >= 1; lv-- {
			for _, fid := range byLevel[lv] {
				var deeper []int
				if lv < levels {
					deeper = byLevel[lv+1]
				}
				f := &c17WFn{id: fid, printf: chance(r, 0.2), args: c17WArgs(r, 1+r.Intn(5), deeper, 0.4)}
				if lv < levels {
					// make sure the chain really goes down
					has := false
					for _, a := range f.args {
						has = has || a.kind == 2
					}
					if !has {
						f.args[r.Intn(len(f.args))] = c17WArg{kind: 2, fn: pick(r, deeper), c: r.Intn(3)}
					}
				}
				if chance(r, 0.2) {
					f.second = c17WArgs(r, 1+r.Intn(3), nil, 0)
				}
				fns[fid] = f
			}
		}
		var sb strings.Builder
		for _, f := range fns {
			p := fmt.Sprintf("p%d", f.id)
			sb.WriteString(fmt.Sprintf("function w%d(%s) {\n  %s\n", f.id, p, c17WStmt(f.args, p, f.printf)))
			if f.second != nil {
				sb.WriteString("  " + c17WStmt(f.second, p, false) + "\n")
			}
			sb.WriteString(fmt.Sprintf("  return 2 * %s + %d\n}\n", p, f.id))
		}
		// the statements under test: 1-3 print / printf statements whose lists call level-1 functions
		type top struct {
			args   []c17WArg
			printf bool
		}
		var tops []top
		for k := 1 + r.Intn(3); k > 0; k-- {
			n := 1 + r.Intn(5)
			if forceTop > 0 {
				n = forceTop
			}
			t := top{args: c17WArgs(r, n, byLevel[1], 0.45), printf: chance(r, 0.2)}
			if k == 1 {
				has := false
				for _, a := range t.args {
					has = has || a.kind == 2
				}
				if !has {
					t.args[r.Intn(len(t.args))] = c17WArg{kind: 2, fn: pick(r, byLevel[1]), c: r.Intn(3)}
				}
			}
			tops = append(tops, t)
		}
		if chance(r, 0.3) {
			// a wide print without calls first: whatever is kept between prints has seen five arguments
			tops = append([]top{{args: c17WArgs(r, 5, nil, 0)}}, tops...)
		}
		nrec := 2 + r.Intn(4)
		vals := make([]int, nrec)
		docs := make([]string, nrec)
		for i := range vals {
			vals[i] = r.Intn(50)
			docs[i] = fmt.Sprintf(`{"a": %d}`, vals[i])
		}
		doc := "[" + strings.Join(docs, ", ") + "]"
		var want strings.Builder
		runTops := func(x int) {
			for _, t := range tops {
				c17WLine(fns, t.args, x, t.printf, &want)
			}
		}
		body := func(param string) string {
			var b strings.Builder
			for _, t := range tops {
				b.WriteString("  " + c17WStmt(t.args, param, t.printf) + "\n")
			}
			return b.String()
		}
		where := pick(r, []string{"rule", "rule", "rule", "loop in BEGIN", "loop in a rule", "for-in in END", "function called per record", "while loop"})
		switch where {
		case "rule":
			sb.WriteString("{\n" + body("$.a") + "}\n")
			for _, v := range vals {
				runTops(v)
			}
		case "loop in BEGIN":
			n := 2 + r.Intn(4)
			sb.WriteString(fmt.Sprintf("BEGIN {\n for (i = 0; i < %d; i++) {\n%s }\n}\n", n, body("i")))
			for i := 0; i < n; i++ {
				runTops(i)
			}
		case "loop in a rule":
			sb.WriteString("{\n for (i = 0; i < 2; i++) {\n" + body("($.a + i)") + " }\n}\n")
			for _, v := range vals {
				runTops(v)
				runTops(v + 1)
			}
		case "for-in in END":
			sb.WriteString("{ seen[$index] = $.a }\nEND {\n for (e in seen) {\n" + body("e") + " }\n}\n")
			for _, v := range vals {
				runTops(v)
			}
		case "function called per record":
			sb.WriteString("function each(q) {\n" + body("q") + "  return q\n}\n{ print 'rec', each($.a), $index }\n")
			for i, v := range vals {
				runTops(v)
				want.WriteString(fmt.Sprintf("rec %d %d\n", v, i))
			}
		case "while loop":
			sb.WriteString("{\n k = 0\n while (k < 3) {\n" + body("($.a * k)") + "  k++\n }\n}\n")
			for _, v := range vals {
				for k := 0; k < 3; k++ {
					runTops(v * k)
				}
			}
		}
		prog, wantOut := sb.String(), want.String()
		emit(Case{Req: RunReq(prog, nil, []File{{Name: "in.json", Data: []byte(doc)}}, false), Fields: c17Fields,
			Meta: metaProg(prog, "input", doc, "where", where, "row", row, "col", where),
			Oracle: func(i Resp) string {
				if i["class"] != "ok" {
					return "class=" + i["class"] + " msg=" + i["msg"] + " (the program cannot fail)"
				}
				got := string(i.Bytes("out"))
				if got == wantOut {
					return ""
				}
				gl, wl := strings.Split(got, "\n"), strings.Split(wantOut, "\n")
				for k := 0; k < len(gl) && k < len(wl); k++ {
					if gl[k] != wl[k] {
						return fmt.Sprintf("line %d: a print wrote %q, its own arguments render as %q (lines of inner prints come first, then the outer line)", k+1, short(gl[k]), short(wl[k]))
					}
				}
				return fmt.Sprintf("%d lines written, %d expected", len(gl)-1, len(wl)-1)
			}, NonTrivial: func(i Resp) bool { return i["class"] == "ok" }})
	}
	// every depth x every width of the outer list, then random
	for levels := 1; levels <= 3; levels++ {
		for width := 1; width <= 5; width++ {
			for k := tierN(tier, 6, 40); k > 0; k-- {
				one(levels, width, fmt.Sprintf("%d levels, outer list of %d", levels, width))
			}
		}
	}
	n := tierN(tier, 1500, 25000)
	for i := 0; i < n; i++ {
		levels := 1 + r.Intn(3)
		one(levels, 0, fmt.Sprintf("%d levels, random", levels))
	}
}

func init() {
	register(Family{
		Name: "print-nested-writers", Prop: "C17",
		Rule: "print and printf statements whose argument lists (1-5 arguments: literals of every kind, the parameter plus a constant, calls) call functions that themselves print / printf 1-5 arguments and call the next level (1-3 levels, 1-2 functions per level, sometimes a second print in the function), 1-3 such statements in a row (sometimes after a five-argument print without calls), executed repeatedly: in a rule over 2-5 records, in for / while / for-in loops in BEGIN, rules and END, in a function called from another print list per record; every depth x every width of the outer list, plus random; oracle (closed form): a reference run of the same program on integers -- the inner prints' lines first, then the outer line holding exactly its own arguments' renderings joined by one space; model comparison on class,out",
		Gen:  c17GenNestedWriters,
	})
}

// ---------------------------------------------------------------- print-deep-values
//
// Every value is rendered in full however deep it is nested: a program can wrap a value
// more often than any JSON document may be nested (encoding/json stops at 10 000), and
// such a value is no cycle. The values are built by a loop (a = [a], a = {k: a},
// a = {k: [a]}, t = []; t.push(a); a = t, a = [1, a, 2]) 5 000 / 9 999 / 10 000 / 10 001 /
// 10 050 / 20 000 times around a scalar, an empty container, or a container that really
// holds itself; the expected text is the closed form (no marker unless the innermost
// value is the real cycle, and then exactly there).

type c17Wrap struct {
	name        string
	step        string // one wrapping step, a is the value
	open, close string // what one step adds to the rendering
	per         int    // containers per step
}

var c17Wraps = []c17Wrap{
	{"arrays", "a = [a]", "[", "]", 1},
	{"objects", "a = {k: a}", `{"k": `, "}", 1},
	{"object holding an array", "a = {k: [a]}", `{"k": [`, "]}", 2},
	{"array holding an object", "a = [{v: a}]", `[{"v": `, "}]", 2},
	{"pushed", "t = []; t.push(a); a = t", "[", "]", 1},
	{"member store", "t = {}; t.inner = a; a = t", `{"inner": `, "}", 1},
	{"array with neighbours", "a = [1, a, 'z']", "[1, ", `, "z"]`, 1},
	{"object with neighbours", "a = {a: null, m: a, z: []}", `{"a": null, "m": `, `, "z": []}`, 1},
}

type c17Core struct{ name, init, inner, top string } // inner: rendering inside a container; top: as a print argument of its own

var c17Cores = []c17Core{
	{"number", "a = 7", "7", "7"},
	{"string", "a = 'x'", `"x"`, "x"},
	{"empty array", "a = []", "[]", "[]"},
	{"empty object", "a = {}", "{}", "{}"},
	{"real cycle (array)", "a = [0]; a.push(a)", "[0, <circular reference>]", "[0, <circular reference>]"},
	{"real cycle (object)", "a = {}; a.me = a", `{"me": <circular reference>}`, `{"me": <circular reference>}`},
	{"real cycle of two", "b = {}; a = [b]; b.up = a", `[{"up": <circular reference>}]`, `[{"up": <circular reference>}]`},
}

func c17DeepCase(w c17Wrap, core c17Core, depth int, stmt int, askModel bool) Case {
	steps := depth / w.per
	rendering := core.top
	if steps > 0 {
		rendering = strings.Repeat(w.open, steps) + core.inner + strings.Repeat(w.close, steps)
	}
	var out, want string
	switch stmt {
	case 0:
		out, want = "print a", rendering+"\n"
	case 1:
		out, want = "printf('%v|', a)", rendering+"|"
	case 2:
		out, want = "print 'v', a, a.length()", "v "+rendering+" "+map[bool]string{true: "1", false: "3"}[!strings.Contains(w.name, "neighbours")]+"\n"
	default:
		out, want = "printf('%-3v|%s', a, 'e')", rendering+"|e"
	}
	prog := fmt.Sprintf("BEGIN { %s; for (i = 0; i < %d; i++) { %s }\n %s }", core.init, steps, w.step, out)
	markers := strings.Count(core.inner, "<circular reference>")
	return Case{Req: RunReq(prog, nil, nil, false), Fields: c17Fields, ImplOnly: !askModel,
		Meta: metaProg(prog, "row", fmt.Sprintf("%s around %s", w.name, core.name), "col", fmt.Sprint(depth), "expect_len", fmt.Sprint(len(want))),
		Oracle: func(i Resp) string {
			if i["class"] != "ok" {
				return "class=" + i["class"] + " msg=" + i["msg"] + " (rendering a value cannot fail)"
			}
			got := string(i.Bytes("out"))
			if got == want {
				return ""
			}
			if n := strings.Count(got, "<circular reference>"); n != markers {
				return fmt.Sprintf("a value nested %d deep (%s around %s) holds %d container(s) that reach themselves, the rendering shows %d cycle marker(s); %d bytes instead of %d", depth, w.name, core.name, markers, n, len(got), len(want))
			}
			return fmt.Sprintf("a value nested %d deep (%s around %s) is not rendered in full: %d bytes instead of %d; got %s … %s", depth, w.name, core.name, len(got), len(want), short(got), short(got[len(got)/2:]))
		}}
}

func init() {
	register(Family{
		Name: "print-deep-values", Prop: "C17",
		Rule: "program-built values nested 5 000 / 9 999 / 10 000 / 10 001 / 10 050 / 20 000 containers deep (beyond what any JSON input can be): 8 ways of wrapping (a = [a], {k: a}, {k: [a]}, [{v: a}], push into a fresh array, member store into a fresh object, arrays / objects with neighbours before and after) around a number, a string, an empty array / object, and containers that really hold themselves (array, object, ring of two); written by print, printf %v, print between other arguments, printf %-3v; oracle: the closed-form text -- every level rendered, no <circular reference> unless the innermost value is the real cycle and then exactly there; the model answers the array-shaped cases up to 10 050 deep (quick: 9 999 / 10 000 / 10 001 / 10 050 of a = [a] and of the pushed form; thorough: every depth up to 10 050 of both, and 10 001 of the two object/array mixtures -- nested objects this deep take the model seconds), the rest is implementation-only with the closed form; non-trivial = every case",
		Gen: func(r *rand.Rand, tier string, emit func(Case)) {
			nc := len(c17Cores)
			// the model renders arrays quickly; nested objects cost it much more (quadratic key handling)
			cheap := func(wi int) bool { return c17Wraps[wi].name == "arrays" || c17Wraps[wi].name == "pushed" }
			if tier == "thorough" {
				for wi, w := range c17Wraps {
					for ci, core := range c17Cores {
						for di, depth := range []int{5000, 9999, 10000, 10001, 10050, 20000} {
							if depth == 20000 && strings.Contains(w.name, "neighbours") {
								continue // seconds per case in the implementation (the text is copied once per level)
							}
							ask := depth <= 10050 && (cheap(wi) || (depth == 10001 && ci == 0 && w.per == 2))
							emit(c17DeepCase(w, core, depth, (wi+ci+di)%4, ask))
						}
					}
				}
				return
			}
			// the boundary, on the plain shapes
			for wi := 0; wi < 4; wi++ {
				for di, depth := range []int{9999, 10000, 10001} {
					ask := cheap(wi) // nested objects this deep take the model seconds: thorough tier only
					emit(c17DeepCase(c17Wraps[wi], c17Cores[(wi+di)%2], depth, (wi+di)%2, ask))
				}
			}
			// beyond it: every way of wrapping, every innermost value
			for wi, w := range c17Wraps {
				emit(c17DeepCase(w, c17Cores[wi%nc], 10050, wi%4, cheap(wi)))
				if wi%2 == 0 {
					emit(c17DeepCase(w, c17Cores[(wi+3)%nc], 5000, (wi+1)%4, false))
				}
			}
			for ci, core := range c17Cores {
				emit(c17DeepCase(c17Wraps[0], core, 10050, (ci+1)%4, ci == 0 || ci == 4))
				emit(c17DeepCase(c17Wraps[1+ci%3], core, 10001, ci%4, false))
			}
			for k, wi := range []int{0, 1, 4} {
				emit(c17DeepCase(c17Wraps[wi], c17Cores[[]int{0, 4, 1}[k]], 20000, k%2, false))
			}
		},
	})
}
