package main

// C10 — output is a deterministic function of program, selectors and input bytes.
//
// (a) object-order: programs that print / iterate / pluck / serialise objects
//     with 2-40 keys; the same request is issued five times as one Group
//     (class, out, json must agree) and compared with the model (sorted keys).
// (b) history independence: the run under test is executed after deliberately
//     "poisoning" runs in the SAME worker process (request kind seq), and, on a
//     sample, once more in a brand-new process (Case.Fresh); all answers for one
//     test program must agree (Group) and agree with the model, which only sees
//     the run under test (Case.ModelReq).
// (b') shared-arguments: the same, with the SAME selector slice / file list objects handed to the
//     consecutive runs of a `seq` request (impl.go seqShared): a run must not modify its arguments.
// (b") o-file-history: the real binary run two or three times with -o onto the same path; the last
//     run must leave what it leaves on a fresh path.
// (c) raw-byte-keys: objects whose keys are NOT valid UTF-8 (string literals of the
//     program text are taken byte for byte: bytes 0x80-0xFF, overlong forms, lone
//     continuation bytes, truncated sequences, surrogates, U+FFFD itself), in
//     clusters of keys that are equal up to such bytes, mixed with ASCII and valid
//     multi-byte keys; oracle: the keys come out in bytewise order.

import (
	"fmt"
	"math/rand"
	"os"
	"sort"
	"strconv"
	"strings"
)

var c10Fields = []string{"class", "out", "json"}

var c10KeyPool = []string{
	"a", "b", "c", "d", "e", "f", "g", "h", "aa", "ab", "abc", "b1", "b10", "b2", "B", "A", "Z", "z", "zz", "_", "_a",
	"0", "1", "2", "9", "10", "11", "100", "-1", "1.5", "name", "id", "key", "value", "length", "pluck", "push", "x y", " ", "", "é", "日本", "ß", "~", "!", "#", "a.b", "a-b", "a_b",
	"k0", "k1", "k2", "k3", "k4", "k5", "k6", "k7", "k8", "k9", "K", "kk", "longer key with spaces", "UPPER", "lower", "MiXed", "true", "null",
}

type c10KV struct {
	key  string
	lit  string // jqawk expression
	json string // JSON text
}

func c10Object(r *rand.Rand) []c10KV {
	n := 2 + r.Intn(8)
	if chance(r, 0.3) {
		n = 10 + r.Intn(31)
	}
	perm := r.Perm(len(c10KeyPool))
	kvs := make([]c10KV, 0, n)
	for i := 0; i < n && i < len(perm); i++ {
		k := c10KeyPool[perm[i]]
		var lit, js string
		switch r.Intn(8) {
		case 0:
			lit, js = "null", "null"
		case 1:
			lit, js = "true", "true"
		case 2, 3:
			s := pick(r, []string{"v", "x y", "", "é", "10"}) + fmt.Sprint(i)
			lit, js = mustStrLit(s), jsonString(s)
		case 4:
			// a nested object with several keys of its own
			lit, js = "{q: 1, b: [2], A: {z: 1, y: 2}, '1': 0}", `{"q": 1, "b": [2], "A": {"z": 1, "y": 2}, "1": 0}`
		case 5:
			lit, js = "[1, {y: 1, x: 2}]", `[1, {"y": 1, "x": 2}]`
		default:
			f := float64(r.Intn(2000)) / 4
			lit, js = numLit(f), numLit(f)
		}
		kvs = append(kvs, c10KV{k, lit, js})
	}
	return kvs
}

// c10Observers: what is done with the object held in variable o.
var c10Observers = []string{
	"for (k in o) print k",
	"for (k, v in o) print k, v",
	"print o",
	"print json(o)",
	"printf('%v|%s\\n', o, 'end')",
	"print [o, o], {w: o}",
	"s = ''; for (k in o) s = s + k + ','; print s",
	"n = 0; for (k in o) { n++; if (n == 2) continue; if (n > 4) break; print n, k }",
	"for (k, v in o) { if (v is object) { for (k2, v2 in v) print k, k2, v2 } }",
	"first = ''; for (k in o) { first = k; break }\nprint first, o.length()",
	"t = {}; for (k, v in o) { t[k + '!'] = v }\nprint t; print json(t)",
	"a = []; for (k in o) a.push(k); print a, a.length()",
	"function show(x) { for (k in x) print k; return x }\nprint show(o).length()",
}

// c10Build returns program text that leaves the object in variable o (in BEGIN),
// or a document plus a pattern rule prefix.
func c10Build(r *rand.Rand, kvs []c10KV) (prefix string, files []File, how string) {
	switch r.Intn(4) {
	case 0:
		parts := make([]string, len(kvs))
		for i, kv := range kvs {
			parts[i] = mustStrLit(kv.key) + ": " + kv.lit
		}
		return "BEGIN { o = {" + strings.Join(parts, ", ") + "}; ", nil, "literal"
	case 1:
		var sb strings.Builder
		sb.WriteString("BEGIN { o = {}; ")
		for _, kv := range kvs {
			sb.WriteString("o[" + mustStrLit(kv.key) + "] = " + kv.lit + "; ")
		}
		return sb.String(), nil, "assignments"
	case 2:
		// auto-created from an unset variable, some keys assigned twice, some removed by overwrite
		var sb strings.Builder
		sb.WriteString("BEGIN { ")
		for i, kv := range kvs {
			if i > 0 && chance(r, 0.2) {
				sb.WriteString("o[" + mustStrLit(kvs[r.Intn(i)].key) + "] = " + kv.lit + "; ")
			}
			sb.WriteString("o[" + mustStrLit(kv.key) + "] = " + kv.lit + "; ")
		}
		return sb.String(), nil, "auto-created"
	default:
		parts := make([]string, len(kvs))
		for i, kv := range kvs {
			parts[i] = jsonString(kv.key) + ": " + kv.json
		}
		doc := "{" + strings.Join(parts, ", ") + "}"
		return "{ o = $; ", []File{{Name: "in.json", Data: []byte(doc)}}, "document"
	}
}

// ---- keys that are not valid UTF-8

// byte sequences that are not valid UTF-8 (each decodes to one or more U+FFFD, width 1,
// in a rune-wise reading), and a few valid ones that sit next to them in byte order
var c10BadUnits = []string{
	"\x80", "\x81", "\xa0", "\xbf", // lone continuation bytes
	"\xc0", "\xc1", "\xc2", "\xc3", "\xdf", "\xe0", "\xe9", "\xe8", "\xef", "\xf0", "\xf4", // lead bytes with nothing after them
	"\xf5", "\xf8", "\xfc", "\xfd", "\xfe", "\xff", // bytes that never occur in UTF-8
	"\xc0\x80", "\xc0\xaf", "\xc1\xbf", "\xe0\x80\x80", "\xe0\x9f\xbf", "\xf0\x80\x80\x80", "\xf0\x8f\xbf\xbf", // overlong forms
	"\xe6\x97", "\xe6", "\xf0\x9f\x98", "\xf0\x9f", "\xc3\x28", "\xe2\x82", // truncated sequences
	"\xed\xa0\x80", "\xed\xbf\xbf", "\xf4\x90\x80\x80", "\xf7\xbf\xbf\xbf", // surrogates, beyond U+10FFFF
	"\x80\x80", "\xbf\x80", "\xff\xff", "\xfe\xff", "\xff\xfe", "\xef\xbf", "\xef\xbb", // pairs
}

var c10NearUnits = []string{
	"\xef\xbf\xbd", // U+FFFD itself: what every invalid byte reads as
	"\xef\xbf\xbe", "\xef\xbf\xbc", "\xef\xbf\xbd\xef\xbf\xbd", "\xc3\xa9", "\xc3\xa8", "\xe6\x97\xa5", "\xf0\x9f\x98\x80", "\xc2\x80", "\xdf\xbf", "\xf4\x8f\xbf\xbf", "~", "\x7f", "",
}

// c10RawKeys: n distinct keys: clusters of keys that share stem and tail and differ only in
// an invalid byte sequence (or U+FFFD / a valid neighbour), topped up with ordinary keys.
func c10RawKeys(r *rand.Rand, n int) []string {
	seen := map[string]bool{}
	var keys []string
	add := func(k string) {
		if !seen[k] && len(keys) < n && !strings.ContainsAny(k, "\n\"'") {
			seen[k] = true
			keys = append(keys, k)
		}
	}
	nord := 0
	if chance(r, 0.6) {
		nord = r.Intn(n/2 + 1)
	}
	for tries := 0; len(keys) < n-nord && tries < 200; tries++ {
		stem := pick(r, []string{"", "", "a", "caf", "k", "\xc3\xa9", "\xe6\x97\xa5", "z", "\xff", "ab"})
		tail := pick(r, []string{"", "", "", "x", "0", "\xc3\xa9", "\xff", " z"})
		sz := 2 + r.Intn(5)
		for j := 0; j < sz; j++ {
			u := pick(r, c10BadUnits)
			switch r.Intn(8) {
			case 0:
				u = pick(r, c10NearUnits)
			case 1:
				u = string([]byte{byte(0x80 + r.Intn(0x80))})
			case 2:
				u = string([]byte{byte(0x80 + r.Intn(0x80)), byte(0x80 + r.Intn(0x80))})
			case 3:
				u = pick(r, c10BadUnits) + pick(r, c10BadUnits)
			}
			add(stem + u + tail)
		}
	}
	// other keys that a comparator cleverer than the bytewise one could confuse: equal up to
	// case, up to a long common prefix, up to numeric value, up to Unicode normalisation, up
	// to trailing blanks or NULs
	if nord > 0 && chance(r, 0.6) {
		cl := pick(r, c10TieClusters)
		if cl == nil {
			pre := strings.Repeat(pick(r, []string{"p", "\xc3\xa9", "\xff"}), pick(r, []int{7, 8, 15, 16, 31, 32, 63, 64, 255, 256}))
			cl = []string{pre, pre + "a", pre + "b", pre + "\xff", pre + "\xfe", pre + "ab"}
		}
		for _, j := range r.Perm(len(cl)) {
			add(cl[j])
		}
	}
	for tries := 0; len(keys) < n && tries < 200; tries++ {
		add(pick(r, c10KeyPool))
	}
	r.Shuffle(len(keys), func(a, b int) { keys[a], keys[b] = keys[b], keys[a] })
	return keys
}

var c10TieClusters = [][]string{
	nil, nil, // a long common prefix (built on the spot)
	{"key", "Key", "KEY", "kEY", "keY"},
	{"\xc3\xa9", "\xc3\x89", "e\xcc\x81", "E\xcc\x81", "e"}, // é É e+combining acute
	{"1", "1.0", "01", "1e0", "+1", "1.", " 1"},
	{"10", "9", "1e1", "010", "10.0", "0x0a"},
	{"a", "a ", "a  ", "a\x00", "a\x00\x00", " a"},
	{"\xef\xbc\xa1", "A", "\xef\xbd\x81", "a", "\xc3\x84", "\xc3\xa4"}, // fullwidth A/a, Ä/ä
	{"ss", "\xc3\x9f", "SS", "s", "\xc5\xbf"},                          // ß, long s
	{"", " ", "\x00", "\x00\x00", "\xc2\xa0", "\xe2\x80\x8b"},          // empty, blank, NUL, NBSP, zero-width space
}

func c10ValidUTF8Key(k string) bool {
	for _, c := range k {
		if c == 0xfffd {
			return false // an invalid byte, or U+FFFD itself: keep it out of documents
		}
	}
	return true
}

// c10RawBuild: program text up to (not including) the observer that leaves an object with
// exactly these keys in variable o, and the input document if one is used.
func c10RawBuild(r *rand.Rand, keys []string) (prefix string, files []File, how string, wantJSON bool) {
	val := func(i int) string {
		switch r.Intn(7) {
		case 0:
			return mustStrLit("v" + fmt.Sprint(i))
		case 1:
			return mustStrLit("caf\xe9" + fmt.Sprint(i)) // a value that is not valid UTF-8 either
		case 2:
			// a nested object whose own keys tie in a rune-wise comparison
			return "{\"\xff\": 1, \"\xfe\": 2, \"\xfd\": [3], \"\xef\xbf\xbd\": 4, a: 5}"
		case 3:
			return "[{\"\x80\": 1, \"\xbf\": 2, \"\xc0\": 3}]"
		default:
			return fmt.Sprint(i)
		}
	}
	var sb strings.Builder
	switch r.Intn(5) {
	case 0:
		parts := make([]string, len(keys))
		for i, k := range keys {
			parts[i] = mustStrLit(k) + ": " + val(i)
		}
		return "BEGIN { o = {" + strings.Join(parts, ", ") + "}; ", nil, "literal", false
	case 1:
		sb.WriteString("BEGIN { o = {}; ")
		for i, k := range keys {
			sb.WriteString("o[" + mustStrLit(k) + "] = " + val(i) + "; ")
		}
		return sb.String(), nil, "assignments", false
	case 2:
		sb.WriteString("BEGIN { ")
		for i, k := range keys {
			if i > 0 && chance(r, 0.25) {
				sb.WriteString("o[" + mustStrLit(keys[r.Intn(i)]) + "] = " + val(i) + "; ")
			}
			sb.WriteString("o[" + mustStrLit(k) + "] = " + val(i) + "; ")
		}
		return sb.String(), nil, "auto-created with overwrites", false
	case 3:
		// keys assembled at run time from pieces: stem + invalid byte
		sb.WriteString("BEGIN { o = {}; ")
		for i, k := range keys {
			cut := r.Intn(len(k) + 1)
			sb.WriteString("o[" + mustStrLit(k[:cut]) + " + " + mustStrLit(k[cut:]) + "] = " + val(i) + "; ")
		}
		return sb.String(), nil, "concatenated keys", false
	default:
		// the valid keys come with the document, the others are added to the root itself
		// (so that -o serialises them too)
		var docParts []string
		sb.WriteString("{ ")
		for i, k := range keys {
			if c10ValidUTF8Key(k) && chance(r, 0.8) {
				docParts = append(docParts, jsonString(k)+": "+fmt.Sprint(i))
			} else {
				sb.WriteString("$[" + mustStrLit(k) + "] = " + val(i) + "; ")
			}
		}
		sb.WriteString("o = $; ")
		doc := "{" + strings.Join(docParts, ", ") + "}"
		return sb.String(), []File{{Name: "in.json", Data: []byte(doc)}}, "document plus assignments to the root", true
	}
}

// c10KeyOrderOracle: the lines between KEYS and END are the keys in bytewise order.
func c10KeyOrderOracle(keys []string) func(Resp) string {
	want := append([]string{}, keys...)
	sort.Strings(want)
	return func(i Resp) string {
		if i["class"] != "ok" {
			return ""
		}
		out := string(i.Bytes("out"))
		a := strings.Index(out, "KEYS\n")
		b := strings.Index(out, "END-KEYS\n")
		if a < 0 || b < a {
			return "the key listing is missing from the output"
		}
		got := strings.Split(strings.TrimSuffix(out[a+5:b], "\n"), "\n")
		if len(got) != len(want) {
			return fmt.Sprintf("for-in visited %d keys, the object has %d: got %q want %q", len(got), len(want), got, want)
		}
		for j := range got {
			if got[j] != want[j] {
				return fmt.Sprintf("for-in does not visit the keys in bytewise order: position %d is %q, expected %q (got %q, want %q)", j, got[j], want[j], got, want)
			}
		}
		return ""
	}
}

var c10RawObservers = []string{
	"print o",
	"print json(o)",
	"for (k, v in o) print k, v",
	"printf('%v|%s\\n', o, 'end')",
	"print [o, o], {w: o}",
	"s = ''; for (k in o) s = s + k + ','; print s",
	"n = 0; for (k in o) { n++; if (n == 2) continue; if (n > 4) break; print n, k }",
	"for (k, v in o) { if (v is object) { for (k2, v2 in v) print k, k2, v2 } }",
	"first = ''; for (k in o) { first = k; break }\nprint first, o.length()",
	"t = {}; for (k, v in o) { t[k + '!'] = v }\nprint t; print json(t)",
	"t = {}; for (k, v in o) { t['p' + k] = k }\nfor (k, v in t) print k, v",
	"a = []; for (k in o) a.push(k); print a, a.length()",
	"print o; print o; for (k in o) print k; print json(o)",
}

// ---- history independence

type c10Run struct {
	prog string
	doc  string
	sels []string
	json bool
}

func (x c10Run) req() string {
	var files []File
	if x.doc != "" {
		files = []File{{Name: "in.json", Data: []byte(x.doc)}}
	}
	return RunReq(x.prog, x.sels, files, x.json)
}

// programs that try to leave something behind in the process
var c10Poisons = []c10Run{
	{prog: "BEGIN { o = {}; o.length = 5; print o.length, o }"},
	{prog: "BEGIN { o = {a: 1}; o.pluck = 1; o.length = 'L'; print o }"},
	{prog: "BEGIN { a = [1]; a.push = 3 }"},
	{prog: "BEGIN { a = [1]; a.length = 7; print a.length() }"},
	{prog: "BEGIN { a = [1]; a.sort = 1; a.pop = 2; a.popfirst = 3; a.contains = 4 }"},
	{prog: "BEGIN { s = 'x'; s.upper = 1 }"},
	{prog: "BEGIN { s = 'x'; s.length = 1; s.split = 2; s.lower = 3 }"},
	{prog: "BEGIN { n = 1; n.floor = 2 }"},
	{prog: "BEGIN { n = 1.5; n.round = 2; n.ceil = 3 }"},
	{prog: "BEGIN { a = []; b = []; a.push(b.push(1)); print a, b }"},
	{prog: "BEGIN { a = [3, 1, 2]; print a.sort().push(a.pop()).length(), a.contains(a.popfirst()) }"},
	{prog: "BEGIN { o = {k: 1}; print o.pluck('k').pluck('k').length(), 'a,b'.split(',').length() }"},
	{prog: "function f(n) { return f(n + 1) }\nBEGIN { f(0) }"},
	{prog: "function f(n) { x = [n].length(); return g(n + 1) }\nfunction g(n) { return f({a: n}.length() + n) }\nBEGIN { f(0) }"},
	{prog: "function f(n) { if (n == 0) return 1 / 0; return f(n - 1) }\nBEGIN { f(3000) }"},
	{prog: "function f(n) { if (n == 0) { x = [1].length(2, 3); return unsetv.v.w() } return 1 + f(n - 1) }\nBEGIN { print f(50) }"},
	{prog: "function f(n) { if (n == 0) return [1].push(); return f(n - 1) }\nBEGIN { f(20) }"},
	{prog: "function f() { next }\n{ f(); print 'no' }", doc: "[1, 2]"},
	{prog: "function f() { exit }\nBEGIN { f(); print 'no' }"},
	{prog: "function f(a) { a.push(1); exit }\nBEGIN { f([1].sort()) }"},
	{prog: "{ match ($) { 1 => { next }, x => { exit } }\n print 'after' }", doc: "[1, 2]"},
	{prog: "{ x = match ($) { [a] => { a.push(a.length()); next } }\n print 'after' }", doc: "[[1], [2]]"},
	{prog: "{ x = match ($) { [a] => { $.push(a); next } }\n print 'after' }", doc: "[[1], [2]]"},
	{prog: "function printf() { return 'mine' }\nBEGIN { print printf('%s', 1) }"},
	{prog: "function json(x) { return 'J' }\nBEGIN { print json([1]) }"},
	{prog: "function num(x) { return 42 }\nBEGIN { print num('7') }"},
	{prog: "function length() { return 9 }\nfunction push(x) { return 8 }\nBEGIN { print length(), [1].length(), push(1) }"},
	{prog: "BEGIN { printf = 1; json = 2; num = 3; print printf, json, num }"},
	{prog: "BEGIN { m = [1].length; print m }"},
	{prog: "BEGIN { a = [1, 2]; a.length.x = 3 }"},
	{prog: "BEGIN { o = {}; o.length.deep = 1 }"},
	{prog: "BEGIN { o = {}; o.pluck('a').pluck = o; o.length = o; print o }"},
	{prog: "BEGIN { printf('%d %s\\n', 1) }"},
	{prog: "BEGIN { json() }"},
	{prog: "BEGIN { 'abc'.split() }"},
	{prog: "BEGIN { a = [1]; a.push(a); print a; print json(a) }"},
	{prog: "BEGIN { print 1 +"},
	{prog: "BEGIN { x = [1].length(); [1].push(2); y = {}.length(); z = 'q'.upper() }"},
	{prog: "{ print $.a.b.c.d; $.x.y = 1; $.length = 0; print $.length }", doc: `{"a": {"b": 1}}`, json: true},
	{prog: "{ $.push = 1 }", doc: `[[1], [2]]`, json: true},
	{prog: "{ print $.length() }", doc: `[[1], "ab", {"a": 1}]`, sels: []string{"$", "$[0]"}},
	{prog: "{ print }", doc: `{"a": [1, 2`},
	{prog: "BEGIN { while (true) { i++; if (i > 200) break }\nprint i }"},
	{prog: "function f(o) { o.length = 1; o.pluck = 2; return o }\nBEGIN { print f({}), f({}).length }"},
	{prog: "BEGIN { [].length = 1 }"},
	{prog: "BEGIN { ({}).pluck = 1; ('x').upper = 2 }"},
	{prog: "BEGIN { a = [1]; a['length'] = 5 }"},
	{prog: "BEGIN { o = {}; o['length'] = 5; o['pluck'] = 6; print o.length, o.pluck }"},
	{prog: "BEGIN { a = [1]; a.length++ }"},
	{prog: "BEGIN { o = {}; o.length++; o.pluck += 2; print o }"},
	{prog: "BEGIN { s = 'x'; s.upper += 1 }"},
}

// the runs under test: they must behave as in a fresh process
var c10Tests = []c10Run{
	{prog: "BEGIN { print [1].length(), {a: 1}.length(), 'x'.upper(), 'abc'.length() }"},
	{prog: "BEGIN { printf('%s-%f|%5s|%-4f|%v|%%\\n', 'a', 3, 'ab', 2.5, {b: 1, a: [2]}); print json({b: [1, 2], a: null}); print num('12') + 1 }"},
	{prog: "function r(n) { if (n == 0) return 0; return 1 + r(n - 1) }\nBEGIN { print r(100) }"},
	{prog: "BEGIN { o = {}; o.z = 1; o.a = 2; o.m = 3; for (k, v in o) print k, v; print o; print o.pluck('z', 'q'); print o.length() }"},
	{prog: "BEGIN { a = [3, 1, 2]; a.push(4); print a.pop(), a.popfirst(), a.contains(1), a.sort(), a.length(), a }"},
	{prog: "BEGIN { s = 'a,B,c'; print s.split(','), s.lower(), s.upper(), s.length(); print (2.5).floor(), (2.5).ceil(), (2.5).round() }"},
	{prog: "{ print $.length(), $.pluck('a'); for (k in $) print k }", doc: `{"b": 1, "a": [1, 2], "c": {"z": 0, "y": 1}}`, json: true},
	{prog: "{ print $.length(); print }", doc: "[[1, 2], [3]]", json: true},
	{prog: "BEGIN { o = {}; print o.length, [].push, 'x'.upper, (1).floor }"},
	{prog: "BEGIN { o = {length: 1}; print o.length; a = [1]; print a.length() }"},
	{prog: "function f(a) { return a.length() }\nBEGIN { print f([1, 2, 3]), f('ab'), f({}) }"},
	{prog: "BEGIN { x = match ([1, 2]) { [a, b] => a + b, y => 0 }\n print x }"},
	{prog: "BEGIN { o.a.b = 1; a[2] = 'x'; print o, a, json(o) }"},
	{prog: "BEGIN { a = []; b = []; a.push(b.push(1)); print a, b; c = [1]; print c.push(c.pop()).length(), c }"},
	{prog: "BEGIN { a = [1, 2]; b = [3]; print a.length() + b.length(), [a.length(), b.length(), a.push(0).length()] }"},
	{prog: "{ print $.length(), $.upper(), $.split('b') }", doc: `["abc", "b"]`, sels: []string{"$"}},
	{prog: "{ print $index, $file, $ }", doc: `{"rows": [{"id": 2, "n": "x"}, {"n": "y", "id": 1}]}`, sels: []string{"$.rows"}, json: true},
	{prog: "function r(n) { if (n == 0) return [].length(); return r(n - 1) + {a: n}.length() }\nBEGIN { print r(100); printf('%5f|%-3s|%v\\n', 3.25, 'ab', [1, {z: 1, a: 2}]) }"},
	{prog: "BEGIN { print num('0x10'), num(' 5'), num('1e3'), num(2.7), num('abc') is null }"},
	{prog: "BEGIN { print 1 / 0 }"},
	{prog: "BEGIN { a = [1]; a.push(a); print a; print json(a) }"},
	{prog: "BEGIN { print [1].nosuch, {}.nosuch, 'x'.nosuch, [1].length.x }"},
}

func init() {
	register(Family{
		Name: "object-order", Prop: "C10",
		Rule: "objects with 2-40 keys (literal, assignment sequence, auto-created with overwrites, document; random insertion order; nested multi-key objects as values) observed by for-in (k / k,v / break / continue), print, json(), pluck, copies into new objects and arrays, and -o; the identical request five times = one Group (class, out, json must agree), each compared with the model (sorted keys); 1 in 8 groups additionally in a fresh process",
		Gen: func(r *rand.Rand, tier string, emit func(Case)) {
			n := tierN(tier, 2000, 20000)
			for i := 0; i < n; i++ {
				kvs := c10Object(r)
				prefix, files, how := c10Build(r, kvs)
				obs := pick(r, c10Observers)
				if chance(r, 0.15) {
					// pluck some keys that exist and one that does not
					var ks []string
					for j := 0; j < 1+r.Intn(4); j++ {
						ks = append(ks, mustStrLit(pick(r, kvs).key))
					}
					ks = append(ks, "'nosuchkey'")
					r.Shuffle(len(ks), func(a, b int) { ks[a], ks[b] = ks[b], ks[a] })
					obs = "p = o.pluck(" + strings.Join(ks, ", ") + "); print p; for (k, v in p) print k, v"
				}
				prog := prefix + obs + " }"
				if strings.HasPrefix(obs, "function") {
					nl := strings.Index(obs, "\n")
					prog = obs[:nl+1] + prefix + obs[nl+1:] + " }"
				}
				req := RunReq(prog, nil, files, files != nil)
				fresh := chance(r, 0.125)
				for rep := 0; rep < 5; rep++ {
					emit(Case{ID: fmt.Sprintf("%d.%d", i, rep), Req: req, Fields: c10Fields, Meta: metaProg(prog, "object-from", how, "keys", fmt.Sprint(len(kvs))),
						Group: fmt.Sprintf("g%05d", i), GroupFields: c10Fields, Fresh: fresh && rep == 0})
				}
			}
		},
	})

	register(Family{
		Name: "raw-byte-keys", Prop: "C10",
		Rule: "objects with 2-12 keys of which most are NOT valid UTF-8: string literals of the program text with raw bytes 0x80-0xFF, overlong forms, lone continuation bytes, truncated sequences, surrogates, in clusters sharing stem and tail (keys equal up to such bytes), together with U+FFFD itself, valid 2/3/4-byte neighbours and ASCII keys; built as literal, assignment sequence, auto-created with overwrites, concatenated at run time, or added to the root of a document (then also -o); nested objects with such keys as values. First the keys are listed by for-in (oracle: bytewise order of the keys, Go's sort.Strings), then one observer: print, json(), printf %v, for-in with values / break / continue / nested, copies into new objects, pluck. The identical request five times = one Group (class, out, json), each compared with the model; 1 in 4 groups additionally in a fresh process",
		Gen: func(r *rand.Rand, tier string, emit func(Case)) {
			n := tierN(tier, 1200, 12000)
			for i := 0; i < n; i++ {
				nk := 2 + r.Intn(11)
				keys := c10RawKeys(r, nk)
				prefix, files, how, wantJSON := c10RawBuild(r, keys)
				obs := pick(r, c10RawObservers)
				if chance(r, 0.2) {
					var ks []string
					for j := 0; j < 1+r.Intn(5); j++ {
						ks = append(ks, mustStrLit(pick(r, keys)))
					}
					ks = append(ks, mustStrLit(pick(r, c10BadUnits)+"?"))
					r.Shuffle(len(ks), func(a, b int) { ks[a], ks[b] = ks[b], ks[a] })
					obs = "p = o.pluck(" + strings.Join(ks, ", ") + "); print p; for (k, v in p) print k, v; print json(p)"
				}
				prog := prefix + "print 'KEYS'; for (k in o) print k; print 'END-KEYS'; " + obs + " }"
				req := RunReq(prog, nil, files, wantJSON)
				fresh := chance(r, 0.25)
				oracle := c10KeyOrderOracle(keys)
				quoted := make([]string, len(keys))
				for j, k := range keys {
					quoted[j] = strconv.Quote(k)
				}
				for rep := 0; rep < 5; rep++ {
					emit(Case{ID: fmt.Sprintf("%d.%d", i, rep), Req: req, Fields: c10Fields,
						Meta:  metaProg(strconv.Quote(prog), "program is", "shown Go-quoted: it contains bytes that are not valid UTF-8", "object-from", how, "keys", strings.Join(quoted, " ")),
						Group: fmt.Sprintf("r%05d", i), GroupFields: c10Fields, Fresh: fresh && rep == 0, Oracle: oracle})
				}
			}
		},
	})

	register(Family{
		Name: "json-error-choice", Prop: "C10",
		Rule: "objects with 2-12 keys (one third of the objects: keys that are not valid UTF-8, equal up to the invalid bytes) of which two to four cannot be serialised for DIFFERENT reasons (a regex member, the object itself, a cyclic array) passed to json(): which member is reported must not depend on map order; the identical request five times = one Group on class, out, line, col and msg (the message is part of the error outcome), the first also in a fresh process; class and out compared with the model",
		Gen: func(r *rand.Rand, tier string, emit func(Case)) {
			n := tierN(tier, 300, 3000)
			for i := 0; i < n; i++ {
				perm := r.Perm(len(c10KeyPool))
				nk := 2 + r.Intn(11)
				keyAt := func(j int) string { return c10KeyPool[perm[j]] }
				if i%3 == 2 {
					// keys that are not valid UTF-8 (they tie in a rune-wise comparison)
					raw := c10RawKeys(r, nk)
					nk = len(raw)
					keyAt = func(j int) string { return raw[j] }
				}
				nbad := 2 + r.Intn(3)
				if nbad > nk {
					nbad = nk
				}
				var sb strings.Builder
				sb.WriteString("BEGIN { cyc = [1]; cyc.push(cyc); o = {}; ")
				bads := []string{"/re/", "o", "cyc"}
				r.Shuffle(len(bads), func(a, b int) { bads[a], bads[b] = bads[b], bads[a] })
				badAt := map[int]string{}
				for j, pos := range r.Perm(nk)[:nbad] {
					badAt[pos] = bads[j%len(bads)]
				}
				for j := 0; j < nk; j++ {
					v := numLit(float64(j))
					if b, ok := badAt[j]; ok {
						v = b
					}
					sb.WriteString("o[" + mustStrLit(keyAt(j)) + "] = " + v + "; ")
				}
				sb.WriteString("print 'before'; print json(o); print 'after' }")
				prog := sb.String()
				req := RunReq(prog, nil, nil, false)
				for rep := 0; rep < 5; rep++ {
					emit(Case{ID: fmt.Sprintf("%d.%d", i, rep), Req: req, Fields: []string{"class", "out"}, Meta: metaProg(prog),
						Group: fmt.Sprintf("e%05d", i), GroupFields: []string{"class", "out", "line", "col", "msg"}, Fresh: rep == 0,
						Oracle: func(i Resp) string {
							if i["class"] != "runtime" || string(i.Bytes("out")) != "before\n" {
								return "json() of an object with inexpressible members must be a runtime error after 'before'"
							}
							return ""
						}})
				}
			}
		},
	})

	register(Family{
		Name: "poison-programs", Prop: "C10",
		Rule: "the poisoning programs of the history family run alone (assign to method names on objects, arrays, strings, numbers; methods nested in arguments; call-depth limit; errors deep in recursion; next / exit inside functions and match bodies; user functions named like builtins; syntax and JSON errors), compared with the model, three times each as a Group",
		Gen: func(r *rand.Rand, tier string, emit func(Case)) {
			for i, p := range c10Poisons {
				for rep := 0; rep < 3; rep++ {
					emit(Case{ID: fmt.Sprintf("p%d.%d", i, rep), Req: p.req(), Fields: c10Fields, Meta: metaProg(p.prog, "input", p.doc, "selectors", strings.Join(p.sels, " ")),
						Group: fmt.Sprintf("p%03d", i), GroupFields: c10Fields, Fresh: rep == 0, ImplOnly: rep > 0,
						NonTrivial: func(i Resp) bool { return i["class"] != "badrequest" }})
				}
			}
		},
	})

	register(Family{
		Name: "history-independence", Prop: "C10",
		Rule: "a run under test (methods of every prototype, printf / json / num, recursion to depth 100, object iteration, selectors, -o) executed as the LAST sub-request of `seq p1|…|pk|test` (k = 0-4 poisoning runs in the same worker process, which has also served thousands of earlier cases); the model sees only the test; all executions of one test are one Group (class, out, json) and 1 in 4 is repeated in a brand-new process (all response fields must agree)",
		Gen: func(r *rand.Rand, tier string, emit func(Case)) {
			n := tierN(tier, 3000, 30000)
			for i := 0; i < n; i++ {
				ti := i % len(c10Tests)
				t := c10Tests[ti]
				k := r.Intn(5)
				if i < len(c10Tests) {
					k = 0
				}
				var subs, names []string
				for j := 0; j < k; j++ {
					pi := r.Intn(len(c10Poisons))
					subs = append(subs, c10Poisons[pi].req())
					names = append(names, c10Poisons[pi].prog)
				}
				subs = append(subs, t.req())
				req := t.req()
				if k > 0 {
					req = "seq " + strings.Join(subs, "|")
				}
				emit(Case{ID: fmt.Sprintf("t%d.%d", ti, i), Req: req, ModelReq: t.req(), Fields: c10Fields,
					Meta:  metaProg(t.prog, "input", t.doc, "selectors", strings.Join(t.sels, " "), "history", strings.Join(names, "  |||  ")),
					Group: fmt.Sprintf("t%03d", ti), GroupFields: c10Fields, Fresh: chance(r, 0.25),
					NonTrivial: func(i Resp) bool { return i["class"] == "ok" || i["class"] == "runtime" }})
			}
		},
	})
}

// ---- shared-arguments -----------------------------------------------------------------

var c10BlankSels = []string{"", " ", "  ", "\t", "\n", " \t\n "}

var c10GoodSels = []string{"$.a", "$.b", "$", "$.a[0]", "$.b[0]", "$.c", "$.c.z", "[$.a, $.b]", "$.a[1]", "{k: $.b}", "$.nope", " $.a", "$.b ", "\t$.c\n", "$.a.length()", "\"lit\"", "1 + 1"}

const c10ArgDoc = `{"a": [1, 2], "b": [3], "c": {"z": 0, "y": [4, 5]}}`

// c10SelList: a selector list of one of the shapes an argument-rewriting run would disturb.
func c10SelList(r *rand.Rand) ([]string, string) {
	good := func() string { return pick(r, c10GoodSels) }
	blank := func() string { return pick(r, c10BlankSels) }
	var l []string
	shape := pick(r, []string{"blank-first", "blank-first", "blank-middle", "blanks-many", "blank-last", "long-blanks", "single-blank", "all-blank",
		"duplicates", "duplicates", "duplicates-adjacent", "unsorted", "unsorted", "long", "long", "padded", "plain", "plain"})
	switch shape {
	case "blank-first":
		l = []string{blank()}
		for k := 1 + r.Intn(3); k > 0; k-- {
			l = append(l, good())
		}
	case "blank-middle":
		l = []string{good(), blank(), good()}
		if chance(r, 0.5) {
			l = append(l, good())
		}
	case "blanks-many":
		for k := 3 + r.Intn(5); k > 0; k-- {
			if chance(r, 0.5) {
				l = append(l, blank())
			} else {
				l = append(l, good())
			}
		}
		l = append(l, good())
	case "blank-last":
		l = []string{good(), good(), blank()}
	case "duplicates":
		a, b := good(), good()
		l = []string{a, b, a, good(), b, a}[:3+r.Intn(4)]
	case "duplicates-adjacent":
		a := good()
		l = []string{a, a, good(), a, a}[:2+r.Intn(4)]
	case "unsorted":
		l = []string{"$.c", "$.b", "$.a", "$", "$.a[1]", "$.a[0]"}[:2+r.Intn(5)]
		if chance(r, 0.5) {
			r.Shuffle(len(l), func(i, j int) { l[i], l[j] = l[j], l[i] })
		}
	case "long", "long-blanks":
		n := pick(r, []int{8, 16, 17, 33, 64})
		for k := 0; k < n; k++ {
			if shape == "long-blanks" && (k == 0 || chance(r, 0.2)) {
				l = append(l, blank())
			} else {
				l = append(l, good())
			}
		}
	case "padded":
		l = []string{" $.a ", "\t$.b", "$.c\n", "  $  "}[:1+r.Intn(4)]
	case "single-blank":
		l = []string{pick(r, c10BlankSels[1:])} // a single empty selector cannot be written in a request
	case "all-blank":
		l = []string{blank(), blank(), pick(r, c10BlankSels[1:])}
	default:
		for k := 1 + r.Intn(3); k > 0; k-- {
			l = append(l, good())
		}
	}
	return l, shape
}

var c10ArgProgs = []string{
	"{ print }",
	"{ print $index, $ }",
	"BEGIN { print \"start\" } { n++; print n, $ } END { print \"end\", n }",
	"BEGINFILE { print \"B\", $file, $ } ENDFILE { print \"E\" }",
	"{ $ = [$] }",
	"$ is number { s += $ } END { print s }",
	"BEGIN { print \"only begin\" }",
	// runs that end early or fail: whatever they did to their arguments stays done
	"{ print $; exit }",
	"{ print $; x = 1 / 0 }",
	"{ n++; if (n == 2) { x = nope() }\n print n }",
	"{ print ",
}

func c10SharedArguments(r *rand.Rand, tier string, emit func(Case)) {
	n := tierN(tier, 700, 8000)
	for i := 0; i < n; i++ {
		sels, shape := c10SelList(r)
		// the file list: one to four files, unsorted names, duplicates, empty files
		var files []File
		fshape := "one file"
		switch r.Intn(6) {
		case 0:
			fshape = "unsorted, a duplicate name, an empty file"
			files = []File{{Name: "z.json", Data: []byte(c10ArgDoc)}, {Name: "a.json", Data: []byte(`{"a": [7], "b": [8, 9], "c": {}}`)}, {Name: "z.json", Data: []byte(c10ArgDoc)}, {Name: "", Data: nil}}[:2+r.Intn(3)]
		case 1:
			fshape = "an empty file first, names with blanks"
			files = []File{{Name: " ", Data: []byte(" ")}, {Name: " b.json ", Data: []byte(c10ArgDoc)}, {Name: "a.json", Data: []byte(`{"a": "x", "b": null, "c": 1}`)}}
		default:
			files = []File{{Name: "in.json", Data: []byte(c10ArgDoc)}}
		}
		prog := pick(r, c10ArgProgs)
		wantJSON := len(files) == 1 && chance(r, 0.5)
		test := RunReq(prog, sels, files, wantJSON)
		// the history: the same request again and again, or other programs with the SAME
		// selector list and file list, or the same list with another document
		reps := 1 + r.Intn(3)
		var subs, hist []string
		for k := 0; k < reps; k++ {
			switch r.Intn(3) {
			case 0:
				p2 := pick(r, c10ArgProgs)
				subs = append(subs, RunReq(p2, sels, files, wantJSON))
				hist = append(hist, "same selectors and files, program "+p2)
			case 1:
				if chance(r, 0.5) {
					subs = append(subs, RunReq(prog, sels, []File{{Name: "other.json", Data: []byte(`{"a": [], "b": [0], "c": {"z": 1}}`)}}, false))
					hist = append(hist, "same selectors, another file")
				} else {
					subs = append(subs, RunReq(prog, nil, files, false))
					hist = append(hist, "same files, no selectors")
				}
			default:
				subs = append(subs, test)
				hist = append(hist, "the same request")
			}
		}
		subs = append(subs, test)
		quoted := make([]string, len(sels))
		for k, x := range sels {
			quoted[k] = strconv.Quote(x)
		}
		var fnames []string
		for _, f := range files {
			fnames = append(fnames, strconv.Quote(f.Name))
		}
		g := fmt.Sprintf("args-%05d", i)
		meta := metaProg(prog, "selectors", strings.Join(quoted, " "), "selector list", shape, "files", strings.Join(fnames, " ")+" ("+fshape+")", "history", strings.Join(hist, "  |||  "))
		noMod := func(i Resp) string {
			if i["argsmod"] != "" {
				return "the run (or an earlier run of the sequence) modified the caller's " + i["argsmod"] + " slice"
			}
			return ""
		}
		// the run alone (compared with the model), then after the history with shared argument objects
		emit(Case{ID: g + "/alone", Req: test, Fields: c10Fields, Meta: meta, Group: g, GroupFields: c10Fields, Oracle: noMod,
			NonTrivial: func(i Resp) bool { return i["class"] != "badrequest" }})
		emit(Case{ID: g + "/shared", Req: "seq " + strings.Join(subs, "|"), ModelReq: test, Fields: c10Fields, Meta: meta, Group: g, GroupFields: c10Fields,
			Fresh: true, Oracle: noMod, NonTrivial: func(i Resp) bool { return i["class"] != "badrequest" }})
	}
}

// ---- o-file-history --------------------------------------------------------------------

type c10ORun struct {
	prog string
	doc  string
}

func c10OFileHistory(r *rand.Rand, tier string, emit func(Case)) {
	if os.Getenv("JQAWK_BIN") == "" {
		emit(Case{ID: "no-binary", Req: "cli - - - -", ImplOnly: true, Oracle: c14Basic,
			Meta: map[string]string{"problem": "env JQAWK_BIN is not set; this family runs the real binary"}})
		return
	}
	n := tierN(tier, 60, 1500)
	cliFields := []string{"exit", "out", "err", "ofile", "ofexists"}
	mkRun := func(size string) c10ORun {
		// documents of very different sizes, programs that keep / grow / shrink / replace them
		var doc string
		switch size {
		case "small":
			doc = pick(r, []string{`[{"x": 1}]`, `1`, `"s"`, `[]`, `{}`, `null`, `{"a": 1}`, `[1, 2]`})
		case "big":
			recs := make([]string, 3+r.Intn(30))
			for k := range recs {
				recs[k] = fmt.Sprintf(`{"name": %s, "id": %d, "tags": ["a", "b", "c"], "notes": %s}`, jsonString(pick(r, []string{"alligator", "someone else", "é"})), k, jsonString(strings.Repeat("free text ", r.Intn(20))))
			}
			doc = "[" + strings.Join(recs, ", ") + "]"
		case "huge":
			doc = `{"blob": ` + jsonString(strings.Repeat("0123456789abcdef", 300+r.Intn(5000))) + `, "n": [1, 2, 3]}`
		case "same-size":
			// the JSON written has the same length whatever the digit: only the content differs
			return c10ORun{pick(r, []string{`{ }`, ``, `{ $.seen = true }`}), fmt.Sprintf(`[{"x": %d, "name": "n%d"}, %d]`, r.Intn(10), r.Intn(10), r.Intn(10))}
		default:
			doc = c14ODoc(r)
		}
		prog := pick(r, []string{`{ }`, ``, `{ $.x++ }`, `{ $.seen = true }`, `$ is object { $.added = "some more text" }`, `{ $ = [$, $] }`, `{ $ = 1 }`, `BEGINFILE { $ = {} }`,
			`{ print "seen", $index }`, `BEGIN { print "start" } END { print "done" }`, `$ is object { $ = $.pluck("id") }`})
		return c10ORun{prog, doc}
	}
	failing := []string{`{ x = 1 / 0 }`, `{ print `, `BEGIN { exit }`, `{ $.self = $ }`}
	for i := 0; i < n; i++ {
		plan := pick(r, [][]string{{"big", "small"}, {"big", "small"}, {"huge", "small"}, {"small", "big"}, {"huge", "big", "small"}, {"small", "big", "small"}, {"big", "big"}, {"rand", "rand"}, {"rand", "rand", "rand"}, {"huge", "rand"}, {"big", "rand", "small"}, {"same-size", "same-size"}, {"same-size", "same-size", "same-size"}})
		runs := make([]c10ORun, len(plan))
		for k, sz := range plan {
			runs[k] = mkRun(sz)
		}
		lastFails, earlierFails := chance(r, 0.12), chance(r, 0.1)
		if lastFails {
			runs[len(runs)-1].prog = pick(r, failing)
		}
		if earlierFails {
			runs[r.Intn(len(runs)-1)].prog = pick(r, failing)
		}
		target := pick(r, []string{"out.json", "out.json", "result", "sub/o.json", "o,1.json"})
		var disk []CliFile
		if strings.HasPrefix(target, "sub/") {
			disk = append(disk, CliFile{Name: "sub", Dir: true})
		}
		argvs := make([][]string, len(runs))
		for k, run := range runs {
			name := fmt.Sprintf("in%d.json", k+1)
			disk = append(disk, CliFile{Name: name, Data: []byte(run.doc)})
			argvs[k] = append(c14Flag(r, "o", target), run.prog, name)
		}
		last := len(runs) - 1
		// what each run writes (the library in the generator); what the file holds before the last run
		var before []byte
		beforeExists := false
		var sizes []string
		for k, run := range runs {
			ref := c14InProc(run.prog, nil, []File{{Name: fmt.Sprintf("in%d.json", k+1), Data: []byte(run.doc)}}, true)
			ok := ref["class"] == "ok" && ref["json"] != "ERR"
			if ok {
				sizes = append(sizes, fmt.Sprint(len(ref.Bytes("json"))))
			} else {
				sizes = append(sizes, "fails")
			}
			if k < last && ok {
				before, beforeExists = ref.Bytes("json"), true
			}
		}
		ref := c14InProc(runs[last].prog, nil, []File{{Name: fmt.Sprintf("in%d.json", last+1), Data: []byte(runs[last].doc)}}, true)
		lastOK := ref["class"] == "ok" && ref["json"] != "ERR"
		wantJS := string(ref.Bytes("json"))
		g := fmt.Sprintf("ohist-%d", i)
		var hist []string
		for k := range runs {
			hist = append(hist, strings.Join(argvs[k], " ␣ "))
		}
		meta := func(what string) map[string]string {
			return metaProg(runs[last].prog, "runs, in order", strings.Join(hist, "   THEN   "), "sizes of the JSON the runs write", strings.Join(sizes, " then "), "variant", what, "last input", short(runs[last].doc))
		}
		freshReq := CliReq(argvs[last], nil, false, disk, target)
		oracle := func(histFile bool) func(Resp) string {
			return func(i Resp) string {
				if w := c14Basic(i); w != "" {
					return w
				}
				if lastOK {
					if i["exit"] != "0" {
						return "the library run succeeds, the binary exits with " + i["exit"] + ": " + short(string(i.Bytes("stderr")))
					}
					if got := string(i.Bytes("ofile")); got != wantJS {
						return fmt.Sprintf("after the last run the -o file holds %d bytes %q; on a fresh path the run writes %d bytes %q (GetRootJson)", len(got), short(got), len(wantJS), short(wantJS))
					}
					return ""
				}
				if i["exit"] == "0" {
					return "the library run fails, the binary exits with 0"
				}
				if histFile && beforeExists && string(i.Bytes("ofile")) != string(before) {
					return "the last run failed but the -o file left by the earlier run was changed"
				}
				if (!histFile || !beforeExists) && i["ofexists"] == "1" {
					return "the run failed but an -o file was written"
				}
				return ""
			}
		}
		nt := func(i Resp) bool { return i["exit"] != "" && i["ofexists"] == "1" }
		emit(Case{ID: g + "/fresh", Req: freshReq, Fields: cliFields, Group: g, Meta: meta("the last run alone, the -o path does not exist (reference of the group)"), Oracle: oracle(false), NonTrivial: nt})
		gf := []string{"exit", "out", "stderr", "ofile", "ofexists"}
		if !lastOK {
			gf = []string{"exit", "out", "stderr"} // a failed run leaves the file as the history left it
		}
		// the real history: the binary is run for the earlier command lines, in the same directory
		hc := Case{ID: g + "/history", Req: CliHistoryReq(argvs[:last], argvs[last], nil, false, disk, target), Fields: cliFields, ModelReq: freshReq, Group: g, GroupFields: gf,
			Meta: meta("all the runs, one after the other, in one directory"), Oracle: oracle(true), NonTrivial: nt}
		if !lastOK && beforeExists {
			hc.Fields = []string{"exit", "out", "err"}
		}
		emit(hc)
		// the same history as a file: the -o path holds what the earlier run left (known to the model too)
		if beforeExists {
			pre := append(append([]CliFile{}, disk...), CliFile{Name: target, Data: before})
			emit(Case{ID: g + "/leftover", Req: CliReq(argvs[last], nil, false, pre, target), Fields: cliFields, Group: g, GroupFields: gf,
				Meta: meta(fmt.Sprintf("the last run alone, the -o path holds the %d bytes the earlier run wrote", len(before))), Oracle: oracle(true), NonTrivial: nt})
		}
		// twice the same run: the second must leave the same bytes
		if lastOK && i%4 == 0 {
			emit(Case{ID: g + "/twice", Req: CliHistoryReq([][]string{argvs[last]}, argvs[last], nil, false, disk, target), Fields: cliFields, ModelReq: freshReq, Group: g, GroupFields: gf,
				Meta: meta("the last run twice"), Oracle: oracle(true), NonTrivial: nt})
		}
	}
}

func init() {
	register(Family{
		Name: "shared-arguments", Prop: "C10",
		Rule: "the library driven like an embedder that keeps its selector list and its file list in ONE slice each and calls EvalProgram again and again: `seq r1|…|rk|test` where the sub-requests with the same selector (file) field are handed the very same []string ([]InputFile) object (impl.go seqShared). Selector lists: a blank / whitespace-only entry before non-blank ones, in the middle, many, last, only; duplicates (adjacent and apart); unsorted; long (8-64 entries, with and without blanks); entries with leading / trailing white space. File lists: one file; two to four with unsorted names, a duplicate name, an empty name, an empty file. History: the same request 1-3 times, other programs with the same lists, the same selector list with another file. The answer of the last run must equal the answer of the run alone (Group on class, out, json; both compared with the model) and of a brand-new process (every response field), and no run may modify its arguments (the worker compares the slices after every run: `argsmod`)",
		Gen:  c10SharedArguments,
	})
	register(Family{
		Name: "o-file-history", Prop: "C10",
		Rule: "file-system history through the REAL BINARY: two or three runs with -o onto the SAME path (documents of 2 bytes to 80 kB in shrinking, growing and random order; programs that keep, grow, shrink or replace the document; 1 in 8 last runs and 1 in 10 earlier runs fail), executed one after the other in one directory (cli flag p=); one Group per scenario: the last run alone on a fresh path (compared with the model; reference), the whole history (exit, stdout, stderr and the bytes of the -o file must equal the reference; the model answers for the fresh path), the last run with the -o path holding what the earlier run wrote (also compared with the model), and every fourth scenario the same run twice; oracle: the file holds exactly GetRootJson's text of the last run (library run in the generator); a failed last run leaves the earlier file untouched",
		Gen:  c10OFileHistory,
	})
}

// ---------------------------------------------------------------------------------------
// (d) read-boundaries at the start of the input: the result depends on the BYTES, not on how
// many of them the first Read calls deliver. Inputs that start with bytes that are not JSON -- the
// UTF-8 byte order mark EF BB BF, parts of it (EF, EF BB), other marks and invisible
// characters -- are a JSON input error however they arrive; inputs without such a prefix
// succeed however they arrive. Every chunking of the first four bytes (all 8 compositions of
// 4, then the rest), each also with empty reads in between and with the last bytes delivered
// together with io.EOF, must agree with the unchunked run (Group) and with the model.
// ---------------------------------------------------------------------------------------

var c10Prefixes = []struct {
	bytes string
	what  string
}{
	{"\xef\xbb\xbf", "UTF-8 byte order mark"}, {"\xef", "first byte of the mark"}, {"\xef\xbb", "first two bytes of the mark"}, {"\xef\xbb\xbf\xef\xbb\xbf", "the mark twice"},
	{"\xef\xbb\xbf ", "the mark and a blank"}, {" \xef\xbb\xbf", "a blank and the mark"}, {"\n\xef\xbb\xbf", "a newline and the mark"}, {"\xef\xbb\xbe", "almost the mark"}, {"\xef\xbf\xbe", "U+FFFE"},
	{"\xfe\xff", "UTF-16 BE mark"}, {"\xff\xfe", "UTF-16 LE mark"}, {"\x00", "NUL"}, {"\xc2\xa0", "no-break space"}, {"\xe2\x80\x8b", "zero width space"}, {"\xe2\x81\xa0", "word joiner"},
	{"\x1e", "record separator (RFC 7464)"}, {"\x0c", "form feed"}, {"\x0b", "vertical tab"},
	{"", "no prefix"}, {" ", "a blank"}, {"\n\t\r ", "white space"}, {"", "no prefix"},
}

var c10PrefixProgs = []string{
	`{ print $.name, $.n }`,
	"BEGIN { print \"start\" }\n{ print \"v\", $ }\nEND { print \"end\" }",
	"BEGINFILE { print \"B\", $file }\nENDFILE { print \"E\" }",
	`BEGIN { print "only begin" }`,
}

var c10PrefixDocs = []string{
	`[{"name":"a","n":1},{"name":"b","n":2}]` + "\n", `{"name":"solo","n":0}`, "1 2 3\n", `"str"`, "[]", "", `[1,2`, "nul", "7",
}

// all compositions of 4: the sizes of the first reads
var c10HeadSplits = [][]int{{4}, {1, 3}, {2, 2}, {3, 1}, {1, 1, 2}, {1, 2, 1}, {2, 1, 1}, {1, 1, 1, 1}}

func c10ReadBoundaries(r *rand.Rand, tier string, emit func(Case)) {
	fields := []string{"class", "out", "file"}
	rounds := tierN(tier, 2, 12)
	gid := 0
	for round := 0; round < rounds; round++ {
		for pi, pf := range c10Prefixes {
			prog := c10PrefixProgs[(pi+round)%len(c10PrefixProgs)]
			doc := c10PrefixDocs[r.Intn(len(c10PrefixDocs))]
			if round == 0 {
				doc = c10PrefixDocs[0]
			}
			data := []byte(pf.bytes + doc)
			// where the prefixed input stands: alone, as the second file, as the first of two
			var before, after []File
			switch r.Intn(5) {
			case 0:
				before = []File{{Name: "first.json", Data: []byte("[{\"name\":\"z\",\"n\":26}]\n")}}
			case 1:
				after = []File{{Name: "last.json", Data: []byte("[{\"name\":\"y\",\"n\":25}]\n")}}
			}
			mk := func(f File) []File {
				return append(append(append([]File{}, before...), f), after...)
			}
			gid++
			g := fmt.Sprintf("head-%d", gid)
			name := "in.json"
			plain := RunReq(prog, nil, mk(File{Name: name, Data: data}), false)
			meta := func(how string) map[string]string {
				return metaProg(prog, "prefix", pf.what+" "+strconv.Quote(pf.bytes), "input", strconv.Quote(string(data)), "delivery", how,
					"files", fmt.Sprintf("%d before, %d after", len(before), len(after)), "row", pf.what)
			}
			isJSONStart := strings.TrimLeft(pf.bytes, " \n\t\r") == ""
			emit(Case{ID: g + "/whole", Req: plain, Fields: fields, Group: g, GroupFields: fields, Meta: meta("as much as the decoder asks for"), Fresh: round == 0,
				NonTrivial: func(i Resp) bool { return i["class"] == "ok" || i["class"] == "json" },
				Oracle: func(i Resp) string {
					if !isJSONStart && i["class"] != "json" {
						return fmt.Sprintf("the input starts with %s, which is not JSON: outcome %s instead of a JSON input error", pf.what, i["class"])
					}
					if !isJSONStart && string(i.Bytes("file")) != name {
						return fmt.Sprintf("JSON error names %q, expected %q", i.Bytes("file"), name)
					}
					return ""
				}})
			variant := func(ch []int, exact, dataErr bool, how string) {
				f := File{Name: name, Data: data, Chunks: ch, Exact: exact, DataErr: dataErr}
				emit(Case{ID: g + "/" + how, Req: RunReq(prog, nil, mk(f), false), ModelReq: plain, Fields: fields, Group: g, GroupFields: fields, Meta: meta(how),
					NonTrivial: func(i Resp) bool { return i["class"] == "ok" || i["class"] == "json" }})
			}
			for _, split := range c10HeadSplits {
				var ch []int
				used := 0
				for _, c := range split {
					if used+c > len(data) {
						break
					}
					ch = append(ch, c)
					used += c
				}
				how := fmt.Sprintf("first reads %v, then the rest", ch)
				variant(ch, false, false, how)
				if chance(r, 0.5) {
					variant(ch, true, false, how+" (exact bursts)")
				}
				if chance(r, 0.5) {
					// empty reads between the pieces
					var z []int
					for _, c := range ch {
						if chance(r, 0.6) {
							z = append(z, -1)
						}
						z = append(z, c)
					}
					variant(z, false, chance(r, 0.3), how+" with empty reads "+fmt.Sprint(z))
				}
			}
			variant(c03Ones(len(data)), false, false, "one byte per read")
			variant(nil, false, true, "everything together with io.EOF")
			variant([]int{-1, -1, len(data)}, false, false, "two empty reads first")
		}
	}
	// the same through the real binary: the first bytes of stdin arrive, then nothing for a
	// while, then the rest (a writer that flushed inside the mark)
	if os.Getenv("JQAWK_BIN") == "" {
		return
	}
	nb := tierN(tier, 8, 60)
	for i := 0; i < nb; i++ {
		pf := c10Prefixes[i%5]
		if i%4 == 3 {
			pf = c10Prefixes[len(c10Prefixes)-1-i%3]
		}
		prog := c10PrefixProgs[i%2]
		data := []byte(pf.bytes + c10PrefixDocs[0])
		cut := 1 + i%3
		if cut > len(data) {
			cut = len(data)
		}
		g := fmt.Sprintf("headbin-%d", i)
		meta := func(how string) map[string]string {
			return metaProg(prog, "prefix", pf.what+" "+strconv.Quote(pf.bytes), "input", strconv.Quote(string(data)), "delivery", how)
		}
		plain := CliReq([]string{prog}, data, true, nil, "")
		emit(Case{ID: g + "/pipe", Req: plain, Fields: c14CliFields, Group: g, Meta: meta("stdin pipe, written at once"), Oracle: c14Basic, NonTrivial: c14NT})
		emit(Case{ID: g + "/file", Req: CliStdinKindReq([]string{prog}, data, "file", nil, ""), ImplOnly: true, Group: g, GroupFields: []string{"exit", "out", "err"},
			Meta: meta("stdin is a regular file"), Oracle: c14Basic, NonTrivial: c14NT})
		emit(Case{ID: g + "/staged", Req: CliStagedReq([]string{prog}, "stdin", data[:cut], data[cut:], nil, 1) + ",d=200", ModelReq: plain, Fields: c14CliFields, Group: g,
			GroupFields: []string{"exit", "out", "err"}, Meta: meta(fmt.Sprintf("stdin pipe: %d byte(s), a pause of 200 ms, the rest", cut)), Oracle: c14Basic, NonTrivial: c14NT})
	}
}

// ---------------------------------------------------------------------------------------
// (e) repeat-after-fault: a stream of 2-400 good values followed by a malformed tail (stray
// byte, open bracket, cut literal, failing reader). However the decoding is scheduled, the
// outcome is a function of the bytes: every repetition -- 10-20 in pooled worker processes,
// 5 in brand-new processes, 3 through the real binary -- gives the same class AND the same
// output, and that output ends with the output of the last good value.
// ---------------------------------------------------------------------------------------

var c10TailProgs = []struct {
	text string
	slow bool
}{
	{"{ print \"v\", $ }\nENDFILE { print \"E\" }", false},
	{"{ for (i = 0; i < 300; i++) { s = s + i }\n print \"v\", $ }\nENDFILE { print \"E\" }", true},
	{"BEGINFILE { for (i = 0; i < 2000; i++) { s = s + i } }\n{ print \"v\", $ }\nENDFILE { print \"E\" }", true},
	{"{ print \"v\", $ }\nENDFILE { for (i = 0; i < 2000; i++) { s = s + i }\n print \"E\" }", true},
}

func c10RepeatAfterFault(r *rand.Rand, tier string, emit func(Case)) {
	fields := []string{"class", "out", "file"}
	n := tierN(tier, 36, 400)
	haveBin := os.Getenv("JQAWK_BIN") != ""
	for i := 0; i < n; i++ {
		nv := pick(r, []int{2, 2, 3, 4, 5, 8, 20, 50, 120, 300, 400})
		var sb, want strings.Builder
		id := 0
		shape := i % 4
		switch shape {
		case 0: // one array of nv-1 numbers, then one more scalar (the seeded witness)
			parts := make([]string, nv-1)
			for k := range parts {
				id++
				parts[k] = strconv.Itoa(id)
				fmt.Fprintf(&want, "v %d\n", id)
			}
			id++
			sb.WriteString("[" + strings.Join(parts, ",") + "]\n" + strconv.Itoa(id) + "\n")
			fmt.Fprintf(&want, "E\nv %d\nE\n", id)
		case 1: // JSONL of scalars
			for k := 0; k < nv; k++ {
				id++
				sb.WriteString(strconv.Itoa(id) + pick(r, []string{"\n", " "}))
				fmt.Fprintf(&want, "v %d\nE\n", id)
			}
		case 2: // JSONL of small arrays
			for k := 0; k < nv; k++ {
				m := r.Intn(4)
				parts := make([]string, m)
				for j := range parts {
					id++
					parts[j] = strconv.Itoa(id)
					fmt.Fprintf(&want, "v %d\n", id)
				}
				sb.WriteString("[" + strings.Join(parts, ", ") + "]" + pick(r, []string{"\n", "", " "}))
				want.WriteString("E\n")
			}
		default: // a long first value, a few short ones
			parts := make([]string, 200+r.Intn(600))
			for k := range parts {
				id++
				parts[k] = strconv.Itoa(id)
				fmt.Fprintf(&want, "v %d\n", id)
			}
			sb.WriteString("[" + strings.Join(parts, ",") + "]\n")
			want.WriteString("E\n")
			for k := 0; k < 1+nv%4; k++ {
				id++
				sb.WriteString(strconv.Itoa(id) + "\n")
				fmt.Fprintf(&want, "v %d\nE\n", id)
			}
		}
		tail := pick(r, []string{"@", "]", "}", "[1,2", `{"a":`, "tru", `"open`, ",", "[1,]", "\xef\xbb\xbf", ""})
		ioErr := tail == ""
		data := []byte(sb.String() + tail)
		p := c10TailProgs[r.Intn(len(c10TailProgs))]
		if (nv > 20 || shape == 3) && p.slow {
			p = c10TailProgs[0]
		}
		name := "stream.jsonl"
		files := []File{{Name: name, Data: data, IOErr: ioErr}}
		if chance(r, 0.2) {
			files = append(files, File{Name: "never-read.json", Data: []byte("[999]")})
		}
		req := RunReq(p.text, nil, files, false)
		g := fmt.Sprintf("tail-%d", i)
		expected := want.String()
		meta := metaProg(p.text, "values", strconv.Itoa(nv), "shape", []string{"array then scalar", "JSONL of scalars", "JSONL of arrays", "long first value"}[shape],
			"tail", strconv.Quote(tail), "read error at the end", fmt.Sprint(ioErr), "input (start)", short(strconv.Quote(string(data))))
		oracle := func(i Resp) string {
			if i["class"] != "json" {
				return "the stream ends with malformed input / a read error: outcome " + i["class"] + " instead of a JSON input error"
			}
			if got := string(i.Bytes("out")); got != expected {
				lg, le := lastLine(strings.TrimSuffix(strings.TrimSuffix(got, "E\n"), "\n")), lastLine(strings.TrimSuffix(strings.TrimSuffix(expected, "E\n"), "\n"))
				return fmt.Sprintf("the output must hold every good value up to the last one: %d bytes ending with %q, expected %d bytes ending with %q", len(got), lg, len(expected), le)
			}
			return ""
		}
		reps := 10 + r.Intn(11)
		for rep := 0; rep < reps; rep++ {
			emit(Case{ID: fmt.Sprintf("%s/%d", g, rep), Req: req, Fields: fields, Group: g, GroupFields: fields, Meta: meta, Oracle: oracle,
				ImplOnly: rep > 0, Fresh: rep < 5,
				NonTrivial: func(i Resp) bool { return i["class"] == "json" && i["out"] != "-" }})
		}
		if haveBin && !ioErr && len(files) == 1 {
			for rep := 0; rep < 3; rep++ {
				emit(Case{ID: fmt.Sprintf("%s/bin%d", g, rep), Req: CliReq([]string{p.text, name}, nil, false, []CliFile{{Name: name, Data: data}}, ""), Fields: c14CliFields,
					ImplOnly: rep > 0, Group: g + "b", GroupFields: []string{"exit", "out", "stderr"}, Meta: meta, NonTrivial: c14NT,
					Oracle: func(i Resp) string {
						if w := c14Basic(i); w != "" || i["exit"] == "" {
							return w
						}
						if i["exit"] == "0" {
							return "the stream ends with malformed input: exit status 0"
						}
						if got := string(i.Bytes("out")); got != expected {
							return fmt.Sprintf("the binary's stdout must hold every good value up to the last one: %d bytes, expected %d bytes ending with %q", len(got), len(expected), lastLine(strings.TrimSuffix(expected, "E\n")))
						}
						return ""
					}})
			}
		}
	}
}

func init() {
	register(Family{
		Name: "read-boundaries", Prop: "C10",
		Rule: "inputs that start with bytes that are not JSON — the UTF-8 byte order mark EF BB BF, its first byte, its first two bytes, the mark twice, the mark around white space, near-marks, UTF-16 marks, NUL, no-break / zero-width spaces, RS, form feed — or with nothing / white space, followed by an array of records, a record, scalars, nothing, or truncated JSON; alone, as the second file, or followed by another file; delivered as much as the decoder asks for (compared with the model; reference of the Group; first round also in a fresh process) and in EVERY chunking of the first four bytes (1+3, 2+2, 3+1, 1+1+2, 1+2+1, 2+1+1, 1+1+1+1, 4, then the rest), as exact bursts, with empty reads in between, one byte per read, everything together with io.EOF: all deliveries must agree on class, out, file (Group) and with the model; oracle: a non-JSON prefix is a JSON input error naming the file. Through the REAL BINARY: the same bytes on a stdin pipe at once, from a regular file, and staged (1-3 bytes, a pause, the rest): same exit status, stdout, diagnostic present",
		Gen:  c10ReadBoundaries,
	})
	register(Family{
		Name: "repeat-after-fault", Prop: "C10",
		Rule: "streams of 2-400 good values (one array then a scalar, JSONL of scalars, JSONL of small arrays, one long value then short ones) followed by a malformed tail (stray byte, open bracket, cut literal or string, lone comma, a byte order mark) or a failing reader, under rules that are fast or deliberately slower than the decoder (busy loops in BEGINFILE / pattern / ENDFILE rules), sometimes followed by a second file that must never be read; the identical request 10-20 times in pooled worker processes, the first five also in brand-new processes (Fresh), and three times through the real binary: one Group on class, out, file (binary: exit, stdout, stderr); the first compared with the model; closed-form oracle: a JSON input error after the complete output of EVERY good value, the last one included",
		Gen:  c10RepeatAfterFault,
	})
}

// ---------------------------------------------------------------------------------------
// (f) delivery-kinds: the result depends on the input BYTES, not on the kind of file they come
// through. The same bytes reach the real binary as a regular file, as a named pipe (FIFO: everything
// before the binary reads, everything after it has started, a part before and the rest after), as /dev/stdin named on the command line with
// stdin a pipe / a regular file / a pipe fed in two parts, as standard input without a name (pipe,
// regular file, socket), as one of two or three named inputs (before and after a regular file), and
// -- for the bytes the kernel itself serves -- as a file below /proc/sys (stat size 0, content
// not empty) against a regular file with the same content, /dev/null against an empty file. Inputs:
// JSONL of records, one array, scalars, nothing, white space, truncated and malformed text, 5 000
// and 70 000 bytes (more than a pipe holds); with and without -o (- and a path), -f, -r. All
// deliveries of one scenario are one Group on exit status, stdout, diagnostic present, -o file; each
// is also compared with the model (which sees the same bytes in a plain file of that name).
// A reader that trusts the stat size, the first read, or seeks, gives different answers.
// ---------------------------------------------------------------------------------------

// every program prints in BEGIN: the binary opens all its inputs before it runs anything, so once
// that line is out the harness knows the named pipe has a reader and may close its own end
var c10DeliveryProgs = []string{
	"BEGIN { n = 0; print \"start\" } { n++; print $.name, $.v } END { print \"records\", n }",
	"BEGIN { print \"start\" } { print $index, $ }",
	"BEGIN { print \"start\" } BEGINFILE { print \"bf\" } { s += $.v; print json($) } ENDFILE { print \"ef\", s }",
	"BEGIN { print \"start\" } { $.seen = true; n++ } END { print n }",
	"BEGIN { print \"start\" } $.v > 1 { print $.name } END { print \"done\" }",
	"BEGIN { print \"start\" } { print }",
}

func c10DeliveryData(r *rand.Rand, kind int) (string, []byte) {
	rec := func(i int) string {
		return fmt.Sprintf(`{"name":"%s%d","v":%d}`, string(rune('a'+i%26)), i, i%7+1)
	}
	big := func(target int, jsonl bool) []byte {
		var sb strings.Builder
		if !jsonl {
			sb.WriteString("[")
		}
		for i := 0; sb.Len() < target; i++ {
			if i > 0 {
				if jsonl {
					sb.WriteString("\n")
				} else {
					sb.WriteString(",")
				}
			}
			sb.WriteString(rec(i))
		}
		if jsonl {
			sb.WriteString("\n")
		} else {
			sb.WriteString("]\n")
		}
		return []byte(sb.String())
	}
	switch kind {
	case 0:
		return "three records, one per line", []byte(rec(0) + "\n" + rec(1) + "\n" + rec(2) + "\n")
	case 1:
		return "one array of records", []byte("[" + rec(0) + "," + rec(1) + ", " + rec(2) + "]")
	case 2:
		return "one record, no final newline", []byte(rec(3))
	case 3:
		return "nothing", nil
	case 4:
		return "white space only", []byte(" \n\t\n")
	case 5:
		return "truncated array", []byte("[" + rec(0) + "," + rec(1) + ",")
	case 6:
		return "records then a stray byte", []byte(rec(0) + "\n" + rec(1) + "\n}" + rec(2) + "\n")
	case 7:
		return "scalars", []byte("1 \"two\" null\n[3]\n")
	case 8:
		return "an array of about 5 000 bytes (more than one read of the decoder)", big(5000+r.Intn(300), false)
	case 9:
		return "JSONL of about 70 000 bytes (more than a pipe holds)", big(70000+r.Intn(3000), true)
	case 10:
		return "one byte", []byte("7")
	default:
		return "an array of about 300 000 bytes, truncated at the end", append(big(300000+r.Intn(999), false)[:300000], '"')
	}
}

func c10DeliveryKinds(r *rand.Rand, tier string, emit func(Case)) {
	if os.Getenv("JQAWK_BIN") == "" {
		emit(Case{ID: "no-binary", Req: "cli - - - -", ImplOnly: true, Oracle: c14Basic,
			Meta: map[string]string{"problem": "env JQAWK_BIN is not set; this family runs the real binary"}})
		return
	}
	gf := []string{"exit", "out", "err", "ofile", "ofexists"}
	withFlags := func(req string, flags ...string) string {
		for _, f := range flags {
			if f == "" {
				continue
			}
			if strings.HasSuffix(req, " -") {
				req = strings.TrimSuffix(req, "-") + f
			} else {
				req += "," + f
			}
		}
		return req
	}
	rounds := tierN(tier, 2, 14)
	scen := 0
	for round := 0; round < rounds; round++ {
		nKinds := 11
		if tier == "thorough" && round%5 == 0 {
			nKinds = 12
		}
		for kind := 0; kind < nKinds; kind++ {
			scen++
			what, data := c10DeliveryData(r, kind)
			prog := c10DeliveryProgs[(scen+round)%len(c10DeliveryProgs)]
			var flags []string
			ofile, oflag := "", ""
			switch (scen + round*2) % 4 {
			case 1:
				flags = append(flags, "-o", "-")
			case 2:
				ofile = "out.json"
				flags = append(flags, "-o", ofile)
				oflag = "o=" + hxs(ofile)
			}
			if chance(r, 0.25) {
				flags = append(flags, "-r", pick(r, []string{"$", "[$]", "$.v"}))
			}
			var disk0 []CliFile
			viaF := chance(r, 0.3)
			if viaF {
				flags = append(flags, "-f", "prog.jqawk")
				disk0 = append(disk0, CliFile{Name: "prog.jqawk", Data: []byte(prog)})
			}
			// argument list with the input under the given names
			argv := func(names ...string) []string {
				a := append([]string{}, flags...)
				if !viaF {
					a = append(a, prog)
				}
				return append(a, names...)
			}
			disk := func(fs ...CliFile) []CliFile { return append(append([]CliFile{}, disk0...), fs...) }
			g := fmt.Sprintf("deliver-%d", scen)
			n := 0
			add := func(how, req, modelReq string) {
				n++
				c := Case{ID: fmt.Sprintf("%s/%d", g, n), Req: req, Fields: c14CliFields, Group: g, GroupFields: gf, Oracle: c14Basic, NonTrivial: c14NT,
					Meta: metaProg(prog, "flags", strings.Join(flags, " "), "input", what+" ("+fmt.Sprint(len(data))+" bytes): "+short(strconv.Quote(string(data))), "delivery", how, "row", how, "col", what)}
				if modelReq != req {
					c.ModelReq = modelReq
				}
				if len(data) > 100000 {
					c.ImplOnly = true
				}
				emit(c)
			}
			cut := 0
			if len(data) > 0 {
				cut = 1 + r.Intn(len(data))
				if chance(r, 0.3) && len(data) > 4 {
					cut = 1 + r.Intn(4)
				}
			}
			// single input
			plain := CliReq(argv("in.json"), nil, false, disk(CliFile{Name: "in.json", Data: data}), ofile)
			add("regular file in.json", plain, plain)
			// a named pipe keeps its bytes only while somebody has it open: the harness writes the first
			// part, waits for the program's BEGIN line (w=1: the binary has opened its inputs by then),
			// writes the rest and closes
			fifo := func(first, rest []byte) string {
				return withFlags(CliStagedReq(argv("in.json"), "fifo", nil, nil, disk(CliFile{Name: "in.json", Fifo: true, Data: first, Rest: rest}), 1), oflag)
			}
			add("named pipe in.json, everything written before the binary reads", fifo(data, nil), plain)
			if len(data) > 0 {
				add("named pipe in.json, everything written once the binary has started", fifo(nil, data), plain)
			}
			if len(data) > 1 {
				add(fmt.Sprintf("named pipe in.json, %d bytes, then (once the binary has started) the rest", cut), fifo(data[:cut], data[cut:]), plain)
			}
			devModel := CliReq(argv("/dev/stdin"), nil, false, disk(CliFile{Name: "/dev/stdin", Data: data}), ofile)
			add("/dev/stdin named, stdin is a pipe", CliReq(argv("/dev/stdin"), data, true, disk(), ofile), devModel)
			add("/dev/stdin named, stdin is a regular file", CliStdinKindReq(argv("/dev/stdin"), data, "file", disk(), ofile), devModel)
			if len(data) > 1 && kind%2 == round%2 {
				add(fmt.Sprintf("/dev/stdin named, stdin is a pipe fed with %d bytes, a pause of 40 ms, the rest", cut),
					withFlags(CliStagedReq(argv("/dev/stdin"), "stdin", data[:cut], data[cut:], disk(), 1<<30), oflag, "d=40"), devModel)
			}
			stdinModel := CliReq(argv(), data, true, disk(), ofile)
			add("standard input without a name, a pipe", stdinModel, stdinModel)
			add("standard input without a name, a regular file", CliStdinKindReq(argv(), data, "file", disk(), ofile), stdinModel)
			add("standard input without a name, a socket", CliStdinKindReq(argv(), data, "socket", disk(), ofile), stdinModel)
			if len(data) == 0 {
				add("/dev/null named", CliReq(argv("/dev/null"), nil, false, disk(), ofile), CliReq(argv("/dev/null"), nil, false, disk(CliFile{Name: "/dev/null"}), ofile))
				add("standard input is /dev/null", CliStdinKindReq(argv(), nil, "null", disk(), ofile), stdinModel)
			}
			// one of several inputs: -o then fails whatever the delivery, and must fail the same way
			if kind%2 == 0 || tier == "thorough" {
				other := CliFile{Name: "other.json", Data: []byte("[{\"name\":\"o\",\"v\":9}]\n")}
				for pos := 0; pos < 2; pos++ {
					g2 := fmt.Sprintf("%s-with-other-%d", g, pos)
					names := func(x string) []string {
						if pos == 0 {
							return []string{x, "other.json"}
						}
						return []string{"other.json", x}
					}
					k := 0
					add2 := func(how, req, modelReq string) {
						k++
						c := Case{ID: fmt.Sprintf("%s/%d", g2, k), Req: req, Fields: c14CliFields, Group: g2, GroupFields: gf, Oracle: c14Basic, NonTrivial: c14NT, ImplOnly: len(data) > 100000,
							Meta: metaProg(prog, "flags", strings.Join(flags, " "), "arguments", strings.Join(names("X"), " "), "input X", what+": "+short(strconv.Quote(string(data))), "delivery of X", how, "row", how+" among several inputs", "col", what)}
						if modelReq != req {
							c.ModelReq = modelReq
						}
						emit(c)
					}
					p2 := CliReq(argv(names("in.json")...), nil, false, disk(other, CliFile{Name: "in.json", Data: data}), ofile)
					add2("regular file", p2, p2)
					add2("named pipe, one write", withFlags(CliStagedReq(argv(names("in.json")...), "fifo", nil, nil, disk(other, CliFile{Name: "in.json", Fifo: true, Data: data}), 1), oflag), p2)
					if len(data) > 1 {
						add2("named pipe, two writes", withFlags(CliStagedReq(argv(names("in.json")...), "fifo", nil, nil, disk(other, CliFile{Name: "in.json", Fifo: true, Data: data[:cut], Rest: data[cut:]}), 1), oflag), p2)
					}
					d2 := CliReq(argv(names("/dev/stdin")...), nil, false, disk(other, CliFile{Name: "/dev/stdin", Data: data}), ofile)
					add2("/dev/stdin, a pipe", CliReq(argv(names("/dev/stdin")...), data, true, disk(other), ofile), d2)
					add2("/dev/stdin, a regular file", CliStdinKindReq(argv(names("/dev/stdin")...), data, "file", disk(other), ofile), d2)
				}
			}
		}
		// $file is the name given on the command line, whatever is behind it
		{
			scen++
			_, data := c10DeliveryData(r, round%3)
			prog := "BEGIN { print \"start\" } BEGINFILE { print \"file\", $file } { print $file, $index, $ } ENDFILE { print \"end\", $file }"
			g := fmt.Sprintf("deliver-%d-same-name", scen)
			plain := CliReq([]string{prog, "in.json"}, nil, false, []CliFile{{Name: "in.json", Data: data}}, "")
			meta := func(how string) map[string]string {
				return metaProg(prog, "input", strconv.Quote(string(data)), "delivery", how, "row", how, "col", "$file printed")
			}
			cut := 1 + r.Intn(len(data)-1)
			emit(Case{ID: g + "/file", Req: plain, Fields: c14CliFields, Group: g, GroupFields: gf, Oracle: c14Basic, NonTrivial: c14NT, Meta: meta("regular file in.json")})
			emit(Case{ID: g + "/fifo", Req: CliStagedReq([]string{prog, "in.json"}, "fifo", nil, nil, []CliFile{{Name: "in.json", Fifo: true, Data: data[:cut], Rest: data[cut:]}}, 1), ModelReq: plain,
				Fields: c14CliFields, Group: g, GroupFields: gf, Oracle: c14Basic, NonTrivial: c14NT, Meta: meta("named pipe in.json, two writes")})
		}
		// files whose content the kernel makes up when they are read: stat says 0 bytes, a read gives
		// a number and a newline (a JSON document). The regular file holds what was read just now.
		for pi, path := range []string{"/proc/sys/kernel/pid_max", "/proc/sys/kernel/ngroups_max", "/proc/sys/fs/file-max", "/proc/sys/kernel/threads-max"} {
			content, err := os.ReadFile(path)
			if err != nil || len(content) == 0 || len(content) > 64 || (pi+round)%2 == 1 && tier != "thorough" {
				continue
			}
			scen++
			prog := pick(r, []string{"{ print \"value\", $ } END { print \"end\" }", "{ n++; print $ + 1 } ENDFILE { print n }", "{ print }"})
			ofile, oargs := "", []string{}
			if chance(r, 0.5) {
				ofile, oargs = "out.json", []string{"-o", "out.json"}
			}
			g := fmt.Sprintf("deliver-%d-procfs", scen)
			meta := func(how string) map[string]string {
				return metaProg(prog, "input", strconv.Quote(string(content)), "delivery", how, "row", how, "col", "kernel-made content")
			}
			plain := CliReq(append(append([]string{}, oargs...), prog, "copy.txt"), nil, false, []CliFile{{Name: "copy.txt", Data: content}}, ofile)
			emit(Case{ID: g + "/copy", Req: plain, Fields: c14CliFields, Group: g, GroupFields: gf, Oracle: c14Basic, NonTrivial: c14NT, Meta: meta("regular file with the same bytes")})
			emit(Case{ID: g + "/proc", Req: CliReq(append(append([]string{}, oargs...), prog, path), nil, false, nil, ofile),
				ModelReq: CliReq(append(append([]string{}, oargs...), prog, path), nil, false, []CliFile{{Name: path, Data: content}}, ofile),
				Fields:   c14CliFields, Group: g, GroupFields: gf, Oracle: c14Basic, NonTrivial: c14NT, Meta: meta(path + " (stat size 0)")})
		}
	}
}

func init() {
	register(Family{
		Name: "delivery-kinds", Prop: "C10",
		Rule: "the real binary on the same input bytes delivered as a regular file (compared with the model; reference of the Group), a named pipe (everything written before the binary reads / after it has started / a part before and the rest after), /dev/stdin named explicitly with stdin a pipe / a regular file / a pipe fed in two parts, standard input without a name (pipe, regular file, socket; /dev/null for nothing), as the first or the last of two named inputs, and -- content made up by the kernel, stat size 0 -- files below /proc/sys against a regular copy; inputs: JSONL, an array, one record, nothing, white space, truncated, a stray byte, scalars, 5 000 bytes, 70 000 bytes (more than a pipe holds), thorough 300 000; 6 programs (none prints $file; one same-name pair that does), rotating -o - / -o FILE / none, -f, -r: every delivery of a scenario must give the same exit status, stdout, diagnostic flag and -o file (Group), and what the model says for the bytes in a plain file of that name; non-trivial = the binary produced stdout, stderr or an -o file",
		Gen:  c10DeliveryKinds,
	})
}

// ---------------------------------------------------------------------------------------
// (f) environments: the result is a function of program, selectors and input -- not of the
// process environment. The REAL BINARY is run on the same (program, selectors, input, -o FILE)
// under a list of environments (cli flag e=): TMPDIR unset / naming a missing directory / a
// regular file / a directory without write permission / an empty directory on another file
// system / the working directory itself; HOME, USER, PATH unset; LANG / LC_ALL / TZ / GOMAXPROCS /
// GOGC / GODEBUG / NO_COLOR / TERM values; umask 077 and 0; the working directory on another file
// system than the system temp dir (/dev/shm) and deep down a path with blanks and non-ASCII
// names; -o targets in the working directory, in sub-directories, over an existing file, over
// the INPUT file, "-" and none. One Group per scenario: exit status, stdout, stderr and the bytes
// of the -o file must be the same in every environment; the plain run is compared with the
// model; oracle: when the library run (in the generator) succeeds the binary exits 0 and the -o
// file holds GetRootJson's text.
// ---------------------------------------------------------------------------------------

var c10Envs = []struct{ spec, what string }{
	{"-TMPDIR", "TMPDIR unset"},
	{"TMPDIR=@MISSING@", "TMPDIR names a directory that does not exist"},
	{"TMPDIR=@FILE@", "TMPDIR names a regular file"},
	{"TMPDIR=@RODIR@", "TMPDIR names a directory without write permission"},
	{"TMPDIR=@SHM@", "TMPDIR names an empty directory on another file system (/dev/shm)"},
	{"TMPDIR=@TMP@", "TMPDIR names a fresh empty directory"},
	{"TMPDIR=@DIR@", "TMPDIR names the working directory"},
	{"TMPDIR=", "TMPDIR empty"},
	{"TMPDIR=relative/tmp", "TMPDIR relative and missing"},
	{"TMPDIR=/dev/null", "TMPDIR = /dev/null"},
	{"root=shm", "working directory on another file system than the system temp dir"},
	{"root=shm;TMPDIR=@TMP@", "working directory on /dev/shm, TMPDIR a fresh directory in the system temp dir"},
	{"root=shm;TMPDIR=@MISSING@", "working directory on /dev/shm, TMPDIR missing"},
	{"root=deep", "working directory deep down a path with blanks, quotes and non-ASCII names"},
	{"root=deep;TMPDIR=@SHM@", "deep working directory, TMPDIR on /dev/shm"},
	{"-HOME", "HOME unset"},
	{"HOME=@MISSING@", "HOME names a missing directory"},
	{"HOME=@RODIR@;XDG_CONFIG_HOME=@MISSING@;XDG_CACHE_HOME=@FILE@", "HOME read-only, XDG directories unusable"},
	{"-HOME;-USER;-LOGNAME;-PATH;-TMPDIR;-LANG;-LC_ALL;-TERM;-PWD", "nearly empty environment"},
	{"PWD=/nonexistent", "PWD lies"},
	{"LANG=C;LC_ALL=C", "C locale"},
	{"LANG=de_DE.UTF-8;LC_ALL=de_DE.UTF-8;LC_NUMERIC=de_DE.UTF-8", "a locale with a decimal comma"},
	{"LC_ALL=tr_TR.UTF-8;LANG=tr_TR.UTF-8", "Turkish locale (dotless i)"},
	{"LC_ALL=POSIX;LC_COLLATE=C;LANGUAGE=fr", "POSIX locale, LANGUAGE=fr"},
	{"TZ=Pacific/Kiritimati", "another time zone"},
	{"GOMAXPROCS=1;GOGC=1", "one processor, eager collector"},
	{"GOMAXPROCS=64;GOGC=off", "many processors, no collector"},
	{"GODEBUG=madvdontneed=1,gctrace=0;GOTRACEBACK=all", "Go runtime settings"},
	{"NO_COLOR=1;TERM=dumb;COLUMNS=20;LINES=3", "terminal settings"},
	{"TERM=xterm-256color;CLICOLOR_FORCE=1;FORCE_COLOR=3", "colour forced"},
	{"JQAWK_DEBUG=1;DEBUG=1;VERBOSE=1;JQAWK_OUTPUT=other.json;JQAWK_ROOT=$.zzz", "variables a tool might read"},
	{"umask=077", "umask 077"},
	{"umask=0", "umask 0"},
	{"umask=277;TMPDIR=@SHM@", "umask 277, TMPDIR on /dev/shm"},
	{"umask=022;root=shm;-HOME;LC_ALL=C", "umask 022, /dev/shm, no HOME, C locale"},
}

func c10Environments(r *rand.Rand, tier string, emit func(Case)) {
	if os.Getenv("JQAWK_BIN") == "" {
		emit(Case{ID: "no-binary", Req: "cli - - - -", ImplOnly: true, Oracle: c14Basic,
			Meta: map[string]string{"problem": "env JQAWK_BIN is not set; this family runs the real binary"}})
		return
	}
	n := tierN(tier, 36, 220)
	perScenario := tierN(tier, 9, 18)
	progs := []string{`$ is object { $.n = $.n + 1; print "n is now", $.n }`, `{ }`, ``, `$ is object { $.seen = true }`, `$ is object { $.x++ }`, `$ is object { $.added = "some more text" }`,
		`{ print "seen", $file }`, `BEGIN { print "start" } END { print "done" }`, `{ $ = [$, $] }`, `BEGINFILE { $ = {"replaced": $file} }`,
		`$.name is string { print $.name.upper(), $.name.lower() }`, `{ printf("%9f|%v|%-4s|\n", 3.14159, 42, "é") }`, `{ print 1 / 3, 100000 * 100000 * 100000 * 100000 * 100000, 0.1 + 0.2 }`}
	failing := []string{`{ x = 1 / 0 }`, `{ print `, `{ $.self = $ }`, `{ print "before"; f() }`}
	for i := 0; i < n; i++ {
		g := fmt.Sprintf("env-%d", i)
		prog := pick(r, progs)
		if i == 0 {
			prog = progs[0]
		}
		fails := i > 0 && i%5 != 2 && chance(r, 0.12)
		if fails {
			prog = pick(r, failing)
		}
		doc := c14ODoc(r)
		if i == 0 || chance(r, 0.25) {
			doc = pick(r, []string{`{"n": 41, "name": "x"}`, `[{"n": 1, "name": "Beth"}, {"n": 2, "name": "İstanbul ı"}]`, `{"name": "é"}` + "\n" + `{"name": "z", "n": 2.5}`})
		}
		// every fifth scenario is about the locale: case mapping, number formatting, sorting
		locale := i%5 == 2
		if locale {
			prog = pick(r, []string{`$.name is string { print $.name.upper(), $.name.lower(), $.n / 4 }`, `{ printf("%9f|%v|%s|%f\n", $.n / 8, 42, $.name, 1234567.5) } END { print [10, 9, 2.5, 1000000].sort(), ["b", "a", "B", "i", "I"].sort() }`,
				`$ is object { $.up = $.name.upper(); $.lo = $.name.lower(); $.q = $.n / 3; $.big = 1234567.25 * $.n }`})
			doc = pick(r, []string{`[{"n": 1, "name": "Beth i"}, {"n": 2.5, "name": "Iris Ii"}]`, `{"name": "quiet title", "n": 10}` + "\n" + `{"name": "I", "n": 2.5}`})
		}
		badInput := i > 0 && !locale && chance(r, 0.06)
		if badInput {
			doc = pick(r, c14BadStreams)
		}
		// where the JSON goes
		omode := pick(r, []string{"file", "file", "file", "sub", "subsub", "existing", "input", "odd-name", "stdout", "none"})
		if i == 0 {
			omode = "file"
		}
		target, ofile := "", ""
		disk := []CliFile{{Name: "in.json", Data: []byte(doc)}}
		switch omode {
		case "file":
			target = "out.json"
		case "sub":
			target = "sub/o.json"
			disk = append(disk, CliFile{Name: "sub", Dir: true})
		case "subsub":
			target = "a b/c/out put.json"
			disk = append(disk, CliFile{Name: "a b/c", Dir: true})
		case "existing":
			target = "result"
			disk = append(disk, CliFile{Name: "result", Data: []byte(pick(r, []string{"", "old", `{"old": [1, 2, 3], "long": "` + strings.Repeat("x", 3000) + `"}`}))})
		case "input":
			target = "in.json"
		case "odd-name":
			target = pick(r, []string{"o,1.json", "é.json", ".hidden", "out.json.tmp", "jqawk-123.json", "sub dir/o"})
			if target == "sub dir/o" {
				disk = append(disk, CliFile{Name: "sub dir", Dir: true})
			}
		case "stdout":
			target = "-"
		}
		var argv []string
		if target != "" {
			argv = c14Flag(r, "o", target)
			if target != "-" {
				ofile = target
			}
		}
		var sels []string
		if chance(r, 0.2) {
			sel := pick(r, []string{"$", "$.name", "$[0]", "$.list"})
			sels = []string{sel}
			argv = append(argv, c14Flag(r, "r", sel)...)
		}
		useStdin := chance(r, 0.15) && omode != "input"
		var plain string
		if useStdin {
			argv = append(argv, prog)
			plain = CliReq(argv, []byte(doc), true, disk[1:], ofile)
		} else {
			argv = append(argv, prog, "in.json")
			plain = CliReq(argv, nil, false, disk, ofile)
		}
		fname := "in.json"
		if useStdin {
			fname = "<stdin>"
		}
		ref := c14InProc(prog, sels, []File{{Name: fname, Data: []byte(doc)}}, true)
		libOK := ref["class"] == "ok" && ref["json"] != "ERR"
		wantJS := string(ref.Bytes("json"))
		oracle := func(i Resp) string {
			if w := c14Basic(i); w != "" {
				return w
			}
			if i["exit"] == "" {
				return "the binary gave no exit status: " + i.String()
			}
			if libOK && (target != "" || ref["class"] == "ok") {
				if i["exit"] != "0" {
					return "the library run succeeds, the binary exits with " + i["exit"] + ": " + short(string(i.Bytes("stderr")))
				}
				if ofile != "" && string(i.Bytes("ofile")) != wantJS {
					return fmt.Sprintf("the -o file holds %q (exists=%s); the run's JSON is %q (GetRootJson)", short(string(i.Bytes("ofile"))), i["ofexists"], short(wantJS))
				}
			}
			if ref["class"] != "ok" && i["exit"] == "0" {
				return "the library run fails (" + ref["class"] + "), the binary exits with 0"
			}
			return ""
		}
		meta := func(what, spec string) map[string]string {
			return metaProg(prog, "arguments", strings.Join(argv, " ␣ "), "input", short(doc), "-o", omode, "environment", what, "environment spec", spec, "row", "-o "+omode)
		}
		nt := func(i Resp) bool { return i["exit"] != "" && (i["ofexists"] == "1" || i["out"] != "-") }
		gf := []string{"exit", "out", "stderr", "ofile", "ofexists"}
		emit(Case{ID: g + "/plain", Req: plain, Fields: c14CliFields, Group: g, GroupFields: gf, Meta: meta("the harness's own environment (reference of the group)", ""), Oracle: oracle, NonTrivial: nt})
		// the environments: the TMPDIR and file-system ones always (a sample), the others at random
		idx := r.Perm(len(c10Envs))
		if locale {
			var first []int
			for k, e := range c10Envs {
				if strings.Contains(e.spec, "LC_ALL") || strings.Contains(e.spec, "LANG") {
					first = append(first, k)
				}
			}
			idx = append(first, idx...)
		}
		if i < len(c10Envs) {
			// every environment is used with the first scenarios' shapes at least once per run
			idx = append([]int{i}, idx...)
		}
		used := 0
		seen := map[int]bool{}
		for _, k := range idx {
			if used >= perScenario {
				break
			}
			if seen[k] {
				continue
			}
			seen[k] = true
			used++
			e := c10Envs[k]
			emit(Case{ID: fmt.Sprintf("%s/e%d", g, k), Req: CliEnvReq(plain, e.spec), ModelReq: plain, Fields: c14CliFields, Group: g, GroupFields: gf,
				Meta: meta(e.what, e.spec), Oracle: oracle, NonTrivial: nt})
		}
	}
}

func init() {
	register(Family{
		Name: "environments", Prop: "C10",
		Rule: "the REAL BINARY on the same (program, selectors, input, -o FILE) under different process environments (cli flag e=): TMPDIR unset / missing / a regular file / a read-only directory / an empty directory on another file system (/dev/shm) / the working directory / empty / relative; HOME, USER, PATH, PWD unset or lying; LANG, LC_ALL, LC_NUMERIC, LANGUAGE, TZ, GOMAXPROCS, GOGC, GODEBUG, NO_COLOR, TERM, made-up JQAWK_* variables; umask 077 / 0 / 277; the working directory on /dev/shm (another file system than the system temp dir) and deep down a path with blanks, quotes and non-ASCII names. -o targets: in the working directory, one and two directories down, over an existing file, over the input file, odd names, `-`, none; input from a file or stdin; with and without -r; 1 in 8 programs fails, 1 in 16 inputs is not JSON. One Group per scenario: exit, stdout, stderr and the bytes of the -o file equal the plain run's in every environment; all compared with the model (ModelReq: the plain request); oracle: the library run in the generator succeeds => exit 0 and the -o file holds GetRootJson's text",
		Gen:  c10Environments,
	})
}
