package main

// The implementation side: answers protocol requests by calling the real jqawk
// library in-process (built from /repo's working tree with -tags verif).

import (
	"bufio"
	"encoding/json"
	"errors"
	"fmt"
	"io"
	"os"
	"runtime/debug"
	"strconv"
	"strings"

	lang "github.com/alligator/jqawk/src"
)

var errInjected = errors.New("injected read failure")

// chunkReader serves data in reads of the given sizes (then as much as asked),
// ends with io.EOF or an injected error, and records how many bytes had been
// handed out at each Read call. A negative chunk size is a Read that returns
// (0, nil); with dataErr the Read that hands out the last byte returns the
// terminal error in the same call (both are legal for an io.Reader).
type chunkReader struct {
	data    []byte
	off     int
	chunks  []int
	ci      int
	ioErr   bool
	dataErr bool
	exact   bool  // chunks are arrival bursts: a burst larger than the caller's buffer is served over several Reads
	rem     int   // exact: bytes left of the current burst
	done    bool  // the terminal error has been returned: it is returned ever after
	served  []int // bytes served so far, per Read call
}

func (r *chunkReader) term() error {
	if r.ioErr {
		return errInjected
	}
	return io.EOF
}

func (r *chunkReader) Read(p []byte) (int, error) {
	if r.off >= len(r.data) {
		r.served = append(r.served, r.off)
		// empty reads scheduled after the last data chunk still come before the error
		for !r.done && r.ci < len(r.chunks) {
			c := r.chunks[r.ci]
			r.ci++
			if c < 0 {
				return 0, nil
			}
		}
		r.done = true
		return 0, r.term()
	}
	if len(p) == 0 {
		return 0, nil
	}
	n := len(p)
	if r.exact && r.rem > 0 {
		// the rest of a burst that did not fit into the previous buffer
		if r.rem < n {
			n = r.rem
		}
		if n > len(r.data)-r.off {
			n = len(r.data) - r.off
		}
		r.rem -= n
		copy(p, r.data[r.off:r.off+n])
		r.off += n
		r.served = append(r.served, r.off)
		if r.dataErr && r.off >= len(r.data) {
			r.done = true
			return n, r.term()
		}
		return n, nil
	}
	if r.ci < len(r.chunks) {
		c := r.chunks[r.ci]
		r.ci++
		if c < 0 {
			r.served = append(r.served, r.off)
			return 0, nil
		}
		if c < n {
			n = c
		} else if r.exact {
			r.rem = c - n
		}
	}
	if n > len(r.data)-r.off {
		n = len(r.data) - r.off
	}
	if n <= 0 {
		n = 1
	}
	copy(p, r.data[r.off:r.off+n])
	r.off += n
	r.served = append(r.served, r.off)
	if r.dataErr && r.off >= len(r.data) {
		r.done = true
		return n, r.term()
	}
	return n, nil
}

// outWriter collects output and, for the streaming property, remembers how many
// input bytes had been served when each write happened.
type outWriter struct {
	buf    []byte
	reader *chunkReader
	marks  []string
}

func (w *outWriter) Write(p []byte) (int, error) {
	w.buf = append(w.buf, p...)
	if w.reader != nil {
		w.marks = append(w.marks, fmt.Sprintf("%d@%d", len(w.buf), w.reader.off))
	}
	return len(p), nil
}

func parseFilesField(s string) ([]File, error) {
	if s == "-" {
		return nil, nil
	}
	var files []File
	for _, f := range strings.Split(s, ";") {
		parts := strings.Split(f, ":")
		if len(parts) < 3 {
			return nil, fmt.Errorf("bad file field")
		}
		name, err := unhx(parts[0])
		if err != nil {
			return nil, err
		}
		data, err := unhx(parts[1])
		if err != nil {
			return nil, err
		}
		fl := File{Name: string(name), Data: data, IOErr: parts[2] == "i"}
		if len(parts) >= 4 && strings.HasSuffix(parts[3], "!") {
			fl.DataErr = true
			parts[3] = strings.TrimSuffix(parts[3], "!")
		}
		if len(parts) >= 4 && parts[3] != "" {
			for _, c := range strings.Split(parts[3], ",") {
				if c == "x" {
					fl.Exact = true
					continue
				}
				if c == "z" {
					fl.Chunks = append(fl.Chunks, -1)
					continue
				}
				n, err := strconv.Atoi(c)
				if err != nil {
					return nil, err
				}
				fl.Chunks = append(fl.Chunks, n)
			}
		}
		files = append(files, fl)
	}
	return files, nil
}

// msgField makes an error message safe for the one-line protocol: blanks and
// control characters (a message may quote a newline from the program) become _
func msgField(s string) string {
	return strings.Map(func(r rune) rune {
		if r <= ' ' || r == 0x7f {
			return '_'
		}
		return r
	}, s)
}

func errFields(err error) string {
	switch e := err.(type) {
	case lang.SyntaxError:
		return fmt.Sprintf("class=syntax line=%d col=%d src=%s msg=%s", e.Line, e.Col, hxs(e.SrcLine), msgField(e.Message))
	case lang.RuntimeError:
		return fmt.Sprintf("class=runtime line=%d col=%d src=%s msg=%s", e.Line, e.Col, hxs(e.SrcLine), msgField(e.Message))
	case lang.JsonError:
		return fmt.Sprintf("class=json file=%s msg=%s", hxs(e.FileName), msgField(e.Message))
	default:
		msg := err.Error()
		switch msg {
		case "next", "exit", "break", "continue", "return":
			return "class=sentinel msg=" + msg
		}
		return "class=other msg=" + msgField(msg)
	}
}

// seqShared: while a "seq" request runs, consecutive `run` sub-requests whose selector field
// (files field) has the same text are handed the SAME []string ([]lang.InputFile) object, as an
// embedder does that keeps its selector list and file list in one slice and calls EvalProgram
// several times: what a run does to its arguments is seen by the next run. The slices are
// looked up by the text of the request field; the readers are new for every run.
type seqShared struct {
	sels  map[string][]string
	files map[string][]lang.InputFile
}

var curShared *seqShared

func implRun(fields []string) (resp string) {
	var out outWriter
	defer func() {
		if r := recover(); r != nil {
			resp = fmt.Sprintf("R class=panic out=%s msg=%s", hx(out.buf), msgField(fmt.Sprint(r)))
		}
	}()
	prog, err := unhx(fields[1])
	if err != nil {
		return "R class=badrequest"
	}
	var sels []string
	if fields[2] != "-" {
		for _, s := range strings.Split(fields[2], ",") {
			b, err := unhx(s)
			if err != nil {
				return "R class=badrequest"
			}
			sels = append(sels, string(b))
		}
	}
	files, err := parseFilesField(fields[3])
	if err != nil {
		return "R class=badrequest"
	}
	var inputs []lang.InputFile
	var readers []*chunkReader
	for _, f := range files {
		r := &chunkReader{data: f.Data, chunks: f.Chunks, ioErr: f.IOErr, dataErr: f.DataErr, exact: f.Exact}
		readers = append(readers, r)
		inputs = append(inputs, lang.InputFile{Name: f.Name, Reader: r})
	}
	if len(readers) == 1 {
		out.reader = readers[0]
	}
	// the arguments as the request states them, and (inside a seq request) the objects shared
	// with the earlier runs of the sequence, in whatever state those left them
	wantSels := append([]string{}, sels...)
	if curShared != nil {
		if sh, ok := curShared.sels[fields[2]]; ok {
			sels = sh
		} else if sels != nil {
			sels = append(make([]string, 0, len(sels)), sels...) // len == cap, like a slice literal
			curShared.sels[fields[2]] = sels
		}
		if sh, ok := curShared.files[fields[3]]; ok && len(sh) == len(inputs) {
			for k := range sh {
				sh[k].Reader = inputs[k].Reader
			}
			inputs = sh
		} else if inputs != nil {
			curShared.files[fields[3]] = inputs
		}
	}
	// flag z: the run is made with fuzzing=true, as the project's own fuzz targets call the
	// library (loops stop with a runtime error after 10 000 rounds). The model has no such mode:
	// cases with this flag are implementation-only (or carry a ModelReq without it)
	ev, err := lang.EvalProgram(string(prog), inputs, sels, &out, strings.Contains(fields[4], "z"))
	// a run must not modify its arguments: reported only when it did
	argsmod := ""
	if len(sels) != len(wantSels) {
		argsmod = " argsmod=selectors"
	}
	for k := range wantSels {
		if k < len(sels) && sels[k] != wantSels[k] {
			argsmod = " argsmod=selectors"
		}
	}
	for k := range files {
		if k < len(inputs) && inputs[k].Name != files[k].Name {
			argsmod = " argsmod=files"
		}
	}
	if argsmod != "" {
		defer func() { resp += argsmod }()
	}
	marks := ""
	if len(files) == 1 && (len(files[0].Chunks) > 0 || files[0].DataErr || files[0].Exact) {
		marks = " marks=" + strings.Join(out.marks, ",")
		if len(out.marks) == 0 {
			marks = " marks=-"
		}
	}
	if err != nil {
		return "R " + errFields(err) + " out=" + hx(out.buf) + marks
	}
	js := "-"
	if strings.Contains(fields[4], "j") {
		j, jerr := ev.GetRootJson()
		if jerr != nil {
			js = "ERR"
		} else {
			js = hxs(j)
		}
	}
	if strings.Contains(fields[4], "c") {
		// huge JSON (deeply nested documents indent to megabytes): the compact form, the raw
		// length and whether the raw text is the canonical indentation, for the JSON of the
		// root and for a standard output that consists of one JSON document
		jf := "json=-"
		if j, jerr := ev.GetRootJson(); jerr != nil {
			jf = "json=ERR"
		} else if f, ok := summariseJSON("json", j); ok {
			jf = f
		} else {
			jf = "json=" + hxs(j) + " jsoncanon=0"
		}
		of, ok := summariseJSON("out", string(out.buf))
		if !ok {
			of = "out=" + hx(out.buf)
		}
		return fmt.Sprintf("R class=ok %s %s depth=%d%s", of, jf, hookDepth(ev), marks)
	}
	return fmt.Sprintf("R class=ok out=%s json=%s depth=%d%s", hx(out.buf), js, hookDepth(ev), marks)
}

// canonIndentEqual reports whether raw is exactly encoding/json's two-space indentation of the
// compact JSON text `compact` (what MarshalIndent(v, "", "  ") produces), optionally followed by
// `tail`. The expected text is produced on the fly and compared in place: a document nested
// 10 000 levels indents to 200 MB.
func canonIndentEqual(raw string, compact []byte, tail string) bool {
	pos := 0
	put := func(c byte) bool {
		if pos >= len(raw) || raw[pos] != c {
			return false
		}
		pos++
		return true
	}
	newline := func(depth int) bool {
		if !put('\n') {
			return false
		}
		n := 2 * depth
		if pos+n > len(raw) {
			return false
		}
		for k := 0; k < n; k++ {
			if raw[pos+k] != ' ' {
				return false
			}
		}
		pos += n
		return true
	}
	depth, needIndent, inStr, esc := 0, false, false, false
	for _, c := range compact {
		if inStr {
			if !put(c) {
				return false
			}
			switch {
			case esc:
				esc = false
			case c == '\\':
				esc = true
			case c == '"':
				inStr = false
			}
			continue
		}
		if needIndent && c != ']' && c != '}' {
			needIndent = false
			depth++
			if !newline(depth) {
				return false
			}
		}
		switch c {
		case '{', '[':
			needIndent = true
			if !put(c) {
				return false
			}
		case ',':
			if !put(c) || !newline(depth) {
				return false
			}
		case ':':
			if !put(c) || !put(' ') {
				return false
			}
		case '}', ']':
			if needIndent {
				needIndent = false // an empty container stays closed up
			} else {
				depth--
				if !newline(depth) {
					return false
				}
			}
			if !put(c) {
				return false
			}
		default:
			if c == '"' {
				inStr = true
			}
			if !put(c) {
				return false
			}
		}
	}
	return raw[pos:] == tail || raw[pos:] == ""
}

// summariseJSON: for the `c` flag of run / the `z` flag of cli. If text is one JSON document
// (white space around it allowed) the answer carries, under the given field name, the hex of
// its COMPACT form instead of the text, the length of the text (<name>raw) and whether the text
// is exactly the canonical two-space indentation of it, optionally plus a final newline
// (<name>canon); ok=false if it is not a JSON document.
func summariseJSON(name, text string) (string, bool) {
	// white space outside strings removed, without copying the text (it may hold 200 MB)
	buf := make([]byte, 0, 4096)
	inStr, esc := false, false
	for k := 0; k < len(text); k++ {
		c := text[k]
		switch {
		case inStr:
			switch {
			case esc:
				esc = false
			case c == '\\':
				esc = true
			case c == '"':
				inStr = false
			}
		case c == ' ' || c == '\n' || c == '\t' || c == '\r':
			continue
		case c == '"':
			inStr = true
		}
		buf = append(buf, c)
	}
	if len(buf) == 0 || !json.Valid(buf) {
		return "", false
	}
	canon := 0
	if canonIndentEqual(text, buf, "\n") {
		canon = 1
	} else if !json.Valid([]byte(text)) {
		return "", false // blanks inside a number or a literal: the text itself is no JSON document
	}
	return fmt.Sprintf("%s=%s %sraw=%d %scanon=%d", name, hx(buf), name, len(text), name, canon), true
}

func implAnswer(line string) (resp string) {
	defer func() {
		if r := recover(); r != nil {
			resp = "R class=panic msg=" + msgField(fmt.Sprint(r))
		}
	}()
	if strings.HasPrefix(line, "seq ") {
		// "seq <req1>|<req2>|...": run the sub-requests in order in this process,
		// answer with the last one's response (history independence, C10)
		resp = "R class=badrequest"
		if curShared == nil {
			curShared = &seqShared{sels: map[string][]string{}, files: map[string][]lang.InputFile{}}
			defer func() { curShared = nil }()
		}
		for _, sub := range strings.Split(strings.TrimSpace(line[4:]), "|") {
			resp = implAnswer(sub)
		}
		return resp
	}
	fields := strings.Fields(line)
	if len(fields) == 0 {
		return "R class=badrequest"
	}
	switch fields[0] {
	case "run":
		if len(fields) != 5 {
			return "R class=badrequest"
		}
		return implRun(fields)
	case "cli":
		if len(fields) != 5 {
			return "R class=badrequest"
		}
		return implCli(fields)
	case "parse", "pexpr":
		src, err := unhx(fields[1])
		if err != nil {
			return "R class=badrequest"
		}
		var dump string
		if !hooksOn {
			return "R class=unmodelled why=hooks_off"
		}
		if fields[0] == "parse" {
			dump, err = hookDumpProgram(string(src))
		} else {
			dump, err = hookDumpExpr(string(src))
		}
		if err != nil {
			return "R " + errFields(err)
		}
		return "R class=ok dump=" + hxs(dump)
	case "lex":
		src, err := unhx(fields[1])
		if err != nil {
			return "R class=badrequest"
		}
		if !hooksOn {
			return "R class=unmodelled why=hooks_off"
		}
		return "R toks=" + hxs(hookTokens(string(src)))
	case "pos":
		src, err := unhx(fields[1])
		if err != nil {
			return "R class=badrequest"
		}
		n, err := strconv.Atoi(fields[2])
		if err != nil {
			return "R class=badrequest"
		}
		if !hooksOn {
			return "R class=unmodelled why=hooks_off"
		}
		s, l, c := hookLineCol(string(src), n)
		return fmt.Sprintf("R line=%d col=%d src=%s", l, c, hxs(s))
	}
	return "R class=badrequest"
}

// implWorkerMain is the "implworker" subcommand: a request/response loop.
func implWorkerMain() {
	// a runaway recursion in the implementation (e.g. rendering a cyclic value
	// without a cycle check) must die quickly, not after filling a 1 GB stack;
	// jqawk's own call-depth limit (4096) needs far less than this. but the claim of C01 covers
	// program texts up to 64 KiB, and 60 000 nested prefix operators need about 100 MB of Go
	// stack to evaluate (the real binary, with Go's 1 GB default, runs them): 64 MB here was a
	// false alarm of the harness
	mb := 512
	if v, err := strconv.Atoi(os.Getenv("VERIF_MAXSTACK_MB")); err == nil && v > 0 {
		mb = v
	}
	debug.SetMaxStack(mb << 20)
	in := bufio.NewReaderSize(os.Stdin, 1<<20)
	out := bufio.NewWriter(os.Stdout)
	for {
		line, err := in.ReadString('\n')
		if len(line) > 0 {
			fmt.Fprintln(out, implAnswer(line))
			out.Flush()
		}
		if err != nil {
			return
		}
	}
}
