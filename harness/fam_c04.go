package main

// C04 — JSON written by -o and json() is valid and equal to the value it
// represents; cyclic values and values JSON cannot express are errors.
//
// Every case is compared with the model on class, out, json. In addition the
// implementation's answer alone is checked with Go's own decoder in the harness
// (the property's replay oracle): re-parse of -o / json() output must equal the
// re-parse of the input (bit-exact numbers), or the tree the generator built; a
// cyclic / inexpressible value must give a runtime error (json()) or ERR (-o).
// deep-nesting (at the end of the file): documents and values nested up to 10 000 levels.

import (
	"encoding/json"
	"fmt"
	"math/rand"
	"os"
	"sort"
	"strings"
)

var c04Fields = []string{"class", "out", "json"}

// read-only programs: none of them may change the document.
var c04ReadOnlyProgs = []string{
	"{}",
	"{ }",
	"{ x = $.a }",
	"{ x = $; y = x }",
	"{ x = $.a.b.c; y = $[0]; z = $['a'] }",
	"{ x = $[7]; y = $[7] is null }",
	"{ if ($ is object || $ is array) { for (k in $) n++ } }",
	"{ if ($ is object || $ is array) { for (k, v in $) { s = s + k; t = v } } }",
	"{ if ($ is array) { l = $.length(); c = $.sort() } }",
	"{ o = {}; o.d = $; l = o.length(); p = o.pluck('d', 'zz') }",
	"{ j = json($) }",
	"{ n = n + 1; last = $ }",
	"BEGIN { x = 1 }",
	"END { y = 2 }",
	"BEGINFILE { z = $ }",
	"BEGINFILE { z = $ } ENDFILE { w = $ }",
	"BEGIN { x = 1 } { y = $ } END { z = y }",
	"$.a",
	"$ is array { x = $[0] }",
	"function id(v) { return v }\n{ x = id($) }",
	"{ x = $ is number && $ == 1; y = $ is string }",
	"{ match ($) { [a, b] => a, x => x }\n}",
}

func c04JSONField(i Resp) (string, interface{}, string) {
	if i["class"] != "ok" {
		return "", nil, "class=" + i["class"] + " msg=" + i["msg"] + " (the program cannot fail)"
	}
	if i["json"] == "ERR" || i["json"] == "-" || i["json"] == "" {
		return "", nil, "no JSON output: json=" + i["json"]
	}
	text := string(i.Bytes("json"))
	got, err := vgDecodeOne([]byte(text))
	if err != nil {
		return text, nil, "-o output is not valid JSON for Go's decoder: " + err.Error() + ": " + short(text)
	}
	return text, got, ""
}

// c04RootOracle: -o output re-parsed equals want.
func c04RootOracle(want interface{}) func(Resp) string {
	return func(i Resp) string {
		text, got, w := c04JSONField(i)
		if w != "" {
			return w
		}
		if !vgEqual(got, want) {
			return "-o output parses to a different value: want " + vgShow(want) + " got " + vgShow(got) + " text " + short(text)
		}
		return ""
	}
}

// c04OutOracle: the standard output is a sequence of JSON texts equal to want.
func c04OutOracle(want []interface{}) func(Resp) string {
	return func(i Resp) string {
		if i["class"] != "ok" {
			return "class=" + i["class"] + " msg=" + i["msg"] + " (json() of this value cannot fail)"
		}
		got, err := vgDecodeAll(i.Bytes("out"))
		if err != nil {
			return "json() output is not valid JSON for Go's decoder: " + err.Error() + ": " + short(string(i.Bytes("out")))
		}
		if len(got) != len(want) {
			return fmt.Sprintf("json() printed %d values, expected %d: %s", len(got), len(want), short(string(i.Bytes("out"))))
		}
		for k := range got {
			if !vgEqual(got[k], want[k]) {
				return fmt.Sprintf("json() value %d parses to a different value: want %s got %s", k, vgShow(want[k]), vgShow(got[k]))
			}
		}
		return ""
	}
}

// c04ErrOracle: json() of a cyclic / inexpressible value: a runtime error, output before it kept.
func c04ErrOracle(wantOut string) func(Resp) string {
	return func(i Resp) string {
		if i["class"] != "runtime" {
			return "json() of a cyclic or inexpressible value must be a runtime error, got class=" + i["class"] + " out=" + short(string(i.Bytes("out")))
		}
		if string(i.Bytes("out")) != wantOut {
			return "output before the error differs: " + short(string(i.Bytes("out")))
		}
		return ""
	}
}

// c04RootErrOracle: -o of a cyclic / inexpressible root: the program runs, writing the JSON fails.
func c04RootErrOracle(i Resp) string {
	if i["class"] != "ok" {
		return "the program must succeed, got class=" + i["class"] + " msg=" + i["msg"]
	}
	if i["json"] != "ERR" {
		return "-o of a cyclic or inexpressible root must be an error, got " + short(string(i.Bytes("json")))
	}
	return ""
}

func c04HasJSON(i Resp) bool {
	return i["class"] == "ok" && i["json"] != "-" && i["json"] != "" && i["json"] != "ERR"
}

// records of a root as the rule driver sees them
func c04Records(root interface{}) []interface{} {
	if arr, ok := root.([]interface{}); ok {
		return arr
	}
	return []interface{}{root}
}

// ---- selectors

var c04DotKeys = map[string]bool{"a": true, "b": true, "c": true, "d": true, "name": true, "k1": true, "A": true, "aa": true, "self": true}
var c04Methods = map[string]bool{"length": true, "push": true, "pop": true, "popfirst": true, "contains": true, "sort": true, "pluck": true, "split": true, "lower": true, "upper": true, "floor": true, "ceil": true, "round": true}

func c04KeyStep(r *rand.Rand, key string) (string, bool) {
	if c04DotKeys[key] && chance(r, 0.7) {
		return "." + key, true
	}
	for i := 0; i < len(key); i++ {
		if key[i] < 0x20 && key[i] != '\n' && key[i] != '\t' {
			return "", false
		}
	}
	lit, ok := strLit(r, key)
	if !ok {
		return "", false
	}
	return "[" + lit + "]", true
}

// c04Selector walks the decoded document and writes a selector for the path
// taken; returns the selector and the value it must select (missing members
// select null). ok=false: no selector could be written.
func c04Selector(r *rand.Rand, root interface{}) (string, interface{}, bool) {
	sel := "$"
	cur := root
	steps := r.Intn(4)
	if chance(r, 0.1) {
		steps = 0
	}
	for s := 0; s < steps; s++ {
		switch c := cur.(type) {
		case []interface{}:
			switch {
			case len(c) > 0 && chance(r, 0.7):
				i := r.Intn(len(c))
				sel += fmt.Sprintf("[%d]", i)
				cur = c[i]
			case len(c) > 0 && chance(r, 0.5):
				i := 1 + r.Intn(len(c))
				sel += fmt.Sprintf("[-%d]", i)
				cur = c[len(c)-i]
			case chance(r, 0.5):
				sel += fmt.Sprintf("[%d]", len(c)+r.Intn(3))
				cur = nil
			default:
				sel += ".zz"
				cur = nil
			}
		case map[string]interface{}:
			keys := make([]string, 0, len(c))
			for k := range c {
				keys = append(keys, k)
			}
			sort.Strings(keys)
			if len(keys) > 0 && chance(r, 0.8) {
				k := pick(r, keys)
				st, ok := c04KeyStep(r, k)
				if !ok {
					return "", nil, false
				}
				sel += st
				cur = c[k]
			} else {
				k := pick(r, []string{"zz", "q", "7"})
				if _, present := c[k]; present {
					return "", nil, false
				}
				if k == "7" {
					sel += "[7]"
				} else {
					sel += "." + k
				}
				cur = nil
			}
		default:
			// a scalar or null: any member of it is null (strings are only asked for names)
			sel += pick(r, []string{".zz", ".a", "['k']"})
			cur = nil
		}
	}
	return sel, cur, true
}

// ---- documents for the run through the real binary -------------------------------------------

// strings that a printf-style writer, a shell-ish quoting step or a buffered writer would mangle
var c04PctPieces = []string{"%", "%d", "%s", "%%", "%!", "%v", "%!s(MISSING)", "100%", "50% off", "%[1]d", "%-5s|", "%+v", "% x", "%c", "%q", "%5.2f", "%!(EXTRA string=x)", "%%%", "%\n", "%\"", "\\%", "%\\",
	"\\", "\\\\", "\"", "\"\"", "'", "`", "$HOME", "$(x)", "\x00", "\x01", "\x1b[31m", "\x7f", "\b\f\n\r\t", "\r\n", "é", "日本語", "\U0001F642", "\u2028", " ", "<b>&amp;</b>", "\ufeff", "a", "key", "x y", "", "%s%s%s%s%s%s%s%s", "%n", "%*d", "%.*s"}

func c04PctString(r *rand.Rand, long bool) string {
	var sb strings.Builder
	n := 1 + r.Intn(4)
	for i := 0; i < n; i++ {
		sb.WriteString(pick(r, c04PctPieces))
	}
	if long {
		// long strings: past 4 kB / 64 kB write and pipe buffers
		unit := pick(r, []string{"x", "%d ", "long é ", "50% ", "\\", "\"q\" "})
		sb.WriteString(strings.Repeat(unit, pick(r, []int{200, 1500, 4096, 5000, 70000})/len(unit)+1))
		sb.WriteString(pick(r, c04PctPieces))
	}
	return sb.String()
}

func c04PctDoc(r *rand.Rand, depth int, budget *int) string {
	cfg := vgDocCfg{}
	*budget--
	k := r.Intn(10)
	if depth >= 4 || *budget <= 0 {
		k = r.Intn(6)
	}
	switch k {
	case 0:
		return pick(r, []string{"null", "true", "false", "[]", "{}"})
	case 1:
		return vgNumber(r)
	case 2, 3, 4, 5:
		return vgEncodeString(r, c04PctString(r, chance(r, 0.03)), cfg)
	case 6, 7:
		n := r.Intn(4)
		parts := make([]string, n)
		for i := range parts {
			parts[i] = c04PctDoc(r, depth+1, budget)
		}
		return "[" + strings.Join(parts, pick(r, []string{",", ", ", " ,\n"})) + "]"
	default:
		n := r.Intn(4)
		var parts []string
		seen := map[string]bool{}
		for i := 0; i < n; i++ {
			key := c04PctString(r, chance(r, 0.01))
			if seen[key] {
				continue
			}
			seen[key] = true
			parts = append(parts, vgEncodeString(r, key, cfg)+pick(r, []string{":", ": "})+c04PctDoc(r, depth+1, budget))
		}
		return "{" + strings.Join(parts, ",") + "}"
	}
}

// c04BinaryDoc: the text of an input stream for the binary: a %-rich document, or one of the
// rich documents of the library families (every escape form, invalid UTF-8, numeric extremes).
func c04BinaryDoc(r *rand.Rand) string {
	if chance(r, 0.3) {
		return vgStream(r, vgRichCfg())
	}
	budget := 25
	var doc string
	for {
		doc = c04PctDoc(r, 0, &budget)
		if doc[0] == '[' || doc[0] == '{' || doc[0] == '"' || chance(r, 0.2) {
			break
		}
		budget = 25
	}
	if chance(r, 0.1) {
		b2 := 10
		doc = c04PctDoc(r, 0, &b2) + pick(r, []string{"\n", " "}) + doc // a stream: -o writes the last value
	}
	return doc
}

func c04CliBasic(i Resp) string {
	switch i["class"] {
	case "nobinary":
		return "JQAWK_BIN is not set: the binary was not run"
	case "badrequest", "crash", "garbled":
		return "harness problem running the binary: " + i.String()
	}
	stderr := string(i.Bytes("stderr"))
	if strings.Contains(stderr, "goroutine ") || strings.Contains(stderr, "panic:") {
		return "the binary panicked: " + short(stderr)
	}
	return ""
}

// c04CliJSONOracle: the JSON that reached stdout (-o -, after the program's own output `own`)
// or the -o file re-parses, with Go's decoder, to `want`.
func c04CliJSONOracle(want interface{}, toFile bool, own string) func(Resp) string {
	return func(i Resp) string {
		if w := c04CliBasic(i); w != "" {
			return w
		}
		if i["exit"] != "0" {
			return "the binary failed (exit " + i["exit"] + ") on a well-formed document and a program that cannot fail: " + short(string(i.Bytes("stderr")))
		}
		var text string
		if toFile {
			if i["ofexists"] != "1" {
				return "-o FILE: no file was written"
			}
			text = string(i.Bytes("ofile"))
			if got := string(i.Bytes("out")); got != own {
				return fmt.Sprintf("-o FILE: stdout is %q, the program prints %q", short(got), short(own))
			}
		} else {
			out := string(i.Bytes("out"))
			if !strings.HasPrefix(out, own) {
				return fmt.Sprintf("-o -: stdout %q does not start with the program's own output %q", short(out), short(own))
			}
			text = out[len(own):]
		}
		got, err := vgDecodeOne([]byte(text))
		if err != nil {
			return "the JSON written by the binary is not valid JSON for Go's decoder: " + err.Error() + ": " + short(text)
		}
		if !vgEqual(got, want) {
			return "the JSON written by the binary parses to a different value: want " + short(vgShow(want)) + " got " + short(vgShow(got)) + " text " + short(text)
		}
		return ""
	}
}

func c04CliNT(i Resp) bool { return i["exit"] == "0" && (i["out"] != "-" || i["ofexists"] == "1") }

var c04CliFields = []string{"exit", "out", "err", "ofile", "ofexists"}

// programs that print the document or parts of it (stdout path of the binary)
var c04PrintProgs = []string{
	"{ print $ }", "{ print json($) }", "{ print json($), $ }", "{ printf(\"%s\\n\", json($)) }", "{ printf(\"%s|%s|\\n\", \"100%\", json($)) }",
	"BEGIN { print \"50%\", \"%d\", \"%%\", \"%!s(MISSING)\" }\n{ print json($) }", "BEGIN { printf(\"100%%|%s|%%d\\n\", \"%s\") }", "{ if ($ is object || $ is array) { for (k, v in $) print k, json(v) } }",
	"{ x = \"%\" + json($) + \"%s\"; print x }", "END { print json($) }", "$ is string { print $, $.length(), $.upper() }",
}

func c04ThroughBinary(r *rand.Rand, tier string, emit func(Case)) {
	if os.Getenv("JQAWK_BIN") == "" {
		emit(Case{ID: "no-binary", Req: "cli - - - -", ImplOnly: true, Oracle: c04CliBasic,
			Meta: map[string]string{"problem": "env JQAWK_BIN is not set; this family runs the real binary"}})
		return
	}
	n := tierN(tier, 500, 12000)
	for i := 0; i < n; i++ {
		data := c04BinaryDoc(r)
		if chance(r, 0.04) && len(data) > 0 {
			b := []byte(data)
			p := r.Intn(len(b))
			b[p] = pick(r, []byte{'"', '\\', ',', '%', '}', 0x01, 'x'})
			data = string(b)
		}
		vals, derr := vgDecodeAll([]byte(data))
		wellFormed := derr == nil && len(vals) > 0
		name := pick(r, []string{"in.json", "100%.json", "%d.json", "in.json"})
		useStdin := chance(r, 0.25)
		var disk []CliFile
		var names []string
		var stdin []byte
		lib := []File{{Name: "<stdin>", Data: []byte(data)}}
		if useStdin {
			stdin = []byte(data)
		} else {
			disk = []CliFile{{Name: name, Data: []byte(data)}}
			names = []string{name}
			lib[0].Name = name
		}
		g := fmt.Sprintf("bin-%d", i)
		if i%4 == 3 {
			// stdout path: print / printf / json()
			prog := pick(r, c04PrintProgs)
			argv := append([]string{prog}, names...)
			emit(Case{ID: g + "/lib", Req: RunReq(prog, nil, lib, false), Fields: []string{"class", "out"}, Group: g,
				Meta: metaProg(prog, "input", short(data), "variant", "library run (reference of the group)")})
			c := Case{ID: g + "/print", Req: CliReq(argv, stdin, useStdin, disk, ""), Fields: c04CliFields, Group: g, GroupFields: []string{"out"},
				Meta: metaProg(prog, "input", short(data), "argv", strings.Join(argv, " ␣ "), "variant", "the binary: what print / printf / json() send to stdout"), Oracle: c04CliBasic,
				NonTrivial: func(i Resp) bool { return i["out"] != "-" && i["out"] != "" },
				GroupCheck: func(first, self Resp) string {
					if (first["class"] == "ok") != (self["exit"] == "0") {
						return "library outcome " + first["class"] + ", binary exit status " + self["exit"]
					}
					return ""
				}}
			if prog == "{ print json($) }" && wellFormed {
				var recs []interface{}
				for _, v := range vals {
					recs = append(recs, c04Records(v)...)
				}
				c.Oracle = func(i Resp) string {
					if w := c04CliBasic(i); w != "" {
						return w
					}
					return c04OutOracle(recs)(Resp{"class": "ok", "out": i["out"]})
				}
			}
			emit(c)
			continue
		}
		prog := pick(r, c04ReadOnlyProgs)
		for prog == "$.a" { // a bare pattern prints the record: the others print nothing
			prog = pick(r, c04ReadOnlyProgs)
		}
		own := ""
		libCase := Case{ID: g + "/lib", Req: RunReq(prog, nil, lib, true), Fields: c04Fields, Group: g,
			Meta: metaProg(prog, "input", short(data), "variant", "library run (reference of the group)")}
		if wellFormed {
			libCase.Oracle = c04RootOracle(vals[len(vals)-1])
		}
		emit(libCase)
		for _, toFile := range []bool{false, true} {
			toFile := toFile
			o, ofile := "-", ""
			cdisk := disk
			preKind := "no -o file"
			var pre []byte
			preExists := false
			if toFile {
				o = pick(r, []string{"out.json", "100%.out", "%s"})
				ofile = o
				// the -o file may exist already: longer / shorter / as long as the JSON to be
				// written (length learnt from the library, in the generator), empty, or the
				// input file itself; what it held is JSON text, so that a stale tail shows as
				// trailing garbage or a second value
				preKind = pick(r, []string{"fresh file", "fresh file", "existing, longer", "existing, longer", "existing, shorter", "existing, equal length", "existing, one byte longer", "existing, empty", "the input file itself", "the input file itself"})
				L := len(ParseResp(implAnswer(RunReq(prog, nil, lib, true))).Bytes("json"))
				unit := "[{\"name\": \"alligator\", \"tags\": [\"a\", \"b\", \"c\"]}, {\"name\": \"someone else\", \"tags\": []}]\n"
				old := strings.Repeat(unit, (2*L+200)/len(unit)+2)
				switch preKind {
				case "existing, longer":
					pre, preExists = []byte(old[:L+1+r.Intn(L+150)]), true
				case "existing, one byte longer":
					pre, preExists = []byte(old[:L+1]), true
				case "existing, shorter":
					pre, preExists = []byte(old[:r.Intn(L+1)]), true
				case "existing, equal length":
					pre, preExists = []byte(old[:L]), true
				case "existing, empty":
					pre, preExists = []byte{}, true
				case "the input file itself":
					if useStdin {
						preKind = "fresh file"
					} else {
						o, ofile, pre, preExists = name, name, []byte(data), true
					}
				}
				if preExists && o != name {
					cdisk = append(append([]CliFile{}, disk...), CliFile{Name: o, Data: pre})
				}
			}
			argv := append([]string{pick(r, []string{"-o", "--o"}), o, prog}, names...)
			if chance(r, 0.3) {
				argv = append([]string{"-o=" + o, prog}, names...)
			}
			c := Case{ID: g + "/o=" + o, Req: CliReq(argv, stdin, useStdin, cdisk, ofile), Fields: c04CliFields, Group: g, NonTrivial: c04CliNT,
				Meta: metaProg(prog, "input", short(data), "argv", strings.Join(argv, " ␣ "), "variant", "the binary with -o "+o, "-o target", fmt.Sprintf("%s (%d bytes before the run)", preKind, len(pre)))}
			if wellFormed {
				c.Oracle = c04CliJSONOracle(vals[len(vals)-1], toFile, own)
			} else {
				c.Oracle = func(i Resp) string {
					if w := c04CliBasic(i); w != "" {
						return w
					}
					if i["exit"] == "0" {
						return "Go's decoder rejects this input (or it is empty) but the binary exits with status 0"
					}
					if !preExists && i["ofexists"] == "1" {
						return "an -o file was written although the run failed"
					}
					if preExists && string(i.Bytes("ofile")) != string(pre) {
						return "the run failed but the existing -o file was changed"
					}
					return ""
				}
			}
			// byte-exact: what the binary wrote is GetRootJson's text
			c.GroupCheck = func(first, self Resp) string {
				if (first["class"] == "ok" && first["json"] != "ERR") != (self["exit"] == "0") {
					return "library outcome " + first["class"] + " json=" + short(first["json"]) + ", binary exit status " + self["exit"]
				}
				if self["exit"] != "0" {
					return ""
				}
				js := string(first.Bytes("json"))
				got := string(self.Bytes("out"))
				if toFile {
					got = string(self.Bytes("ofile"))
				}
				if got != string(first.Bytes("out"))+js {
					if toFile {
						return fmt.Sprintf("the -o file holds %q, GetRootJson gives %q", short(got), short(js))
					}
					return fmt.Sprintf("-o - printed %q, GetRootJson gives %q", short(got), short(js))
				}
				return ""
			}
			emit(c)
		}
	}
}

func init() {
	register(Family{
		Name: "o-roundtrip", Prop: "C04",
		Rule: "rich documents (empty containers at every depth, every escape form, non-ASCII, U+2028/9, < > &, invalid UTF-8, numeric extremes and random doubles, duplicate keys, depth <= 8, streams of several values) run through a program that does not modify them, then -o; oracle: Go-decode(-o bytes) == Go-decode(last input value) bit for bit; non-trivial = JSON was written",
		Gen: func(r *rand.Rand, tier string, emit func(Case)) {
			n := tierN(tier, 6000, 60000)
			for i := 0; i < n; i++ {
				data := vgStream(r, vgRichCfg())
				if chance(r, 0.06) {
					// the ill-formed stream: one byte deleted, changed or inserted
					b := []byte(data)
					p := r.Intn(len(b))
					switch r.Intn(3) {
					case 0:
						b = append(b[:p:p], b[p+1:]...)
					case 1:
						b[p] = pick(r, []byte{'"', '\\', ',', ':', '[', '}', '0', 'e', '-', ' ', 0x01, 0xff, 'x'})
					default:
						b = append(b[:p:p], append([]byte{pick(r, []byte{'"', '\\', ',', ']', '{', '1', '.', 'u'})}, b[p:]...)...)
					}
					data = string(b)
				}
				vals, err := vgDecodeAll([]byte(data))
				prog := pick(r, c04ReadOnlyProgs)
				if err != nil || len(vals) == 0 {
					// not a well-formed stream for Go's decoder (also: a number out of range, empty input)
					want := "json"
					if err == nil {
						want = "ok"
					}
					emit(Case{Req: RunReq(prog, nil, vgDocFile(data), true), Fields: c04Fields,
						Meta: metaProg(prog, "input", data, "expect", "class "+want+" (ill-formed input)"),
						Oracle: func(i Resp) string {
							if i["class"] != want {
								return "Go's decoder rejects this input (or it is empty): expected class " + want + ", got " + i["class"]
							}
							if want == "ok" && i["json"] != "ERR" {
								return "no value was read: -o has nothing to write"
							}
							return ""
						}, NonTrivial: func(i Resp) bool { return i["class"] == "json" }})
					continue
				}
				emit(Case{Req: RunReq(prog, nil, vgDocFile(data), true), Fields: c04Fields,
					Meta:   metaProg(prog, "input", data, "expect", "-o re-parses to the last input value"),
					Oracle: c04RootOracle(vals[len(vals)-1]), NonTrivial: c04HasJSON})
			}
			// no input at all: nothing to write
			for _, prog := range []string{"BEGIN { x = 1 }", "{}", "END { print 1 }"} {
				emit(Case{Req: RunReq(prog, nil, nil, true), Fields: c04Fields, Meta: metaProg(prog, "input", "(none)"),
					Oracle: func(i Resp) string {
						if i["class"] != "ok" || i["json"] != "ERR" {
							return "without input -o has nothing to write: expected ok/ERR"
						}
						return ""
					}, NonTrivial: func(i Resp) bool { return i["json"] == "ERR" }})
			}
		},
	})

	register(Family{
		Name: "json-of-documents", Prop: "C04",
		Rule: "the same documents printed with json(): per record ({ print json($) }), through variables, wrapped twice into a new array / object (sharing), in END; oracle: the output is a sequence of JSON texts that Go decodes to the records bit for bit",
		Gen: func(r *rand.Rand, tier string, emit func(Case)) {
			n := tierN(tier, 5000, 50000)
			for i := 0; i < n; i++ {
				data := vgStream(r, vgRichCfg())
				vals, err := vgDecodeAll([]byte(data))
				if err != nil || len(vals) == 0 {
					continue
				}
				var recs []interface{}
				for _, v := range vals {
					recs = append(recs, c04Records(v)...)
				}
				var prog string
				var want []interface{}
				switch r.Intn(8) {
				case 0, 1, 2:
					prog, want = "{ print json($) }", recs
				case 3:
					prog, want = "{ v = $; print json(v) }", recs
				case 4:
					prog = "{ print json([$, $]) }"
					for _, x := range recs {
						want = append(want, []interface{}{x, x})
					}
				case 5:
					prog = "{ print json({k: $, 'a b': [$]}) }"
					for _, x := range recs {
						want = append(want, map[string]interface{}{"k": x, "a b": []interface{}{x}})
					}
				case 6:
					prog = "{ print json($), json($) }"
					for _, x := range recs {
						want = append(want, x, x)
					}
				default:
					prog = "BEGIN { all = [] } { all.push($) } END { print json(all) }"
					want = []interface{}{append([]interface{}{}, recs...)}
				}
				emit(Case{Req: RunReq(prog, nil, vgDocFile(data), true), Fields: c04Fields,
					Meta:   metaProg(prog, "input", data, "expect", "output re-parses to the records"),
					Oracle: c04OutOracle(want)})
			}
		},
	})

	register(Family{
		Name: "json-of-built-values", Prop: "C04",
		Rule: "values built by the program: literal trees (unset variables, null, -0, 2^53+1, 1e21, 5e-324, strings with \\n \\t \\\\ quotes), containers auto-created by path assignment (o.a.b = 1, a[3] = 1), acyclic graphs with shared sub-structures built by push / member assignment; printed with json() or stored into the document and written by -o; oracle: Go-decode == the tree the generator built",
		Gen: func(r *rand.Rand, tier string, emit func(Case)) {
			n := tierN(tier, 6000, 60000)
			for i := 0; i < n; i++ {
				var build, valueExpr, kind string
				var tree interface{}
				switch r.Intn(4) {
				case 0:
					l := vgLitTree(r, 0, false)
					build, valueExpr, tree, kind = "", l.expr, l.tree, "literal"
					if chance(r, 0.5) {
						build, valueExpr = "v = "+l.expr, "v"
					}
				case 1:
					build, tree = vgAutoProg(r, "o", false)
					valueExpr, kind = "o", "auto-created"
				default:
					g := vgRandomGraph(r, 1+r.Intn(5), true, false, false)
					id := pick(r, g.conts)
					t, ok := g.tree(id, nil)
					if !ok {
						panic("acyclic graph without a tree")
					}
					build, valueExpr, tree, kind = g.prog(), g.varOf(id), t, "graph with sharing"
				}
				sep := ""
				if build != "" {
					sep = "; "
				}
				if chance(r, 0.7) {
					prog := "BEGIN { " + build + sep + "print json(" + valueExpr + ") }"
					emit(Case{Req: RunReq(prog, nil, nil, false), Fields: c04Fields, Meta: metaProg(prog, "kind", kind, "expect", vgShow(tree)),
						Oracle: c04OutOracle([]interface{}{tree})})
				} else {
					prog := "{ " + build + sep + "$.v = " + valueExpr + " }"
					want := map[string]interface{}{"d": 1.0, "v": tree}
					emit(Case{Req: RunReq(prog, nil, vgDocFile(`{"d": 1}`), true), Fields: c04Fields, Meta: metaProg(prog, "kind", kind+" via -o", "input", `{"d": 1}`, "expect", vgShow(want)),
						Oracle: c04RootOracle(want), NonTrivial: c04HasJSON})
				}
			}
			// a cycle that was made and broken again is no cycle
			for _, prog := range []string{
				"BEGIN { a = [1]; a.push(a); a.pop(); print json(a) }",
				"BEGIN { o = {}; o.self = o; o.self = 2; print json(o) }",
				"BEGIN { a = [1]; b = [a, a]; c = {x: b, y: b, z: a}; print json(c) }",
				"BEGIN { a = []; b = [a, a, [a]]; a.push(1); print json(b) }",
			} {
				emit(Case{Req: RunReq(prog, nil, nil, false), Fields: c04Fields, Meta: metaProg(prog), Oracle: func(i Resp) string {
					if i["class"] != "ok" {
						return "no cycle here: json() must succeed, got " + i["class"]
					}
					if _, err := vgDecodeOne(i.Bytes("out")); err != nil {
						return "invalid JSON: " + err.Error()
					}
					return ""
				}})
			}
		},
	})

	register(Family{
		Name: "json-cycles-and-inexpressible", Prop: "C04",
		Rule: "cycles of length 1-5 through arrays, objects and mixtures (json() of a ring member, of a value pointing into the ring, of random cyclic graphs; the same stored into the document for -o), functions / builtins / methods / regex values and non-finite numbers at the top and nested; oracle: json() -> runtime error with the earlier output kept, -o -> program ok and JSON = ERR; never a hang (timeout = violation), never text",
		Gen: func(r *rand.Rand, tier string, emit func(Case)) {
			n := tierN(tier, 3000, 30000)
			for i := 0; i < n; i++ {
				var g *vgGraph
				var id int
				var kind string
				switch r.Intn(3) {
				case 0, 1:
					ln := 1 + r.Intn(5)
					kinds := pick(r, []byte{'a', 'o', 'm'})
					g = vgRing(r, ln, kinds, false)
					id = pick(r, g.conts)
					kind = fmt.Sprintf("ring of %d (%c)", ln, kinds)
					if chance(r, 0.3) {
						// a value outside the ring pointing into it
						out := g.newCont(pick(r, []byte{'a', 'o'}))
						g.link(r, out, g.scalar(r, false, false), "a")
						g.link(r, out, id, "into")
						id = out
						kind += " entered from outside"
					}
				default:
					g = vgRandomGraph(r, 1+r.Intn(5), false, false, true)
					id = pick(r, g.conts)
					kind = "random graph"
				}
				tree, ok := g.tree(id, nil)
				if chance(r, 0.7) {
					prog := "BEGIN { " + g.prog() + "; print 'before'; print json(" + g.varOf(id) + "); print 'after' }"
					c := Case{Req: RunReq(prog, nil, nil, false), Fields: c04Fields, Meta: metaProg(prog, "kind", kind, "cyclic-or-inexpressible", fmt.Sprint(!ok))}
					if ok {
						want := tree
						c.Oracle = func(i Resp) string {
							out := string(i.Bytes("out"))
							if i["class"] != "ok" || !strings.HasPrefix(out, "before\n") || !strings.HasSuffix(out, "after\n") {
								return "json() of an acyclic value must succeed: class=" + i["class"]
							}
							got, err := vgDecodeOne([]byte(out[7 : len(out)-6]))
							if err != nil || !vgEqual(got, want) {
								return "json() text does not parse to the value: " + short(out)
							}
							return ""
						}
					} else {
						c.Oracle = c04ErrOracle("before\n")
					}
					emit(c)
				} else {
					prog := "{ " + g.prog() + "; $.v = " + g.varOf(id) + " }"
					c := Case{Req: RunReq(prog, nil, vgDocFile(`{"d": [1]}`), true), Fields: c04Fields, Meta: metaProg(prog, "kind", kind+" via -o", "input", `{"d": [1]}`, "cyclic-or-inexpressible", fmt.Sprint(!ok)),
						NonTrivial: func(i Resp) bool { return i["class"] == "ok" && i["json"] != "-" }}
					if ok {
						c.Oracle = c04RootOracle(map[string]interface{}{"d": []interface{}{1.0}, "v": tree})
					} else {
						c.Oracle = c04RootErrOracle
					}
					emit(c)
				}
			}
			// the document made cyclic / inexpressible directly
			type dc struct{ doc, prog string }
			for _, x := range []dc{
				{`{"d": [1]}`, "{ $.self = $ }"}, {`{"d": [1]}`, "{ $.d.push($.d) }"}, {`{"d": [1]}`, "{ $.d.push($) }"}, {`{"d": [1]}`, "{ $.d[1] = $ }"},
				{`{"d": [1]}`, "{ x = [$]; $.x = x }"}, {`{"d": {"e": {}}}`, "{ $.d.e.up = $.d }"}, {`[{"k": 1}]`, "{ $.me = $ }"}, {`[{"k": [[]]}]`, "{ $.k[0].push($.k) }"},
				{`{"d": [1]}`, "END { }\n{ $.d[0] = $ }"}, {`[[1], [2]]`, "{ $[1] = $ }"},
				{`{"d": 1}`, "{ $.r = /x/ }"}, {`{"d": 1}`, "{ $.n = num('nan') }"}, {`{"d": 1}`, "{ $.n = [1, {k: num('inf')}] }"}, {`{"d": 1}`, "{ $.n = num('1e308') * 10 }"},
				{`{"d": 1}`, "{ $.n = 0 - num('inf') }"}, {`[1, 2]`, "BEGINFILE { $ = /re/ }"}, {`{"d": 1}`, "{ $ = num('inf') }"},
			} {
				emit(Case{Req: RunReq(x.prog, nil, vgDocFile(x.doc), true), Fields: c04Fields, Meta: metaProg(x.prog, "input", x.doc, "expect", "ok, JSON = ERR"),
					Oracle: c04RootErrOracle, NonTrivial: func(i Resp) bool { return i["json"] == "ERR" }})
			}
			// json() of things JSON cannot express
			bad := []string{"f", "printf", "json", "num", "[1].length", "'x'.upper", "{}.pluck", "(1).floor", "/re/", "[/re/]", "{a: /re/}", "[1, [2, {k: /x/}]]", "[f]", "{a: printf}",
				"num('inf')", "num('-inf')", "num('nan')", "[num('nan')]", "{a: num('-inf')}", "[[[num('inf')]]]", "num('1e308') * 10", "[0 - num('inf')]", "[1, 'a', null, num('inf') - num('inf')]"}
			for _, b := range bad {
				for _, form := range []string{"BEGIN { print 'before'; print json(%s); print 'after' }", "BEGIN { print 'before'; v = %s; s = json(v); print 'after' }", "BEGIN { print 'before'; printf('%%s', json([0, %s])); print 'after' }"} {
					prog := "function f() { return 1 }\n" + fmt.Sprintf(form, b)
					emit(Case{Req: RunReq(prog, nil, nil, false), Fields: c04Fields, Meta: metaProg(prog, "expect", "runtime error"), Oracle: c04ErrOracle("before\n")})
				}
			}
		},
	})

	register(Family{
		Name: "selectors-o", Prop: "C04",
		Rule: "one to three -r selectors ($.a, $[0], $[-1], $.a[1].b, $['x y'], members that do not exist) written from a walk through the decoded document, a read-only program, then -o; oracle: Go-decode(-o bytes) == the sub-document the LAST selector denotes (null when absent)",
		Gen: func(r *rand.Rand, tier string, emit func(Case)) {
			n := tierN(tier, 5000, 50000)
			for i := 0; i < n; i++ {
				cfg := vgRichCfg()
				cfg.invalid = false
				data := vgDoc(r, cfg)
				root, err := vgDecodeOne([]byte(data))
				if err != nil {
					continue
				}
				ns := 1
				if chance(r, 0.25) {
					ns = 2 + r.Intn(2)
				}
				var sels []string
				var want interface{}
				good := true
				for s := 0; s < ns; s++ {
					sel, w, ok := c04Selector(r, root)
					good = good && ok
					sels = append(sels, sel)
					want = w
				}
				if !good {
					continue
				}
				prog := pick(r, c04ReadOnlyProgs)
				emit(Case{Req: RunReq(prog, sels, vgDocFile(data), true), Fields: c04Fields,
					Meta:   metaProg(prog, "input", data, "selectors", strings.Join(sels, "  "), "expect", vgShow(want)),
					Oracle: c04RootOracle(want), NonTrivial: c04HasJSON})
			}
		},
	})

	register(Family{
		Name: "o-through-binary", Prop: "C04",
		Rule: "documents whose string values AND keys are built from %, %d, %s, %%, %!, %[1]d, %!s(MISSING), backslashes, quotes, control characters, non-ASCII, shell-ish text and long runs (200 B - 70 kB), in every JSON escape form, plus the rich documents of o-roundtrip, run through the REAL BINARY with -o - and -o FILE (input as a file or on stdin; FILE fresh, or already existing and longer / one byte longer / shorter / as long as the JSON to be written / empty, or the input file itself) and a program that does not modify them; one Group per document with the library run first (compared with the model, Go re-parse oracle): the binary's answer is compared with the model's answer to the same command line (exit, stdout, stderr present, -o file), its JSON must be byte for byte GetRootJson's and must re-parse with encoding/json to the last input value; every fourth document goes through print / printf / json() instead (stdout of the binary = stdout of the library = the model's)",
		Gen:  c04ThroughBinary,
	})
}

// ---- deep-nesting ---------------------------------------------------------------------
//
// "Whatever can be read can be written": encoding/json reads documents nested up to 10 000
// levels, its encoder has no limit of its own for acyclic values and its indenter stops at
// 10 000 too, and the evaluator builds values of any depth. So every document / value nested
// up to 10 000 levels must come out of -o and json() as JSON that parses back to it. The
// indented text of a document nested d levels is about 2*d*d bytes (200 MB at 10 000): from
// 2 000 levels on the worker answers with the compact form of the text plus its length and
// whether it is exactly the canonical indentation (run flag c, cli flag z), and the model is
// asked up to 1 003 levels (and twice at 2 000).

// c04DeepDoc: JSON text nested exactly d levels (d >= 1) of the given shape around the leaf
// ("" = the innermost container is empty).
func c04DeepDoc(shape string, d int, leaf string) string {
	var open, shut strings.Builder
	for k := 0; k < d; k++ {
		last := k == d-1
		kind := shape
		if shape == "mixed" {
			kind = []string{"obj", "arr"}[k%2]
		}
		switch kind {
		case "arr":
			open.WriteString("[")
			shut.WriteString("]")
		case "obj":
			if last && leaf == "" {
				open.WriteString("{")
			} else {
				open.WriteString(`{"k":`)
			}
			shut.WriteString("}")
		case "siblings":
			// every level has other members before and after the nested one
			if last && leaf == "" {
				open.WriteString("[")
				shut.WriteString("]")
			} else if k%2 == 0 {
				open.WriteString(`[0,`)
				shut.WriteString(`]"e",`) // reversed below
			} else {
				open.WriteString(`{"a":[],"k":`)
				shut.WriteString(`}1:"z",`)
			}
		}
	}
	rs := []byte(shut.String())
	for i, j := 0, len(rs)-1; i < j; i, j = i+1, j-1 {
		rs[i], rs[j] = rs[j], rs[i]
	}
	return open.String() + leaf + string(rs)
}

// c04Wrap: the tree of `inner` wrapped n more times the way the loop programs below do.
func c04Wrap(inner interface{}, n int, shape string) interface{} {
	v := inner
	for k := 0; k < n; k++ {
		switch shape {
		case "arr":
			v = []interface{}{v}
		case "obj":
			v = map[string]interface{}{"k": v}
		default: // mixed: two levels per round
			v = []interface{}{map[string]interface{}{"k": v}}
		}
	}
	return v
}

// c04DeepOracle: the answer's field (json / out / ofile), given in compact form by the worker,
// is canonical indentation of a text that parses to want.
func c04DeepOracle(field string, want interface{}, cli bool) func(Resp) string {
	return func(i Resp) string {
		if cli {
			if w := c04CliBasic(i); w != "" {
				return w
			}
			if i["exit"] != "0" {
				return "the binary failed (exit " + i["exit"] + ") on a well-formed document nested at most 10 000 levels: " + short(string(i.Bytes("stderr")))
			}
		} else if i["class"] != "ok" {
			return "class=" + i["class"] + " msg=" + i["msg"] + " on a well-formed document / an acyclic value nested at most 10 000 levels"
		}
		if i[field] == "ERR" {
			return "writing the JSON failed: " + field + "=ERR"
		}
		if i[field+"canon"] == "" {
			return "the " + field + " text is not one JSON document: " + short(string(i.Bytes(field)))
		}
		if i[field+"canon"] != "1" {
			return "the " + field + " text is JSON but not the canonical two-space indentation (raw length " + i[field+"raw"] + ")"
		}
		got, err := vgDecodeOne(i.Bytes(field))
		if err != nil {
			return "the " + field + " text does not parse with Go's decoder: " + err.Error()
		}
		if !vgEqual(got, want) {
			return "the " + field + " text parses to a different value (compact form: " + short(string(i.Bytes(field))) + ")"
		}
		return ""
	}
}

func c04DeepNesting(r *rand.Rand, tier string, emit func(Case)) {
	depths := []int{500, 999, 1000, 1001, 1002, 1003, 1500, 2000, 3000, 5000, 9999, 10000}
	if tier == "thorough" {
		for k := 0; k < 12; k++ {
			depths = append(depths, pick(r, []int{2 + r.Intn(998), 1000 + r.Intn(30), 1004 + r.Intn(3000), 4000 + r.Intn(5999)}))
		}
	}
	shapes := []string{"arr", "obj", "mixed", "siblings"}
	leaves := []string{"", `"x"`, "null", "0", "", "[]", "{}"}
	haveBin := os.Getenv("JQAWK_BIN") != ""
	routes := []string{"o", "json", "sel", "built", "built-o", "bin-file", "bin-dash", "sel-wrap"}
	n := 0
	model2000 := 0
	slowBudget := tierN(tier, 4, 60)
	for di, d := range depths {
		for si, shape := range shapes {
			if shape == "siblings" && d >= 5000 && (tier != "thorough" || d >= 9999) {
				continue // twice the text of the other shapes: 400 MB at 10 000 levels
			}
			// quick: two routes per (depth, shape), rotating; thorough: all of them up to 3 000 levels, three beyond
			var todo []string
			switch {
			case tier == "thorough" && d <= 3000:
				todo = routes
			case tier == "thorough":
				todo = []string{routes[(di+si)%len(routes)], routes[(di+si+3)%len(routes)], routes[(di+si+5)%len(routes)]}
			case d >= 5000:
				todo = []string{routes[(di*3+si)%len(routes)]}
			default:
				todo = []string{routes[(di+si)%len(routes)], routes[(di+si+3)%len(routes)]}
			}
			for _, route := range todo {
				if route == "bin-dash" && d >= 9999 && tier != "thorough" {
					route = "bin-file" // 200 MB through the stdout pipe take 5 s
				}
				n++
				leaf := leaves[(n+si)%len(leaves)]
				if leaf == "[]" || leaf == "{}" {
					// the leaf is a container itself: one level less around it
					if d < 2 {
						leaf = ""
					}
				}
				dd := d
				if leaf == "[]" || leaf == "{}" {
					dd = d - 1
				}
				// summarised answers (implementation only) from 2 000 levels on; the model is asked below
				// that -- but it renders nested OBJECTS in time cubic in the depth (6 s at 1 000 levels,
				// 20 s at 1 500): beyond 600 levels only arrays and a few object-shaped cases go to it
				arrOnly := shape == "arr" && route != "sel-wrap"
				heavy := d >= 2000 || (d > 1003 && !arrOnly)
				if !heavy && d > 600 && !arrOnly {
					if slowBudget > 0 {
						slowBudget--
					} else {
						heavy = true
					}
				}
				if d == 2000 && model2000 < 2 && arrOnly && (route == "o" || route == "json") {
					heavy = false
					model2000++
				}
				flag := " j"
				if heavy {
					flag = " c"
				}
				withFlag := func(req string) string { return strings.TrimSuffix(strings.TrimSuffix(req, " -"), " j") + flag }
				id := fmt.Sprintf("deep-%d-%s-%s-%d", d, shape, route, n)
				meta := func(prog, what string) map[string]string {
					return metaProg(prog, "document", fmt.Sprintf("%s nested %d levels around the leaf %q", shape, d, leaf), "route", what, "answer", map[bool]string{true: "compact form + length + canonical-indentation check (worker side)", false: "full text, compared with the model"}[heavy])
				}
				jsonOracle := func(field string, want interface{}, cli bool) func(Resp) string {
					if heavy {
						return c04DeepOracle(field, want, cli)
					}
					if cli {
						return c04CliJSONOracle(want, field == "ofile", "")
					}
					if field == "out" {
						return c04OutOracle([]interface{}{want})
					}
					return c04RootOracle(want)
				}
				nt := func(i Resp) bool {
					return (i["class"] == "ok" && (i["json"] != "-" || i["out"] != "-")) || i["exit"] == "0"
				}
				switch route {
				case "o":
					doc := c04DeepDoc(shape, dd, leaf)
					want, err := vgDecodeOne([]byte(doc))
					if err != nil {
						panic("c04DeepNesting: " + err.Error())
					}
					prog := pick(r, []string{"{}", "{ x = $ }", "BEGINFILE { z = $ }", "END { y = 2 }", "{ n = n + 1; last = $ }"})
					emit(Case{ID: id, Req: withFlag(RunReq(prog, nil, vgDocFile(doc), true)), Fields: c04Fields, ImplOnly: heavy, Meta: meta(prog, "-o of the unmodified document (library)"),
						Oracle: jsonOracle("json", want, false), NonTrivial: nt})
				case "json":
					doc := c04DeepDoc(shape, dd, leaf)
					want, _ := vgDecodeOne([]byte(doc))
					prog := pick(r, []string{"BEGINFILE { print json($) }", "BEGINFILE { v = $; print json(v) }", "ENDFILE { print json($) }"})
					emit(Case{ID: id, Req: withFlag(RunReq(prog, nil, vgDocFile(doc), false)), Fields: []string{"class", "out"}, ImplOnly: heavy, Meta: meta(prog, "json() of the whole document, printed"),
						Oracle: jsonOracle("out", want, false), NonTrivial: nt})
				case "sel", "sel-wrap":
					// the selected sub-document is the deep one; the document around it adds two levels
					// (and a root built around it one or two more)
					room := 9998
					if route == "sel-wrap" {
						room = 9996
					}
					de := dd
					if d > room {
						de = dd - (d - room)
					}
					inner := c04DeepDoc(shape, de, leaf)
					doc := `{"top": {"other": [1, 2], "deep": ` + inner + `}, "z": []}`
					want, _ := vgDecodeOne([]byte(inner))
					sels := []string{"$.top.deep"}
					if route == "sel-wrap" {
						// a selector that BUILDS the root around the sub-document
						if n%2 == 0 {
							sels = []string{"[$.top.deep]"}
							want = []interface{}{want}
						} else {
							sels = []string{"$.z", "{w: [$.top.deep]}"}
							want = map[string]interface{}{"w": []interface{}{want}}
						}
					}
					prog := pick(r, []string{"{}", "{ x = $ }", "BEGINFILE { z = $ }"})
					emit(Case{ID: id, Req: withFlag(RunReq(prog, sels, vgDocFile(doc), true)), Fields: c04Fields, ImplOnly: heavy, Meta: meta(prog, "-o of the sub-document selected with -r "+strings.Join(sels, " -r ")),
						Oracle: jsonOracle("json", want, false), NonTrivial: nt})
				case "built", "built-o":
					// the program builds the value: a loop wraps a seed d-1 (mixed: about d/2) times
					lshape := shape
					if lshape == "siblings" {
						lshape = "mixed"
					}
					rounds := d - 1
					if lshape == "mixed" {
						rounds = (d - 1) / 2
					}
					seedExpr, seedTree := "[]", interface{}([]interface{}{})
					if n%3 == 1 {
						seedExpr, seedTree = "{}", map[string]interface{}{}
					} else if n%3 == 2 {
						seedExpr, seedTree = "['x', null]", []interface{}{"x", nil}
					}
					step := map[string]string{"arr": "a = [a]", "obj": "a = {k: a}", "mixed": "a = [{k: a}]"}[lshape]
					want := c04Wrap(seedTree, rounds, lshape)
					build := fmt.Sprintf("a = %s; for (i = 0; i < %d; i++) %s", seedExpr, rounds, step)
					if route == "built" {
						prog := "BEGIN { " + build + "; print json(a) }"
						emit(Case{ID: id, Req: withFlag(RunReq(prog, nil, nil, false)), Fields: []string{"class", "out"}, ImplOnly: heavy, Meta: meta(prog, "json() of a value the program built"),
							Oracle: jsonOracle("out", want, false), NonTrivial: nt})
					} else {
						if rounds > 9998 {
							continue
						}
						prog := "{ " + build + "; $.v = a }"
						wantRoot := map[string]interface{}{"d": 1.0, "v": want}
						emit(Case{ID: id, Req: withFlag(RunReq(prog, nil, vgDocFile(`{"d": 1}`), true)), Fields: c04Fields, ImplOnly: heavy, Meta: meta(prog, "-o of a document into which the program stored a value it built"),
							Oracle: jsonOracle("json", wantRoot, false), NonTrivial: nt})
					}
				case "bin-file", "bin-dash":
					if !haveBin {
						continue
					}
					doc := c04DeepDoc(shape, dd, leaf)
					want, _ := vgDecodeOne([]byte(doc))
					prog := pick(r, []string{"{}", "", "{ x = $ }"})
					useStdin := n%3 == 0
					var disk []CliFile
					var names []string
					var stdin []byte
					if useStdin {
						stdin = []byte(doc)
					} else {
						disk, names = []CliFile{{Name: "deep.json", Data: []byte(doc)}}, []string{"deep.json"}
					}
					o, ofile, field := "-", "", "out"
					if route == "bin-file" {
						o, ofile, field = "out.json", "out.json", "ofile"
					}
					argv := append([]string{"-o", o, prog}, names...)
					req := CliReq(argv, stdin, useStdin, disk, ofile)
					if heavy {
						if ofile == "" {
							req = strings.TrimSuffix(req, "-") + "z,t=60000"
						} else {
							req += ",z,t=60000"
						}
					}
					emit(Case{ID: id, Req: req, Fields: c04CliFields, ImplOnly: heavy, Meta: meta(prog, "the REAL BINARY: "+strings.Join(argv[:2], " ")+map[bool]string{true: ", input on stdin", false: ", input in a file"}[useStdin]),
						Oracle: jsonOracle(field, want, true), NonTrivial: nt})
				}
			}
		}
	}
	// one level more than the reader takes: a JSON input error, not a crash
	for _, shape := range []string{"arr", "obj"} {
		doc := c04DeepDoc(shape, 10001, "")
		emit(Case{ID: "deep-10001-" + shape, Req: RunReq("{}", nil, vgDocFile(doc), true), ImplOnly: true, Meta: metaProg("{}", "document", shape+" nested 10 001 levels: more than encoding/json reads"),
			Oracle: func(i Resp) string {
				if i["class"] != "json" {
					return "a document nested 10 001 levels is beyond what the reader accepts: expected a JSON input error, got " + i["class"]
				}
				return ""
			}, NonTrivial: func(i Resp) bool { return i["class"] == "json" }})
	}
}

func init() {
	register(Family{
		Name: "deep-nesting", Prop: "C04",
		Rule: "documents and values nested 500 / 999 / 1000 / 1001 / 1002 / 1003 / 1500 / 2000 / 3000 / 5000 / 9999 / 10 000 levels (thorough: also random depths) -- arrays, objects, alternating, with sibling members at every level; innermost container empty or holding a string / null / a number / an empty container -- written back through every route: -o of the unmodified document, json() of the whole document, -o of a sub-document selected with -r and of a root that a selector builds around it, json() of a value the program builds by wrapping a seed in a loop, -o of a document into which such a value was stored, and the REAL BINARY with -o FILE and -o - (input file or stdin). Oracle: the text parses with encoding/json to the input value / the tree the generator built (encoding/json reads 10 000 levels; json.MarshalIndent fails beyond them: family marshal-indent-depth-limit). Up to 1 003 levels (and two cases at 2 000) the full text is compared with the model; from 2 000 levels on (the indented text grows with the square of the depth: 8 MB at 2 000, 200 MB at 10 000) the worker answers with the compact form, the length and whether the text is exactly the canonical two-space indentation (run flag c, cli flag z). A document of 10 001 levels must be a JSON input error",
		Gen:  c04DeepNesting,
	})
}

// ---- json() results held while json() is called again -----------------------------------
//
// "json(x) is valid JSON that reads back as x" must hold for a result for as long as the
// program keeps it, not only at the moment json() returns: several results are alive at once
// (variables, array elements, object members, operands of one expression, arguments of one
// call / print) and are printed only after every json() call has been made.

// c04HeldValue: a value with its tree; short scalars, literal trees and long containers so that
// a later result is shorter / longer / as long as an earlier one.
func c04HeldValue(r *rand.Rand, container bool) vgLit {
	switch k := r.Intn(10); {
	case k < 2 && !container:
		n := pick(r, vgLitNumbers)
		return vgLit{n.expr, n.val}
	case k < 3 && !container:
		lit, s := vgLitString(r, false)
		return vgLit{lit, s}
	case k < 6:
		n := pick(r, []int{1, 2, 3, 5, 8, 13, 30, 60})
		items := make([]string, n)
		tree := make([]interface{}, n)
		base := r.Intn(1000)
		for i := range items {
			if chance(r, 0.8) {
				items[i], tree[i] = fmt.Sprint(base+i), float64(base+i)
			} else {
				l := vgLitTree(r, 3, false)
				items[i], tree[i] = l.expr, l.tree
			}
		}
		return vgLit{"[" + strings.Join(items, ", ") + "]", tree}
	case k < 8:
		n := 1 + r.Intn(6)
		var items []string
		tree := map[string]interface{}{}
		for i := 0; i < n; i++ {
			key := fmt.Sprintf("k%d", r.Intn(12))
			l := vgLitTree(r, 3, false)
			items = append(items, mustStrLit(key)+": "+l.expr)
			tree[key] = l.tree
		}
		return vgLit{"{" + strings.Join(items, ", ") + "}", tree}
	default:
		for {
			l := vgLitTree(r, 1, false)
			if !container {
				return l
			}
			switch l.tree.(type) {
			case []interface{}, map[string]interface{}:
				return l
			}
		}
	}
}

func c04HeldResults(r *rand.Rand, tier string, emit func(Case)) {
	n := tierN(tier, 2500, 25000)
	for i := 0; i < n; i++ {
		k := 2 + r.Intn(4)
		form := r.Intn(14)
		selfDelim := form == 7 // texts are concatenated: only containers delimit themselves
		vals := make([]vgLit, k)
		for j := range vals {
			vals[j] = c04HeldValue(r, selfDelim)
		}
		switch r.Intn(4) {
		case 0: // shorter, then longer
			sort.SliceStable(vals, func(a, b int) bool { return len(vals[a].expr) < len(vals[b].expr) })
		case 1: // longer, then shorter
			sort.SliceStable(vals, func(a, b int) bool { return len(vals[a].expr) > len(vals[b].expr) })
		}
		var want []interface{}
		for _, v := range vals {
			want = append(want, v.tree)
		}
		calls := make([]string, k)
		for j, v := range vals {
			calls[j] = "json(" + v.expr + ")"
		}
		var st []string
		var pre, kind string
		var files []File
		switch form {
		case 0:
			kind = "variables"
			for j := range vals {
				st = append(st, fmt.Sprintf("s%d = %s", j, calls[j]))
			}
			for j := range vals {
				st = append(st, fmt.Sprintf("print s%d", j))
			}
		case 1:
			kind = "array elements (push)"
			st = append(st, "h = []")
			for j := range vals {
				st = append(st, "h.push("+calls[j]+")")
			}
			st = append(st, "for (x in h) print x")
		case 2:
			kind = "object members"
			st = append(st, "o = {}")
			for j := range vals {
				if chance(r, 0.5) {
					st = append(st, fmt.Sprintf("o.m%d = %s", j, calls[j]))
				} else {
					st = append(st, fmt.Sprintf("o['m%d'] = %s", j, calls[j]))
				}
			}
			for j := range vals {
				st = append(st, fmt.Sprintf("print o.m%d", j))
			}
		case 3:
			kind = "array literal"
			st = append(st, "h = ["+strings.Join(calls, ", ")+"]", "for (x in h) print x")
		case 4:
			kind = "object literal"
			var ms []string
			for j := range vals {
				ms = append(ms, fmt.Sprintf("m%d: %s", j, calls[j]))
			}
			st = append(st, "o = {"+strings.Join(ms, ", ")+"}")
			for j := range vals {
				st = append(st, fmt.Sprintf("print o.m%d", j))
			}
		case 5:
			kind = "arguments of one print"
			st = append(st, "print "+strings.Join(calls, ", "))
		case 6:
			kind = "arguments of one call"
			var ps, body []string
			for j := range vals {
				ps = append(ps, fmt.Sprintf("p%d", j))
				body = append(body, fmt.Sprintf("print p%d", j))
			}
			if chance(r, 0.5) {
				body = append([]string{"z = json([p0, 'again'])"}, body...)
			}
			pre = "function show(" + strings.Join(ps, ", ") + ") { " + strings.Join(body, "; ") + " }\n"
			st = append(st, "show("+strings.Join(calls, ", ")+")")
		case 7:
			kind = "operands of +"
			st = append(st, "print "+strings.Join(calls, " + "))
		case 8:
			kind = "operands of == / !="
			// the second operand: the same value (equal texts) or the value wrapped (different texts)
			want = nil
			for j, v := range vals {
				same := chance(r, 0.5)
				other := "json(" + v.expr + ")"
				if !same {
					other = "json([" + v.expr + "])"
				}
				op := pick(r, []string{"==", "!="})
				if chance(r, 0.5) {
					st = append(st, fmt.Sprintf("print %s %s %s", calls[j], op, other))
				} else {
					st = append(st, fmt.Sprintf("print %s %s %s", other, op, calls[j]))
				}
				want = append(want, same == (op == "=="))
			}
		case 9:
			kind = "printf arguments"
			st = append(st, "printf('"+strings.Repeat("%s\\n", k)+"', "+strings.Join(calls, ", ")+")")
			// a single-quoted literal keeps \n as an escape too
		case 10:
			kind = "results of a function that calls json()"
			pre = "function j(v) { return json(v) }\n"
			for j, v := range vals {
				st = append(st, fmt.Sprintf("s%d = j(%s)", j, v.expr))
			}
			for j := range vals {
				st = append(st, fmt.Sprintf("print s%d", j))
			}
		case 11:
			kind = "the previous result kept while the next is made"
			st = append(st, "prev = "+calls[0])
			for j := 1; j < k; j++ {
				st = append(st, "cur = "+calls[j], "print prev", "prev = cur")
			}
			st = append(st, "print prev")
		default:
			// per record: the results of all records are kept, printed in END
			kind = "one result per record, printed in END"
			docs := make([]string, k)
			for j, v := range vals {
				b, err := json.Marshal(v.tree)
				if err != nil {
					panic(err)
				}
				docs[j] = string(b)
			}
			want = nil
			for _, d := range docs {
				v, err := vgDecodeOne([]byte(d)) // what the reader makes of it (-0 stays -0, 1e21 is a number)
				if err != nil {
					panic(err)
				}
				want = append(want, v)
			}
			data := "[" + strings.Join(docs, ",\n") + "]"
			if form == 13 {
				data = strings.Join(docs, "\n")
				var flat []interface{}
				for _, v := range want {
					flat = append(flat, c04Records(v)...)
				}
				want = flat
			}
			files = vgDocFile(data)
			var prog string
			switch r.Intn(4) {
			case 0:
				prog = "BEGIN { h = [] } { h.push(json($)) } END { for (l in h) print l }"
			case 1:
				prog = "BEGIN { n = 0; o = {} } { o['r' + n] = json($); n = n + 1 } END { for (i = 0; i < n; i = i + 1) print o['r' + i] }"
			case 2:
				prog = "{ if (have) print prev; prev = json($); have = true } END { if (have) print prev }"
			default:
				prog = "{ a = json($); b = json([$]); c = json($); print a; print c == a }"
				var w2 []interface{}
				for _, v := range want {
					w2 = append(w2, v, true)
				}
				want = w2
			}
			emit(Case{Req: RunReq(prog, nil, files, false), Fields: c04Fields,
				Meta:   metaProg(prog, "kind", kind, "input", short(data), "expect", "every printed text parses to the record it was made from"),
				Oracle: c04OutOracle(want)})
			continue
		}
		prog := pre + "BEGIN { " + strings.Join(st, "; ") + " }"
		emit(Case{Req: RunReq(prog, nil, nil, false), Fields: c04Fields,
			Meta:   metaProg(prog, "kind", kind, "expect", "every printed text parses to the value it was made from"),
			Oracle: c04OutOracle(want)})
	}
}

// ---- -r selectors on inputs that hold several documents ---------------------------------
//
// Every document of a stream (and of every file) goes through every selector; the rules run
// on each selected root, and -o writes the root selected LAST: the last selector applied to
// the last document.

type c04Shape struct {
	kind byte // 'o', 'a', 'l'
	keys []string
	kids []*c04Shape
	leaf int
}

func c04ShapeGen(r *rand.Rand, depth int, next *int) *c04Shape {
	k := r.Intn(3)
	if depth == 0 && k == 2 {
		k = r.Intn(2)
	}
	if depth >= 3 {
		k = 2
	}
	switch k {
	case 0:
		s := &c04Shape{kind: 'o'}
		keys := []string{"a", "b", "c", "d", "name", "k1", "x y", "10", "é"}
		r.Shuffle(len(keys), func(i, j int) { keys[i], keys[j] = keys[j], keys[i] })
		n := 1 + r.Intn(3)
		for i := 0; i < n; i++ {
			s.keys = append(s.keys, keys[i])
			s.kids = append(s.kids, c04ShapeGen(r, depth+1, next))
		}
		return s
	case 1:
		s := &c04Shape{kind: 'a'}
		n := 1 + r.Intn(3)
		for i := 0; i < n; i++ {
			s.kids = append(s.kids, c04ShapeGen(r, depth+1, next))
		}
		return s
	}
	*next++
	return &c04Shape{kind: 'l', leaf: *next}
}

// render document number doc of the shape: the same structure with leaves that name the
// document; now and then a member is missing, an array is longer or shorter.
func (s *c04Shape) render(r *rand.Rand, doc int) interface{} {
	switch s.kind {
	case 'o':
		m := map[string]interface{}{}
		for i, k := range s.keys {
			if doc > 0 && chance(r, 0.08) {
				continue
			}
			m[k] = s.kids[i].render(r, doc)
		}
		return m
	case 'a':
		a := []interface{}{}
		for i, kid := range s.kids {
			if doc > 0 && i == len(s.kids)-1 && chance(r, 0.1) {
				continue
			}
			a = append(a, kid.render(r, doc))
		}
		if chance(r, 0.15) {
			a = append(a, fmt.Sprintf("extra-%d", doc))
		}
		return a
	}
	switch s.leaf % 5 {
	case 0:
		return float64(doc*1000 + s.leaf)
	case 1:
		return fmt.Sprintf("doc%d-leaf%d", doc, s.leaf)
	case 2:
		return doc%2 == 0
	case 3:
		if doc%3 == 2 {
			return nil
		}
		return float64(doc) + 0.5
	}
	return []interface{}{float64(doc)}
}

type c04Step struct {
	key   string
	index int
	isKey bool
}

// c04ShapePath: a selector written from a walk through the shape.
func c04ShapePath(r *rand.Rand, s *c04Shape) (string, []c04Step, bool) {
	sel := "$"
	var steps []c04Step
	n := r.Intn(4)
	for i := 0; i < n && s != nil; i++ {
		switch s.kind {
		case 'o':
			if chance(r, 0.9) {
				j := r.Intn(len(s.keys))
				st, ok := c04KeyStep(r, s.keys[j])
				if !ok {
					return "", nil, false
				}
				sel += st
				steps = append(steps, c04Step{key: s.keys[j], isKey: true})
				s = s.kids[j]
			} else {
				sel += ".zz"
				steps = append(steps, c04Step{key: "zz", isKey: true})
				s = nil
			}
		case 'a':
			j := r.Intn(len(s.kids))
			switch {
			case chance(r, 0.7):
				sel += fmt.Sprintf("[%d]", j)
				steps = append(steps, c04Step{index: j})
				s = s.kids[j]
			case chance(r, 0.6):
				sel += "[-1]"
				steps = append(steps, c04Step{index: -1})
				s = nil
			default:
				sel += fmt.Sprintf("[%d]", len(s.kids)+1)
				steps = append(steps, c04Step{index: len(s.kids) + 1})
				s = nil
			}
		default:
			sel += ".zz"
			steps = append(steps, c04Step{key: "zz", isKey: true})
			s = nil
		}
	}
	return sel, steps, true
}

// c04Follow: what the steps select in a decoded document (a missing member, an index past the
// end and any member of null or of a scalar give null); ok=false: a runtime error (a negative
// index before the start) or a step this function does not predict.
func c04Follow(v interface{}, steps []c04Step) (interface{}, bool) {
	for _, st := range steps {
		switch c := v.(type) {
		case map[string]interface{}:
			if !st.isKey {
				return nil, false
			}
			v = c[st.key]
		case []interface{}:
			switch {
			case st.isKey:
				v = nil
			case st.index >= 0 && st.index < len(c):
				v = c[st.index]
			case st.index >= 0:
				v = nil
			case len(c)+st.index >= 0:
				v = c[len(c)+st.index]
			default:
				return nil, false
			}
		case nil:
			v = nil
		default:
			if !st.isKey {
				return nil, false // an index into a string gives a character
			}
			v = nil
		}
	}
	return v, true
}

var c04StreamProgs = []string{
	"{ print json($) }", "{ print json($) }", "{ print $ }", "{ print $file, $ }", "{ print $file, json($) }",
	"BEGINFILE { print 'bf', $ } { print $ } ENDFILE { print 'ef', $ }", "{ n++ } END { print n, $ }", "$", "{}",
	"{ last = $ } END { print json(last) }", "BEGINFILE { print json($) }", "ENDFILE { print json($) }",
}

func c04SelectorStreams(r *rand.Rand, tier string, emit func(Case)) {
	n := tierN(tier, 2500, 25000)
	haveBin := os.Getenv("JQAWK_BIN") != ""
	for i := 0; i < n; i++ {
		leaf := 0
		shape := c04ShapeGen(r, 0, &leaf)
		nd := 2 + r.Intn(4)
		if chance(r, 0.08) {
			nd = 1
		}
		trees := make([]interface{}, nd)
		texts := make([]string, nd)
		for d := range trees {
			t := shape.render(r, d)
			b, err := json.Marshal(t)
			if err != nil {
				panic(err)
			}
			texts[d] = string(b)
			trees[d], _ = vgDecodeOne(b)
		}
		ns := 1
		if chance(r, 0.3) {
			ns = 2 + r.Intn(2)
		}
		var sels []string
		var paths [][]c04Step
		good := true
		for s := 0; s < ns; s++ {
			sel, steps, ok := c04ShapePath(r, shape)
			good = good && ok
			sels = append(sels, sel)
			paths = append(paths, steps)
		}
		if !good {
			continue
		}
		// what every selector selects in every document, in the order the rules see it
		var roots []interface{}
		predictable := true
		for d := range trees {
			for _, p := range paths {
				v, ok := c04Follow(trees[d], p)
				predictable = predictable && ok
				roots = append(roots, v)
			}
		}
		// the documents in one file or spread over several files
		nf := 1
		if chance(r, 0.35) {
			nf = 2 + r.Intn(2)
		}
		if nf > nd {
			nf = nd
		}
		files := make([]File, nf)
		per := make([][]string, nf)
		for d := range texts {
			f := d * nf / nd
			per[f] = append(per[f], texts[d])
		}
		var shown []string
		for f := range files {
			sep := pick(r, []string{"\n", "\n", " ", "", "\n\n", "\t", " \n "})
			data := strings.Join(per[f], sep) + pick(r, []string{"", "\n", " "})
			files[f] = File{Name: fmt.Sprintf("f%d.json", f+1), Data: []byte(data)}
			shown = append(shown, data)
		}
		prog := pick(r, c04StreamProgs)
		if chance(r, 0.2) {
			prog = pick(r, c04ReadOnlyProgs)
		}
		wantJSON := chance(r, 0.65)
		c := Case{Req: RunReq(prog, sels, files, wantJSON), Fields: c04Fields,
			Meta: metaProg(prog, "input", short(strings.Join(shown, " | ")), "documents", fmt.Sprint(nd), "files", fmt.Sprint(nf), "selectors", strings.Join(sels, "  "), "-o", fmt.Sprint(wantJSON)),
			NonTrivial: func(i Resp) bool {
				return i["class"] == "ok" && (i["out"] != "-" && i["out"] != "" || c04HasJSON(i))
			}}
		if predictable {
			last := roots[len(roots)-1]
			var recs []interface{}
			for _, v := range roots {
				recs = append(recs, c04Records(v)...)
			}
			printsJSON := prog == "{ print json($) }"
			c.Meta["expect"] = "-o: " + vgShow(last)
			c.Oracle = func(i Resp) string {
				if wantJSON {
					if w := c04RootOracle(last)(i); w != "" {
						return w
					}
				}
				if printsJSON {
					return c04OutOracle(recs)(i)
				}
				if i["class"] != "ok" {
					return "class=" + i["class"] + " msg=" + i["msg"] + " (neither the selectors nor the program can fail)"
				}
				return ""
			}
		}
		emit(c)
		// the same through the real binary (one input: -o refuses several)
		if haveBin && predictable && nf == 1 && i%6 == 0 {
			var argv []string
			for _, s := range sels {
				argv = append(argv, "-r", s)
			}
			toFile := chance(r, 0.5)
			o, ofile := "-", ""
			if toFile {
				o, ofile = "out.json", "out.json"
			}
			argv = append(argv, "-o", o, "{}")
			var disk []CliFile
			var stdin []byte
			useStdin := chance(r, 0.5)
			if useStdin {
				stdin = files[0].Data
			} else {
				disk = []CliFile{{Name: "f1.json", Data: files[0].Data}}
				argv = append(argv, "f1.json")
			}
			emit(Case{Req: CliReq(argv, stdin, useStdin, disk, ofile), Fields: c04CliFields, NonTrivial: c04CliNT,
				Meta:   metaProg("{}", "input", short(shown[0]), "argv", strings.Join(argv, " ␣ "), "variant", "the binary", "expect", vgShow(roots[len(roots)-1])),
				Oracle: c04CliJSONOracle(roots[len(roots)-1], toFile, "")})
		}
	}
}

// ---- -o of inputs that cannot be rewound --------------------------------------------------
//
// The value -o writes is the value that was READ, whatever kind of file delivered the bytes:
// a regular file, a named pipe, /dev/stdin (or /dev/fd/0, /proc/self/fd/0) with a pipe or a
// regular file behind it, or plain standard input. Documents of 0-8 bytes and longer, with and
// without a byte order mark (which is not JSON: Go's decoder rejects it, so must the binary).

var c04TinyDocs = []string{
	"", "1", "7", "12", "123", "1234", "12345", "123456", "1234567", "12345678", "[]", "{}", "[1]", "[[]]", "null", "true", "false", "\"\"", "\"a\"", "\"abc\"",
	"1 2", "1 2 3", "1  [2]", "1\n[2]", " 1", "  7", "   8", "\n\n\n7", "   [1]", "\t\t\t\t{}", "[1,2]", "[1, 2]", "{\"a\":1}", "0", "-1", "1e3", "1.5", "0.25", "[", "]", "tru", "nul", "12,", "1,2",
	"\"\\u00e9\"", "\"é\"", "nullnull", "[][]", "[] {}", "{}  7", "1 [", "11 1",
}

var c04LongerDocs = []string{
	"[1,{\"a\":[]},\"x\"]", "{\"k\":[true,null]}", "123456789", "1234567890123", "[1234567]\n", "{\"x\":1}\n{\"x\":2}\n", "[1,2,3] [4,5,6]", "   \n   {\"name\": \"alligator\", \"tags\": [\"a\", \"b\"]}\n",
	"\"a string that is longer than any probe\"", "1 2 3 4 5 6 7 8 9", "[[[[[[[[1]]]]]]]]", "{\"a\":{\"b\":{\"c\":[null,false,\"\"]}}}",
}

func c04Unseekable(r *rand.Rand, tier string, emit func(Case)) {
	if os.Getenv("JQAWK_BIN") == "" {
		emit(Case{ID: "no-binary", Req: "cli - - - -", ImplOnly: true, Oracle: c04CliBasic,
			Meta: map[string]string{"problem": "env JQAWK_BIN is not set; this family runs the real binary"}})
		return
	}
	type scen struct{ data, what string }
	var scens []scen
	bom := "\xef\xbb\xbf"
	for _, d := range c04TinyDocs {
		scens = append(scens, scen{d, "tiny"})
	}
	for _, d := range c04LongerDocs {
		scens = append(scens, scen{d, "longer"})
	}
	nb := tierN(tier, 14, 400)
	all := append(append([]string{}, c04TinyDocs...), c04LongerDocs...)
	for i := 0; i < nb; i++ {
		d := pick(r, all)
		switch r.Intn(6) {
		case 0, 1, 2:
			scens = append(scens, scen{bom + d, "byte order mark first"})
		case 3:
			scens = append(scens, scen{bom[:1+r.Intn(2)] + d, "part of a byte order mark first"})
		case 4:
			scens = append(scens, scen{bom + bom + d, "two byte order marks first"})
		default:
			scens = append(scens, scen{d + pick(r, []string{"", " ", "\n"}) + bom + pick(r, all), "byte order mark between two values"})
		}
	}
	nr := tierN(tier, 12, 600)
	for i := 0; i < nr; i++ {
		switch r.Intn(4) {
		case 0:
			scens = append(scens, scen{vgStream(r, vgRichCfg()), "rich stream"})
		case 1:
			scens = append(scens, scen{c04BinaryDoc(r), "%-rich document"})
		case 2:
			// white space of every length in front of a short value
			scens = append(scens, scen{strings.Repeat(pick(r, []string{" ", "\n", "\t", "\r\n"}), r.Intn(9)) + pick(r, c04TinyDocs), "white space first"})
		default:
			size := pick(r, []int{200, 5000})
			if tier == "thorough" && chance(r, 0.1) {
				size = 70000
			}
			var sb strings.Builder
			sb.WriteString("[")
			for k := 0; sb.Len() < size; k++ {
				if k > 0 {
					sb.WriteString(",")
				}
				fmt.Fprintf(&sb, "{\"i\":%d,\"s\":\"v%d\"}", k, k)
			}
			sb.WriteString("]\n")
			scens = append(scens, scen{sb.String(), fmt.Sprintf("%d bytes", size)})
		}
	}
	withFlags := func(req string, flags ...string) string {
		for _, f := range flags {
			if f == "" {
				continue
			}
			if strings.HasSuffix(req, " -") {
				req = strings.TrimSuffix(req, "-") + f
			} else {
				req += "," + f
			}
		}
		return req
	}
	for si, sc := range scens {
		data := []byte(sc.data)
		vals, derr := vgDecodeAll(data)
		wellFormed := derr == nil && len(vals) > 0
		modes := []bool{si%2 == 1}
		if tier == "thorough" || sc.what != "tiny" {
			modes = []bool{false, true}
		}
		for _, toFile := range modes {
			toFile := toFile
			o, ofile, oflag := "-", "", ""
			if toFile {
				o, ofile = "out.json", "out.json"
				oflag = "o=" + hxs(ofile)
			}
			// the BEGIN line tells the harness that the binary has opened its inputs: a named pipe
			// loses what was written into it if the writer closes before the reader has opened it
			own := "go\n"
			prog := "BEGIN { print \"go\" } " + pick(r, []string{"{}", "{}", "{ x = $ }", "{ n = n + 1 }"})
			argv := func(names ...string) []string { return append([]string{"-o", o, prog}, names...) }
			g := fmt.Sprintf("unseekable-%d-%v", si, toFile)
			var oracle func(Resp) string
			if wellFormed {
				oracle = c04CliJSONOracle(vals[len(vals)-1], toFile, own)
			} else {
				oracle = func(i Resp) string {
					if w := c04CliBasic(i); w != "" {
						return w
					}
					if i["exit"] == "0" {
						return "Go's decoder rejects this input (or it is empty) but the binary exits with status 0"
					}
					if i["ofexists"] == "1" {
						return "an -o file was written although the run failed"
					}
					return ""
				}
			}
			k := 0
			add := func(how, req, modelReq string) {
				k++
				c := Case{ID: fmt.Sprintf("%s/%d", g, k), Req: req, Fields: c04CliFields, Group: g, GroupFields: c04CliFields, Oracle: oracle, NonTrivial: c04CliNT,
					Meta: metaProg(prog, "input", fmt.Sprintf("%s (%d bytes): %s", sc.what, len(data), short(fmt.Sprintf("%q", sc.data))), "delivery", how, "-o", o, "row", how, "col", sc.what)}
				if modelReq != req {
					c.ModelReq = modelReq
				}
				if len(data) > 100000 {
					c.ImplOnly = true
				}
				emit(c)
			}
			plain := CliReq(argv("in.json"), nil, false, []CliFile{{Name: "in.json", Data: data}}, ofile)
			add("regular file", plain, plain)
			fifo := func(first, rest []byte) string {
				return withFlags(CliStagedReq(argv("in.json"), "fifo", nil, nil, []CliFile{{Name: "in.json", Fifo: true, Data: first, Rest: rest}}, 1), oflag)
			}
			add("named pipe, everything written before the binary reads", fifo(data, nil), plain)
			if len(data) > 0 && (si%3 == 0 || tier == "thorough") {
				add("named pipe, everything written once the binary waits", fifo(nil, data), plain)
			}
			if len(data) > 1 {
				cut := 1 + r.Intn(len(data)-1)
				if len(data) > 5 && chance(r, 0.7) {
					cut = 1 + r.Intn(4)
				}
				add(fmt.Sprintf("named pipe, %d bytes, a pause, the rest", cut), fifo(data[:cut], data[cut:]), plain)
			}
			for _, dev := range []string{"/dev/stdin", "/dev/fd/0", "/proc/self/fd/0"} {
				if dev != "/dev/stdin" && si%4 != 0 && tier != "thorough" {
					continue
				}
				devModel := CliReq(argv(dev), nil, false, []CliFile{{Name: dev, Data: data}}, ofile)
				add(dev+" named, stdin is a pipe", CliReq(argv(dev), data, true, nil, ofile), devModel)
				if dev == "/dev/stdin" {
					add(dev+" named, stdin is a regular file", CliStdinKindReq(argv(dev), data, "file", nil, ofile), devModel)
					if len(data) > 1 && si%3 == 1 {
						cut := 1 + r.Intn(min(len(data)-1, 4))
						add(fmt.Sprintf("%s named, stdin is a pipe fed with %d bytes, a pause, the rest", dev, cut),
							withFlags(CliStagedReq(argv(dev), "stdin", data[:cut], data[cut:], nil, 1<<30), oflag, "d=15"), devModel)
					}
				}
			}
			stdinModel := CliReq(argv(), data, true, nil, ofile)
			add("standard input without a name, a pipe", stdinModel, stdinModel)
			if si%3 == 2 || tier == "thorough" {
				add("standard input without a name, a regular file", CliStdinKindReq(argv(), data, "file", nil, ofile), stdinModel)
				add("standard input without a name, a socket", CliStdinKindReq(argv(), data, "socket", nil, ofile), stdinModel)
			}
		}
	}
}

func init() {
	register(Family{
		Name: "json-results-held", Prop: "C04",
		Rule: "HISTORIES of json(): 2-5 results (short scalars, literal trees, arrays of 1-60 elements, objects; in random order, shorter then longer, longer then shorter) are alive at the same time -- in variables, pushed into an array, object members, elements of one array / object literal, arguments of one print / printf / call, both operands of + and of == / !=, results of a function that calls json(), the previous result kept while the next one is made, one result per record kept until END -- and are printed only after all calls were made; oracle: the output is the sequence of JSON texts that Go decodes to the values the texts were made from (== / != of the texts of equal / different values: true / false)",
		Gen:  c04HeldResults,
	})
	register(Family{
		Name: "selectors-streams", Prop: "C04",
		Rule: "1-3 -r selectors on inputs holding 1-5 DOCUMENTS of one shape whose leaves name the document (members now and then missing, arrays longer or shorter), as a stream / JSON lines in one file or spread over 2-3 files, with and without -o, rules printing $ / json($) / $index / $file, BEGINFILE / ENDFILE / END rules; oracle: -o re-parses to what the LAST selector selects in the LAST document, { print json($) } prints the records of what every selector selects in every document, in order; every sixth single-file case also through the real binary (-r … -o - / -o FILE, file or stdin)",
		Gen:  c04SelectorStreams,
	})
	register(Family{
		Name: "o-unseekable-inputs", Prop: "C04",
		Rule: "the REAL BINARY with -o - / -o FILE on documents of 0-8 bytes (every length; numbers, containers, streams, leading white space, ill-formed ones), longer ones, rich / %-rich / 200 B - 5 kB (thorough 70 kB) documents, each also with a byte order mark (whole, in part, twice, between two values: not JSON), delivered as a regular file (compared with the model; first of the Group), a named pipe given as file argument (written before the binary reads / once it waits / in two parts), /dev/stdin, /dev/fd/0, /proc/self/fd/0 given by name with stdin a pipe / a regular file / a pipe fed in two parts, and plain standard input (pipe, regular file, socket); oracle: exit 0 and JSON that re-parses to the last value of the bytes iff Go's decoder accepts them, otherwise a failure and no -o file; Group: every delivery answers as the regular file does (exit, stdout, diagnostic flag, -o file) and as the model does for the bytes in a plain file",
		Gen:  c04Unseekable,
	})
}
