package main

// C04 — JSON written by -o and json() is valid and equal to the value it
// represents; cyclic values and values JSON cannot express are errors.
//
// Every case is compared with the model on class, out, json. In addition the
// implementation's answer alone is checked with Go's own decoder in the harness
// (the property's replay oracle): re-parse of -o / json() output must equal the
// re-parse of the input (bit-exact numbers), or the tree the generator built; a
// cyclic / inexpressible value must give a runtime error (json()) or ERR (-o).
// deep-nesting (at the end of the file): documents and values nested up to 10 000 levels.

import (
	"fmt"
	"math/rand"
	"os"
	"sort"
	"strings"
)

var c04Fields = []string{"class", "out", "json"}

// read-only programs: none of them may change the document.
var c04ReadOnlyProgs = []string{
	"{}",
	"{ }",
	"{ x = $.a }",
	"{ x = $; y = x }",
	"{ x = $.a.b.c; y = $[0]; z = $['a'] }",
	"{ x = $[7]; y = $[7] is null }",
	"{ if ($ is object || $ is array) { for (k in $) n++ } }",
	"{ if ($ is object || $ is array) { for (k, v in $) { s = s + k; t = v } } }",
	"{ if ($ is array) { l = $.length(); c = $.sort() } }",
	"{ o = {}; o.d = $; l = o.length(); p = o.pluck('d', 'zz') }",
	"{ j = json($) }",
	"{ n = n + 1; last = $ }",
	"BEGIN { x = 1 }",
	"END { y = 2 }",
	"BEGINFILE { z = $ }",
	"BEGINFILE { z = $ } ENDFILE { w = $ }",
	"BEGIN { x = 1 } { y = $ } END { z = y }",
	"$.a",
	"$ is array { x = $[0] }",
	"function id(v) { return v }\n{ x = id($) }",
	"{ x = $ is number && $ == 1; y = $ is string }",
	"{ match ($) { [a, b] => a, x => x }\n}",
}

func c04JSONField(i Resp) (string, interface{}, string) {
	if i["class"] != "ok" {
		return "", nil, "class=" + i["class"] + " msg=" + i["msg"] + " (the program cannot fail)"
	}
	if i["json"] == "ERR" || i["json"] == "-" || i["json"] == "" {
		return "", nil, "no JSON output: json=" + i["json"]
	}
	text := string(i.Bytes("json"))
	got, err := vgDecodeOne([]byte(text))
	if err != nil {
		return text, nil, "-o output is not valid JSON for Go's decoder: " + err.Error() + ": " + short(text)
	}
	return text, got, ""
}

// c04RootOracle: -o output re-parsed equals want.
func c04RootOracle(want interface{}) func(Resp) string {
	return func(i Resp) string {
		text, got, w := c04JSONField(i)
		if w != "" {
			return w
		}
		if !vgEqual(got, want) {
			return "-o output parses to a different value: want " + vgShow(want) + " got " + vgShow(got) + " text " + short(text)
		}
		return ""
	}
}

// c04OutOracle: the standard output is a sequence of JSON texts equal to want.
func c04OutOracle(want []interface{}) func(Resp) string {
	return func(i Resp) string {
		if i["class"] != "ok" {
			return "class=" + i["class"] + " msg=" + i["msg"] + " (json() of this value cannot fail)"
		}
		got, err := vgDecodeAll(i.Bytes("out"))
		if err != nil {
			return "json() output is not valid JSON for Go's decoder: " + err.Error() + ": " + short(string(i.Bytes("out")))
		}
		if len(got) != len(want) {
			return fmt.Sprintf("json() printed %d values, expected %d: %s", len(got), len(want), short(string(i.Bytes("out"))))
		}
		for k := range got {
			if !vgEqual(got[k], want[k]) {
				return fmt.Sprintf("json() value %d parses to a different value: want %s got %s", k, vgShow(want[k]), vgShow(got[k]))
			}
		}
		return ""
	}
}

// c04ErrOracle: json() of a cyclic / inexpressible value: a runtime error, output before it kept.
func c04ErrOracle(wantOut string) func(Resp) string {
	return func(i Resp) string {
		if i["class"] != "runtime" {
			return "json() of a cyclic or inexpressible value must be a runtime error, got class=" + i["class"] + " out=" + short(string(i.Bytes("out")))
		}
		if string(i.Bytes("out")) != wantOut {
			return "output before the error differs: " + short(string(i.Bytes("out")))
		}
		return ""
	}
}

// c04RootErrOracle: -o of a cyclic / inexpressible root: the program runs, writing the JSON fails.
func c04RootErrOracle(i Resp) string {
	if i["class"] != "ok" {
		return "the program must succeed, got class=" + i["class"] + " msg=" + i["msg"]
	}
	if i["json"] != "ERR" {
		return "-o of a cyclic or inexpressible root must be an error, got " + short(string(i.Bytes("json")))
	}
	return ""
}

func c04HasJSON(i Resp) bool {
	return i["class"] == "ok" && i["json"] != "-" && i["json"] != "" && i["json"] != "ERR"
}

// records of a root as the rule driver sees them
func c04Records(root interface{}) []interface{} {
	if arr, ok := root.([]interface{}); ok {
		return arr
	}
	return []interface{}{root}
}

// ---- selectors

var c04DotKeys = map[string]bool{"a": true, "b": true, "c": true, "d": true, "name": true, "k1": true, "A": true, "aa": true, "self": true}
var c04Methods = map[string]bool{"length": true, "push": true, "pop": true, "popfirst": true, "contains": true, "sort": true, "pluck": true, "split": true, "lower": true, "upper": true, "floor": true, "ceil": true, "round": true}

func c04KeyStep(r *rand.Rand, key string) (string, bool) {
	if c04DotKeys[key] && chance(r, 0.7) {
		return "." + key, true
	}
	for i := 0; i < len(key); i++ {
		if key[i] < 0x20 && key[i] != '\n' && key[i] != '\t' {
			return "", false
		}
	}
	lit, ok := strLit(r, key)
	if !ok {
		return "", false
	}
	return "[" + lit + "]", true
}

// c04Selector walks the decoded document and writes a selector for the path
// taken; returns the selector and the value it must select (missing members
// select null). ok=false: no selector could be written.
func c04Selector(r *rand.Rand, root interface{}) (string, interface{}, bool) {
	sel := "$"
	cur := root
	steps := r.Intn(4)
	if chance(r, 0.1) {
		steps = 0
	}
	for s := 0; s < steps; s++ {
		switch c := cur.(type) {
		case []interface{}:
			switch {
			case len(c) > 0 && chance(r, 0.7):
				i := r.Intn(len(c))
				sel += fmt.Sprintf("[%d]", i)
				cur = c[i]
			case len(c) > 0 && chance(r, 0.5):
				i := 1 + r.Intn(len(c))
				sel += fmt.Sprintf("[-%d]", i)
				cur = c[len(c)-i]
			case chance(r, 0.5):
				sel += fmt.Sprintf("[%d]", len(c)+r.Intn(3))
				cur = nil
			default:
				sel += ".zz"
				cur = nil
			}
		case map[string]interface{}:
			keys := make([]string, 0, len(c))
			for k := range c {
				keys = append(keys, k)
			}
			sort.Strings(keys)
			if len(keys) > 0 && chance(r, 0.8) {
				k := pick(r, keys)
				st, ok := c04KeyStep(r, k)
				if !ok {
					return "", nil, false
				}
				sel += st
				cur = c[k]
			} else {
				k := pick(r, []string{"zz", "q", "7"})
				if _, present := c[k]; present {
					return "", nil, false
				}
				if k == "7" {
					sel += "[7]"
				} else {
					sel += "." + k
				}
				cur = nil
			}
		default:
			// a scalar or null: any member of it is null (strings are only asked for names)
			sel += pick(r, []string{".zz", ".a", "['k']"})
			cur = nil
		}
	}
	return sel, cur, true
}

// ---- documents for the run through the real binary -------------------------------------------

// strings that a printf-style writer, a shell-ish quoting step or a buffered writer would mangle
var c04PctPieces = []string{"%", "%d", "%s", "%%", "%!", "%v", "%!s(MISSING)", "100%", "50% off", "%[1]d", "%-5s|", "%+v", "% x", "%c", "%q", "%5.2f", "%!(EXTRA string=x)", "%%%", "%\n", "%\"", "\\%", "%\\",
	"\\", "\\\\", "\"", "\"\"", "'", "`", "$HOME", "$(x)", "\x00", "\x01", "\x1b[31m", "\x7f", "\b\f\n\r\t", "\r\n", "é", "日本語", "\U0001F642", "\u2028", " ", "<b>&amp;</b>", "\ufeff", "a", "key", "x y", "", "%s%s%s%s%s%s%s%s", "%n", "%*d", "%.*s"}

func c04PctString(r *rand.Rand, long bool) string {
	var sb strings.Builder
	n := 1 + r.Intn(4)
	for i := 0; i < n; i++ {
		sb.WriteString(pick(r, c04PctPieces))
	}
	if long {
		// long strings: past 4 kB / 64 kB write and pipe buffers
		unit := pick(r, []string{"x", "%d ", "long é ", "50% ", "\\", "\"q\" "})
		sb.WriteString(strings.Repeat(unit, pick(r, []int{200, 1500, 4096, 5000, 70000})/len(unit)+1))
		sb.WriteString(pick(r, c04PctPieces))
	}
	return sb.String()
}

func c04PctDoc(r *rand.Rand, depth int, budget *int) string {
	cfg := vgDocCfg{}
	*budget--
	k := r.Intn(10)
	if depth >= 4 || *budget <= 0 {
		k = r.Intn(6)
	}
	switch k {
	case 0:
		return pick(r, []string{"null", "true", "false", "[]", "{}"})
	case 1:
		return vgNumber(r)
	case 2, 3, 4, 5:
		return vgEncodeString(r, c04PctString(r, chance(r, 0.03)), cfg)
	case 6, 7:
		n := r.Intn(4)
		parts := make([]string, n)
		for i := range parts {
			parts[i] = c04PctDoc(r, depth+1, budget)
		}
		return "[" + strings.Join(parts, pick(r, []string{",", ", ", " ,\n"})) + "]"
	default:
		n := r.Intn(4)
		var parts []string
		seen := map[string]bool{}
		for i := 0; i < n; i++ {
			key := c04PctString(r, chance(r, 0.01))
			if seen[key] {
				continue
			}
			seen[key] = true
			parts = append(parts, vgEncodeString(r, key, cfg)+pick(r, []string{":", ": "})+c04PctDoc(r, depth+1, budget))
		}
		return "{" + strings.Join(parts, ",") + "}"
	}
}

// c04BinaryDoc: the text of an input stream for the binary: a %-rich document, or one of the
// rich documents of the library families (every escape form, invalid UTF-8, numeric extremes).
func c04BinaryDoc(r *rand.Rand) string {
	if chance(r, 0.3) {
		return vgStream(r, vgRichCfg())
	}
	budget := 25
	var doc string
	for {
		doc = c04PctDoc(r, 0, &budget)
		if doc[0] == '[' || doc[0] == '{' || doc[0] == '"' || chance(r, 0.2) {
			break
		}
		budget = 25
	}
	if chance(r, 0.1) {
		b2 := 10
		doc = c04PctDoc(r, 0, &b2) + pick(r, []string{"\n", " "}) + doc // a stream: -o writes the last value
	}
	return doc
}

func c04CliBasic(i Resp) string {
	switch i["class"] {
	case "nobinary":
		return "JQAWK_BIN is not set: the binary was not run"
	case "badrequest", "crash", "garbled":
		return "harness problem running the binary: " + i.String()
	}
	stderr := string(i.Bytes("stderr"))
	if strings.Contains(stderr, "goroutine ") || strings.Contains(stderr, "panic:") {
		return "the binary panicked: " + short(stderr)
	}
	return ""
}

// c04CliJSONOracle: the JSON that reached stdout (-o -, after the program's own output `own`)
// or the -o file re-parses, with Go's decoder, to `want`.
func c04CliJSONOracle(want interface{}, toFile bool, own string) func(Resp) string {
	return func(i Resp) string {
		if w := c04CliBasic(i); w != "" {
			return w
		}
		if i["exit"] != "0" {
			return "the binary failed (exit " + i["exit"] + ") on a well-formed document and a program that cannot fail: " + short(string(i.Bytes("stderr")))
		}
		var text string
		if toFile {
			if i["ofexists"] != "1" {
				return "-o FILE: no file was written"
			}
			text = string(i.Bytes("ofile"))
			if got := string(i.Bytes("out")); got != own {
				return fmt.Sprintf("-o FILE: stdout is %q, the program prints %q", short(got), short(own))
			}
		} else {
			out := string(i.Bytes("out"))
			if !strings.HasPrefix(out, own) {
				return fmt.Sprintf("-o -: stdout %q does not start with the program's own output %q", short(out), short(own))
			}
			text = out[len(own):]
		}
		got, err := vgDecodeOne([]byte(text))
		if err != nil {
			return "the JSON written by the binary is not valid JSON for Go's decoder: " + err.Error() + ": " + short(text)
		}
		if !vgEqual(got, want) {
			return "the JSON written by the binary parses to a different value: want " + short(vgShow(want)) + " got " + short(vgShow(got)) + " text " + short(text)
		}
		return ""
	}
}

func c04CliNT(i Resp) bool { return i["exit"] == "0" && (i["out"] != "-" || i["ofexists"] == "1") }

var c04CliFields = []string{"exit", "out", "err", "ofile", "ofexists"}

// programs that print the document or parts of it (stdout path of the binary)
var c04PrintProgs = []string{
	"{ print $ }", "{ print json($) }", "{ print json($), $ }", "{ printf(\"%s\\n\", json($)) }", "{ printf(\"%s|%s|\\n\", \"100%\", json($)) }",
	"BEGIN { print \"50%\", \"%d\", \"%%\", \"%!s(MISSING)\" }\n{ print json($) }", "BEGIN { printf(\"100%%|%s|%%d\\n\", \"%s\") }", "{ if ($ is object || $ is array) { for (k, v in $) print k, json(v) } }",
	"{ x = \"%\" + json($) + \"%s\"; print x }", "END { print json($) }", "$ is string { print $, $.length(), $.upper() }",
}

func c04ThroughBinary(r *rand.Rand, tier string, emit func(Case)) {
	if os.Getenv("JQAWK_BIN") == "" {
		emit(Case{ID: "no-binary", Req: "cli - - - -", ImplOnly: true, Oracle: c04CliBasic,
			Meta: map[string]string{"problem": "env JQAWK_BIN is not set; this family runs the real binary"}})
		return
	}
	n := tierN(tier, 500, 12000)
	for i := 0; i < n; i++ {
		data := c04BinaryDoc(r)
		if chance(r, 0.04) && len(data) > 0 {
			b := []byte(data)
			p := r.Intn(len(b))
			b[p] = pick(r, []byte{'"', '\\', ',', '%', '}', 0x01, 'x'})
			data = string(b)
		}
		vals, derr := vgDecodeAll([]byte(data))
		wellFormed := derr == nil && len(vals) > 0
		name := pick(r, []string{"in.json", "100%.json", "%d.json", "in.json"})
		useStdin := chance(r, 0.25)
		var disk []CliFile
		var names []string
		var stdin []byte
		lib := []File{{Name: "<stdin>", Data: []byte(data)}}
		if useStdin {
			stdin = []byte(data)
		} else {
			disk = []CliFile{{Name: name, Data: []byte(data)}}
			names = []string{name}
			lib[0].Name = name
		}
		g := fmt.Sprintf("bin-%d", i)
		if i%4 == 3 {
			// stdout path: print / printf / json()
			prog := pick(r, c04PrintProgs)
			argv := append([]string{prog}, names...)
			emit(Case{ID: g + "/lib", Req: RunReq(prog, nil, lib, false), Fields: []string{"class", "out"}, Group: g,
				Meta: metaProg(prog, "input", short(data), "variant", "library run (reference of the group)")})
			c := Case{ID: g + "/print", Req: CliReq(argv, stdin, useStdin, disk, ""), Fields: c04CliFields, Group: g, GroupFields: []string{"out"},
				Meta: metaProg(prog, "input", short(data), "argv", strings.Join(argv, " ␣ "), "variant", "the binary: what print / printf / json() send to stdout"), Oracle: c04CliBasic,
				NonTrivial: func(i Resp) bool { return i["out"] != "-" && i["out"] != "" },
				GroupCheck: func(first, self Resp) string {
					if (first["class"] == "ok") != (self["exit"] == "0") {
						return "library outcome " + first["class"] + ", binary exit status " + self["exit"]
					}
					return ""
				}}
			if prog == "{ print json($) }" && wellFormed {
				var recs []interface{}
				for _, v := range vals {
					recs = append(recs, c04Records(v)...)
				}
				c.Oracle = func(i Resp) string {
					if w := c04CliBasic(i); w != "" {
						return w
					}
					return c04OutOracle(recs)(Resp{"class": "ok", "out": i["out"]})
				}
			}
			emit(c)
			continue
		}
		prog := pick(r, c04ReadOnlyProgs)
		for prog == "$.a" { // a bare pattern prints the record: the others print nothing
			prog = pick(r, c04ReadOnlyProgs)
		}
		own := ""
		libCase := Case{ID: g + "/lib", Req: RunReq(prog, nil, lib, true), Fields: c04Fields, Group: g,
			Meta: metaProg(prog, "input", short(data), "variant", "library run (reference of the group)")}
		if wellFormed {
			libCase.Oracle = c04RootOracle(vals[len(vals)-1])
		}
		emit(libCase)
		for _, toFile := range []bool{false, true} {
			toFile := toFile
			o, ofile := "-", ""
			cdisk := disk
			preKind := "no -o file"
			var pre []byte
			preExists := false
			if toFile {
				o = pick(r, []string{"out.json", "100%.out", "%s"})
				ofile = o
				// the -o file may exist already: longer / shorter / as long as the JSON to be
				// written (length learnt from the library, in the generator), empty, or the
				// input file itself; what it held is JSON text, so that a stale tail shows as
				// trailing garbage or a second value
				preKind = pick(r, []string{"fresh file", "fresh file", "existing, longer", "existing, longer", "existing, shorter", "existing, equal length", "existing, one byte longer", "existing, empty", "the input file itself", "the input file itself"})
				L := len(ParseResp(implAnswer(RunReq(prog, nil, lib, true))).Bytes("json"))
				unit := "[{\"name\": \"alligator\", \"tags\": [\"a\", \"b\", \"c\"]}, {\"name\": \"someone else\", \"tags\": []}]\n"
				old := strings.Repeat(unit, (2*L+200)/len(unit)+2)
				switch preKind {
				case "existing, longer":
					pre, preExists = []byte(old[:L+1+r.Intn(L+150)]), true
				case "existing, one byte longer":
					pre, preExists = []byte(old[:L+1]), true
				case "existing, shorter":
					pre, preExists = []byte(old[:r.Intn(L+1)]), true
				case "existing, equal length":
					pre, preExists = []byte(old[:L]), true
				case "existing, empty":
					pre, preExists = []byte{}, true
				case "the input file itself":
					if useStdin {
						preKind = "fresh file"
					} else {
						o, ofile, pre, preExists = name, name, []byte(data), true
					}
				}
				if preExists && o != name {
					cdisk = append(append([]CliFile{}, disk...), CliFile{Name: o, Data: pre})
				}
			}
			argv := append([]string{pick(r, []string{"-o", "--o"}), o, prog}, names...)
			if chance(r, 0.3) {
				argv = append([]string{"-o=" + o, prog}, names...)
			}
			c := Case{ID: g + "/o=" + o, Req: CliReq(argv, stdin, useStdin, cdisk, ofile), Fields: c04CliFields, Group: g, NonTrivial: c04CliNT,
				Meta: metaProg(prog, "input", short(data), "argv", strings.Join(argv, " ␣ "), "variant", "the binary with -o "+o, "-o target", fmt.Sprintf("%s (%d bytes before the run)", preKind, len(pre)))}
			if wellFormed {
				c.Oracle = c04CliJSONOracle(vals[len(vals)-1], toFile, own)
			} else {
				c.Oracle = func(i Resp) string {
					if w := c04CliBasic(i); w != "" {
						return w
					}
					if i["exit"] == "0" {
						return "Go's decoder rejects this input (or it is empty) but the binary exits with status 0"
					}
					if !preExists && i["ofexists"] == "1" {
						return "an -o file was written although the run failed"
					}
					if preExists && string(i.Bytes("ofile")) != string(pre) {
						return "the run failed but the existing -o file was changed"
					}
					return ""
				}
			}
			// byte-exact: what the binary wrote is GetRootJson's text
			c.GroupCheck = func(first, self Resp) string {
				if (first["class"] == "ok" && first["json"] != "ERR") != (self["exit"] == "0") {
					return "library outcome " + first["class"] + " json=" + short(first["json"]) + ", binary exit status " + self["exit"]
				}
				if self["exit"] != "0" {
					return ""
				}
				js := string(first.Bytes("json"))
				got := string(self.Bytes("out"))
				if toFile {
					got = string(self.Bytes("ofile"))
				}
				if got != string(first.Bytes("out"))+js {
					if toFile {
						return fmt.Sprintf("the -o file holds %q, GetRootJson gives %q", short(got), short(js))
					}
					return fmt.Sprintf("-o - printed %q, GetRootJson gives %q", short(got), short(js))
				}
				return ""
			}
			emit(c)
		}
	}
}

func init() {
	register(Family{
		Name: "o-roundtrip", Prop: "C04",
		Rule: "rich documents (empty containers at every depth, every escape form, non-ASCII, U+2028/9, < > &, invalid UTF-8, numeric extremes and random doubles, duplicate keys, depth <= 8, streams of several values) run through a program that does not modify them, then -o; oracle: Go-decode(-o bytes) == Go-decode(last input value) bit for bit; non-trivial = JSON was written",
		Gen: func(r *rand.Rand, tier string, emit func(Case)) {
			n := tierN(tier, 6000, 60000)
			for i := 0; i < n; i++ {
				data := vgStream(r, vgRichCfg())
				if chance(r, 0.06) {
					// the ill-formed stream: one byte deleted, changed or inserted
					b := []byte(data)
					p := r.Intn(len(b))
					switch r.Intn(3) {
					case 0:
						b = append(b[:p:p], b[p+1:]...)
					case 1:
						b[p] = pick(r, []byte{'"', '\\', ',', ':', '[', '}', '0', 'e', '-', ' ', 0x01, 0xff, 'x'})
					default:
						b = append(b[:p:p], append([]byte{pick(r, []byte{'"', '\\', ',', ']', '{', '1', '.', 'u'})}, b[p:]...)...)
					}
					data = string(b)
				}
				vals, err := vgDecodeAll([]byte(data))
				prog := pick(r, c04ReadOnlyProgs)
				if err != nil || len(vals) == 0 {
					// not a well-formed stream for Go's decoder (also: a number out of range, empty input)
					want := "json"
					if err == nil {
						want = "ok"
					}
					emit(Case{Req: RunReq(prog, nil, vgDocFile(data), true), Fields: c04Fields,
						Meta: metaProg(prog, "input", data, "expect", "class "+want+" (ill-formed input)"),
						Oracle: func(i Resp) string {
							if i["class"] != want {
								return "Go's decoder rejects this input (or it is empty): expected class " + want + ", got " + i["class"]
							}
							if want == "ok" && i["json"] != "ERR" {
								return "no value was read: -o has nothing to write"
							}
							return ""
						}, NonTrivial: func(i Resp) bool { return i["class"] == "json" }})
					continue
				}
				emit(Case{Req: RunReq(prog, nil, vgDocFile(data), true), Fields: c04Fields,
					Meta:   metaProg(prog, "input", data, "expect", "-o re-parses to the last input value"),
					Oracle: c04RootOracle(vals[len(vals)-1]), NonTrivial: c04HasJSON})
			}
			// no input at all: nothing to write
			for _, prog := range []string{"BEGIN { x = 1 }", "{}", "END { print 1 }"} {
				emit(Case{Req: RunReq(prog, nil, nil, true), Fields: c04Fields, Meta: metaProg(prog, "input", "(none)"),
					Oracle: func(i Resp) string {
						if i["class"] != "ok" || i["json"] != "ERR" {
							return "without input -o has nothing to write: expected ok/ERR"
						}
						return ""
					}, NonTrivial: func(i Resp) bool { return i["json"] == "ERR" }})
			}
		},
	})

	register(Family{
		Name: "json-of-documents", Prop: "C04",
		Rule: "the same documents printed with json(): per record ({ print json($) }), through variables, wrapped twice into a new array / object (sharing), in END; oracle: the output is a sequence of JSON texts that Go decodes to the records bit for bit",
		Gen: func(r *rand.Rand, tier string, emit func(Case)) {
			n := tierN(tier, 5000, 50000)
			for i := 0; i < n; i++ {
				data := vgStream(r, vgRichCfg())
				vals, err := vgDecodeAll([]byte(data))
				if err != nil || len(vals) == 0 {
					continue
				}
				var recs []interface{}
				for _, v := range vals {
					recs = append(recs, c04Records(v)...)
				}
				var prog string
				var want []interface{}
				switch r.Intn(8) {
				case 0, 1, 2:
					prog, want = "{ print json($) }", recs
				case 3:
					prog, want = "{ v = $; print json(v) }", recs
				case 4:
					prog = "{ print json([$, $]) }"
					for _, x := range recs {
						want = append(want, []interface{}{x, x})
					}
				case 5:
					prog = "{ print json({k: $, 'a b': [$]}) }"
					for _, x := range recs {
						want = append(want, map[string]interface{}{"k": x, "a b": []interface{}{x}})
					}
				case 6:
					prog = "{ print json($), json($) }"
					for _, x := range recs {
						want = append(want, x, x)
					}
				default:
					prog = "BEGIN { all = [] } { all.push($) } END { print json(all) }"
					want = []interface{}{append([]interface{}{}, recs...)}
				}
				emit(Case{Req: RunReq(prog, nil, vgDocFile(data), true), Fields: c04Fields,
					Meta:   metaProg(prog, "input", data, "expect", "output re-parses to the records"),
					Oracle: c04OutOracle(want)})
			}
		},
	})

	register(Family{
		Name: "json-of-built-values", Prop: "C04",
		Rule: "values built by the program: literal trees (unset variables, null, -0, 2^53+1, 1e21, 5e-324, strings with \\n \\t \\\\ quotes), containers auto-created by path assignment (o.a.b = 1, a[3] = 1), acyclic graphs with shared sub-structures built by push / member assignment; printed with json() or stored into the document and written by -o; oracle: Go-decode == the tree the generator built",
		Gen: func(r *rand.Rand, tier string, emit func(Case)) {
			n := tierN(tier, 6000, 60000)
			for i := 0; i < n; i++ {
				var build, valueExpr, kind string
				var tree interface{}
				switch r.Intn(4) {
				case 0:
					l := vgLitTree(r, 0, false)
					build, valueExpr, tree, kind = "", l.expr, l.tree, "literal"
					if chance(r, 0.5) {
						build, valueExpr = "v = "+l.expr, "v"
					}
				case 1:
					build, tree = vgAutoProg(r, "o", false)
					valueExpr, kind = "o", "auto-created"
				default:
					g := vgRandomGraph(r, 1+r.Intn(5), true, false, false)
					id := pick(r, g.conts)
					t, ok := g.tree(id, nil)
					if !ok {
						panic("acyclic graph without a tree")
					}
					build, valueExpr, tree, kind = g.prog(), g.varOf(id), t, "graph with sharing"
				}
				sep := ""
				if build != "" {
					sep = "; "
				}
				if chance(r, 0.7) {
					prog := "BEGIN { " + build + sep + "print json(" + valueExpr + ") }"
					emit(Case{Req: RunReq(prog, nil, nil, false), Fields: c04Fields, Meta: metaProg(prog, "kind", kind, "expect", vgShow(tree)),
						Oracle: c04OutOracle([]interface{}{tree})})
				} else {
					prog := "{ " + build + sep + "$.v = " + valueExpr + " }"
					want := map[string]interface{}{"d": 1.0, "v": tree}
					emit(Case{Req: RunReq(prog, nil, vgDocFile(`{"d": 1}`), true), Fields: c04Fields, Meta: metaProg(prog, "kind", kind+" via -o", "input", `{"d": 1}`, "expect", vgShow(want)),
						Oracle: c04RootOracle(want), NonTrivial: c04HasJSON})
				}
			}
			// a cycle that was made and broken again is no cycle
			for _, prog := range []string{
				"BEGIN { a = [1]; a.push(a); a.pop(); print json(a) }",
				"BEGIN { o = {}; o.self = o; o.self = 2; print json(o) }",
				"BEGIN { a = [1]; b = [a, a]; c = {x: b, y: b, z: a}; print json(c) }",
				"BEGIN { a = []; b = [a, a, [a]]; a.push(1); print json(b) }",
			} {
				emit(Case{Req: RunReq(prog, nil, nil, false), Fields: c04Fields, Meta: metaProg(prog), Oracle: func(i Resp) string {
					if i["class"] != "ok" {
						return "no cycle here: json() must succeed, got " + i["class"]
					}
					if _, err := vgDecodeOne(i.Bytes("out")); err != nil {
						return "invalid JSON: " + err.Error()
					}
					return ""
				}})
			}
		},
	})

	register(Family{
		Name: "json-cycles-and-inexpressible", Prop: "C04",
		Rule: "cycles of length 1-5 through arrays, objects and mixtures (json() of a ring member, of a value pointing into the ring, of random cyclic graphs; the same stored into the document for -o), functions / builtins / methods / regex values and non-finite numbers at the top and nested; oracle: json() -> runtime error with the earlier output kept, -o -> program ok and JSON = ERR; never a hang (timeout = violation), never text",
		Gen: func(r *rand.Rand, tier string, emit func(Case)) {
			n := tierN(tier, 3000, 30000)
			for i := 0; i < n; i++ {
				var g *vgGraph
				var id int
				var kind string
				switch r.Intn(3) {
				case 0, 1:
					ln := 1 + r.Intn(5)
					kinds := pick(r, []byte{'a', 'o', 'm'})
					g = vgRing(r, ln, kinds, false)
					id = pick(r, g.conts)
					kind = fmt.Sprintf("ring of %d (%c)", ln, kinds)
					if chance(r, 0.3) {
						// a value outside the ring pointing into it
						out := g.newCont(pick(r, []byte{'a', 'o'}))
						g.link(r, out, g.scalar(r, false, false), "a")
						g.link(r, out, id, "into")
						id = out
						kind += " entered from outside"
					}
				default:
					g = vgRandomGraph(r, 1+r.Intn(5), false, false, true)
					id = pick(r, g.conts)
					kind = "random graph"
				}
				tree, ok := g.tree(id, nil)
				if chance(r, 0.7) {
					prog := "BEGIN { " + g.prog() + "; print 'before'; print json(" + g.varOf(id) + "); print 'after' }"
					c := Case{Req: RunReq(prog, nil, nil, false), Fields: c04Fields, Meta: metaProg(prog, "kind", kind, "cyclic-or-inexpressible", fmt.Sprint(!ok))}
					if ok {
						want := tree
						c.Oracle = func(i Resp) string {
							out := string(i.Bytes("out"))
							if i["class"] != "ok" || !strings.HasPrefix(out, "before\n") || !strings.HasSuffix(out, "after\n") {
								return "json() of an acyclic value must succeed: class=" + i["class"]
							}
							got, err := vgDecodeOne([]byte(out[7 : len(out)-6]))
							if err != nil || !vgEqual(got, want) {
								return "json() text does not parse to the value: " + short(out)
							}
							return ""
						}
					} else {
						c.Oracle = c04ErrOracle("before\n")
					}
					emit(c)
				} else {
					prog := "{ " + g.prog() + "; $.v = " + g.varOf(id) + " }"
					c := Case{Req: RunReq(prog, nil, vgDocFile(`{"d": [1]}`), true), Fields: c04Fields, Meta: metaProg(prog, "kind", kind+" via -o", "input", `{"d": [1]}`, "cyclic-or-inexpressible", fmt.Sprint(!ok)),
						NonTrivial: func(i Resp) bool { return i["class"] == "ok" && i["json"] != "-" }}
					if ok {
						c.Oracle = c04RootOracle(map[string]interface{}{"d": []interface{}{1.0}, "v": tree})
					} else {
						c.Oracle = c04RootErrOracle
					}
					emit(c)
				}
			}
			// the document made cyclic / inexpressible directly
			type dc struct{ doc, prog string }
			for _, x := range []dc{
				{`{"d": [1]}`, "{ $.self = $ }"}, {`{"d": [1]}`, "{ $.d.push($.d) }"}, {`{"d": [1]}`, "{ $.d.push($) }"}, {`{"d": [1]}`, "{ $.d[1] = $ }"},
				{`{"d": [1]}`, "{ x = [$]; $.x = x }"}, {`{"d": {"e": {}}}`, "{ $.d.e.up = $.d }"}, {`[{"k": 1}]`, "{ $.me = $ }"}, {`[{"k": [[]]}]`, "{ $.k[0].push($.k) }"},
				{`{"d": [1]}`, "END { }\n{ $.d[0] = $ }"}, {`[[1], [2]]`, "{ $[1] = $ }"},
				{`{"d": 1}`, "{ $.r = /x/ }"}, {`{"d": 1}`, "{ $.n = num('nan') }"}, {`{"d": 1}`, "{ $.n = [1, {k: num('inf')}] }"}, {`{"d": 1}`, "{ $.n = num('1e308') * 10 }"},
				{`{"d": 1}`, "{ $.n = 0 - num('inf') }"}, {`[1, 2]`, "BEGINFILE { $ = /re/ }"}, {`{"d": 1}`, "{ $ = num('inf') }"},
			} {
				emit(Case{Req: RunReq(x.prog, nil, vgDocFile(x.doc), true), Fields: c04Fields, Meta: metaProg(x.prog, "input", x.doc, "expect", "ok, JSON = ERR"),
					Oracle: c04RootErrOracle, NonTrivial: func(i Resp) bool { return i["json"] == "ERR" }})
			}
			// json() of things JSON cannot express
			bad := []string{"f", "printf", "json", "num", "[1].length", "'x'.upper", "{}.pluck", "(1).floor", "/re/", "[/re/]", "{a: /re/}", "[1, [2, {k: /x/}]]", "[f]", "{a: printf}",
				"num('inf')", "num('-inf')", "num('nan')", "[num('nan')]", "{a: num('-inf')}", "[[[num('inf')]]]", "num('1e308') * 10", "[0 - num('inf')]", "[1, 'a', null, num('inf') - num('inf')]"}
			for _, b := range bad {
				for _, form := range []string{"BEGIN { print 'before'; print json(%s); print 'after' }", "BEGIN { print 'before'; v = %s; s = json(v); print 'after' }", "BEGIN { print 'before'; printf('%%s', json([0, %s])); print 'after' }"} {
					prog := "function f() { return 1 }\n" + fmt.Sprintf(form, b)
					emit(Case{Req: RunReq(prog, nil, nil, false), Fields: c04Fields, Meta: metaProg(prog, "expect", "runtime error"), Oracle: c04ErrOracle("before\n")})
				}
			}
		},
	})

	register(Family{
		Name: "selectors-o", Prop: "C04",
		Rule: "one to three -r selectors ($.a, $[0], $[-1], $.a[1].b, $['x y'], members that do not exist) written from a walk through the decoded document, a read-only program, then -o; oracle: Go-decode(-o bytes) == the sub-document the LAST selector denotes (null when absent)",
		Gen: func(r *rand.Rand, tier string, emit func(Case)) {
			n := tierN(tier, 5000, 50000)
			for i := 0; i < n; i++ {
				cfg := vgRichCfg()
				cfg.invalid = false
				data := vgDoc(r, cfg)
				root, err := vgDecodeOne([]byte(data))
				if err != nil {
					continue
				}
				ns := 1
				if chance(r, 0.25) {
					ns = 2 + r.Intn(2)
				}
				var sels []string
				var want interface{}
				good := true
				for s := 0; s < ns; s++ {
					sel, w, ok := c04Selector(r, root)
					good = good && ok
					sels = append(sels, sel)
					want = w
				}
				if !good {
					continue
				}
				prog := pick(r, c04ReadOnlyProgs)
				emit(Case{Req: RunReq(prog, sels, vgDocFile(data), true), Fields: c04Fields,
					Meta:   metaProg(prog, "input", data, "selectors", strings.Join(sels, "  "), "expect", vgShow(want)),
					Oracle: c04RootOracle(want), NonTrivial: c04HasJSON})
			}
		},
	})

	register(Family{
		Name: "o-through-binary", Prop: "C04",
		Rule: "documents whose string values AND keys are built from %, %d, %s, %%, %!, %[1]d, %!s(MISSING), backslashes, quotes, control characters, non-ASCII, shell-ish text and long runs (200 B - 70 kB), in every JSON escape form, plus the rich documents of o-roundtrip, run through the REAL BINARY with -o - and -o FILE (input as a file or on stdin; FILE fresh, or already existing and longer / one byte longer / shorter / as long as the JSON to be written / empty, or the input file itself) and a program that does not modify them; one Group per document with the library run first (compared with the model, Go re-parse oracle): the binary's answer is compared with the model's answer to the same command line (exit, stdout, stderr present, -o file), its JSON must be byte for byte GetRootJson's and must re-parse with encoding/json to the last input value; every fourth document goes through print / printf / json() instead (stdout of the binary = stdout of the library = the model's)",
		Gen:  c04ThroughBinary,
	})
}

// ---- deep-nesting ---------------------------------------------------------------------
//
// "Whatever can be read can be written": encoding/json reads documents nested up to 10 000
// levels, its encoder has no limit of its own for acyclic values and its indenter stops at
// 10 000 too, and the evaluator builds values of any depth. So every document / value nested
// up to 10 000 levels must come out of -o and json() as JSON that parses back to it. The
// indented text of a document nested d levels is about 2*d*d bytes (200 MB at 10 000): from
// 2 000 levels on the worker answers with the compact form of the text plus its length and
// whether it is exactly the canonical indentation (run flag c, cli flag z), and the model is
// asked up to 1 003 levels (and twice at 2 000).

// c04DeepDoc: JSON text nested exactly d levels (d >= 1) of the given shape around the leaf
// ("" = the innermost container is empty).
func c04DeepDoc(shape string, d int, leaf string) string {
	var open, shut strings.Builder
	for k := 0; k < d; k++ {
		last := k == d-1
		kind := shape
		if shape == "mixed" {
			kind = []string{"obj", "arr"}[k%2]
		}
		switch kind {
		case "arr":
			open.WriteString("[")
			shut.WriteString("]")
		case "obj":
			if last && leaf == "" {
				open.WriteString("{")
			} else {
				open.WriteString(`{"k":`)
			}
			shut.WriteString("}")
		case "siblings":
			// every level has other members before and after the nested one
			if last && leaf == "" {
				open.WriteString("[")
				shut.WriteString("]")
			} else if k%2 == 0 {
				open.WriteString(`[0,`)
				shut.WriteString(`]"e",`) // reversed below
			} else {
				open.WriteString(`{"a":[],"k":`)
				shut.WriteString(`}1:"z",`)
			}
		}
	}
	rs := []byte(shut.String())
	for i, j := 0, len(rs)-1; i < j; i, j = i+1, j-1 {
		rs[i], rs[j] = rs[j], rs[i]
	}
	return open.String() + leaf + string(rs)
}

// c04Wrap: the tree of `inner` wrapped n more times the way the loop programs below do.
func c04Wrap(inner interface{}, n int, shape string) interface{} {
	v := inner
	for k := 0; k < n; k++ {
		switch shape {
		case "arr":
			v = []interface{}{v}
		case "obj":
			v = map[string]interface{}{"k": v}
		default: // mixed: two levels per round
			v = []interface{}{map[string]interface{}{"k": v}}
		}
	}
	return v
}

// c04DeepOracle: the answer's field (json / out / ofile), given in compact form by the worker,
// is canonical indentation of a text that parses to want.
func c04DeepOracle(field string, want interface{}, cli bool) func(Resp) string {
	return func(i Resp) string {
		if cli {
			if w := c04CliBasic(i); w != "" {
				return w
			}
			if i["exit"] != "0" {
				return "the binary failed (exit " + i["exit"] + ") on a well-formed document nested at most 10 000 levels: " + short(string(i.Bytes("stderr")))
			}
		} else if i["class"] != "ok" {
			return "class=" + i["class"] + " msg=" + i["msg"] + " on a well-formed document / an acyclic value nested at most 10 000 levels"
		}
		if i[field] == "ERR" {
			return "writing the JSON failed: " + field + "=ERR"
		}
		if i[field+"canon"] == "" {
			return "the " + field + " text is not one JSON document: " + short(string(i.Bytes(field)))
		}
		if i[field+"canon"] != "1" {
			return "the " + field + " text is JSON but not the canonical two-space indentation (raw length " + i[field+"raw"] + ")"
		}
		got, err := vgDecodeOne(i.Bytes(field))
		if err != nil {
			return "the " + field + " text does not parse with Go's decoder: " + err.Error()
		}
		if !vgEqual(got, want) {
			return "the " + field + " text parses to a different value (compact form: " + short(string(i.Bytes(field))) + ")"
		}
		return ""
	}
}

func c04DeepNesting(r *rand.Rand, tier string, emit func(Case)) {
	depths := []int{500, 999, 1000, 1001, 1002, 1003, 1500, 2000, 3000, 5000, 9999, 10000}
	if tier == "thorough" {
		for k := 0; k < 12; k++ {
			depths = append(depths, pick(r, []int{2 + r.Intn(998), 1000 + r.Intn(30), 1004 + r.Intn(3000), 4000 + r.Intn(5999)}))
		}
	}
	shapes := []string{"arr", "obj", "mixed", "siblings"}
	leaves := []string{"", `"x"`, "null", "0", "", "[]", "{}"}
	haveBin := os.Getenv("JQAWK_BIN") != ""
	routes := []string{"o", "json", "sel", "built", "built-o", "bin-file", "bin-dash", "sel-wrap"}
	n := 0
	model2000 := 0
	slowBudget := tierN(tier, 4, 60)
	for di, d := range depths {
		for si, shape := range shapes {
			if shape == "siblings" && d >= 5000 && (tier != "thorough" || d >= 9999) {
				continue // twice the text of the other shapes: 400 MB at 10 000 levels
			}
			// quick: two routes per (depth, shape), rotating; thorough: all of them up to 3 000 levels, three beyond
			var todo []string
			switch {
			case tier == "thorough" && d <= 3000:
				todo = routes
			case tier == "thorough":
				todo = []string{routes[(di+si)%len(routes)], routes[(di+si+3)%len(routes)], routes[(di+si+5)%len(routes)]}
			case d >= 5000:
				todo = []string{routes[(di*3+si)%len(routes)]}
			default:
				todo = []string{routes[(di+si)%len(routes)], routes[(di+si+3)%len(routes)]}
			}
			for _, route := range todo {
				if route == "bin-dash" && d >= 9999 && tier != "thorough" {
					route = "bin-file" // 200 MB through the stdout pipe take 5 s
				}
				n++
				leaf := leaves[(n+si)%len(leaves)]
				if leaf == "[]" || leaf == "{}" {
					// the leaf is a container itself: one level less around it
					if d < 2 {
						leaf = ""
					}
				}
				dd := d
				if leaf == "[]" || leaf == "{}" {
					dd = d - 1
				}
				// summarised answers (implementation only) from 2 000 levels on; the model is asked below
				// that -- but it renders nested OBJECTS in time cubic in the depth (6 s at 1 000 levels,
				// 20 s at 1 500): beyond 600 levels only arrays and a few object-shaped cases go to it
				arrOnly := shape == "arr" && route != "sel-wrap"
				heavy := d >= 2000 || (d > 1003 && !arrOnly)
				if !heavy && d > 600 && !arrOnly {
					if slowBudget > 0 {
						slowBudget--
					} else {
						heavy = true
					}
				}
				if d == 2000 && model2000 < 2 && arrOnly && (route == "o" || route == "json") {
					heavy = false
					model2000++
				}
				flag := " j"
				if heavy {
					flag = " c"
				}
				withFlag := func(req string) string { return strings.TrimSuffix(strings.TrimSuffix(req, " -"), " j") + flag }
				id := fmt.Sprintf("deep-%d-%s-%s-%d", d, shape, route, n)
				meta := func(prog, what string) map[string]string {
					return metaProg(prog, "document", fmt.Sprintf("%s nested %d levels around the leaf %q", shape, d, leaf), "route", what, "answer", map[bool]string{true: "compact form + length + canonical-indentation check (worker side)", false: "full text, compared with the model"}[heavy])
				}
				jsonOracle := func(field string, want interface{}, cli bool) func(Resp) string {
					if heavy {
						return c04DeepOracle(field, want, cli)
					}
					if cli {
						return c04CliJSONOracle(want, field == "ofile", "")
					}
					if field == "out" {
						return c04OutOracle([]interface{}{want})
					}
					return c04RootOracle(want)
				}
				nt := func(i Resp) bool {
					return (i["class"] == "ok" && (i["json"] != "-" || i["out"] != "-")) || i["exit"] == "0"
				}
				switch route {
				case "o":
					doc := c04DeepDoc(shape, dd, leaf)
					want, err := vgDecodeOne([]byte(doc))
					if err != nil {
						panic("c04DeepNesting: " + err.Error())
					}
					prog := pick(r, []string{"{}", "{ x = $ }", "BEGINFILE { z = $ }", "END { y = 2 }", "{ n = n + 1; last = $ }"})
					emit(Case{ID: id, Req: withFlag(RunReq(prog, nil, vgDocFile(doc), true)), Fields: c04Fields, ImplOnly: heavy, Meta: meta(prog, "-o of the unmodified document (library)"),
						Oracle: jsonOracle("json", want, false), NonTrivial: nt})
				case "json":
					doc := c04DeepDoc(shape, dd, leaf)
					want, _ := vgDecodeOne([]byte(doc))
					prog := pick(r, []string{"BEGINFILE { print json($) }", "BEGINFILE { v = $; print json(v) }", "ENDFILE { print json($) }"})
					emit(Case{ID: id, Req: withFlag(RunReq(prog, nil, vgDocFile(doc), false)), Fields: []string{"class", "out"}, ImplOnly: heavy, Meta: meta(prog, "json() of the whole document, printed"),
						Oracle: jsonOracle("out", want, false), NonTrivial: nt})
				case "sel", "sel-wrap":
					// the selected sub-document is the deep one; the document around it adds two levels
					// (and a root built around it one or two more)
					room := 9998
					if route == "sel-wrap" {
						room = 9996
					}
					de := dd
					if d > room {
						de = dd - (d - room)
					}
					inner := c04DeepDoc(shape, de, leaf)
					doc := `{"top": {"other": [1, 2], "deep": ` + inner + `}, "z": []}`
					want, _ := vgDecodeOne([]byte(inner))
					sels := []string{"$.top.deep"}
					if route == "sel-wrap" {
						// a selector that BUILDS the root around the sub-document
						if n%2 == 0 {
							sels = []string{"[$.top.deep]"}
							want = []interface{}{want}
						} else {
							sels = []string{"$.z", "{w: [$.top.deep]}"}
							want = map[string]interface{}{"w": []interface{}{want}}
						}
					}
					prog := pick(r, []string{"{}", "{ x = $ }", "BEGINFILE { z = $ }"})
					emit(Case{ID: id, Req: withFlag(RunReq(prog, sels, vgDocFile(doc), true)), Fields: c04Fields, ImplOnly: heavy, Meta: meta(prog, "-o of the sub-document selected with -r "+strings.Join(sels, " -r ")),
						Oracle: jsonOracle("json", want, false), NonTrivial: nt})
				case "built", "built-o":
					// the program builds the value: a loop wraps a seed d-1 (mixed: about d/2) times
					lshape := shape
					if lshape == "siblings" {
						lshape = "mixed"
					}
					rounds := d - 1
					if lshape == "mixed" {
						rounds = (d - 1) / 2
					}
					seedExpr, seedTree := "[]", interface{}([]interface{}{})
					if n%3 == 1 {
						seedExpr, seedTree = "{}", map[string]interface{}{}
					} else if n%3 == 2 {
						seedExpr, seedTree = "['x', null]", []interface{}{"x", nil}
					}
					step := map[string]string{"arr": "a = [a]", "obj": "a = {k: a}", "mixed": "a = [{k: a}]"}[lshape]
					want := c04Wrap(seedTree, rounds, lshape)
					build := fmt.Sprintf("a = %s; for (i = 0; i < %d; i++) %s", seedExpr, rounds, step)
					if route == "built" {
						prog := "BEGIN { " + build + "; print json(a) }"
						emit(Case{ID: id, Req: withFlag(RunReq(prog, nil, nil, false)), Fields: []string{"class", "out"}, ImplOnly: heavy, Meta: meta(prog, "json() of a value the program built"),
							Oracle: jsonOracle("out", want, false), NonTrivial: nt})
					} else {
						if rounds > 9998 {
							continue
						}
						prog := "{ " + build + "; $.v = a }"
						wantRoot := map[string]interface{}{"d": 1.0, "v": want}
						emit(Case{ID: id, Req: withFlag(RunReq(prog, nil, vgDocFile(`{"d": 1}`), true)), Fields: c04Fields, ImplOnly: heavy, Meta: meta(prog, "-o of a document into which the program stored a value it built"),
							Oracle: jsonOracle("json", wantRoot, false), NonTrivial: nt})
					}
				case "bin-file", "bin-dash":
					if !haveBin {
						continue
					}
					doc := c04DeepDoc(shape, dd, leaf)
					want, _ := vgDecodeOne([]byte(doc))
					prog := pick(r, []string{"{}", "", "{ x = $ }"})
					useStdin := n%3 == 0
					var disk []CliFile
					var names []string
					var stdin []byte
					if useStdin {
						stdin = []byte(doc)
					} else {
						disk, names = []CliFile{{Name: "deep.json", Data: []byte(doc)}}, []string{"deep.json"}
					}
					o, ofile, field := "-", "", "out"
					if route == "bin-file" {
						o, ofile, field = "out.json", "out.json", "ofile"
					}
					argv := append([]string{"-o", o, prog}, names...)
					req := CliReq(argv, stdin, useStdin, disk, ofile)
					if heavy {
						if ofile == "" {
							req = strings.TrimSuffix(req, "-") + "z,t=60000"
						} else {
							req += ",z,t=60000"
						}
					}
					emit(Case{ID: id, Req: req, Fields: c04CliFields, ImplOnly: heavy, Meta: meta(prog, "the REAL BINARY: "+strings.Join(argv[:2], " ")+map[bool]string{true: ", input on stdin", false: ", input in a file"}[useStdin]),
						Oracle: jsonOracle(field, want, true), NonTrivial: nt})
				}
			}
		}
	}
	// one level more than the reader takes: a JSON input error, not a crash
	for _, shape := range []string{"arr", "obj"} {
		doc := c04DeepDoc(shape, 10001, "")
		emit(Case{ID: "deep-10001-" + shape, Req: RunReq("{}", nil, vgDocFile(doc), true), ImplOnly: true, Meta: metaProg("{}", "document", shape+" nested 10 001 levels: more than encoding/json reads"),
			Oracle: func(i Resp) string {
				if i["class"] != "json" {
					return "a document nested 10 001 levels is beyond what the reader accepts: expected a JSON input error, got " + i["class"]
				}
				return ""
			}, NonTrivial: func(i Resp) bool { return i["class"] == "json" }})
	}
}

func init() {
	register(Family{
		Name: "deep-nesting", Prop: "C04",
		Rule: "documents and values nested 500 / 999 / 1000 / 1001 / 1002 / 1003 / 1500 / 2000 / 3000 / 5000 / 9999 / 10 000 levels (thorough: also random depths) -- arrays, objects, alternating, with sibling members at every level; innermost container empty or holding a string / null / a number / an empty container -- written back through every route: -o of the unmodified document, json() of the whole document, -o of a sub-document selected with -r and of a root that a selector builds around it, json() of a value the program builds by wrapping a seed in a loop, -o of a document into which such a value was stored, and the REAL BINARY with -o FILE and -o - (input file or stdin). Oracle: the text parses with encoding/json to the input value / the tree the generator built (encoding/json reads 10 000 levels; its encoder has no limit for acyclic values). Up to 1 003 levels (and two cases at 2 000) the full text is compared with the model; from 2 000 levels on (the indented text grows with the square of the depth: 8 MB at 2 000, 200 MB at 10 000) the worker answers with the compact form, the length and whether the text is exactly the canonical two-space indentation (run flag c, cli flag z). A document of 10 001 levels must be a JSON input error",
		Gen:  c04DeepNesting,
	})
}
