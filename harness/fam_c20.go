package main

// C20 — unbounded single steps are refused with an error, not by exhausting
// the process.  Every case is a boundary program; all are compared with the
// model on class, out and carry an implementation-only expectation.
//
//   recursion-limit  direct / mutual / through-match recursion at limit-1, limit, limit+1 (the limit is
//                    4096 open frames; calls and match bodies each take one), started at frame depth
//                    0, 1, 2 and after a history; runaway recursion of every shape; depth 1000 works
//   limit-after-history  the same boundary after 5 000 .. 200 000 records each of which leaves a call or a
//                    match body by next / return / break / continue
//   array-fill       assignment at index 2^20-1 / 2^20 / 2^20+1 (only 2^20 and 2^20+1 in quick), on empty,
//                    non-empty, unset and nested targets; negative / fractional / huge / NaN indices, read
//                    and write
//   printf-width     widths 65535 / 65536 / 65537, negative, leading zero, %s %f %v; width 4000 works
//   fresh-array-index  the first indexed assignment to an unset variable / missing member chain / new member of
//                    the record at every magnitude beyond the fill limit (refused, nothing allocated) and below it
//   printf-width-digits  width texts of 19-25 digits: multiples of 2^64, 2^32, 2^16 plus a small offset, leading zeros
//   json-nesting     arrays / objects / mixed nested 9 999 / 10 000 / 10 001 deep (thorough: all; quick: one
//                    pair), also as a later value of a stream (prior output kept)
//   binary-deep-recursion  the REAL BINARY (request kind cli): legal recursions 1000 / 2000 / 4000 / 4095 deep whose
//                    recursive call sits inside 1 / 4 / 8 / 16 nested expressions complete with the right
//                    value; the same shapes without a base case end with exit status 1 and a diagnostic
//   fuzz-loop-limit  runs in fuzzing mode (request flag z): while / for loops whose rounds end by falling through,
//                    by continue from anywhere inside the body, by the break of an inner loop; 10 001 rounds
//                    complete, 10 002 end with the runtime error "fuzz test loop limit" (closed form, the model
//                    has no fuzzing mode); the limit is per execution of one loop statement; for-in has none
//   limits-after-fuzzing-run  in-process histories (seq) of runs in fuzzing mode and ordinary probe runs at every
//                    limit of the property (recursion 257 .. 4097 frames deep, long loops, fill, width, JSON
//                    nesting): the probe ends as the model says, as in a fresh process, as after other histories
//
// A crash or timeout of the implementation is flagged by core.go.

import (
	"fmt"
	"math"
	"math/big"
	"math/rand"
	"strconv"
	"strings"
)

const c20Limit = 4096

func c20Oracle(wantClass string, check func(out string) string) func(Resp) string {
	return func(i Resp) string {
		if i["class"] != wantClass {
			return "expected class " + wantClass + ", got " + i["class"] + " " + i["msg"]
		}
		return check(string(i.Bytes("out")))
	}
}

func c20Exact(want string) func(string) string {
	return func(out string) string {
		if out != want {
			return fmt.Sprintf("output differs: got %q want %q", c07Short(out), c07Short(want))
		}
		return ""
	}
}

func c20Emit(emit func(Case), prog string, files []File, wantClass string, check func(string) string, probe string) {
	in := ""
	if len(files) > 0 {
		in = string(files[0].Data)
		if len(in) > 120 {
			in = in[:60] + "…" + in[len(in)-40:]
		}
	}
	emit(Case{Req: RunReq(prog, nil, files, false), Fields: []string{"class", "out"},
		Meta: metaProg(prog, "probe", probe, "input", in), Oracle: c20Oracle(wantClass, check),
		NonTrivial: func(i Resp) bool { return i["class"] == wantClass }})
}

// ---------------------------------------------------------------- recursion

type c20Shape struct {
	name   string
	funcs  string
	call   string             // with %d for the argument
	frames func(n int) int    // frames open at the deepest point for argument n
	result func(n int) string // printed result
}

var c20Shapes = []c20Shape{
	{"direct", "function f(n) { if (n <= 1) return 1\n return 1 + f(n - 1) }\n", "f(%d)",
		func(n int) int { return c20Max1(n) }, func(n int) string { return fmt.Sprint(c20Max1(n)) }},
	{"direct-loop-body", "function f(n) { for (i in [1]) { if (n > 1) { return 1 + f(n - 1) } }\n return 1 }\n", "f(%d)",
		func(n int) int { return c20Max1(n) }, func(n int) string { return fmt.Sprint(c20Max1(n)) }},
	{"mutual", "function ev(n) { if (n == 0) return true\n return od(n - 1) }\nfunction od(n) { if (n == 0) return false\n return ev(n - 1) }\n", "ev(%d)",
		func(n int) int { return n + 1 }, func(n int) string { return fmt.Sprint(n%2 == 0) }},
	{"mutual-3", "function a(n) { if (n == 0) return \"a\"\n return b(n - 1) }\nfunction b(n) { if (n == 0) return \"b\"\n return c(n - 1) }\nfunction c(n) { if (n == 0) return \"c\"\n return a(n - 1) }\n", "a(%d)",
		func(n int) int { return n + 1 }, func(n int) string { return string("abc"[n%3]) }},
	{"match-expr", "function f(n) { return match (n) { 0 => 0, x => 1 + f(x - 1) } }\n", "f(%d)",
		func(n int) int { return 2 * (n + 1) }, func(n int) string { return fmt.Sprint(n) }},
	{"match-block", "function f(n) { match (n) { 0 => { return 0 }\n x => { return 1 + f(x - 1) } } }\n", "f(%d)",
		func(n int) int { return 2 * (n + 1) }, func(n int) string { return fmt.Sprint(n) }},
	{"match-only-leaf", "function f(n) { if (n == 0) return match (n) { z => z }\n return 1 + f(n - 1) }\n", "f(%d)",
		func(n int) int { return n + 2 }, func(n int) string { return fmt.Sprint(n) }},
	{"nested-match", "function f(n) { if (n == 0) return 0\n return match (n) { a => match (a) { b => 1 + f(b - 1) } } }\n", "f(%d)",
		func(n int) int { return 3*n + 1 }, func(n int) string { return fmt.Sprint(n) }},
}

func c20Max1(n int) int {
	if n < 1 {
		return 1
	}
	return n
}

// largest argument whose deepest point stays within `room` frames
func c20MaxArg(s c20Shape, room int) int {
	n := 0
	for s.frames(n+1) <= room {
		n++
	}
	return n
}

func c20Recursion(r *rand.Rand, tier string, emit func(Case)) {
	type wrap struct {
		name  string
		pre   string // text before the call expression, %s = call
		extra int    // frames already open at the call
		doc   string
		hist  string // output expected before "start"
	}
	wraps := []wrap{
		{"BEGIN", "BEGIN { print \"start\"\n print %s\n print \"after\" }\n", 0, "", ""},
		{"in-match-body", "BEGIN { print \"start\"\n match (1) { 1 => { print %s } }\n print \"after\" }\n", 1, "", ""},
		{"in-function-in-match", "function w() { return match (1) { q => %s } }\nBEGIN { print \"start\"\n print w()\n print \"after\" }\n", 2, "", ""},
		{"rule-pattern", "BEGIN { print \"start\" }\n%s || true { print \"rule\" }\nEND { print \"after\" }\n", 0, "[1]", ""},
		{"END-after-history", "function h(v) { return match (v) { k => { return k } } }\n{ cnt = cnt + h(1) }\nEND { print \"start\"\n print %s\n print \"after\" }\n",
			0, "[" + strings.TrimSuffix(strings.Repeat("1,", 5000), ",") + "]", ""},
	}
	for _, s := range c20Shapes {
		for wi, w := range wraps {
			if tier != "thorough" && wi >= 2 && r.Intn(3) != 0 {
				continue
			}
			top := c20MaxArg(s, c20Limit-w.extra)
			for _, n := range []int{top - 1, top, top + 1, top + 2, top + 1000} {
				if n < 0 {
					continue
				}
				prog := s.funcs + fmt.Sprintf(w.pre, fmt.Sprintf(s.call, n))
				var files []File
				if w.doc != "" {
					files = []File{{Name: "in.json", Data: []byte(w.doc)}}
				}
				fits := s.frames(n)+w.extra <= c20Limit
				probe := fmt.Sprintf("%s from %s, argument %d: %d frames open at the deepest point (limit %d)", s.name, w.name, n, s.frames(n)+w.extra, c20Limit)
				if fits {
					want := "start\n" + s.result(n) + "\nafter\n"
					if w.name == "rule-pattern" {
						want = "start\nrule\nafter\n"
					}
					c20Emit(emit, prog, files, "ok", c20Exact(want), probe)
				} else {
					c20Emit(emit, prog, files, "runtime", c20Exact("start\n"), probe)
				}
			}
			// well below the limit
			for _, n := range []int{0, 1, 1000} {
				if s.frames(n) > c20Limit-2 {
					continue
				}
				if w.name == "rule-pattern" || (tier != "thorough" && wi > 0) {
					continue
				}
				prog := s.funcs + fmt.Sprintf(w.pre, fmt.Sprintf(s.call, n))
				var files []File
				if w.doc != "" {
					files = []File{{Name: "in.json", Data: []byte(w.doc)}}
				}
				c20Emit(emit, prog, files, "ok", c20Exact("start\n"+s.result(n)+"\nafter\n"), fmt.Sprintf("%s depth %d works", s.name, n))
			}
		}
	}
	// runaway recursion of every shape ends in a runtime error with the prior output kept
	runaway := []string{
		"function f() { return f() }\nBEGIN { print \"start\"\n f()\n print \"after\" }\n",
		"function f(n) { return 1 + f(n + 1) }\nBEGIN { print \"start\"\n print f(0) }\n",
		"function a() { b() }\nfunction b() { a() }\nBEGIN { print \"start\"\n a() }\n",
		"function f(n) { return match (n) { x => f(x + 1) } }\nBEGIN { print \"start\"\n f(0) }\n",
		"function f(n) { match (n) { x => { f(x) } } }\nBEGIN { print \"start\"\n f(0) }\n",
		"function f(n) { for (x in [n]) { while (true) { f(x) } } }\nBEGIN { print \"start\"\n f(0) }\n",
		"function f(n) { print f(n) }\nBEGIN { print \"start\"\n f(0) }\n",
		"function f(n) { return [f(n)] }\nBEGIN { print \"start\"\n f(0) }\n",
		"function f(n) { return f(n) && true }\n{ print \"start\" }\nf($) { print \"no\" }\n",
		"function f(n) { if (f(n)) return 1 }\nEND { print \"start\"\n f(0) }\n",
	}
	for _, prog := range runaway {
		c20Emit(emit, prog, []File{{Name: "in.json", Data: []byte("[1]")}}, "runtime", c20Exact("start\n"), "runaway recursion")
	}
}

// ---------------------------------------------------------------- the limit after a long history

// one way in which every record of a long input leaves a call or a match body
// early; sum gives the value of c that END must print after the number
// records vs (each record is one of 0..9)
type c20Leaver struct {
	name  string
	funcs string
	rules string
	sum   func(vs []int) int
}

func c20Count(vs []int, keep func(v int) int) int {
	t := 0
	for _, v := range vs {
		t += keep(v)
	}
	return t
}

var c20Leavers = []c20Leaver{
	{"next-in-function", "function lv(v) { if (v % 2 == 0) next\n return 1 }\n", "{ tot = tot + lv($) }\n",
		func(vs []int) int { return c20Count(vs, func(v int) int { return v % 2 }) }},
	{"next-in-function-always", "function lv(v) { tot = tot + 1\n next }\n", "{ lv($) }\n{ tot = tot + 1000 }\n",
		func(vs []int) int { return len(vs) }},
	{"next-3-calls-deep-through-match-bodies", "function la(v) { return match (v) { w => lb(w) } }\nfunction lb(v) { match (v) { w => { for (q in [1]) { return ld(w) } } } }\nfunction ld(v) { if (v % 3 != 0) next\n return 1 }\n",
		"{ tot = tot + la($) }\n",
		func(vs []int) int {
			return c20Count(vs, func(v int) int {
				if v%3 == 0 {
					return 1
				}
				return 0
			})
		}},
	{"next-in-match-block-of-rule", "", "{ match ($ % 2) { 0 => { next }, w => { tot = tot + 1 } } }\n{ tot = tot + 10 }\n",
		func(vs []int) int { return c20Count(vs, func(v int) int { return 11 * (v % 2) }) }},
	{"next-in-nested-match-expression-bodies", "function lv(v) { if (v > 2) next\n return v }\n", "{ tot = tot + match ($) { w => match (w + 1) { x => lv(w) + x } } }\n",
		func(vs []int) int {
			return c20Count(vs, func(v int) int {
				if v > 2 {
					return 0
				}
				return 2*v + 1
			})
		}},
	{"next-in-rule-pattern-call", "function lv(v) { if (v % 2 == 0) next\n return true }\n", "lv($) { tot = tot + 1 }\n",
		func(vs []int) int { return c20Count(vs, func(v int) int { return v % 2 }) }},
	{"next-in-loops-in-match-in-function", "function lv(v) { for (j in [1, 2]) { match (v % 2) { 0 => { while (true) { next } } } }\n return 1 }\n", "{ tot = tot + lv($) }\n",
		func(vs []int) int { return c20Count(vs, func(v int) int { return v % 2 }) }},
	{"return-from-nested-loops", "function lv(v) { for (e1 in [1, 2]) { while (true) { for (j = 0; j < 3; j++) { if (j == v % 3) return j + 1 } } } }\n", "{ tot = tot + lv($) }\n",
		func(vs []int) int { return c20Count(vs, func(v int) int { return v%3 + 1 }) }},
	{"return-from-match-block-in-loop-in-match", "function lv(v) { return match (v) { w => li(w) } }\nfunction li(v) { for (j in [1, 2]) { match (j) { 1 => { return v } } } }\n", "{ tot = tot + lv($ % 2) }\n",
		func(vs []int) int { return c20Count(vs, func(v int) int { return v % 2 }) }},
	{"break-through-match-body-in-function", "function lv(v) { m = 0\n for (j in [1, 2, 3]) { match (j) { 2 => { break }, w => { m = m + 1 } } }\n return m }\n", "{ tot = tot + lv($) }\n",
		func(vs []int) int { return len(vs) }},
	{"break-through-match-body-in-rule", "", "{ for (j in [1, 2, 3]) { match (j) { 2 => { break }, w => { tot = tot + 1 } } } }\n",
		func(vs []int) int { return len(vs) }},
	{"break-through-nested-match-bodies", "", "{ while (true) { match ($) { w => { match (w) { x => { tot = tot + 1\n break } } } } } }\n",
		func(vs []int) int { return len(vs) }},
	{"continue-through-match-body-in-rule", "", "{ for (j = 0; j < 3; j++) { match (j) { 1 => { continue }, w => { tot = tot + 1 } } } }\n",
		func(vs []int) int { return 2 * len(vs) }},
	{"continue-through-match-body-in-function", "function lv(v) { m = 0\n for (j in [1, 2, 3]) { match (j % 2) { 1 => { continue } }\n m = m + v }\n return m }\n", "{ tot = tot + lv($) }\n",
		func(vs []int) int { return c20Count(vs, func(v int) int { return v }) }},
	{"completed-calls-and-matches", "function lv(v) { return match (v) { x => { return x } } }\n", "{ tot = tot + lv(1) + match ($) { y => 0 } }\n",
		func(vs []int) int { return len(vs) }},
	{"mixed-by-record", "function lv(v) { if (v == 0) next\n if (v == 1) return match (v) { w => { return 5 } }\n for (j in [1, 2]) { match (v) { 2 => { break }, 3 => { continue }, w => { return 7 } } }\n return 2 }\n", "{ tot = tot + lv($ % 5) }\n",
		func(vs []int) int {
			return c20Count(vs, func(v int) int { return []int{0, 5, 2, 2, 7}[v%5] })
		}},
}

// c20History emits the boundary programs of one leaver after n records: the
// recursion of shape s is started in a later record (["go"]) and again in END.
func c20History(r *rand.Rand, emit func(Case), lv c20Leaver, s c20Shape, n int, which []int) {
	extra := r.Intn(2) // frames open where the recursion starts in the record: rule level, or a match body
	top := c20MaxArg(s, c20Limit-extra)
	topEnd := c20MaxArg(s, c20Limit)
	var doc strings.Builder
	var vs []int
	doc.WriteByte('[')
	for i := 0; i < n; i++ {
		v := (i*7 + i/10) % 10
		vs = append(vs, v)
		doc.WriteString(fmt.Sprint(v))
		doc.WriteByte(',')
	}
	doc.WriteString(`["go"]`)
	for _, v := range []int{0, 1, 2, 3} { // the history goes on after the probe
		vs = append(vs, v)
		doc.WriteString("," + fmt.Sprint(v))
	}
	doc.WriteByte(']')
	files := []File{{Name: "in.json", Data: []byte(doc.String())}}
	c := lv.sum(vs)
	type probe struct{ rec, end int } // arguments of the recursion in the record and in END
	probes := []probe{{top - 1, topEnd - 1}, {top, topEnd}, {top + 1, topEnd}, {top, topEnd + 1}}
	for _, pi := range which {
		p := probes[pi]
		recCall := fmt.Sprintf(s.call, p.rec)
		recRule := "$ is array { print \"rec\", " + recCall + "\n next }\n"
		if extra == 1 {
			recRule = "$ is array { match (1) { 1 => { print \"rec\", " + recCall + " } }\n next }\n"
		}
		prog := s.funcs + lv.funcs + "BEGIN { print \"start\"\n tot = 0 }\n" + recRule + lv.rules + "END { print \"end\", tot\n print " + fmt.Sprintf(s.call, p.end) + " }\n"
		want, class := "start\n", "ok"
		if s.frames(p.rec)+extra <= c20Limit {
			want += "rec " + s.result(p.rec) + "\n" + fmt.Sprintf("end %d\n", c)
			if s.frames(p.end) <= c20Limit {
				want += s.result(p.end) + "\n"
			} else {
				class = "runtime"
			}
		} else {
			class = "runtime"
		}
		probeText := fmt.Sprintf("%d records leaving by %s, then %s recursion: %d frames open at the deepest point in the record, %d in END (limit %d)",
			n, lv.name, s.name, s.frames(p.rec)+extra, s.frames(p.end), c20Limit)
		exact := c20Exact(want)
		wantClass := class
		emit(Case{Req: RunReq(prog, nil, files, false), Fields: []string{"class", "out"},
			Meta: metaProg(prog, "probe", probeText, "input", fmt.Sprintf("%d number records, [\"go\"], 4 more", n), "row", lv.name, "col", fmt.Sprintf("%d records", n)),
			Oracle: func(i Resp) string {
				if i["class"] != wantClass {
					return "the limit counts open frames only, the same boundary as in a fresh run is expected: class " + wantClass + ", got " + i["class"] + " " + i["msg"]
				}
				if wantClass == "ok" && i["depth"] != "" && i["depth"] != "0" {
					return "frame depth after the run is " + i["depth"] + ", expected 0"
				}
				return exact(string(i.Bytes("out")))
			},
			NonTrivial: func(i Resp) bool { return i["class"] == wantClass }})
	}
}

func c20AfterHistory(r *rand.Rand, tier string, emit func(Case)) {
	sizes := []int{5000, 10000}
	for li, lv := range c20Leavers {
		for _, n := range sizes {
			// two of the four probes per size in the quick tier, all four between the two sizes
			which := []int{0, 2}
			if n == 10000 {
				which = []int{1, 3}
			}
			if tier == "thorough" {
				which = []int{0, 1, 2, 3}
			}
			c20History(r, emit, lv, c20Shapes[(li+n/5000)%len(c20Shapes)], n, which)
		}
		if tier == "thorough" {
			for _, n := range []int{4095, 4096, 4097, 50000} {
				c20History(r, emit, lv, pick(r, c20Shapes), n, []int{1, 2, 3})
			}
			c20History(r, emit, lv, c20Shapes[0], 200000, []int{1, 2})
		}
	}
}

// ---------------------------------------------------------------- array fill

func c20Fill(r *rand.Rand, tier string, emit func(Case)) {
	const lim = 1024 * 1024
	big := []int{lim, lim + 1}
	if tier == "thorough" {
		big = []int{lim - 1, lim, lim + 1, lim + 2}
	}
	type target struct {
		setup, lhs, lenExpr string
		have                int
	}
	targets := []target{
		{"a = []", "a[%d]", "a.length()", 0},
		{"a = [1, 2, 3]", "a[%d]", "a.length()", 3},
		{"", "u[%d]", "u.length()", 0}, // unset: becomes an array
		{"o = {}", "o.list[%d]", "o.list.length()", 0},
		{"a = [[], 1]", "a[0][%d]", "a[0].length()", 0},
	}
	for ti, t := range targets {
		for _, n := range big {
			if tier != "thorough" && n <= lim && ti != 0 && ti != 3 {
				continue // the big successful fills allocate a million cells: only a couple in quick
			}
			for _, op := range []string{"= 7", "+= 1", "++"} {
				if op != "= 7" && (tier != "thorough" || n <= lim) && !(n > lim && ti == 0) {
					continue
				}
				asg := fmt.Sprintf(t.lhs, n) + " " + op
				if op == "++" {
					asg = fmt.Sprintf(t.lhs, n) + "++"
				}
				prog := "BEGIN {\n  " + t.setup + "\n  print \"start\"\n  " + asg + "\n  print " + t.lenExpr + ", " + fmt.Sprintf(t.lhs, n) + ", " + fmt.Sprintf(t.lhs, n-1) + "\n}\n"
				probe := fmt.Sprintf("assignment at index %d (fill limit: index > %d is refused)", n, lim)
				if n <= lim {
					val := map[string]string{"= 7": "7", "+= 1": "1", "++": "1"}[op]
					prev := "null"
					c20Emit(emit, prog, nil, "ok", c20Exact(fmt.Sprintf("start\n%d %s %s\n", n+1, val, prev)), probe)
				} else {
					c20Emit(emit, prog, nil, "runtime", c20Exact("start\n"), probe)
				}
			}
		}
	}
	// below the limit everything works; reading never fills
	small := []struct{ prog, want, class string }{
		{"BEGIN { a = []; a[1000] = 1; print a.length(), a[999], a[1000] }", "1001 null 1\n", "ok"},
		{"BEGIN { a = [1]; print a[1048577], a[5000000], a.length() }", "null null 1\n", "ok"},
		{"BEGIN { a = [1, 2, 3]; a[-1] = 9; print a, a[-3], a[-1] }", "[1, 2, 9] 1 9\n", "ok"},
		{"BEGIN { a = [1, 2, 3]; print \"start\"; print a[-4] }", "start\n", "runtime"},
		{"BEGIN { a = [1, 2, 3]; print \"start\"; a[-4] = 1; print a }", "start\n", "runtime"},
		{"BEGIN { a = []; print \"start\"; a[-1] = 1; print a }", "start\n", "runtime"},
		{"BEGIN { a = [1, 2, 3]; a[1.9] = 9; print a, a[2.9], a[-0.5], a[0.999] }", "[1, 9, 3] 3 1 1\n", "ok"},
		{"BEGIN { a = [1, 2, 3]; a[3.9] = 9; print a }", "[1, 2, 3, 9]\n", "ok"},
		{"BEGIN { a = [1, 2, 3]; print a[1000000000000000000]; print \"start\"; a[1000000000000000000] = 1; print a }", "null\nstart\n", "runtime"},
		{"BEGIN { a = [1, 2, 3]; x = num(\"1e18\"); print a[x], x }", "null 1000000000000000000\n", "ok"},
		{"BEGIN { a = [1, 2, 3]; x = num(\"1e300\"); print \"start\"; print a[x] }", "start\n", "runtime"},
		{"BEGIN { a = [1, 2, 3]; x = num(\"1e300\"); print \"start\"; a[x] = 1; print a }", "start\n", "runtime"},
		{"BEGIN { a = [1, 2, 3]; x = num(\"nan\"); print \"start\"; print a[x] }", "start\n", "runtime"},
		{"BEGIN { a = [1, 2, 3]; x = num(\"nan\"); print \"start\"; a[x] = 1; print a }", "start\n", "runtime"},
		{"BEGIN { a = [1, 2, 3]; x = num(\"inf\"); print \"start\"; a[x] = 1; print a }", "start\n", "runtime"},
		{"BEGIN { a = [1, 2, 3]; x = num(\"-inf\"); print \"start\"; print a[x] }", "start\n", "runtime"},
		{"BEGIN { o = {}; o[1000000000000000000] = 1; o[1048577] = 2; print o }", "{\"1000000000000000000\": 1, \"1048577\": 2}\n", "ok"},
		{"BEGIN { s = \"abc\"; print s[1048577], s[-1], s[1.9], s[1000000000000000000] }", "null null b null\n", "ok"},
		{"{ $[1048577] = 1 }\nEND { print \"end\" }", "", "runtime"},
		{"{ print $[1048577], $[-1], $[0.5] }\nEND { print \"end\" }", "null 3 1\nend\n", "ok"},
	}
	for _, s := range small {
		var files []File
		if strings.HasPrefix(s.prog, "{") {
			files = []File{{Name: "in.json", Data: []byte("[[1,2,3]]")}}
		}
		c20Emit(emit, s.prog, files, s.class, c20Exact(s.want), "index magnitude")
	}
	// random smaller fills: length afterwards = index + 1, padding is null
	for i, n := 0, tierN(tier, 40, 400); i < n; i++ {
		have, idx := r.Intn(5), r.Intn(3000)
		el := make([]string, have)
		for j := range el {
			el[j] = fmt.Sprint(j + 1)
		}
		prog := fmt.Sprintf("BEGIN { a = [%s]; a[%d] = \"v\"; print a.length(), a[%d], a[%d] }", strings.Join(el, ", "), idx, idx, have)
		ln := have
		if idx >= have {
			ln = idx + 1
		}
		pad := "null" // a[have] is padding, or past the end
		if idx == have {
			pad = "v"
		}
		c20Emit(emit, prog, nil, "ok", c20Exact(fmt.Sprintf("%d v %s\n", ln, pad)), "fill below the limit")
	}
}

// ---------------------------------------------------------------- printf width

func c20Width(r *rand.Rand, tier string, emit func(Case)) {
	type arg struct{ verb, text, shown string }
	args := []arg{{"s", `"ab"`, "ab"}, {"f", "2.5", "2.5"}, {"v", "[1]", "[1]"}, {"v", `"q"`, "q"}, {"s", `""`, ""}}
	widths := []int{0, 1, 2, 3, 10, 4000, 65535, 65536, 65537, 65538, 100000, 99999999}
	for _, a := range args {
		for _, w := range widths {
			for _, neg := range []bool{false, true} {
				for _, zero := range []bool{false, true} {
					if w == 0 && (neg || zero) {
						continue
					}
					spec := fmt.Sprint(w)
					if zero {
						spec = "0" + spec
					}
					if neg {
						spec = "-" + spec
					}
					prog := fmt.Sprintf("BEGIN { print \"start\"; printf(\"<%%%s%s>\", %s); print \"\"; print \"after\" }", spec, a.verb, a.text)
					probe := "printf width " + spec
					if w > 65536 {
						c20Emit(emit, prog, nil, "runtime", c20Exact("start\n"), probe)
						continue
					}
					pad := " "
					if zero && !neg {
						pad = "0" // the pad character is 0 only when the width text starts with 0
					}
					body := a.shown
					if len(body) < w {
						if neg {
							body = body + strings.Repeat(pad, w-len(body))
						} else {
							body = strings.Repeat(pad, w-len(body)) + body
						}
					}
					c20Emit(emit, prog, nil, "ok", c20Exact("start\n<"+body+">\nafter\n"), probe)
				}
			}
		}
	}
	// malformed / enormous width texts: an error, never a crash
	for _, spec := range []string{"99999999999999999999", "-99999999999999999999", "-", "--5", "65536", "0000065536", "0000065537", "-0065537", "65536.5", "5"} {
		for _, tail := range []string{"s", ""} {
			prog := fmt.Sprintf("BEGIN { print \"start\"; printf(\"%%%s%s\", \"x\"); print \"|after\" }", spec, tail)
			emit(Case{Req: RunReq(prog, nil, nil, false), Fields: []string{"class", "out"}, Meta: metaProg(prog, "probe", "malformed width"),
				Oracle: func(i Resp) string {
					if i["class"] != "ok" && i["class"] != "runtime" {
						return "expected ok or a runtime error, got " + i["class"]
					}
					if !strings.HasPrefix(string(i.Bytes("out")), "start\n") {
						return "prior output lost"
					}
					return ""
				},
				NonTrivial: func(i Resp) bool { return i["class"] == "ok" || i["class"] == "runtime" }})
		}
	}
	// two directives: the first one's output is not lost when the second is refused
	prog := "BEGIN { printf(\"%5s|\", \"a\"); printf(\"%3s|%65537s\", \"b\", \"c\"); print \"after\" }"
	c20Emit(emit, prog, nil, "runtime", c20Exact("    a|"), "printf output is emitted only when the whole format succeeds")
}

// ---------------------------------------------------------------- first indexed assignment to something that is not an array yet

// an index as it is written in the program, and the float it evaluates to
type c20Idx struct {
	pre  string // statement before the assignment (sets i), or ""
	expr string
	f    float64
}

// c20IdxOutcome: what an assignment at index f does on a fresh (empty) array. The
// evaluator converts the float with int(): truncation towards zero, and the
// out-of-range value (NaN, |f| >= 2^63) is the most negative int on amd64.
// fits: the array is filled up to the index (length = index + 1); else refused.
func c20IdxOutcome(f float64) (fits bool, length int) {
	if math.IsNaN(f) || math.Abs(f) >= 9223372036854775808.0 {
		return false, 0
	}
	t := int64(f)
	if t < 0 || t > 1024*1024 {
		return false, 0
	}
	return true, int(t) + 1
}

// c20BigIndices: magnitudes beyond the fill limit as decimal literals (exact)
func c20BigIndices() []string {
	pow := func(b, e int64) *big.Int { return new(big.Int).Exp(big.NewInt(b), big.NewInt(e), nil) }
	add := func(x *big.Int, d int64) *big.Int { return new(big.Int).Add(x, big.NewInt(d)) }
	var out []string
	for _, x := range []*big.Int{
		add(pow(2, 20), 1), add(pow(2, 20), 2), pow(2, 21), big.NewInt(2000000), pow(10, 7), add(pow(2, 24), 1), pow(10, 8), pow(10, 9), add(pow(2, 31), -1), pow(2, 31), add(pow(2, 32), -1), pow(2, 32), add(pow(2, 32), 1), add(pow(2, 32), 7),
		pow(10, 10), pow(10, 11), pow(10, 12), pow(2, 40), pow(2, 45), add(pow(2, 47), -1), pow(2, 48), pow(10, 15), add(pow(2, 53), -1), pow(2, 53), add(pow(2, 53), 1), pow(10, 17), pow(10, 18), pow(2, 62), add(pow(2, 63), -1025), add(pow(2, 63), -1), pow(2, 63),
		add(pow(2, 63), 1), add(pow(2, 63), 2049), add(pow(2, 64), -1), pow(2, 64), add(pow(2, 64), 1), add(pow(2, 64), 5), add(pow(2, 64), 4097), pow(10, 19), pow(10, 20), pow(2, 70), pow(10, 30), pow(10, 300),
	} {
		out = append(out, x.String())
	}
	return out
}

type c20Fresh struct {
	name    string
	funcs   string
	setup   string
	lhs     string // %s = the index expression
	lenExpr string
	doc     string // non-empty: the assignment happens in a pattern rule over this document
}

var c20FreshTargets = []c20Fresh{
	{"unset variable", "", "", "u[%s]", "u.length()", ""},
	{"element of an unset variable", "", "", "u[0][%s]", "u[0].length()", ""},
	{"missing member chain of an unset variable", "", "", "a.b[0][%s]", "a.b[0].length()", ""},
	{"missing member of an object", "", "o = {}", "o.list[%s]", "o.list.length()", ""},
	{"missing chain below an existing member", "", "o = {k: {}}", "o.k.m[2][%s]", "o.k.m[2].length()", ""},
	{"missing element of an existing array", "", "a = [1]", "a[1][%s]", "a[1].length()", ""},
	{"index in the middle, then a member", "", "", "u[%s].k", "u.length()", ""},
	{"index in the middle, then an index", "", "", "u[%s][0]", "u.length()", ""},
	{"missing member chain, index in the middle", "", "o = {}", "o.p.q[%s][1].r", "o.p.q.length()", ""},
	{"new member of the record", "", "", "$.new[%s]", "$.new.length()", `[{"x":1}]`},
	{"new chain of the record", "", "", "$.x.deeper[0][%s]", "$.x.deeper[0].length()", `[{"x":{}}]`},
	{"unset variable in a rule", "", "", "perrec[%s]", "perrec.length()", `[[1]]`},
	{"unset parameter", "function s(p, i) { p[i] = 1\n return p.length() }\n", "", "", "", ""},
	{"binding of a missing member", "", "o = {}", "", "", ""},
}

func c20FreshArray(r *rand.Rand, tier string, emit func(Case)) {
	one := func(t c20Fresh, ix c20Idx, op string) {
		fits, length := c20IdxOutcome(ix.f)
		var prog string
		pre := ""
		if ix.pre != "" {
			pre = "  " + ix.pre + "\n"
		}
		switch {
		case t.name == "unset parameter":
			prog = t.funcs + "BEGIN {\n  print \"start\"\n" + pre + "  print \"len\", s(u, " + ix.expr + ")\n}\n"
		case t.name == "binding of a missing member":
			prog = "BEGIN {\n  o = {}\n  print \"start\"\n" + pre + "  match (o.list) { p => { p[" + ix.expr + "] " + op + " } }\n  print \"len\", o.list.length()\n}\n"
		default:
			lhs := fmt.Sprintf(t.lhs, ix.expr)
			asg := lhs + " " + op
			if op == "++" || op == "--" {
				asg = lhs + op
			}
			open, setup := "BEGIN {\n", ""
			if t.doc != "" {
				open = "{\n"
			}
			if t.setup != "" {
				setup = "  " + t.setup + "\n"
			}
			prog = open + setup + "  print \"start\"\n" + pre + "  " + asg + "\n  print \"len\", " + t.lenExpr + "\n}\n"
		}
		var files []File
		if t.doc != "" {
			files = []File{{Name: "in.json", Data: []byte(t.doc)}}
		}
		probe := fmt.Sprintf("first indexed assignment to %s at index %s (= %v)", t.name, ix.expr, ix.f)
		class, want := "runtime", "start\n"
		if fits {
			class, want = "ok", fmt.Sprintf("start\nlen %d\n", length)
		}
		emit(Case{Req: RunReq(prog, nil, files, false), Fields: []string{"class", "out"},
			Meta:   metaProg(prog, "probe", probe, "row", t.name, "col", map[bool]string{true: "fits", false: "refused"}[fits]),
			Oracle: c20Oracle(class, c20Exact(want)), NonTrivial: func(i Resp) bool { return i["class"] == class }})
	}
	lit := func(digits string, neg bool, frac string) c20Idx {
		f, _ := strconv.ParseFloat(digits+frac, 64)
		e := digits + frac
		if neg {
			f, e = -f, "-"+e
		}
		return c20Idx{"", e, f}
	}
	viaVar := func(ix c20Idx) c20Idx { return c20Idx{"i = " + ix.expr, "i", ix.f} }
	ops := []string{"= 1", "= 1", "= 1", "+= 1", "-= 2", "*= 2", "++", "--"}
	bigs := c20BigIndices()
	for ti, t := range c20FreshTargets {
		// beyond the limit: refused whatever the magnitude, sign and fraction
		for bi, d := range bigs {
			if tier != "thorough" && (bi+ti)%3 != 0 && !chance(r, 0.15) {
				continue
			}
			ix := lit(d, false, "")
			if chance(r, 0.3) {
				ix = viaVar(ix)
			}
			one(t, ix, pick(r, ops))
			if chance(r, 0.5) || tier == "thorough" {
				one(t, lit(d, true, ""), pick(r, ops))
			}
			if len(d) < 300 && (chance(r, 0.5) || tier == "thorough") {
				one(t, lit(d, chance(r, 0.3), pick(r, []string{".5", ".25", ".999", ".0"})), pick(r, ops))
			}
		}
		// values that only num() produces
		for _, n := range []struct {
			text string
			f    float64
		}{{"1e300", 1e300}, {"-1e300", -1e300}, {"1e19", 1e19}, {"9.3e18", 9.3e18}, {"1.8446744073709552e19", 1.8446744073709552e19}, {"inf", math.Inf(1)}, {"-inf", math.Inf(-1)}, {"nan", math.NaN()}, {"1048577.5", 1048577.5}, {"1e7", 1e7}, {"1e11", 1e11}, {"2e12", 2e12}} {
			if tier != "thorough" && !chance(r, 0.5) {
				continue
			}
			one(t, c20Idx{"", "num(\"" + n.text + "\")", n.f}, pick(r, ops))
		}
		// computed at run time
		one(t, c20Idx{"", "2 * 524288 + 1", 1048577}, "= 1")
		one(t, c20Idx{"k = 1000000", "k * k", 1e12}, pick(r, ops))
		one(t, c20Idx{"", "0 - 1", -1}, pick(r, ops))
		// within the limit: the array is created and filled
		for _, ix := range []c20Idx{lit("0", false, ""), lit("1", false, ""), lit("5", false, ".9"), lit("0", true, ".5"), lit("0", false, ".999"), viaVar(lit("1000", false, "")), lit(fmt.Sprint(2+r.Intn(5000)), false, ""),
			lit("1", true, ""), lit("2", true, ".5"), lit("1", true, ".0")} {
			one(t, ix, pick(r, ops))
		}
		// at the limit: a million cells, one target in quick
		if tier == "thorough" || ti == 2 {
			one(t, lit("1048576", false, ""), "= 1")
			one(t, lit("1048576", false, ".75"), "= 1")
		}
		if tier == "thorough" {
			one(t, lit("1048575", false, ""), "+= 1")
		}
	}
}

// ---------------------------------------------------------------- printf widths with many digits

// c20WidthCase: the width text spec (an optional '-', then digits) is worth the exact
// integer its digits denote, however many there are: beyond +-65536 it is refused
// with the prior output kept, else it pads.
func c20WidthCase(emit func(Case), spec, verb, argText, shown, probe string) {
	neg := strings.HasPrefix(spec, "-")
	digits := strings.TrimPrefix(spec, "-")
	v, ok := new(big.Int).SetString(digits, 10)
	prog := fmt.Sprintf("BEGIN { print \"start\"; printf(\"<%%%s%s>\", %s); print \"\"; print \"after\" }", spec, verb, argText)
	if !ok || v.Cmp(big.NewInt(65536)) > 0 {
		c20Emit(emit, prog, nil, "runtime", c20Exact("start\n"), probe)
		return
	}
	w := int(v.Int64())
	pad := " "
	if !neg && digits[0] == '0' {
		pad = "0"
	}
	body := shown
	if len(body) < w {
		if neg {
			body = body + strings.Repeat(pad, w-len(body))
		} else {
			body = strings.Repeat(pad, w-len(body)) + body
		}
	}
	c20Emit(emit, prog, nil, "ok", c20Exact("start\n<"+body+">\nafter\n"), probe)
}

func c20WidthDigits(r *rand.Rand, tier string, emit func(Case)) {
	type arg struct{ verb, text, shown string }
	args := []arg{{"s", `"ab"`, "ab"}, {"f", "2.5", "2.5"}, {"v", "[1]", "[1]"}, {"s", `""`, ""}}
	pow := func(b, e int64) *big.Int { return new(big.Int).Exp(big.NewInt(b), big.NewInt(e), nil) }
	add := func(x *big.Int, d int64) *big.Int { return new(big.Int).Add(x, big.NewInt(d)) }
	mul := func(x *big.Int, m int64) *big.Int { return new(big.Int).Mul(x, big.NewInt(m)) }
	send := func(v *big.Int, probe string) {
		a := pick(r, args)
		spec := v.String()
		switch r.Intn(6) {
		case 0:
			spec = "-" + spec
		case 1:
			spec = "0" + spec
		case 2:
			spec = strings.Repeat("0", 1+r.Intn(6)) + spec
		case 3:
			spec = "-" + strings.Repeat("0", 1+r.Intn(3)) + spec
		}
		c20WidthCase(emit, spec, a.verb, a.text, a.shown, probe+": "+spec)
	}
	// the offsets at which a wrapped value would land inside the accepted window
	ks := []int64{0, 1, 2, 3, 5, 8, 10, 16, 100, 255, 256, 1000, 4000, 32767, 32768, 65535, 65536, 65537, 65546, 100000}
	for i, n := 0, tierN(tier, 12, 200); i < n; i++ {
		ks = append(ks, r.Int63n(65537))
	}
	// a value that fits no int64: 2^64 * m +- k (wraps to +-k in 64 bits), 2^63 +- k
	for _, k := range ks {
		for _, m := range []int64{1, 1, 2, 3, 10, 54210, 542101} { // 2^64 * 542101 has 25 digits
			if m != 1 && tier != "thorough" && !chance(r, 0.2) {
				continue
			}
			send(add(mul(pow(2, 64), m), k), fmt.Sprintf("width 2^64*%d+%d", m, k))
			send(add(mul(pow(2, 64), m), -k), fmt.Sprintf("width 2^64*%d-%d", m, k))
		}
		if tier == "thorough" || chance(r, 0.3) {
			send(add(pow(2, 63), k), fmt.Sprintf("width 2^63+%d", k))
			send(add(pow(2, 63), -k), fmt.Sprintf("width 2^63-%d", k))
			// narrower wraps: 32 and 16 bits
			send(add(pow(2, 32), k), fmt.Sprintf("width 2^32+%d", k))
			send(add(pow(2, 32), -k-1), fmt.Sprintf("width 2^32-%d", k+1))
			send(add(mul(pow(2, 32), 1+r.Int63n(2000000000)), k), fmt.Sprintf("width 2^32*m+%d", k))
			send(add(pow(2, 31), k), fmt.Sprintf("width 2^31+%d", k))
			send(add(mul(pow(2, 16), 1+r.Int63n(60000)), k+1), fmt.Sprintf("width 2^16*m+%d", k+1))
		}
	}
	// the witnesses of the seeded change, every verb
	for _, a := range args {
		for _, spec := range []string{"18446744073709551626", "-18446744073709551621", "018446744073709551624", "18446744073709551616", "-18446744073709551616", "36893488147419103242",
			"100000000000000000005", "10000000000000000005", "9223372036854775807", "9223372036854775808", "9223372036854775809", "-9223372036854775808", "-9223372036854775809", "-9223372036854775807"} {
			c20WidthCase(emit, spec, a.verb, a.text, a.shown, "width "+spec)
		}
		// all nines, and 1 followed by zeros and a small tail, 19 to 25 digits
		for d := 19; d <= 25; d++ {
			c20WidthCase(emit, strings.Repeat("9", d), a.verb, a.text, a.shown, fmt.Sprintf("width of %d nines", d))
			c20WidthCase(emit, "-"+strings.Repeat("9", d), a.verb, a.text, a.shown, fmt.Sprintf("width of %d nines, negative", d))
			c20WidthCase(emit, "1"+strings.Repeat("0", d-2)+"5", a.verb, a.text, a.shown, fmt.Sprintf("width 10^%d+5", d-1))
			// many digits, small value: leading zeros only. it pads (with zeros)
			small := fmt.Sprint(r.Intn(40))
			c20WidthCase(emit, strings.Repeat("0", d-len(small))+small, a.verb, a.text, a.shown, fmt.Sprintf("width %s written with %d digits", small, d))
			c20WidthCase(emit, "-"+strings.Repeat("0", d-len(small))+small, a.verb, a.text, a.shown, fmt.Sprintf("width -%s written with %d digits", small, d))
			c20WidthCase(emit, strings.Repeat("0", d-5)+"65536", a.verb, a.text, a.shown, fmt.Sprintf("width 65536 written with %d digits", d))
			c20WidthCase(emit, strings.Repeat("0", d-5)+"65537", a.verb, a.text, a.shown, fmt.Sprintf("width 65537 written with %d digits", d))
		}
	}
	// random digit strings of 19-25 digits (and a few longer)
	for i, n := 0, tierN(tier, 150, 3000); i < n; i++ {
		d := 19 + r.Intn(7)
		if chance(r, 0.1) {
			d = 26 + r.Intn(40)
		}
		b := make([]byte, d)
		for j := range b {
			b[j] = byte('0' + r.Intn(10))
		}
		if chance(r, 0.3) {
			for j := 0; j < d-1-r.Intn(6) && j < d; j++ {
				b[j] = '0'
			}
		}
		a := pick(r, args)
		spec := string(b)
		if chance(r, 0.3) {
			spec = "-" + spec
		}
		c20WidthCase(emit, spec, a.verb, a.text, a.shown, "random width of many digits")
	}
}

// ---------------------------------------------------------------- JSON nesting

func c20Nest(kind string, d int) string {
	switch kind {
	case "array":
		return strings.Repeat("[", d) + strings.Repeat("]", d)
	case "object":
		return strings.Repeat(`{"a":`, d-1) + "{}" + strings.Repeat("}", d-1)
	default: // mixed, d even or odd
		var sb strings.Builder
		closers := make([]byte, 0, d)
		for i := 0; i < d-1; i++ {
			if i%2 == 0 {
				sb.WriteString("[")
				closers = append(closers, ']')
			} else {
				sb.WriteString(`{"a":`)
				closers = append(closers, '}')
			}
		}
		sb.WriteString("[]")
		for i := len(closers) - 1; i >= 0; i-- {
			sb.WriteByte(closers[i])
		}
		return sb.String()
	}
}

func c20JSON(r *rand.Rand, tier string, emit func(Case)) {
	const lim = 10000
	depths := []int{lim, lim + 1}
	kinds := []string{"array"}
	if tier == "thorough" {
		depths = []int{lim - 1, lim, lim + 1, lim + 2, 20000, 100000}
		kinds = []string{"array", "object", "mixed"}
	}
	// walks down the value and counts the levels (the value is never printed)
	prog := "BEGINFILE { d = 0; v = $\n while (v is array || v is object) { d++\n if (v is array) { v = v[0] } else { v = v.a } }\n print \"depth\", d }\nEND { print \"end\" }\n"
	for _, k := range kinds {
		for _, d := range depths {
			doc := c20Nest(k, d)
			probe := fmt.Sprintf("%s nesting %d (decoder limit %d)", k, d, lim)
			if d <= lim {
				c20Emit(emit, prog, []File{{Name: "in.json", Data: []byte(doc)}}, "ok", c20Exact(fmt.Sprintf("depth %d\nend\n", d)), probe)
				// as a later value of the stream
				c20Emit(emit, prog, []File{{Name: "in.json", Data: []byte("[1] " + doc)}}, "ok", c20Exact(fmt.Sprintf("depth 1\ndepth %d\nend\n", d)), probe+", second value")
			} else {
				c20Emit(emit, prog, []File{{Name: "in.json", Data: []byte(doc)}}, "json", c20Exact(""), probe)
				// prior output is kept: the first value was processed before the second is refused
				c20Emit(emit, prog, []File{{Name: "in.json", Data: []byte("[1] " + doc)}}, "json", c20Exact("depth 1\n"), probe+", second value")
				// and in a second file
				c20Emit(emit, prog, []File{{Name: "a.json", Data: []byte("[[2]]")}, {Name: "b.json", Data: []byte(doc)}}, "json", c20Exact("depth 2\n"), probe+", second file")
			}
		}
	}
	// comfortably below: depth 1000 and 5000
	for _, d := range []int{1, 2, 1000, 5000} {
		for _, k := range kinds {
			c20Emit(emit, prog, []File{{Name: "in.json", Data: []byte(c20Nest(k, d))}}, "ok", c20Exact(fmt.Sprintf("depth %d\nend\n", d)), fmt.Sprintf("%s nesting %d", k, d))
		}
	}
}

// ---------------------------------------------------------------- deep recursion in the real binary

// The call-depth limit counts frames; how much Go stack a frame of the interpreted program takes
// depends on how deeply its call is nested in expressions. The library (and the in-process
// workers of this harness) run on whatever stack the embedding process allows, the real binary on
// what cli.Run leaves of Go's default: a stack cap in the binary that "easily" holds 4096 bare
// frames kills legal recursions (and turns runaway ones into a goroutine dump) as soon as the
// calls are nested in a few operators. So these cases go through the `cli` request.
//
// nesting x depth stays <= 70 000 (16 x 4096 = 65 536), far below the product at which the known
// finding K1 (about 80 nested operators x 4096 frames) exhausts even the default stack.

type c20PadKind struct {
	name      string
	pre, post string // one nesting level around X: pre X post has the value of X
}

var c20PadKinds = []c20PadKind{
	{"addition", "(0 + ", ")"},
	{"array literal + index", "[", "][0]"},
	{"object literal + member", "{k: ", "}.k"},
	{"negation", "-(0 - ", ")"},
	{"multiplication", "(1 * ", ")"},
	{"call argument", "id(", ")"}, // id is entered after its argument has returned: no frame of it is open at the deepest point
}

// c20PadExpr nests x inside n levels of one kind; a negative kind rotates through the first five
func c20PadExpr(kind int, n int, x string) string {
	for k := 0; k < n; k++ {
		pk := c20PadKinds[0]
		if kind < 0 {
			pk = c20PadKinds[(k-kind)%5]
		} else {
			pk = c20PadKinds[kind]
		}
		x = pk.pre + x + pk.post
	}
	return x
}

func c20PadName(kind int) string {
	if kind < 0 {
		return fmt.Sprintf("mixed, starting with %s", c20PadKinds[(-kind)%5].name)
	}
	return c20PadKinds[kind].name
}

// c20DeepShape: program texts with ‹…› around every expression to be nested and §A§ for the
// argument of the first call; record says that the argument comes from the input ($)
type c20DeepShape struct {
	name    string
	legal   string
	runaway string
	arg     func(frames int) int // the largest argument whose deepest point has at most that many frames open
	value   func(arg int) string // what the legal form prints between "before" and "after"
	record  bool
}

var c20DeepShapes = []c20DeepShape{
	{"count-down sum in BEGIN",
		"function s(n) { if (n == 0) { return 0 } return n + ‹s(n - 1)› }\nBEGIN { print \"before\"; print s(§A§); print \"after\" }\n",
		"function s(n) { return n + ‹s(n + 1)› }\nBEGIN { print \"before\"; print s(0); print \"after\" }\n",
		func(f int) int { return f - 1 }, func(a int) string { return fmt.Sprint(a * (a + 1) / 2) }, false},
	{"count-down in a rule body, the value through a variable",
		"function s(n) { if (n < 1) { return 0 }\n v = 1 + ‹s(n - 1)›\n return v }\n{ print \"before\"; print s($); print \"after\" }\n",
		"function s(n) { v = 1 + ‹s(n + 1)›\n return v }\n{ print \"before\"; print s($); print \"after\" }\n",
		func(f int) int { return f - 1 }, func(a int) string { return fmt.Sprint(a) }, true},
	{"mutual recursion of two functions in END",
		"function ev(n) { if (n == 0) { return 0 } return 1 + ‹od(n - 1)› }\nfunction od(n) { if (n == 0) { return 0 } return 1 + ‹ev(n - 1)› }\n{ a = $ }\nEND { print \"before\"; print ev(a); print \"after\" }\n",
		"function ev(n) { return 1 + ‹od(n + 1)› }\nfunction od(n) { return 1 + ‹ev(n + 1)› }\n{ a = $ }\nEND { print \"before\"; print ev(a); print \"after\" }\n",
		func(f int) int { return f - 1 }, func(a int) string { return fmt.Sprint(a) }, true},
	{"through a match expression (two frames per level)",
		"function s(n) { return match (n) { 0 => 0, x => 1 + ‹s(x - 1)› } }\nBEGIN { print \"before\"; print s(§A§); print \"after\" }\n",
		"function s(n) { return match (n) { x => 1 + ‹s(x + 1)› } }\nBEGIN { print \"before\"; print s(0); print \"after\" }\n",
		func(f int) int { return f/2 - 1 }, func(a int) string { return fmt.Sprint(a) }, false},
	{"the call inside a condition, the first call inside a print list",
		"function s(n) { if (n > 0 && ‹s(n - 1)› >= 0) { return n } return 0 }\nBEGIN { print \"before\"; print \"v\", ‹s(§A§)›, \"w\"; print \"after\" }\n",
		"function s(n) { if (n >= 0 && ‹s(n + 1)› >= 0) { return n } return 0 }\nBEGIN { print \"before\"; print \"v\", ‹s(0)›, \"w\"; print \"after\" }\n",
		func(f int) int { return f - 1 }, func(a int) string { return fmt.Sprintf("v %d w", a) }, false},
	{"a literal built around every call (the seeded witness)",
		"function s(n) { if (n == 0) { return 0 } return { v: [n + ‹s(n - 1)›] }.v[0] }\nBEGIN { print \"before\"; print s(§A§); print \"after\" }\n",
		"function s(n) { return { v: [n + ‹s(n + 1)›] }.v[0] }\nBEGIN { print \"before\"; print s(0); print \"after\" }\n",
		func(f int) int { return f - 1 }, func(a int) string { return fmt.Sprint(a * (a + 1) / 2) }, false},
}

func c20DeepProg(text string, kind, nest, arg int) string {
	var sb strings.Builder
	for {
		i := strings.Index(text, "‹")
		if i < 0 {
			break
		}
		j := strings.Index(text, "›")
		sb.WriteString(text[:i])
		sb.WriteString(c20PadExpr(kind, nest, text[i+len("‹"):j]))
		text = text[j+len("›"):]
	}
	sb.WriteString(text)
	return "function id(x) { return x }\n" + strings.ReplaceAll(sb.String(), "§A§", fmt.Sprint(arg))
}

// c20NoGoReport: whatever happens, the binary's stderr never holds a report of the Go runtime
func c20NoGoReport(i Resp) string {
	se := string(i.Bytes("stderr"))
	for _, bad := range []string{"goroutine", "fatal error", "panic:", "stack overflow", "runtime."} {
		if strings.Contains(se, bad) {
			return fmt.Sprintf("the binary died with a report of the Go runtime (stderr contains %q): %s", bad, c07Short(se))
		}
	}
	if i["exit"] != "0" && i["exit"] != "1" {
		return "exit status " + i["exit"] + " (class " + i["class"] + "): neither success nor a reported error; stderr: " + c07Short(se)
	}
	return ""
}

// c20DeepCase: one run of the binary. frames > 0: the legal form with the deepest point at
// (at most) that many frames; frames == 0: the form without a base case.
func c20DeepCase(r *rand.Rand, emit func(Case), s c20DeepShape, kind, nest, frames int) {
	runaway := frames == 0
	text, arg := s.legal, s.arg(frames)
	if runaway {
		text, arg = s.runaway, 0
	}
	prog := c20DeepProg(text, kind, nest, arg)
	argv := []string{prog}
	var stdin []byte
	hasStdin := false
	var files []CliFile
	if s.record {
		doc := []byte(fmt.Sprint(arg))
		if r.Intn(2) == 0 {
			files = []CliFile{{Name: "in.json", Data: doc}}
			argv = append(argv, "in.json")
		} else {
			stdin, hasStdin = doc, true
		}
	}
	form := "legal"
	if runaway {
		form = "runaway"
	}
	fits := frames <= c20Limit
	meta := metaProg(prog, "probe", fmt.Sprintf("%s, %s: %d frames at the deepest point (0 = no base case; limit %d), every nested expression inside %d levels of %s",
		form, s.name, frames, c20Limit, nest, c20PadName(kind)), "row", fmt.Sprintf("%s nesting %2d", form, nest), "col", fmt.Sprintf("frames %d", frames))
	req := CliReq(argv, stdin, hasStdin, files, "")
	if runaway || !fits {
		emit(Case{Req: req, Fields: c14CliFields, Meta: meta,
			Oracle: func(i Resp) string {
				if w := c20NoGoReport(i); w != "" {
					return w
				}
				if i["exit"] != "1" {
					return "recursion beyond the limit must end with exit status 1 (the runtime error \"call depth limit exceeded\"), got exit " + i["exit"] + ", stderr: " + c07Short(string(i.Bytes("stderr")))
				}
				if out := string(i.Bytes("out")); out != "before\n" {
					return fmt.Sprintf("the output printed before the call must be kept and nothing else written: got %q", c07Short(out))
				}
				// the wording of the message is not part of the property (a benign rewording must not
				// alarm): what counts is that the report is cli.go's runtime-error diagnostic
				if se := string(i.Bytes("stderr")); !strings.Contains(se, "runtime error on line") {
					return "the diagnostic must be a runtime error report, got: " + c07Short(se)
				}
				return ""
			}, NonTrivial: func(i Resp) bool { return i["exit"] == "1" }})
		return
	}
	wantOut := "before\n" + s.value(arg) + "\nafter\n"
	emit(Case{Req: req, Fields: c14CliFields, Meta: meta,
		Oracle: func(i Resp) string {
			if w := c20NoGoReport(i); w != "" {
				return w
			}
			if i["exit"] != "0" {
				return fmt.Sprintf("a recursion %d frames deep (limit %d) must work, got exit %s, stderr: %s", frames, c20Limit, i["exit"], c07Short(string(i.Bytes("stderr"))))
			}
			if out := string(i.Bytes("out")); out != wantOut {
				return fmt.Sprintf("output differs: got %q want %q", c07Short(out), c07Short(wantOut))
			}
			if i["err"] != "0" {
				return "a run that works writes nothing to stderr: " + c07Short(string(i.Bytes("stderr")))
			}
			return ""
		}, NonTrivial: func(i Resp) bool { return i["exit"] == "0" }})
}

func c20BinaryDeep(r *rand.Rand, tier string, emit func(Case)) {
	nests := []int{1, 4, 8, 16}
	kinds := []int{0, 1, 2, 3, 4, -1, -3}
	k := r.Intn(1000)
	// legal: every depth x nesting; the shape and the kind of expression in rotation
	// (thorough: every kind incl. a call per level, random shapes). 4096 frames is the limit itself
	for _, d := range []int{1000, 2000, 4000, 4095, c20Limit} {
		for _, n := range nests {
			if tier == "thorough" {
				for _, kind := range append([]int{5}, kinds...) {
					c20DeepCase(r, emit, pick(r, c20DeepShapes), kind, n, d)
				}
				continue
			}
			c20DeepCase(r, emit, c20DeepShapes[k%len(c20DeepShapes)], kinds[k%len(kinds)], n, d)
			if d >= 4000 {
				c20DeepCase(r, emit, c20DeepShapes[(k+3)%len(c20DeepShapes)], kinds[(k+4)%len(kinds)], n, d)
			}
			k++
		}
	}
	// runaway, and one or two frames beyond the limit: every shape x nesting (0 = the bare call)
	for si, s := range c20DeepShapes {
		for ni, n := range []int{0, 1, 4, 8, 16} {
			if tier == "thorough" {
				for _, kind := range kinds {
					c20DeepCase(r, emit, s, kind, n, 0)
				}
				c20DeepCase(r, emit, s, pick(r, kinds), n, c20Limit+2)
				continue
			}
			c20DeepCase(r, emit, s, kinds[(k+si+ni)%len(kinds)], n, 0)
			if (si+ni+k)%3 == 0 {
				c20DeepCase(r, emit, s, kinds[(k+si+2*ni)%len(kinds)], n, c20Limit+2)
			}
		}
	}
}

// ---------------------------------------------------------------- fuzzing mode: the loop limit

// The only thing fuzzing mode (EvalProgram's last argument, request flag z) changes is that one
// execution of a while / for statement is stopped with the runtime error "fuzz test loop limit"
// once c20FuzzRounds rounds of it have reached the end of the loop body -- whatever way the
// round ended (falling through, continue from anywhere inside the body, the break of an inner
// loop). The check sits at the end of a round: a round that leaves by break / return is not
// counted. for-in loops are bounded by their operand and carry no limit.
const c20FuzzRounds = 10002 // the round at whose end the loop is stopped

type c20LoopForm struct {
	name    string
	text    string              // # = the bound, § = the end of the round
	counted func(bound int) int // rounds that reach the end of the body when the loop runs to completion
}

var c20LoopForms = []c20LoopForm{
	{"while", "while (n < #) { n++; § }", func(b int) int { return b }},
	{"for", "for (i = 0; i < #; i++) { n++; § }", func(b int) int { return b }},
	{"for-true-break", "for (i = 0; true; i++) { n++; if (n >= #) break; § }", func(b int) int { return b - 1 }},
	{"while-true-break", "while (true) { n++; if (n >= #) break; § }", func(b int) int { return b - 1 }},
	{"while-call-condition", "while (below(n, #)) { n++; § }", func(b int) int { return b }},
	{"for-no-post-effect", "for (n = 0; n < #; 1) { n++; § }", func(b int) int { return b }},
}

// ways in which a round ends; none changes n or prints
var c20RoundEnds = [][2]string{
	{"falls-through", "x = 1"},
	{"continue", "continue"},
	{"continue-then-dead-code", "continue; print \"unreachable\""},
	{"if-continue", "if (n > 0) continue; print \"unreachable\""},
	{"if-block-continue", "if (n > 0) { continue }\n print \"unreachable\""},
	{"else-continue", "if (n < 0) { x = 1 } else { continue }"},
	{"continue-every-other-round", "if (n % 2 == 0) continue; x = x + 1"},
	{"continue-all-but-every-97th-round", "if (n % 97 != 0) continue; x = x + 1"},
	{"match-block-continue", "match (n) { _ => { continue } }"},
	{"nested-match-blocks-continue", "match (n % 2) { 0 => { match (n) { w => { continue } } }, _ => { continue } }"},
	{"nested-block-continue", "{ { continue } }"},
	{"if-in-block-in-if-continue", "if (n > 0) { { if (true) continue } }"},
	{"inner-for-break", "for (j = 0; j < 3; j++) { if (j == 1) break }"},
	{"inner-while-break", "while (true) { break }"},
	{"inner-for-in-break", "for (e in [1, 2, 3]) { break }"},
	{"inner-for-in-continue", "for (e in [1, 2]) { continue }"},
	{"inner-for-continue-then-continue", "for (j = 0; j < 2; j++) { continue }\n continue"},
	{"inner-break-from-match-body", "while (true) { match (1) { _ => { break } } }"},
	{"call-returning-out-of-a-loop", "leave(n)"},
	{"inner-while-continue-then-falls-through", "k = 0; while (k < 2) { k++; continue }"},
}

// where the loop stands; the loop is always on line 3, "before" is printed first
var c20LoopPlaces = []struct{ name, pre, post, doc string }{
	{"BEGIN", "BEGIN { print \"before\"\nn = 0\n", "\nprint \"after\", n }\n", ""},
	{"function", "function run() { print \"before\"\nn = 0\n", "\nprint \"after\", n }\nBEGIN { run() }\n", ""},
	{"rule-body", "{ print \"before\"\nn = 0\n", "\nprint \"after\", n }\n", "[7]"},
	{"END", "END { print \"before\"\nn = 0\n", "\nprint \"after\", n }\n", "[7, 8]"},
	{"match-body", "BEGIN { match (1) { _ => { print \"before\"\nn = 0\n", "\nprint \"after\", n } }\n}\n", ""},
}

const c20LoopFuncs = "function below(a, b) { return a < b }\nfunction leave(v) { for (q in [1, 2]) { if (q == 1) return v } }\n"

func c20FuzzOracle(wantStop bool, wantOut string, line int) func(Resp) string {
	return func(i Resp) string {
		out := string(i.Bytes("out"))
		if wantStop {
			if i["class"] != "runtime" || !strings.Contains(i["msg"], "fuzz_test_loop_limit") {
				return fmt.Sprintf("fuzzing mode: a loop statement running for %d rounds or more must be stopped with the runtime error \"fuzz test loop limit\", got class %s %s, output %q", c20FuzzRounds, i["class"], i["msg"], c07Short(out))
			}
			if line > 0 && i["line"] != fmt.Sprint(line) {
				return fmt.Sprintf("the loop limit error is reported on line %s, the loop is on line %d", i["line"], line)
			}
		} else if i["class"] != "ok" {
			return fmt.Sprintf("fuzzing mode: no loop statement runs for %d rounds here, the run must complete; got class %s %s", c20FuzzRounds, i["class"], i["msg"])
		}
		if out != wantOut {
			return fmt.Sprintf("output differs: got %q want %q", c07Short(out), c07Short(wantOut))
		}
		return ""
	}
}

func c20FuzzLoops(r *rand.Rand, tier string, emit func(Case)) {
	okOrRuntime := func(i Resp) bool { return i["class"] == "ok" || i["class"] == "runtime" }
	// rounds counted when the loop runs to completion; at c20FuzzRounds and beyond it is stopped
	rounds := []int{c20FuzzRounds - 1, c20FuzzRounds}
	if tier == "thorough" {
		rounds = []int{1, 2, c20FuzzRounds - 2, c20FuzzRounds - 1, c20FuzzRounds, c20FuzzRounds + 1, c20FuzzRounds + 2, 2 * c20FuzzRounds, 3 * c20FuzzRounds, 100000}
	}
	k := 0
	for fi, f := range c20LoopForms {
		for ei, e := range c20RoundEnds {
			for _, cnt := range rounds {
				bound := cnt + 1000 - f.counted(1000) // inverse of counted
				if f.counted(bound) != cnt {
					panic("c20FuzzLoops: bound")
				}
				places := []int{(fi + ei + k) % len(c20LoopPlaces)}
				if tier == "thorough" {
					places = []int{0, 1, 2, 3, 4}
				}
				k++
				for _, pi := range places {
					pl := c20LoopPlaces[pi]
					loop := strings.ReplaceAll(strings.ReplaceAll(f.text, "#", fmt.Sprint(bound)), "§", e[1])
					prog := pl.pre + loop + pl.post + c20LoopFuncs
					var files []File
					if pl.doc != "" {
						files = []File{{Name: "in.json", Data: []byte(pl.doc)}}
					}
					full := fmt.Sprintf("before\nafter %d\n", bound)
					stop := cnt >= c20FuzzRounds
					want := full
					if stop {
						want = "before\n"
					}
					meta := metaProg(prog, "probe", fmt.Sprintf("fuzzing mode: %s loop in %s, %d rounds reach the end of the body (each ends by %s); stopped from %d on", f.name, pl.name, cnt, e[0], c20FuzzRounds),
						"row", f.name+" / "+e[0], "col", fmt.Sprintf("%d rounds", cnt))
					emit(Case{ID: fmt.Sprintf("z/%s/%s/%s/%d", f.name, e[0], pl.name, cnt), Req: RunReqFuzz(prog, nil, files), ImplOnly: true,
						Meta: meta, Oracle: c20FuzzOracle(stop, want, 3), NonTrivial: okOrRuntime})
					// the same program in an ordinary run is not limited at all (compared with the model)
					if stop && (tier == "thorough" && pi == 0 || tier != "thorough" && k%8 == 0) {
						emit(Case{ID: fmt.Sprintf("plain/%s/%s/%s/%d", f.name, e[0], pl.name, cnt), Req: RunReq(prog, nil, files, false), Fields: []string{"class", "out"},
							Meta:   metaProg(prog, "probe", fmt.Sprintf("ordinary run: %s loop, %d rounds (each ends by %s) complete", f.name, cnt, e[0]), "row", "ordinary run", "col", fmt.Sprintf("%d rounds", cnt)),
							Oracle: c20Oracle("ok", c20Exact(full)), NonTrivial: okOrRuntime})
					}
				}
			}
		}
	}
	// the limit is per execution of a loop statement: an outer loop (or the record loop) around an
	// inner loop of `inner` rounds
	type nest struct {
		name, pre, post, doc string
		outer                int
	}
	nests := []nest{
		{"for-around-while", "BEGIN { print \"before\"\nn = 0\nfor (o = 0; o < 3; o++) { k = 0; ", " }\nprint \"after\", n }\n", "", 3},
		{"while-around-while", "BEGIN { print \"before\"\nn = 0\no = 0; while (o < 2) { o++; k = 0; ", "\n continue }\nprint \"after\", n }\n", "", 2},
		{"for-in-around-while", "BEGIN { print \"before\"\nn = 0\nfor (e in [1, 2, 3, 4]) { k = 0; ", "\n if (e > 0) continue }\nprint \"after\", n }\n", "", 4},
		{"for-in-over-string-around-while", "BEGIN { print \"before\"\nn = 0\nfor (c in \"ab\") { k = 0; ", " }\nprint \"after\", n }\n", "", 2},
		{"records-around-while", "BEGIN { print \"before\"\nn = 0 }\n{ k = 0; ", " }\nEND { print \"after\", n }\n", "[1, 2, 3]", 3},
		{"calls-around-while", "function w() { k = 0; ", " }\nBEGIN { print \"before\"\nn = 0\nw(); w()\nprint \"after\", n }\n", "", 2},
	}
	inners := []string{
		"while (k < #) { k++; n++; § }",
		"for (k = 0; k < #; k++) { n++; § }",
	}
	for ni, ns := range nests {
		for ii, in := range inners {
			for ei, e := range c20RoundEnds {
				if tier != "thorough" && (ni+ii+ei)%5 != 0 {
					continue
				}
				for _, cnt := range []int{c20FuzzRounds - 1, c20FuzzRounds} {
					prog := ns.pre + strings.ReplaceAll(strings.ReplaceAll(in, "#", fmt.Sprint(cnt)), "§", strings.ReplaceAll(e[1], "k = 0; while (k < 2) { k++; continue }", "m = 0; while (m < 2) { m++; continue }")) + ns.post + c20LoopFuncs
					var files []File
					if ns.doc != "" {
						files = []File{{Name: "in.json", Data: []byte(ns.doc)}}
					}
					stop := cnt >= c20FuzzRounds
					want := fmt.Sprintf("before\nafter %d\n", ns.outer*cnt)
					if stop {
						want = "before\n"
					}
					emit(Case{ID: fmt.Sprintf("nest/%s/%d/%s/%d", ns.name, ii, e[0], cnt), Req: RunReqFuzz(prog, nil, files), ImplOnly: true,
						Meta: metaProg(prog, "probe", fmt.Sprintf("fuzzing mode: %s, %d executions of an inner loop of %d rounds each (rounds end by %s): the limit counts the rounds of one execution of one loop statement", ns.name, ns.outer, cnt, e[0]),
							"row", "nest "+ns.name, "col", fmt.Sprintf("%d rounds", cnt)),
						Oracle: c20FuzzOracle(stop, want, 0), NonTrivial: okOrRuntime})
				}
			}
		}
	}
	// for-in is bounded by its operand: 12 000 elements are walked, whatever way a round ends;
	// an inner while loop of the body is limited as everywhere
	var doc strings.Builder
	doc.WriteString("{\"a\": [")
	for i := 0; i < 12000; i++ {
		if i > 0 {
			doc.WriteByte(',')
		}
		doc.WriteString(fmt.Sprint(i % 10))
	}
	doc.WriteString("]}")
	big := []File{{Name: "in.json", Data: []byte(doc.String())}}
	for ei, e := range c20RoundEnds {
		if tier != "thorough" && ei%4 != 1 {
			continue
		}
		prog := "{ print \"before\"\nn = 0\nfor (v in $.a) { n++; " + e[1] + " }\nprint \"after\", n }\n" + c20LoopFuncs
		emit(Case{ID: "forin/" + e[0], Req: RunReqFuzz(prog, nil, big), ModelReq: RunReq(prog, nil, big, false), Fields: []string{"class", "out"},
			Meta:   metaProg(prog, "probe", "fuzzing mode: for-in over 12 000 elements (rounds end by "+e[0]+") is bounded by its operand and completes", "input", "{\"a\": [12 000 digits]}", "row", "for-in", "col", "12000 rounds"),
			Oracle: c20FuzzOracle(false, "before\nafter 12000\n", 0), NonTrivial: okOrRuntime})
	}
}

// ---------------------------------------------------------------- fuzzing mode: no limit changes for later runs

// c20Probe is an ordinary run at one of the limits with its closed-form outcome.
type c20Probe struct {
	name, prog string
	files      []File
	class      string
	out        string
	loopFree   bool // no while / for statement: the run is the same in fuzzing mode
}

func c20LimitProbes(r *rand.Rand, tier string) []c20Probe {
	var ps []c20Probe
	// recursion with the deepest point at `target` open frames (or the nearest depth the shape reaches)
	targets := []int{257, 258, 300, 512, 1000, 1025, 2048, 3000, 4095, c20Limit, c20Limit + 1}
	for si, s := range c20Shapes {
		for ti, target := range targets {
			if tier != "thorough" && (si+ti)%4 != 0 && !(target == c20Limit && si%2 == 0) {
				continue
			}
			n := c20MaxArg(s, target)
			if target > c20Limit {
				n = c20MaxArg(s, c20Limit) + 1
			}
			prog := s.funcs + "BEGIN { print \"start\"\n print " + fmt.Sprintf(s.call, n) + "\n print \"after\" }\n"
			p := c20Probe{name: fmt.Sprintf("%s recursion, %d frames open at the deepest point", s.name, s.frames(n)), prog: prog, class: "ok",
				out: "start\n" + s.result(n) + "\nafter\n", loopFree: !strings.Contains(s.funcs, "for (")}
			if s.frames(n) > c20Limit {
				p.class, p.out = "runtime", "start\n"
			}
			ps = append(ps, p)
		}
	}
	// recursion started from a record, 600 frames
	{
		s := c20Shapes[0]
		ps = append(ps, c20Probe{name: "direct recursion 600 deep in each of 3 records", prog: s.funcs + "{ print f(600 + $) }\n",
			files: []File{{Name: "in.json", Data: []byte("[0, 1, 2]")}}, class: "ok", out: "600\n601\n602\n", loopFree: true})
	}
	// loops are not limited in an ordinary run
	for _, l := range []string{"while (n < 10002) { n++ }", "while (n < 15000) { n++; continue }", "for (i = 0; i < 10003; i++) { n++; if (n > 0) continue }",
		"for (i = 0; i < 12000; i++) { match (i) { _ => { n++; continue } } }"} {
		want := 15000
		for _, c := range []int{10002, 10003, 12000} {
			if strings.Contains(l, fmt.Sprint(c)) {
				want = c
			}
		}
		ps = append(ps, c20Probe{name: "a loop of more than 10 001 rounds", prog: "BEGIN { print \"start\"\n n = 0\n " + l + "\n print \"after\", n }\n", class: "ok", out: fmt.Sprintf("start\nafter %d\n", want)})
	}
	// the other limits of the property
	ps = append(ps,
		c20Probe{name: "array fill at 2^20", prog: "BEGIN { print \"start\"\n a[1048576] = 1\n print a.length() }\n", class: "ok", out: "start\n1048577\n", loopFree: true},
		c20Probe{name: "array fill at 2^20+1", prog: "BEGIN { print \"start\"\n a[1048577] = 1\n print a.length() }\n", class: "runtime", out: "start\n", loopFree: true},
		c20Probe{name: "printf width 65536", prog: "BEGIN { print \"start\"\n printf(\"%65536s|\\n\", \"x\")\n print \"after\" }\n", class: "ok", out: "start\n" + strings.Repeat(" ", 65535) + "x|\nafter\n", loopFree: true},
		c20Probe{name: "printf width 65537", prog: "BEGIN { print \"start\"\n printf(\"%65537s|\\n\", \"x\")\n print \"after\" }\n", class: "runtime", out: "start\n", loopFree: true},
	)
	walk := "BEGIN { print \"start\" }\nBEGINFILE { d = 0; v = $\n while (v is array) { d++\n v = v[0] }\n print \"depth\", d }\n"
	ps = append(ps,
		c20Probe{name: "input nested 10 000 deep", prog: walk, files: []File{{Name: "in.json", Data: []byte(c20Nest("array", 10000))}}, class: "ok", out: "start\ndepth 10000\n"},
		c20Probe{name: "input nested 10 001 deep", prog: walk, files: []File{{Name: "in.json", Data: []byte(c20Nest("array", 10001))}}, class: "json", out: "start\n", loopFree: true},
	)
	return ps
}

// runs in fuzzing mode that may leave something behind: (program, input)
var c20FuzzRuns = []struct {
	name, prog, doc string
}{
	{"a one-line program", "BEGIN { print 1 }\n", ""},
	{"a loop stopped by the loop limit", "BEGIN { while (true) { n++ } }\n", ""},
	{"runaway recursion stopped by the call depth limit", "function f(n) { return f(n + 1) }\nBEGIN { f(0) }\n", ""},
	{"recursion 1000 deep", "function f(n) { if (n <= 1) return 1\n return 1 + f(n - 1) }\nBEGIN { print f(1000) }\n", ""},
	{"rules with loops over three records", "{ for (i = 0; i < 100; i++) { t += $ } }\nEND { print t }\n", "[1, 2, 3]"},
	{"a program with a syntax error", "BEGIN { print ( }\n", ""},
	{"the loop limit hit 300 calls deep, inside match bodies", "function g(d) { if (d > 0) return match (d) { x => g(x - 1) }\n while (true) { } }\nBEGIN { g(300) }\n", ""},
	{"a runtime error in a rule", "{ print $.a.b.c() }\n", "[1]"},
	{"a broken input document", "{ print }\n", "[1, 2"},
	{"a for loop stopped by the loop limit in END after records", "{ n++ }\nEND { for (q = 0; n > 0; q++) { m++ } }\n", "[1, 2]"},
}

func c20AfterFuzzing(r *rand.Rand, tier string, emit func(Case)) {
	fz := func(k int) string {
		f := c20FuzzRuns[k%len(c20FuzzRuns)]
		var files []File
		if f.doc != "" {
			files = []File{{Name: "in.json", Data: []byte(f.doc)}}
		}
		return RunReqFuzz(f.prog, nil, files)
	}
	probes := c20LimitProbes(r, tier)
	// histories: F = a run in fuzzing mode, P = the probe (ordinary run), Q = another ordinary run
	patterns := []string{"FP", "PFP", "FFFP", "FPFP", "QFP", "FQP", "FPFPFP", "PF"}
	k0 := r.Intn(1000)
	k := k0
	for pi, p := range probes {
		pats := []string{patterns[(pi+k0)%7], patterns[(pi+k0+3)%7]}
		if p.loopFree {
			pats = append(pats, "PF")
		}
		if tier == "thorough" {
			pats = patterns
		}
		plain := RunReq(p.prog, nil, p.files, false)
		for _, pat := range pats {
			if pat == "PF" && !p.loopFree {
				pat = "FP"
			}
			if strings.Contains(p.name, "2^20") && tier != "thorough" && len(pat) > 3 {
				pat = "FP" // a million cells per run
			}
			var subs, hist []string
			for ci, c := range pat {
				k++
				switch c {
				case 'F':
					if ci == len(pat)-1 {
						// the probe itself in fuzzing mode: it has no loop, the mode changes nothing
						subs = append(subs, RunReqFuzz(p.prog, nil, p.files))
						hist = append(hist, "the probe in fuzzing mode")
					} else {
						subs = append(subs, fz(k))
						hist = append(hist, "fuzzing mode: "+c20FuzzRuns[k%len(c20FuzzRuns)].name)
					}
				case 'P':
					subs = append(subs, plain)
					hist = append(hist, "the probe")
				case 'Q':
					q := probes[(pi*7+k)%len(probes)]
					if strings.Contains(q.name, "2^20") || strings.Contains(q.name, "nested") {
						q = probes[0]
					}
					subs = append(subs, RunReq(q.prog, nil, q.files, false))
					hist = append(hist, "ordinary run: "+q.name)
				}
			}
			p := p
			in := ""
			if len(p.files) > 0 {
				in = string(p.files[0].Data)
				if len(in) > 100 {
					in = in[:50] + "…" + in[len(in)-30:]
				}
			}
			emit(Case{ID: fmt.Sprintf("%d/%s", pi, pat), Req: "seq " + strings.Join(subs, "|"), ModelReq: plain, Fields: []string{"class", "out"},
				Fresh: tier == "thorough" || k%3 == 0,
				Group: fmt.Sprintf("p%03d", pi), GroupFields: []string{"class", "out"},
				Meta: metaProg(p.prog, "probe", p.name+": limits are fixed, runs in fuzzing mode earlier in the same process do not change them", "history", strings.Join(hist, " | "), "input", in,
					"row", pat, "col", strings.SplitN(p.name, ",", 2)[0]),
				Oracle: func(i Resp) string {
					if i["class"] != p.class {
						return "after the history the probe must end as in a fresh process: class " + p.class + ", got " + i["class"] + " " + i["msg"]
					}
					if out := string(i.Bytes("out")); out != p.out {
						return fmt.Sprintf("output differs: got %q want %q", c07Short(out), c07Short(p.out))
					}
					return ""
				},
				NonTrivial: func(i Resp) bool { return i["class"] == p.class }})
		}
	}
}

func init() {
	register(Family{
		Name: "recursion-limit", Prop: "C20",
		Rule: "8 recursion shapes (direct, through a loop body, mutual of 2 and 3 functions, through match expression / block bodies, match at the leaf only, nested matches) x 5 starting contexts (frame depth 0, 1, 2, a rule pattern, END after 5000 completed calls and matches) x arguments putting the deepest point at limit-1, limit, limit+1, limit+2, limit+1000 frames (limit 4096) and depth 0, 1, 1000; 10 runaway recursions; oracle: exact output (result when it fits, else runtime error with the prior output kept)",
		Gen:  c20Recursion,
	})
	register(Family{
		Name: "limit-after-history", Prop: "C20",
		Rule: "16 ways of leaving a call or a match body early on every record (next inside a function: sometimes / always / three calls deep through match bodies / from a rule pattern / from loops in a match in a function; next in a match block of the rule and in nested match expression bodies; return from nested loops and from a match block in a loop in a match; break and continue through one and two match bodies, in a rule and in a function; completed calls and matches; a mix chosen by the record) over 5 000 and 10 000 records (thorough: also 4 095 / 4 096 / 4 097, 50 000, 200 000), then in a later record (at rule level or inside a match body) and again in END a recursion (the 8 shapes of recursion-limit) whose deepest point is at limit-1, limit, limit+1 frames; oracle: the same boundary as in a fresh run (4096 open frames), exact output, frame depth 0 at the end",
		Gen:  c20AfterHistory,
	})
	register(Family{
		Name: "array-fill", Prop: "C20",
		Rule: "assignment (=, +=, ++) at index 2^20 and 2^20+1 (thorough: also 2^20-1, 2^20+2) on an empty / non-empty / unset / speculative / nested target; negative, fractional, 1e18, 1e300, NaN, +-Inf indices for read and write on arrays, objects, strings; random fills below the limit; oracle: exact output",
		Gen:  c20Fill,
	})
	register(Family{
		Name: "printf-width", Prop: "C20",
		Rule: "printf %s %f %v with widths 0..4000, 65535, 65536, 65537, 65538, 1e5, 1e8, negative and with a leading zero; malformed and 20-digit widths; oracle: exact padded output up to the limit, runtime error with prior output kept beyond it",
		Gen:  c20Width,
	})
	register(Family{
		Name: "fresh-array-index", Prop: "C20",
		Rule: "the first indexed assignment (=, +=, -=, *=, ++, --) to something that is NOT an array yet -- an unset variable, its element, a missing member chain (a.b[0][N]), a missing member of an object / below an existing member / past the end of an array, the index in the middle of the chain (u[N].k, u[N][0]), $.new[N] and $.x.deeper[0][N] in a rule, an unset parameter, the binding of a missing member -- at 43 magnitudes beyond the fill limit (2^20+1, 2^20+2, 2^21, 10^7 .. 10^12, 2^31, 2^32 and neighbours, 2^40, 2^45, 2^47-1, 2^48, 2^53 and neighbours, 10^15 .. 10^18, 2^62, 2^63 and neighbours, 2^64 and neighbours, 10^19, 10^20, 2^70, 10^30, 10^300), negated, with a fraction, through a variable, as num(\"1e300\") / inf / nan, computed; small, negative-fraction and random indices below the limit and 2^20 itself; oracle: the array gets length index+1 when 0 <= trunc(index) <= 2^20, else a runtime error with the prior output kept (never a panic / out of memory: the clean implementation allocates nothing for a refused index)",
		Gen:  c20FreshArray,
	})
	register(Family{
		Name: "printf-width-digits", Prop: "C20",
		Rule: "printf %s %f %v with width texts of 19-25 (random: up to 65) digits: 2^64*m +- k and 2^63 +- k for k in 0..65536 sampled (m up to 542101: 25 digits), 2^32*m +- k, 2^31+k, 2^16*m+k, all nines, 10^d+5, the seeded witnesses, negative, with leading zeros, small values and 65536 / 65537 written with 19-25 digits (leading zeros: these pad), random digit strings; oracle: the exact integer value of the digits decides -- beyond +-65536 a runtime error with no output of the printf and the prior output kept, else the exact padded output",
		Gen:  c20WidthDigits,
	})
	register(Family{
		Name: "json-nesting", Prop: "C20",
		Rule: "input nested 10 000 / 10 001 deep (thorough: 9 999 .. 100 000; arrays, objects, mixed), alone, as the second value of a stream and in a second file; a BEGINFILE rule walks down and prints the depth; oracle: works up to 10 000, json error beyond with the prior output kept",
		Gen:  c20JSON,
	})
	register(Family{
		Name: "binary-deep-recursion", Prop: "C20",
		Rule: "the real binary (cli request, model compared on exit/out/err): 6 recursion shapes (count-down sum in BEGIN, in a rule body through a variable, mutual in END, through a match expression, inside a condition and a print list, a literal around every call) x depths 1000 / 2000 / 4000 / 4095 / 4096 frames (4098: refused) x 1 / 4 / 8 / 16 nested expressions around every recursive call (additions, array literal + index, object literal + member, negations, multiplications, a mix; thorough: also a call per level) -- nesting x depth <= 70 000, far below finding K1's threshold -- must print the exact value with exit 0 and an empty stderr; the same shapes without a base case (nesting 0 / 1 / 4 / 8 / 16) must keep the prior output and exit with status 1 and a runtime-error report; stderr never holds a Go runtime report (goroutine, fatal error, panic). quick: two shape/kind combinations per depth x nesting in rotation, thorough: all kinds",
		Gen:  c20BinaryDeep,
	})
	register(Family{
		Name: "fuzz-loop-limit", Prop: "C20",
		Rule: "runs in fuzzing mode (request flag z; implementation only, the model has no such mode): 6 loop forms (while, for, for / while with a true condition left by break, while with a call as condition, for with an idle post expression) x 20 ways in which a round ends (falling through; continue: plain, before dead code, inside if / if block / else / blocks in blocks, every other round, all but every 97th round, from a match block, from nested match blocks; the break of an inner for / while / for-in loop, also from a match body; an inner loop that continues; a call that returns out of a loop) x 5 places (BEGIN, function, rule body, END, match body) x round counts 10 001 / 10 002 (thorough: 1 .. 100 000): up to 10 001 rounds the run completes with the exact output, from 10 002 rounds on it ends with the runtime error 'fuzz test loop limit' reported on the loop's line with the prior output kept; the stopped programs also as ordinary runs (complete; compared with the model); 6 nests (for / while / for-in / records / calls around an inner loop of 10 001 or 10 002 rounds: the limit is per execution of one loop statement); for-in over 12 000 elements completes",
		Gen:  c20FuzzLoops,
	})
	register(Family{
		Name: "limits-after-fuzzing-run", Prop: "C20",
		Rule: "in-process histories (request kind seq) mixing runs in fuzzing mode (10 kinds: trivial, stopped by the loop limit, by the call depth limit, 1000 deep, rules with loops, syntax / runtime / JSON errors, the loop limit hit 300 frames deep) with ordinary probe runs in the orders F P, P F P, F F F P, F P F P, Q F P, F Q P, F P F P F P and P F (the loop-free probe itself in fuzzing mode); probes: the 8 recursion shapes with the deepest point at 257 / 258 / 300 / 512 / 1000 / 1025 / 2048 / 3000 / 4095 / 4096 / 4097 frames, recursion from records, loops of 10 002 .. 15 000 rounds (not limited in an ordinary run), array fill at 2^20 and 2^20+1, printf width 65536 / 65537, input nested 10 000 / 10 001 deep; the answer to the last run is compared with the model's answer for the probe, with the closed-form outcome, with the same probe after the other histories (group) and with a fresh process",
		Gen:  c20AfterFuzzing,
	})
}
