module verifharness

go 1.22.0

require github.com/alligator/jqawk v0.0.0

replace github.com/alligator/jqawk => /repo
