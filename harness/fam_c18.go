package main

// C18 — printf emits exactly the format, each directive replaced and padded to
// its width; on any error nothing of that printf is written, however much the
// directives before the fault rendered (printf-atomic-after-output).
// printf-directive-bytes: only the bytes s f v % end a directive -- every other byte value, multi-byte
// characters and invalid UTF-8 after the % (and after a width) are the runtime error.
// printf-interleaving: the text goes out there and then, in order with every other writer (print,
// bare print, functions that print), also when it does not end a line.

import (
	"fmt"
	"math"
	"math/rand"
	"strconv"
	"strings"
)

// an argument of the printf call
type c18Arg struct {
	expr   string // jqawk text
	kind   byte   // s string, n number, o other (for %v)
	render string // what %v / %s / %f show
	known  bool   // render is known to the reference
	bad    bool   // evaluating the argument list fails (a function value cannot be passed)
}

func c18Num(expr string, f float64) c18Arg {
	return c18Arg{expr: expr, kind: 'n', render: strconv.FormatFloat(f, 'f', -1, 64), known: true}
}
func c18Str(s string) c18Arg { return c18Arg{expr: mustStrLit(s), kind: 's', render: s, known: true} }

func c18ArgPool() []c18Arg {
	return []c18Arg{
		c18Str(""), c18Str("a"), c18Str("abc"), c18Str("hello world"), c18Str("é"), c18Str("日本"), c18Str("%s"), c18Str("%"), c18Str("10"), c18Str(" x "), c18Str("tab\there"), c18Str("nl\nx"),
		c18Num("0", 0), c18Num("1", 1), c18Num("42", 42), c18Num("(-7)", -7), c18Num("2.5", 2.5), c18Num("0.1", 0.1), c18Num("123456789", 123456789), c18Num("(-0)", math.Copysign(0, -1)),
		c18Num("num('1e21')", 1e21), c18Num("num('5e-324')", 5e-324), c18Num("num('nan')", math.NaN()), c18Num("num('inf')", math.Inf(1)), c18Num("(1 / 3)", 1.0/3.0), c18Num("(2 * 3.5)", 7),
		{expr: "true", kind: 'o', render: "true", known: true}, {expr: "false", kind: 'o', render: "false", known: true}, {expr: "null", kind: 'o', render: "null", known: true},
		{expr: "un", kind: 'o', render: "<unknown>", known: true},
		{expr: "[1, 'a']", kind: 'o', render: `[1, "a"]`, known: true}, {expr: "[]", kind: 'o', render: "[]", known: true},
		{expr: "{k: 1}", kind: 'o', render: `{"k": 1}`, known: true}, {expr: "{}", kind: 'o', render: "{}", known: true},
		{expr: "[[1, [2]], {b: 'x', a: null}]", kind: 'o', render: `[[1, [2]], {"a": null, "b": "x"}]`, known: true},
		{expr: "/re/", kind: 'o', render: "<regex>", known: true},
		{expr: "f", kind: 'o', bad: true}, {expr: "printf", kind: 'o', bad: true}, {expr: "'s'.length", kind: 'o', bad: true},
	}
}

// c18Ref is the reference formatter, written from the property: ok=false means
// "runtime error, nothing written"; known=false means that a rendering the
// reference cannot compute was needed (then only the model is consulted).
func c18Ref(format string, args []c18Arg) (out string, ok bool, known bool) {
	const limit = 65536
	known = true
	var sb strings.Builder
	ai := 0
	for i := 0; i < len(format); i++ {
		if format[i] != '%' {
			sb.WriteByte(format[i])
			continue
		}
		i++
		if i >= len(format) {
			return "", false, true // dangling %
		}
		width, zero := 0, false
		if format[i] == '-' || (format[i] >= '0' && format[i] <= '9') {
			j := i + 1
			for j < len(format) && format[j] >= '0' && format[j] <= '9' {
				j++
			}
			spec := format[i:j]
			digits := strings.TrimPrefix(spec, "-")
			if digits == "" {
				return "", false, true // "-" without digits
			}
			digits = strings.TrimLeft(digits, "0")
			if len(digits) > 6 {
				return "", false, true // far beyond the limit (or not even a 64-bit integer)
			}
			w := 0
			for _, d := range digits {
				w = w*10 + int(d-'0')
			}
			if w > limit {
				return "", false, true
			}
			width = w
			if spec[0] == '-' {
				width = -w
			}
			zero = spec[0] == '0'
			i = j
			if i >= len(format) {
				return "", false, true // dangling width
			}
		}
		var rendering string
		switch format[i] {
		case '%':
			sb.WriteByte('%')
			continue
		case 's', 'f', 'v':
			if ai >= len(args) {
				return "", false, true // missing argument
			}
			a := args[ai]
			ai++
			if format[i] == 's' && a.kind != 's' {
				return "", false, true
			}
			if format[i] == 'f' && a.kind != 'n' {
				return "", false, true
			}
			if !a.known {
				known = false
			}
			rendering = a.render
		default:
			return "", false, true // unknown directive
		}
		pad := " "
		if zero {
			pad = "0"
		}
		if width > 0 && len(rendering) < width {
			rendering = strings.Repeat(pad, width-len(rendering)) + rendering
		} else if width < 0 && len(rendering) < -width {
			rendering = rendering + strings.Repeat(pad, -width-len(rendering))
		}
		sb.WriteString(rendering)
	}
	return sb.String(), true, known
}

// ---------------------------------------------------------------- the grammar of formats

type c18Piece struct {
	text string
	dir  byte // 0 literal, else the directive letter that consumes an argument (s f v), '%' for %%, '!' for something that must fail
}

func c18Width(r *rand.Rand, renderLen int) string {
	w := 0
	switch r.Intn(10) {
	case 0:
		return ""
	case 1, 2:
		w = renderLen - 1
	case 3, 4:
		w = renderLen
	case 5, 6:
		w = renderLen + 1
	case 7:
		w = renderLen + 1 + r.Intn(8)
	case 8:
		w = r.Intn(4)
	default:
		w = 1 + r.Intn(12)
	}
	if w < 0 {
		w = 0
	}
	s := strconv.Itoa(w)
	switch r.Intn(8) {
	case 0, 1:
		s = "-" + s
	case 2:
		s = "0" + s
	case 3:
		s = "-0" + s
	case 4:
		s = "000" + s
	}
	return s
}

var c18Literals = []string{"", "a", "abc ", "x=", " | ", ", ", "é", "日本", "\n", "\t", "tab\there", "50", "-", "s", "f", "v", "\\", "(", "<>&", "'", " "}
var c18BadDirectives = []string{"%d", "%x", "%5q", "%S", "%F", "%-s", "%--5s", "%-", "%99999999999999999999s", "%-99999999999999999999f", "%9223372036854775807s", "%65537s", "%-65537v", "%100000f",
	"%é", "%5 s", "%.2f", "%+5s", "%5.1f", "% s", "%*s", "%#v", "%5-3s", "%l", "%\n", "%05d", "%-05x"}

// c18Format builds a format and a matching argument list; mismatch: 0 exact, 1 too few, 2 too many, 3 wrong kinds
func c18Format(r *rand.Rand, pool []c18Arg, illFormed bool) (string, []c18Arg) {
	var sb strings.Builder
	var args []c18Arg
	n := 1 + r.Intn(6)
	strs, nums := []c18Arg{}, []c18Arg{}
	for _, a := range pool {
		if a.kind == 's' {
			strs = append(strs, a)
		} else if a.kind == 'n' {
			nums = append(nums, a)
		}
	}
	for k := 0; k < n; k++ {
		switch x := r.Float64(); {
		case x < 0.30:
			sb.WriteString(pick(r, c18Literals))
		case x < 0.38:
			sb.WriteString("%%")
		case x < 0.40:
			sb.WriteString("%" + c18Width(r, 1) + "%")
		case x < 0.58:
			a := pick(r, strs)
			sb.WriteString("%" + c18Width(r, len(a.render)) + "s")
			args = append(args, a)
		case x < 0.74:
			a := pick(r, nums)
			sb.WriteString("%" + c18Width(r, len(a.render)) + "f")
			args = append(args, a)
		case x < 0.94 || !illFormed:
			a := pick(r, pool)
			if a.bad && !illFormed {
				a = pick(r, strs)
			}
			sb.WriteString("%" + c18Width(r, len(a.render)) + "v")
			args = append(args, a)
		default:
			sb.WriteString(pick(r, c18BadDirectives))
		}
	}
	if illFormed {
		switch r.Intn(8) {
		case 0:
			sb.WriteString("%")
		case 1:
			sb.WriteString("%5")
		case 2:
			sb.WriteString("%-12")
		case 3:
			sb.WriteString(pick(r, c18BadDirectives))
		case 4:
			if len(args) > 0 {
				args = args[:r.Intn(len(args))] // too few
			}
		case 5:
			if len(args) > 0 {
				args[r.Intn(len(args))] = pick(r, pool) // probably the wrong kind
			}
		case 6:
			return pick(r, c18BadDirectives) + sb.String(), args
		default:
			if len(args) > 0 {
				i := r.Intn(len(args))
				args = append(args[:i], args[i+1:]...)
			}
		}
	} else if chance(r, 0.2) {
		for k := 1 + r.Intn(2); k > 0; k-- {
			args = append(args, pick(r, pool)) // surplus arguments are ignored
		}
	}
	return sb.String(), args
}

func c18Program(format string, args []c18Arg, viaDoc bool) (prog string, files []File) {
	var fexpr string
	if viaDoc || strings.ContainsRune(format, '"') && strings.ContainsRune(format, '\'') {
		fexpr = "$.f"
		files = []File{{Name: "in.json", Data: []byte(`{"f": ` + jsonString(format) + `}`)}}
	} else {
		fexpr = mustStrLit(format)
		files = []File{{Name: "in.json", Data: []byte(`{}`)}}
	}
	parts := []string{fexpr}
	for _, a := range args {
		parts = append(parts, a.expr)
	}
	prog = "function f() { return 1 }\n{\n  print 'B'\n  printf(" + strings.Join(parts, ", ") + ")\n  print 'E'\n}\n"
	return
}

func c18Oracle(format string, args []c18Arg) func(Resp) string {
	bad := false
	for _, a := range args {
		if a.bad {
			bad = true
		}
	}
	want, ok, known := c18Ref(format, args)
	if bad {
		ok, known = false, true // the argument list cannot even be evaluated
	}
	return func(i Resp) string {
		got := string(i.Bytes("out"))
		if i["class"] != "ok" && i["class"] != "runtime" {
			return "class " + i["class"]
		}
		if !strings.HasPrefix(got, "B\n") {
			return "the marker printed before the printf is missing"
		}
		if i["class"] == "runtime" && got != "B\n" {
			return fmt.Sprintf("printf failed but wrote %q", got[2:])
		}
		if !known {
			return ""
		}
		if !ok {
			if i["class"] != "runtime" {
				return fmt.Sprintf("reference formatter: this printf must be a runtime error, got class %s output %q", i["class"], got)
			}
			return ""
		}
		if i["class"] != "ok" {
			return fmt.Sprintf("reference formatter: must succeed and write %q, got a runtime error (%s)", want, i["msg"])
		}
		if got != "B\n"+want+"E\n" {
			return fmt.Sprintf("printf wrote %q, reference formatter says %q", strings.TrimSuffix(got[2:], "E\n"), want)
		}
		return ""
	}
}

func c18Emit(emit func(Case), format string, args []c18Arg, viaDoc bool) {
	prog, files := c18Program(format, args, viaDoc)
	emit(Case{Req: RunReq(prog, nil, files, false), Fields: []string{"class", "out"},
		Meta:   metaProg(prog, "format", format, "input", string(files[0].Data)),
		Oracle: c18Oracle(format, args), NonTrivial: func(i Resp) bool { return i["class"] == "ok" || i["class"] == "runtime" }})
}

// ---------------------------------------------------------------- a fault after a lot of output

// c18Big builds a format (as a jqawk expression that may concatenate generated
// runs, and as the string it evaluates to) together with its arguments.
type c18Big struct {
	fexpr  []string // summands of the format expression
	lit    strings.Builder
	format strings.Builder
	args   []c18Arg
}

const c18Rep = "function rep(s, n) { acc = ''\n while (n >= 1) { if (n % 2 == 1) { acc = acc + s }\n s = s + s\n n = (n - n % 2) / 2 }\n return acc }\n"

func (b *c18Big) flush() {
	if b.lit.Len() > 0 {
		b.fexpr = append(b.fexpr, mustStrLit(b.lit.String()))
		b.lit.Reset()
	}
}

// text adds literal format text (no quotes in it)
func (b *c18Big) text(t string) {
	b.lit.WriteString(t)
	b.format.WriteString(t)
}

// run adds n copies of a literal character, generated at run time when long
func (b *c18Big) run(c string, n int) {
	if n <= 60 {
		b.text(strings.Repeat(c, n))
		return
	}
	b.flush()
	b.fexpr = append(b.fexpr, fmt.Sprintf("rep('%s', %d)", c, n))
	b.format.WriteString(strings.Repeat(c, n))
}

func (b *c18Big) dir(spec string, a c18Arg) {
	b.text("%" + spec)
	b.args = append(b.args, a)
}

func (b *c18Big) expr() string {
	b.flush()
	if len(b.fexpr) == 0 {
		return "''"
	}
	return strings.Join(b.fexpr, " + ")
}

// a long string argument, generated at run time
func c18Long(c string, n int) c18Arg {
	if n <= 40 {
		return c18Str(strings.Repeat(c, n))
	}
	return c18Arg{expr: fmt.Sprintf("rep('%s', %d)", c, n), kind: 's', render: strings.Repeat(c, n), known: true}
}

// c18Fill adds directives and text that render to exactly n bytes, in one of five styles
func c18Fill(r *rand.Rand, b *c18Big, n int, style int) {
	verbArg := func() (string, c18Arg) {
		switch r.Intn(4) {
		case 0:
			return "f", c18Num("42", 42)
		case 1:
			return "v", c18Arg{expr: "[1]", kind: 'o', render: "[1]", known: true}
		case 2:
			return "v", c18Str("q")
		}
		return "s", c18Str("ab")
	}
	wide := func(w int) { // one directive of rendered length w (w >= 3)
		v, a := verbArg()
		b.dir(pick(r, []string{"", "-", "0"})+strconv.Itoa(w)+v, a)
	}
	switch style {
	case 0: // as few directives as possible: widths up to the legal maximum
		for n > 0 {
			w := n
			if w > 65536 {
				w = 65536
				if n-w < 3 {
					w -= 3
				}
			}
			if w < 3 {
				b.text(strings.Repeat(".", w))
			} else {
				wide(w)
			}
			n -= w
		}
	case 1: // many directives of moderate width
		step := 1 + n/(20+r.Intn(200))
		if step < 3 {
			step = 3
		}
		for n > 0 {
			w := step
			if w > n || n-w < 3 {
				w = n
			}
			if w < 3 {
				b.text(strings.Repeat(".", w))
			} else if w > 65536 {
				wide(65536)
				w = 65536
			} else {
				wide(w)
			}
			n -= w
		}
	case 2: // long arguments, no widths
		for n > 0 {
			w := n
			if n > 3 && chance(r, 0.5) {
				w = 1 + r.Intn(n)
			}
			if chance(r, 0.5) {
				b.dir("s", c18Long("x", w))
			} else {
				b.dir("v", c18Long("y", w))
			}
			n -= w
		}
	case 3: // literal text of the format
		for n > 0 {
			w := n
			if n > 3 && chance(r, 0.5) {
				w = 1 + r.Intn(n)
			}
			b.run(pick(r, []string{"z", ".", " "}), w)
			n -= w
			if n > 0 && chance(r, 0.5) {
				// a %% in the middle renders one byte
				b.text("%%")
				n--
			}
		}
	default: // a mix
		for n > 0 {
			w := n
			if n > 6 {
				w = 3 + r.Intn(n-5)
			}
			if w < 3 {
				b.text(strings.Repeat("-", w))
			} else {
				sub := &c18Big{}
				c18Fill(r, sub, w, r.Intn(4))
				b.flush()
				b.fexpr = append(b.fexpr, sub.expr())
				b.format.WriteString(sub.format.String())
				b.args = append(b.args, sub.args...)
			}
			n -= w
		}
	}
}

type c18Fault struct {
	kind string
	text string
	args []c18Arg
}

func c18Faults() []c18Fault {
	n42, sx := c18Num("42", 42), c18Str("x")
	arr := c18Arg{expr: "[1]", kind: 'o', render: "[1]", known: true}
	return []c18Fault{
		{"unknown verb", "%d", []c18Arg{n42}}, {"unknown verb", "%5q", []c18Arg{sx}}, {"unknown verb", "%x", nil}, {"unknown verb", "%-08S", []c18Arg{sx}},
		{"missing argument", "%s", nil}, {"missing argument", "%f", nil}, {"missing argument", "%v", nil}, {"missing argument", "%-10v", nil},
		{"bad width", "%-s", []c18Arg{sx}}, {"bad width", "%--5s", []c18Arg{sx}}, {"bad width", "%5-3s", []c18Arg{sx}},
		{"dangling", "%", nil}, {"dangling", "%5", []c18Arg{sx}}, {"dangling", "%-12", []c18Arg{sx}}, {"dangling", "%-", nil},
		{"too large width", "%65537s", []c18Arg{sx}}, {"too large width", "%-65537v", []c18Arg{arr}}, {"too large width", "%0100000f", []c18Arg{n42}},
		{"too large width", "%99999999999999999999s", []c18Arg{sx}},
		{"wrong kind", "%s", []c18Arg{n42}}, {"wrong kind", "%f", []c18Arg{sx}}, {"wrong kind", "%8f", []c18Arg{arr}}, {"wrong kind", "%-3s", []c18Arg{arr}},
		{"function value argument", "%v", []c18Arg{{expr: "f", kind: 'o', bad: true}}},
	}
}

// c18EmitBig: output before the call (a print and an earlier printf) must stay,
// and a failing call adds nothing however much the directives before the fault rendered
//
// The model appends the literal bytes of a format one at a time, each time copying what the call has
// rendered so far (9 000 literal bytes after 250 000 rendered ones: 8 s; 256 KiB of literal text: minutes).
// c18ModelCost estimates that work; calls above the budget are compared with the model only when
// sampled and not far above it, the reference formatter decides the others alone.
func c18ModelCost(format string, args []c18Arg) float64 {
	cost, out, ai := 0.0, 0, 0
	for i := 0; i < len(format); i++ {
		if format[i] != '%' {
			cost += float64(out)
			out++
			continue
		}
		i++
		j := i
		for j < len(format) && (format[j] == '-' || (format[j] >= '0' && format[j] <= '9')) {
			j++
		}
		w, _ := strconv.Atoi(strings.TrimLeft(format[i:j], "-0"))
		i = j
		if i >= len(format) || w > 65536 {
			break
		}
		switch format[i] {
		case '%':
			out++
		case 's', 'f', 'v':
			if ai >= len(args) {
				return cost
			}
			n := len(args[ai].render)
			ai++
			if n < w {
				n = w
			}
			out += n
		default:
			return cost
		}
	}
	return cost
}

func c18EmitBig(emit func(Case), b *c18Big, rendered int, fault string, style int, sampled bool) {
	format := b.format.String()
	parts := []string{b.expr()}
	bad := false
	for _, a := range b.args {
		parts = append(parts, a.expr)
		if a.bad {
			bad = true
		}
	}
	prog := "function f() { return 1 }\n" + c18Rep + "BEGIN {\n  print 'B'\n  printf('%5s|', 'pre')\n  printf(" + strings.Join(parts, ", ") + ")\n  print 'E'\n}\n"
	want, ok, _ := c18Ref(format, b.args)
	if bad {
		ok = false
	}
	const before = "B\n  pre|"
	short := func(s string) string {
		if len(s) > 80 {
			return fmt.Sprintf("%q… (%d bytes) …%q", s[:30], len(s), s[len(s)-30:])
		}
		return fmt.Sprintf("%q", s)
	}
	col := "ok"
	if fault != "" {
		col = fault
	}
	meta := metaProg(prog, "rendered before the fault", fmt.Sprint(rendered), "fault", fault, "row", fmt.Sprintf("%7d bytes before", rendered), "col", col, "style", fmt.Sprint(style))
	if len(prog) > 3000 {
		meta["program"] = prog[:1500] + " … " + prog[len(prog)-300:]
	}
	cost := c18ModelCost(format, b.args)
	implOnly := cost > 1.5e8 && !(sampled && cost <= 6e8)
	meta["model cost"] = fmt.Sprintf("%.3g", cost)
	emit(Case{Req: RunReq(prog, nil, nil, false), Fields: []string{"class", "out"}, Meta: meta, ImplOnly: implOnly,
		Oracle: func(i Resp) string {
			got := string(i.Bytes("out"))
			if !strings.HasPrefix(got, before) {
				return "the output written before the printf call is missing: " + short(got)
			}
			if !ok {
				if i["class"] != "runtime" {
					return "reference formatter: this printf must be a runtime error, got class " + i["class"]
				}
				if got != before {
					return fmt.Sprintf("printf failed but wrote %d bytes: %s (the directives before the fault render to %d bytes)", len(got)-len(before), short(got[len(before):]), rendered)
				}
				return ""
			}
			if i["class"] != "ok" {
				return "reference formatter: must succeed, got " + i["class"] + " " + i["msg"]
			}
			if got != before+want+"E\n" {
				return fmt.Sprintf("printf wrote %s, reference formatter says %s", short(strings.TrimPrefix(got, before)), short(want+"E\n"))
			}
			return ""
		}, NonTrivial: func(i Resp) bool { return i["class"] == "ok" || i["class"] == "runtime" }})
}

func c18AtomicAfterOutput(r *rand.Rand, tier string, emit func(Case)) {
	sizes := []int{0, 1, 7, 100, 4096, 32767, 32768, 32769, 40000, 65536, 65537, 100000, 200000, 500000}
	if tier == "thorough" {
		sizes = append(sizes, 3, 1000, 16384, 32700, 32771, 65535, 98304, 131072, 131073, 300000, 1000000)
	}
	faults := c18Faults()
	for _, n := range sizes {
		for style := 0; style < 5; style++ {
			// control: the same amount of output without a fault is written in full
			ctl := &c18Big{}
			c18Fill(r, ctl, n, style)
			if chance(r, 0.5) {
				ctl.text("|%s\n")
				ctl.args = append(ctl.args, c18Str("end"))
			}
			c18EmitBig(emit, ctl, n, "", style, true)
			for fi, f := range faults {
				if tier != "thorough" && n >= 200000 && (fi+style+n/100000)%4 != 0 {
					continue // the largest ones: a quarter of the faults per style
				}
				b := &c18Big{}
				c18Fill(r, b, n, style)
				b.text(f.text)
				b.args = append(b.args, f.args...)
				after := r.Intn(3)
				if f.kind == "missing argument" {
					after = 2 // arguments for later directives would be taken by the faulty one
				}
				switch after {
				case 0: // more directives after the fault: never reached
					b.text("|%s|%10f")
					b.args = append(b.args, c18Str("tail"), c18Num("2.5", 2.5))
				case 1:
					if !strings.HasSuffix(f.text, "%") && !strings.HasSuffix(f.text, "5") && !strings.HasSuffix(f.text, "12") && !strings.HasSuffix(f.text, "-") {
						c18Fill(r, b, pick(r, []int{1, 50, 40000}), r.Intn(4))
					}
				}
				c18EmitBig(emit, b, n, f.kind, style, fi%8 == style)
			}
		}
	}
}

func init() {
	register(Family{
		Name: "printf-grammar", Prop: "C18",
		Rule: "format strings from a grammar (literal runs incl. non-ASCII, newline, tab; %s %f %v %% with widths of either sign, with/without leading zeros, around the rendering length) with matching argument lists (strings, numbers incl. -0 NaN Inf 1e21 5e-324, and for %v every kind), sometimes surplus arguments, format as a literal or from the document; oracle: a reference formatter written from the property (output equal; markers before and after); non-trivial = distinct call that formats something",
		Gen: func(r *rand.Rand, tier string, emit func(Case)) {
			pool := c18ArgPool()
			n := tierN(tier, 6000, 80000)
			for i := 0; i < n; i++ {
				format, args := c18Format(r, pool, false)
				c18Emit(emit, format, args, chance(r, 0.15))
			}
		},
	})
	register(Family{
		Name: "printf-illformed", Prop: "C18",
		Rule: "the same grammar with one defect: trailing %, dangling width, unknown or unparsable directive (%d %x %5q %-s %--5s huge widths), too few arguments, an argument of the wrong kind (number for %s, string for %f, anything), a function value as argument; plus enumerated: every directive x every argument kind, widths at the limit 65536 +-1 with either sign, printf without a string format; oracle: reference formatter says error => runtime error and nothing of the format written (before-marker only)",
		Gen: func(r *rand.Rand, tier string, emit func(Case)) {
			pool := c18ArgPool()
			n := tierN(tier, 3000, 20000)
			for i := 0; i < n; i++ {
				format, args := c18Format(r, pool, true)
				c18Emit(emit, format, args, chance(r, 0.15))
			}
			// every directive x every argument kind x a few widths
			for _, d := range []string{"s", "f", "v", "d", "%"} {
				for _, w := range []string{"", "5", "-5", "05", "-05", "0", "00005", "1", "-1", "-0", "-", "--5"} {
					for _, a := range pool {
						c18Emit(emit, "<%"+w+d+">", []c18Arg{a}, false)
					}
					c18Emit(emit, "<%"+w+d+">", nil, false)
				}
			}
			// the width limit
			for _, w := range []int{65535, 65536, 65537, 70000, 655360} {
				for _, sign := range []string{"", "-", "0", "-0"} {
					for _, d := range []string{"s", "f", "v"} {
						a := c18Str("ab")
						if d == "f" {
							a = c18Num("42", 42)
						}
						c18Emit(emit, "[%"+sign+strconv.Itoa(w)+d+"]", []c18Arg{a}, false)
					}
				}
			}
			// a first argument that is not a string, or none
			for _, a := range pool {
				if a.kind == 's' {
					continue
				}
				prog := "function f() { return 1 }\n{\n  print 'B'\n  printf(" + a.expr + ", 'x')\n  print 'E'\n}\n"
				emit(Case{Req: RunReq(prog, nil, []File{{Name: "in.json", Data: []byte("{}")}}, false), Fields: []string{"class", "out"}, Meta: metaProg(prog),
					Oracle: func(i Resp) string {
						if i["class"] != "runtime" || string(i.Bytes("out")) != "B\n" {
							return "printf with a non-string format must be a runtime error writing nothing"
						}
						return ""
					}, NonTrivial: func(i Resp) bool { return i["class"] == "runtime" }})
			}
			prog := "{\n  print 'B'\n  printf()\n  print 'E'\n}\n"
			emit(Case{Req: RunReq(prog, nil, []File{{Name: "in.json", Data: []byte("{}")}}, false), Fields: []string{"class", "out"}, Meta: metaProg(prog),
				Oracle: func(i Resp) string {
					if i["class"] != "runtime" || string(i.Bytes("out")) != "B\n" {
						return "printf() must be a runtime error"
					}
					return ""
				}})
		},
	})
	register(Family{
		Name: "printf-atomic-after-output", Prop: "C18",
		Rule: "one printf call whose directives BEFORE a fault render to 0, 1, 7, 100, 4 096, 32 767, 32 768, 32 769, 40 000, 65 536, 65 537, 100 000, 200 000, 500 000 bytes (thorough: 11 more sizes up to 1 000 000), built in 5 styles (few directives with widths up to the legal 65 536; many directives of moderate width; long arguments generated at run time; long literal text of the format incl. %%; a mix) x 24 faults of 7 kinds placed after them (unknown verb, missing argument, bad width, dangling % / width, too large width, wrong argument kind, a function value among the arguments), sometimes with further directives or more bulk after the fault; a print and a successful printf stand before the call; plus per size and style the same call without a fault; oracle: a failing call is a runtime error and stdout holds exactly the earlier output, a faultless call writes exactly what the reference formatter says",
		Gen:  c18AtomicAfterOutput,
	})
	register(Family{
		Name: "printf-sequences", Prop: "C18",
		Rule: "2-5 printf calls in a row (no separators, no newline added), arguments from variables and document fields, formats built by concatenation, a failing call in the middle (output of the earlier calls stays, nothing of the failing one); oracle: concatenation of the reference formatter's outputs",
		Gen: func(r *rand.Rand, tier string, emit func(Case)) {
			pool := c18ArgPool()
			n := tierN(tier, 1500, 20000)
			for i := 0; i < n; i++ {
				k := 2 + r.Intn(4)
				var body strings.Builder
				want, failed, known := "", false, true
				for j := 0; j < k; j++ {
					format, args := c18Format(r, pool, chance(r, 0.12))
					if strings.ContainsRune(format, '"') && strings.ContainsRune(format, '\'') {
						format = "q%%"
						args = nil
					}
					parts := []string{mustStrLit(format)}
					if len(format) > 2 && chance(r, 0.3) {
						cut := 1 + r.Intn(len(format)-1)
						parts[0] = mustStrLit(format[:cut]) + " + " + mustStrLit(format[cut:]) // a directive split across a concatenation
					}
					for ai, a := range args {
						if chance(r, 0.3) && !a.bad && a.expr != "un" {
							v := fmt.Sprintf("v%d_%d", j, ai)
							body.WriteString("  " + v + " = " + a.expr + "\n")
							parts = append(parts, v)
						} else {
							parts = append(parts, a.expr)
						}
					}
					body.WriteString("  printf(" + strings.Join(parts, ", ") + ")\n")
					if !failed {
						o, ok, kn := c18Ref(format, args)
						for _, a := range args {
							if a.bad {
								ok, kn = false, true
							}
						}
						if !kn {
							known = false
						}
						if !ok {
							failed = true
						} else {
							want += o
						}
					}
				}
				prog := "function f() { return 1 }\n{\n" + body.String() + "  print 'E'\n}\n"
				wantAll, wantClass := want+"E\n", "ok"
				if failed {
					wantAll, wantClass = want, "runtime"
				}
				emit(Case{Req: RunReq(prog, nil, []File{{Name: "in.json", Data: []byte("{}")}}, false), Fields: []string{"class", "out"}, Meta: metaProg(prog),
					Oracle: func(i Resp) string {
						if !known {
							return ""
						}
						if i["class"] != wantClass {
							return fmt.Sprintf("reference formatter: class %s expected, got %s", wantClass, i["class"])
						}
						if got := string(i.Bytes("out")); got != wantAll {
							return fmt.Sprintf("printf sequence wrote %q, reference formatter says %q", got, wantAll)
						}
						return ""
					}, NonTrivial: func(i Resp) bool { return i["class"] == "ok" || i["class"] == "runtime" }})
			}
		},
	})
}

// ---------------------------------------------------------------- directive bytes

// c18ByteArgs: argument lists that would satisfy a directive byte mistaken for s, f or v
func c18ByteArgs() [][]c18Arg {
	arr := c18Arg{expr: "[1]", kind: 'o', render: "[1]", known: true}
	return [][]c18Arg{{c18Num("3", 3)}, {c18Str("ab")}, {arr}, nil, {c18Str("ab"), c18Num("3", 3)}}
}

// c18DirectiveBytes: the byte that ends a directive is one of s f v % and nothing else -- not a
// byte that merely looks like one of them under some mapping (the low seven bits, the lower-case
// form, the first byte of a multi-byte character, a control byte). Formats carry raw bytes
// (program texts travel as hex), so every byte value stands directly after the % and after a
// width of every form.
func c18DirectiveBytes(r *rand.Rand, tier string, emit func(Case)) {
	argLists := c18ByteArgs()
	widths := []string{"", "6", "-6", "06", "-06", "1", "0", "00", "12"}
	e := func(format string, args []c18Arg, row, col string) {
		if strings.ContainsRune(format, '"') && strings.ContainsRune(format, '\'') {
			return
		}
		prog, files := c18Program(format, args, false)
		emit(Case{Req: RunReq(prog, nil, files, false), Fields: []string{"class", "out"},
			Meta:   metaProg(prog, "format", fmt.Sprintf("%q", format), "row", row, "col", col),
			Oracle: c18Oracle(format, args), NonTrivial: func(i Resp) bool { return i["class"] == "ok" || i["class"] == "runtime" }})
	}
	// every byte value as the directive byte x every width form x argument lists (quick: two of the five lists in rotation)
	k := r.Intn(5)
	for b := 0; b < 256; b++ {
		row := "ascii"
		switch {
		case b >= 0x80:
			row = fmt.Sprintf("high %x0-%xf", b>>4, b>>4)
		case b < 0x20 || b == 0x7f:
			row = "control"
		}
		for _, w := range widths {
			for ai, args := range argLists {
				if tier != "thorough" && b < 0x80 && (ai+k)%5 > 1 {
					continue
				}
				e("<%"+w+string([]byte{byte(b)})+">", args, row, "width "+w)
			}
			k++
		}
		// at the very end of the format, and followed by an ordinary directive
		e("<%"+string([]byte{byte(b)}), argLists[b%3], row, "last byte")
		e("%"+string([]byte{byte(b)})+"|%v|", argLists[4], row, "then %v")
	}
	// multi-byte characters (valid UTF-8) as the directive: lead bytes whose low bits look like
	// s f v % (e6 = U+6xxx, f3 = planes 12-15, e5/c5 continuation a5 b3 …), and others
	chars := []string{"水", "怀", "濿", "水", "\U000f3000", "\U000c0000", "\U000fffff", "é", "ų", "¥", "ś", "日", "г", "٥",
		"ｓ", "ｆ", "ｖ", "％", "с", "ſ", "‰", "﹪", "\U0001d42c", "\U0001f600", "\u200b", "\ufeff", "\u0080", "߿", "ࠀ", "￿", "\U00010000", "\U0010ffff"}
	for _, c := range chars {
		for _, w := range widths {
			for _, args := range argLists {
				e("<%"+w+c+">", args, "multi-byte character", "width "+w)
			}
		}
		e("<%"+c, argLists[0], "multi-byte character", "last byte")
		e("<%s%"+c+"%f>", argLists[4], "multi-byte character", "between directives")
	}
	// invalid UTF-8 after the %: truncated and overlong sequences, lone continuation bytes, surrogates
	for _, c := range []string{"\xe6", "\xe6\xb0", "\xf3\xb3", "\xf3\xb3\x80", "\xc0\xa5", "\xc1\xb3", "\xe0\x80\xa5", "\xed\xa0\x80", "\xf4\x90\x80\x80", "\xf6\xf6", "\xa5\xa5", "\xf3s", "\xe6f", "\xf6v", "\xa5%", "\xff", "\xfe\xff"} {
		for _, w := range []string{"", "6", "-06"} {
			for _, args := range argLists {
				e("<%"+w+c+">", args, "invalid UTF-8", "width "+w)
			}
		}
	}
	// digits only / sign only: a width with nothing after it, or with something that is no directive byte
	for _, w := range []string{"0", "5", "05", "-5", "-05", "-", "--", "-0", "00", "123", "65536", "65537", "0000000000000000000005", "9", "-9"} {
		for _, tail := range []string{"", " ", ">", "\n", "\x00", "\xe6", "\xf3", "水", ".", "+", "-", "-s", " s", ".2f", "$s", "ls", "hs"} {
			for _, args := range argLists[:tierN(tier, 3, 5)] {
				e("<%"+w+tail, args, "digits only", "tail "+fmt.Sprintf("%q", tail))
			}
		}
	}
	// random formats over an alphabet rich in such bytes
	alpha := []string{"%", "%", "%", "s", "f", "v", "5", "-", "0", "12", "<", ">", "|", "\xe6", "\xf3", "\xf6", "\xa5", "\xb0\xb4", "\xd3", "\xc6", "\xd6", "\x85", "S", "F", "V", "\x13", "\x06", "\x16", "\x05", "水", "é", " ", "\n", "\x00", "\x7f", "\xff"}
	pool := c18ArgPool()
	n := tierN(tier, 1500, 30000)
	for i := 0; i < n; i++ {
		var sb strings.Builder
		for k := 2 + r.Intn(7); k > 0; k-- {
			sb.WriteString(pick(r, alpha))
		}
		var args []c18Arg
		for k := r.Intn(4); k > 0; k-- {
			a := pick(r, pool)
			if a.bad {
				continue
			}
			args = append(args, a)
		}
		e(sb.String(), args, "random", "")
	}
}

// ---------------------------------------------------------------- order with other writers

type c18Rec struct{ json, render string }

var c18Recs = []c18Rec{{"10", "10"}, {"20", "20"}, {`"x"`, "x"}, {"[1, 2]", "[1, 2]"}, {`{"k": 1}`, `{"k": 1}`}, {"null", "null"}, {"true", "true"}, {`"two words"`, "two words"},
	{"2.5", "2.5"}, {`""`, ""}, {"[]", "[]"}, {`"é"`, "é"}}

// c18Stmt is one statement of the interleaving grammar: its text and what it writes for the
// record with rendering rec at index idx (rec is unused outside rules); stop: "" | next | exit | error
type c18Stmt struct {
	text  string
	out   func(rec string, idx int) string
	rule  bool // needs a current record
	stop  string
	quiet bool // writes nothing that ends in a newline
}

func c18PadTo(s string, w int) string {
	if w > 0 && len(s) < w {
		return strings.Repeat(" ", w-len(s)) + s
	}
	if w < 0 && len(s) < -w {
		return s + strings.Repeat(" ", -w-len(s))
	}
	return s
}

const c18WriterFuncs = "function say(x) { print x }\n" +
	"function sayf(x) { printf('%v;', x) }\n" +
	"function bare() { print }\n" +
	"function both(x) { printf('(%v', x); print ')' }\n" +
	"function deep(x) { printf('{'); both(x); printf('}'); return x }\n" +
	"function long(n) { s = 'ab'\n while (s.length() < n) { s = s + s }\n return s }\n"

func c18Stmts() []c18Stmt {
	k := func(s string) func(string, int) string { return func(string, int) string { return s } }
	long := func(n int) string {
		s := "ab"
		for len(s) < n {
			s += s
		}
		return s
	}
	return []c18Stmt{
		// printf without a trailing newline
		{text: "printf('lit ')", out: k("lit "), quiet: true},
		{text: "printf('a'); printf('b'); printf('c')", out: k("abc"), quiet: true},
		{text: "printf('#%v = ', $index)", out: func(_ string, i int) string { return fmt.Sprintf("#%d = ", i) }, rule: true, quiet: true},
		{text: "printf('%8v|', $)", out: func(rc string, _ int) string { return c18PadTo(rc, 8) + "|" }, rule: true, quiet: true},
		{text: "printf('%-4v|%s', $, 'é')", out: func(rc string, _ int) string { return c18PadTo(rc, -4) + "|é" }, rule: true, quiet: true},
		{text: "printf('%%')", out: k("%"), quiet: true},
		{text: "printf('')", out: k(""), quiet: true},
		{text: "printf('mid\\nline')", out: k("mid\nline"), quiet: true},
		{text: "printf('%v', long(4096))", out: k(long(4096)), quiet: true},
		{text: "printf('%v', long(3000))", out: k(long(3000)), quiet: true},
		{text: "printf('%5000s', 'w')", out: k(c18PadTo("w", 5000)), quiet: true},
		{text: "sayf('t')", out: k("t;"), quiet: true},
		{text: "sayf($index)", out: func(_ string, i int) string { return fmt.Sprintf("%d;", i) }, rule: true, quiet: true},
		// printf that ends its line
		{text: "printf('%s\\n', 'nl')", out: k("nl\n")},
		{text: "printf('\\n')", out: k("\n")},
		// the other writers
		{text: "print", out: func(rc string, _ int) string { return rc + "\n" }, rule: true},
		{text: "print $", out: func(rc string, _ int) string { return rc + "\n" }, rule: true},
		{text: "print 'p', $index", out: func(_ string, i int) string { return fmt.Sprintf("p %d\n", i) }, rule: true},
		{text: "print 'word'", out: k("word\n")},
		{text: "print ''", out: k("\n")},
		{text: "print 1, 'two', [3]", out: k("1 two [3]\n")},
		{text: "say('s')", out: k("s\n")},
		{text: "bare()", out: func(rc string, _ int) string { return rc + "\n" }, rule: true},
		{text: "both(7)", out: k("(7)\n")},
		{text: "print deep('d'), deep(2)", out: k("{(d)\n}{(2)\n}d 2\n")},
		{text: "printf('[%v|%v]', deep(1), 'z')", out: k("{(1)\n}[1|z]")},
		{text: "for (q in [1, 2]) { printf('%v,', q) }", out: k("1,2,"), quiet: true},
		{text: "for (q in [1, 2]) { printf('%v:', q); print q }", out: k("1:1\n2:2\n")},
		{text: "if ($index % 2 == 0) { printf('even ') } else { print 'odd' }", out: func(_ string, i int) string {
			if i%2 == 0 {
				return "even "
			}
			return "odd\n"
		}, rule: true},
		// ends of the record / the run right after an unfinished line
		{text: "next", out: k(""), rule: true, stop: "next"},
		{text: "exit", out: k(""), stop: "exit"},
		{text: "printf('%d', 1)", out: k(""), stop: "error"},
		{text: "printf('%s|', 5)", out: k(""), stop: "error"},
		{text: "un.k.j()", out: k(""), stop: "error"},
	}
}

// c18Interleave builds one program and the exact stdout it must produce
func c18Interleave(r *rand.Rand, stmts []c18Stmt) (prog string, doc string, want string, wantClass string, focus bool) {
	nrec := 1 + r.Intn(5)
	recs := make([]c18Rec, nrec)
	js := make([]string, nrec)
	for i := range recs {
		recs[i] = pick(r, c18Recs)
		js[i] = recs[i].json
	}
	doc = "[" + strings.Join(js, ", ") + "]"
	type rule struct {
		head  string
		cond  func(i int) bool
		stmts []c18Stmt
	}
	var body func(inRule bool, n int) []c18Stmt
	body = func(inRule bool, n int) []c18Stmt {
		var ss []c18Stmt
		for len(ss) < n {
			s := pick(r, stmts)
			if s.rule && !inRule {
				continue
			}
			if s.stop != "" && !chance(r, 0.12) {
				continue
			}
			if strings.Contains(s.text, "long(") || strings.Contains(s.text, "5000") {
				if !chance(r, 0.15) {
					continue
				}
			}
			// the pair the property is about: an unfinished line directly followed by another writer
			if len(ss) > 0 && ss[len(ss)-1].quiet && s.quiet && chance(r, 0.5) {
				continue
			}
			ss = append(ss, s)
		}
		return ss
	}
	var begin, end []c18Stmt
	if chance(r, 0.5) {
		begin = body(false, 1+r.Intn(3))
	}
	if chance(r, 0.6) {
		end = body(false, 1+r.Intn(3))
	}
	var rules []rule
	for k := 1 + r.Intn(3); k > 0; k-- {
		ru := rule{head: "", cond: func(int) bool { return true }}
		switch r.Intn(5) {
		case 0:
			m := r.Intn(2)
			ru.head = fmt.Sprintf("$index %% 2 == %d ", m)
			ru.cond = func(i int) bool { return i%2 == m }
		case 1:
			m := r.Intn(nrec)
			ru.head = fmt.Sprintf("$index >= %d ", m)
			ru.cond = func(i int) bool { return i >= m }
		}
		ru.stmts = body(true, 1+r.Intn(4))
		rules = append(rules, ru)
	}
	var sb strings.Builder
	sb.WriteString(c18WriterFuncs)
	block := func(head string, ss []c18Stmt) {
		sb.WriteString(head + "{\n")
		for _, s := range ss {
			sb.WriteString("  " + s.text + "\n")
		}
		sb.WriteString("}\n")
	}
	if begin != nil {
		block("BEGIN ", begin)
	}
	for _, ru := range rules {
		block(ru.head, ru.stmts)
	}
	if end != nil {
		block("END ", end)
	}
	prog = sb.String()
	// the reference run
	var out strings.Builder
	wantClass = "ok"
	prevQuiet := false
	run := func(ss []c18Stmt, rec string, idx int) string {
		for _, s := range ss {
			if s.stop != "" {
				if prevQuiet {
					focus = true
				}
				return s.stop
			}
			if prevQuiet && !s.quiet {
				focus = true // another writer right after an unfinished line
			}
			o := s.out(rec, idx)
			out.WriteString(o)
			if o != "" {
				prevQuiet = !strings.HasSuffix(o, "\n")
			}
		}
		return ""
	}
	stopped := run(begin, "", 0)
	if stopped == "" {
	records:
		for i, rc := range recs {
			for _, ru := range rules {
				if !ru.cond(i) {
					continue
				}
				if stopped = run(ru.stmts, rc.render, i); stopped == "next" {
					stopped = ""
					break
				} else if stopped != "" {
					break records
				}
			}
		}
	}
	if stopped == "" {
		stopped = run(end, "", 0)
	}
	if stopped == "error" {
		wantClass = "runtime"
	}
	return prog, doc, out.String(), wantClass, focus
}

func c18GenInterleave(r *rand.Rand, tier string, emit func(Case)) {
	stmts := c18Stmts()
	one := func(prog, doc, want, wantClass, row string) {
		emit(Case{Req: RunReq(prog, nil, []File{{Name: "in.json", Data: []byte(doc)}}, false), Fields: []string{"class", "out"},
			Meta: metaProg(prog, "input", doc, "row", row),
			Oracle: func(i Resp) string {
				if i["class"] != wantClass {
					return fmt.Sprintf("class %s expected, got %s %s", wantClass, i["class"], i["msg"])
				}
				if got := string(i.Bytes("out")); got != want {
					return fmt.Sprintf("stdout is not the writes in program order: got %q, statement by statement it must be %q", c07Short(got), c07Short(want))
				}
				return ""
			}, NonTrivial: func(i Resp) bool { return i["class"] == "ok" || i["class"] == "runtime" }})
	}
	// systematic: every unfinished-line printf x every following statement, in a rule over three
	// records, in BEGIN and in END
	for _, a := range stmts {
		if !a.quiet {
			continue
		}
		for _, b := range stmts {
			for _, place := range []string{"rule", "BEGIN", "END", "function"} {
				if place != "rule" && (a.rule || b.rule) {
					continue
				}
				if tier != "thorough" && place != "rule" && (strings.Contains(a.text, "long(") || strings.Contains(a.text, "5000")) {
					continue
				}
				recs := []c18Rec{c18Recs[0], c18Recs[2], c18Recs[3]}
				doc := "[10, \"x\", [1, 2]]"
				var prog string
				var want strings.Builder
				wantClass := "ok"
				stopped := false
				emitStmts := func(rc string, idx int) bool { // false: the run is over
					want.WriteString(a.out(rc, idx))
					switch b.stop {
					case "error":
						wantClass = "runtime"
						return false
					case "exit":
						return false
					case "next":
						return true
					}
					want.WriteString(b.out(rc, idx))
					want.WriteString("tail\n")
					return true
				}
				body := "{\n  " + a.text + "\n  " + b.text + "\n  print 'tail'\n}\n"
				switch place {
				case "rule":
					prog = c18WriterFuncs + "BEGIN { print 'begin' }\n" + body + "END { print 'end' }\n"
					want.WriteString("begin\n")
					for i, rc := range recs {
						if !emitStmts(rc.render, i) {
							stopped = true
							break
						}
					}
					if !stopped {
						want.WriteString("end\n")
					}
				case "BEGIN":
					prog = c18WriterFuncs + "BEGIN " + body + "{ print }\nEND { print 'end' }\n"
					if emitStmts("", 0) {
						want.WriteString("10\nx\n[1, 2]\nend\n")
					}
				case "END":
					prog = c18WriterFuncs + "{ printf('%v,', $) }\nEND " + body
					want.WriteString("10,x,[1, 2],")
					emitStmts("", 0)
				case "function":
					if b.stop == "next" {
						continue
					}
					prog = c18WriterFuncs + "function w() " + body + "{ printf('%v>', $index); w(); print 'back' }\n"
					for i := range recs {
						want.WriteString(fmt.Sprintf("%d>", i))
						if !emitStmts("", 0) {
							stopped = true
							break
						}
						want.WriteString("back\n")
					}
				}
				one(prog, doc, want.String(), wantClass, "pair in "+place)
			}
		}
	}
	// random programs; those in which another writer directly follows an unfinished line are kept
	// in full, the others thinned out
	n := tierN(tier, 2500, 40000)
	for i := 0; i < n; i++ {
		prog, doc, want, wantClass, focus := c18Interleave(r, stmts)
		if !focus && !chance(r, 0.3) {
			continue
		}
		row := "random"
		if focus {
			row = "random, writer after an unfinished line"
		}
		one(prog, doc, want, wantClass, row)
	}
}

func init() {
	register(Family{
		Name: "printf-directive-bytes", Prop: "C18",
		Rule: "raw bytes in the format (program texts travel as hex): every byte value 0x00-0xff as the directive byte directly after % and after a width of nine forms (none, 6, -6, 06, -06, 1, 0, 00, 12), as the last byte of the format and before an ordinary directive, with argument lists that would satisfy a byte mistaken for s / f / v (number, string, array, none, string + number); 32 multi-byte characters as directives (U+6xxx and planes 12-15 whose lead bytes e6 / f3 equal f / s in the low seven bits, full-width and Cyrillic look-alikes of s f v %, combining marks, BOM, the ends of every UTF-8 length class), truncated / overlong / surrogate / lone-continuation byte sequences, widths with nothing or a non-directive after them (digits only, sign only, 22 digits), random formats over an alphabet of such bytes; oracle: the reference formatter (only s f v % end a directive: anything else is a runtime error and nothing of the call is written)",
		Gen:  c18DirectiveBytes,
	})
	register(Family{
		Name: "printf-interleaving", Prop: "C18",
		Rule: "printf that leaves a line unfinished (literal text, %v of the record / index with widths, %%, empty, text with an inner newline, 3000 / 4096 / 5000 bytes, inside a called function, in a loop) directly followed by every other writer -- bare print, print $, print with several arguments, print '', printf ending in a newline, functions that print / printf / bare-print / nest both, a print list and a printf argument list that call printing functions, loops and conditionals -- or by next, exit and three runtime errors; every such pair in a rule over three records (between BEGIN and END output), in BEGIN, in END and in a function body; plus random programs (BEGIN, 1-3 rules with and without patterns over 1-5 records, END); oracle: stdout is exactly the concatenation of the statements' outputs in execution order (closed form), class as predicted; model comparison on class,out",
		Gen:  c18GenInterleave,
	})
}

// ---------------------------------------------------------------- %v of values with shared and circular parts
//
// %v is replaced by the rendering of its argument -- the one print gives: a container that is
// reachable several times without being its own ancestor (the same object / array stored as
// siblings, at different depths, objects in arrays and arrays in objects) is written in full
// every time, and <circular reference> appears exactly where a container is its own ancestor.
// The values are built by programs (gen_values.go); the expected text is computed on the graph.

// c18SharedGraph: one container referenced 2-4 times from holders of both kinds at several depths
func c18SharedGraph(r *rand.Rand) (*vgGraph, string) {
	g := &vgGraph{}
	kinds := []byte{'a', 'o'}
	shared := g.newCont(pick(r, kinds))
	for j := r.Intn(3); j > 0; j-- {
		g.link(r, shared, g.scalar(r, true, false), pick(r, []string{"a", "b", "v"}))
	}
	if chance(r, 0.3) {
		// the shared container has a container of its own
		inner := g.newCont(pick(r, kinds))
		g.link(r, inner, g.scalar(r, true, false), "z")
		g.link(r, shared, inner, "k1")
		if chance(r, 0.5) {
			g.link(r, shared, inner, "c") // shared inside the shared one
		}
	}
	top := g.newCont(pick(r, kinds))
	refs := 2 + r.Intn(3)
	keys := []string{"a", "b", "c", "k1", "z", "tail", "name", "x y"}
	r.Shuffle(len(keys), func(i, j int) { keys[i], keys[j] = keys[j], keys[i] })
	shape := fmt.Sprintf("%c shared %dx in %c:", g.nodes[shared].kind, refs, g.nodes[top].kind)
	for k := 0; k < refs; k++ {
		switch d := r.Intn(4); d {
		case 0: // a sibling
			g.link(r, top, shared, keys[k])
			shape += " sibling"
		case 1, 2: // one or two levels down, through holders of either kind
			h := g.newCont(pick(r, kinds))
			if chance(r, 0.4) {
				g.link(r, h, g.scalar(r, true, false), "v")
			}
			g.link(r, h, shared, "a")
			if d == 2 {
				h2 := g.newCont(pick(r, kinds))
				g.link(r, h2, h, "b")
				h = h2
			}
			g.link(r, top, h, keys[k])
			shape += fmt.Sprintf(" depth%d", d)
		default: // twice in the same holder
			h := g.newCont(pick(r, kinds))
			g.link(r, h, shared, "a")
			g.link(r, h, shared, "b")
			g.link(r, top, h, keys[k])
			shape += " twin"
		}
		if chance(r, 0.3) {
			g.link(r, top, g.scalar(r, true, false), keys[(k+4)%len(keys)])
		}
	}
	if chance(r, 0.25) {
		// and a real cycle next to the sharing
		ring := g.newCont(pick(r, kinds))
		g.link(r, ring, ring, "self")
		g.link(r, top, ring, "tail")
		shape += " +cycle"
	}
	return g, shape
}

func c18GraphCase(r *rand.Rand, g *vgGraph, kind string, ids []int) Case {
	var fb strings.Builder
	var args []c18Arg
	var shown []string
	for k, id := range ids {
		rend := g.pretty(id, nil, false)
		if k > 0 || chance(r, 0.3) {
			fb.WriteString(pick(r, []string{"|", " ", ", ", "x=", "%%", ""}))
		}
		fb.WriteString("%" + c18Width(r, len(rend)) + "v")
		args = append(args, c18Arg{expr: g.varOf(id), kind: 'o', render: rend, known: true})
		shown = append(shown, g.pretty(id, nil, true))
		if chance(r, 0.2) {
			fb.WriteString("%s")
			args = append(args, c18Str(pick(r, []string{"", "s", "é"})))
		}
	}
	if chance(r, 0.5) {
		fb.WriteString("\n")
	}
	format := fb.String()
	want, ok, _ := c18Ref(format, args)
	if !ok {
		panic("c18GraphCase: the reference formatter rejects " + format)
	}
	parts := []string{mustStrLit(format)}
	vars := make([]string, len(ids))
	for k, a := range args {
		parts = append(parts, a.expr)
		if k < len(ids) {
			vars[k] = g.varOf(ids[k])
		}
	}
	// afterwards the same values through print: %v renders like print
	prog := "{\n  " + strings.Join(g.stmts, "\n  ") + "\n  print 'B'\n  printf(" + strings.Join(parts, ", ") + ")\n  print 'E'\n  print " + strings.Join(vars, ", ") + "\n}\n"
	full := "B\n" + want + "E\n" + strings.Join(shown, " ") + "\n"
	return Case{Req: RunReq(prog, nil, []File{{Name: "in.json", Data: []byte("{}")}}, false), Fields: []string{"class", "out"},
		Meta: metaProg(prog, "format", format, "kind", kind, "expect", full),
		Oracle: func(i Resp) string {
			if i["class"] != "ok" {
				return "class=" + i["class"] + " msg=" + i["msg"] + " (a well-formed printf of containers cannot fail)"
			}
			got := string(i.Bytes("out"))
			if got == full {
				return ""
			}
			if gm, wm := strings.Count(got, "<circular reference>"), strings.Count(full, "<circular reference>"); gm != wm {
				return fmt.Sprintf("%s: %d cycle marker(s) written, the value has %d place(s) where a container is its own ancestor (sharing is printed in full): got %q, want %q", kind, gm, wm, short(got), short(full))
			}
			return fmt.Sprintf("%s: printf / print wrote %q, the rendering computed on the graph is %q", kind, short(got), short(full))
		}}
}

func init() {
	register(Family{
		Name: "printf-v-graphs", Prop: "C18",
		Rule: "%v (1-3 per format, random widths of either sign / zero flag, literal text, %% and %s in between) of program-built containers with shared parts -- one array / object referenced 2-4 times as siblings, one or two levels down through arrays and objects, twice in the same holder, itself holding a shared container, next to a real cycle -- of acyclic random graphs with sharing, of rings of 1-4 containers (arrays, objects, mixed) printed from inside and from outside, and of random cyclic graphs; the same container passed to two directives of one printf; followed by print of the same values; oracle: the reference formatter over the rendering computed on the graph (<circular reference> exactly where a container is its own ancestor, shared containers in full every time), the print line equal to the %v renderings; also compared with the model; non-trivial = distinct program",
		Gen: func(r *rand.Rand, tier string, emit func(Case)) {
			n := tierN(tier, 2500, 25000)
			for i := 0; i < n; i++ {
				var g *vgGraph
				var kind string
				switch x := r.Intn(10); {
				case x < 5:
					g, kind = c18SharedGraph(r)
				case x < 7:
					g = vgRandomGraph(r, 2+r.Intn(4), true, true, false)
					kind = "acyclic with sharing"
				case x < 9:
					ln := 1 + r.Intn(4)
					kinds := pick(r, []byte{'a', 'o', 'm'})
					g = vgRing(r, ln, kinds, true)
					kind = fmt.Sprintf("ring of %d (%c)", ln, kinds)
					if chance(r, 0.4) {
						out := g.newCont(pick(r, []byte{'a', 'o'}))
						g.link(r, out, g.conts[r.Intn(ln)], "a")
						g.link(r, out, g.conts[r.Intn(ln)], "b")
						kind += " entered from outside twice"
					}
				default:
					g = vgRandomGraph(r, 1+r.Intn(5), false, true, false)
					kind = "random graph"
				}
				np := 1 + r.Intn(3)
				ids := make([]int, np)
				for j := range ids {
					ids[j] = pick(r, g.conts)
					if j == 0 || chance(r, 0.5) {
						ids[j] = g.conts[len(g.conts)-1-r.Intn(1+len(g.conts)/3)] // the containers built last hold the others
					}
					if j > 0 && chance(r, 0.2) {
						ids[j] = ids[0]
					}
				}
				if strings.HasPrefix(kind, "a shared") || strings.HasPrefix(kind, "o shared") {
					// the holder of all the references is the container created third or later: find it by its rendering size
					best := ids[0]
					for _, c := range g.conts {
						if len(g.pretty(c, nil, false)) > len(g.pretty(best, nil, false)) {
							best = c
						}
					}
					ids[0] = best
				}
				emit(c18GraphCase(r, g, kind, ids))
			}
			// hand-written corner cases
			for _, x := range []struct{ prog, want string }{
				{"{ p = {n: 'ann'}; pair = [p, p]; printf('%v|%v\\n', pair, p) }", "[{\"n\": \"ann\"}, {\"n\": \"ann\"}]|{\"n\": \"ann\"}\n"},
				{"{ p = {n: $.name}; idx = {first: p, list: [p], tree: [[1], {k: [2]}]}; printf('%30v', idx) }", "{\"first\": {\"n\": \"ann\"}, \"list\": [{\"n\": \"ann\"}], \"tree\": [[1], {\"k\": [2]}]}"},
				{"{ loop = [0]; loop[1] = loop; printf('%v', loop) }", "[0, <circular reference>]"},
				{"{ o = {}; o.me = o; printf('%v %v', o, o) }", "{\"me\": <circular reference>} {\"me\": <circular reference>}"},
				{"{ e = {}; printf('%v', [e, e, [e], {k: e}]) }", "[{}, {}, [{}], {\"k\": {}}]"},
				{"{ e = []; printf('%v', {a: e, b: e, c: {d: e}}) }", "{\"a\": [], \"b\": [], \"c\": {\"d\": []}}"},
				{"{ printf('%v', [$, $, {again: $}]) }", "[{\"name\": \"ann\"}, {\"name\": \"ann\"}, {\"again\": {\"name\": \"ann\"}}]"},
				{"{ p = {k: 1}; q = {n: 0}; q.p = p; printf('%v', [q, p, q]) }", "[{\"n\": 0, \"p\": {\"k\": 1}}, {\"k\": 1}, {\"n\": 0, \"p\": {\"k\": 1}}]"},
				{"{ p = {k: 1}; a = [p]; a.push(a); printf('%v|%v', [a, p], p) }", "[[{\"k\": 1}, <circular reference>], {\"k\": 1}]|{\"k\": 1}"},
				{"{ p = {k: 1}; printf('%v', p); printf('%v', [p]); printf('%v', [p, p]) }", "{\"k\": 1}[{\"k\": 1}][{\"k\": 1}, {\"k\": 1}]"},
			} {
				want := x.want
				emit(Case{Req: RunReq(x.prog, nil, []File{{Name: "in.json", Data: []byte(`{"name": "ann"}`)}}, false), Fields: []string{"class", "out"},
					Meta: metaProg(x.prog, "expect", want), Oracle: func(i Resp) string {
						if i["class"] != "ok" || string(i.Bytes("out")) != want {
							return "expected exactly " + strconv.Quote(want) + ", got class=" + i["class"] + " out=" + strconv.Quote(string(i.Bytes("out")))
						}
						return ""
					}})
			}
		},
	})
}
