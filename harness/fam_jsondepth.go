package main

// The depth limit of json.MarshalIndent (C04, C20).
//
// jqawk's json(v) (src/runtime.go nativeJson) and -o (src/evaluator.go GetRootJson, cli/cli.go)
// serialise with json.MarshalIndent. That is json.Marshal followed by the indent pass
// (encoding/json indent.go appendIndent), and the indent pass runs the DECODER's scanner over the
// compact text: scanner.pushParseState fails with "exceeded max depth" at the first bracket that is
// opened inside 10 000 open ones. So a value a program builds is written up to 10 000 brackets deep
// (every container counts, an empty one too; scalars do not) and is an ordinary error beyond:
// a runtime error of json(), "error writing JSON" (exit status 1, nothing written) of -o.
//
// The family builds such values in a loop, 9 990 ... 10 010 levels deep -- arrays, objects,
// alternating, with shallow siblings before and after the deep member; the innermost value a
// scalar or an empty container -- and passes them to json() and through -o (library GetRootJson
// and the real binary). Beyond the limit the model is asked too (the error costs it 2.5 s and
// 1.5 GB per case: few cases); up to the limit the text has 200 MB, which the model (a linked list
// of bytes) cannot hold: these cases are implementation-only with closed-form oracles (the length
// of the canonical two-space indentation, the compact form, "the text IS the canonical
// indentation" through run flag c / cli flag z). A third group, 150 ... 700 levels, compares the
// full text with the model.

import (
	"fmt"
	"math/rand"
	"sort"
	"strconv"
	"strings"
)

const jdLimit = 10000

// jdNode: the tree the program is expected to have built.
type jdNode struct {
	kind  byte // 'a' array, 'o' object, 's' scalar
	text  string
	items []*jdNode
	keys  []string
}

func jdScalar(t string) *jdNode { return &jdNode{kind: 's', text: t} }

// jdIndentLen: the length of the two-space indentation of n whose first byte stands at nesting
// level d (computed bottom-up by the caller for the deep chain; this is the generic recursion,
// used for the shallow siblings only).
func jdIndentLen(n *jdNode, d int) int {
	switch n.kind {
	case 's':
		return len(n.text)
	case 'a':
		if len(n.items) == 0 {
			return 2
		}
		t := 1
		for i, it := range n.items {
			if i > 0 {
				t++
			}
			t += 1 + 2*(d+1) + jdIndentLen(it, d+1)
		}
		return t + 1 + 2*d + 1
	default:
		if len(n.items) == 0 {
			return 2
		}
		t := 1
		for i, it := range n.items {
			if i > 0 {
				t++
			}
			t += 1 + 2*(d+1) + len(n.keys[i]) + 2 + 2 + jdIndentLen(it, d+1)
		}
		return t + 1 + 2*d + 1
	}
}

func jdCompact(n *jdNode, sb *strings.Builder) {
	switch n.kind {
	case 's':
		sb.WriteString(n.text)
	case 'a':
		sb.WriteByte('[')
		for i, it := range n.items {
			if i > 0 {
				sb.WriteByte(',')
			}
			jdCompact(it, sb)
		}
		sb.WriteByte(']')
	default:
		sb.WriteByte('{')
		for i, it := range n.items {
			if i > 0 {
				sb.WriteByte(',')
			}
			sb.WriteString(`"` + n.keys[i] + `":`)
			jdCompact(it, sb)
		}
		sb.WriteByte('}')
	}
}

func jdDepth(n *jdNode) int {
	if n.kind == 's' {
		return 0
	}
	if n.kind == 'x' { // a placeholder standing for a value of known depth
		d, _ := strconv.Atoi(n.keys[0])
		return d
	}
	m := 0
	for _, it := range n.items {
		if d := jdDepth(it); d > m {
			m = d
		}
	}
	return m + 1
}

// jdShape: one way of wrapping. wrap(i) is the statement of round i (it wraps the value of a
// once); node(i, inner) the tree after it. Keys of an object literal are written in any order:
// the tree lists them sorted, as the encoder writes them.
type jdShape struct {
	name string
	stmt func(i int) string
	node func(i int, inner *jdNode) *jdNode
	// loop: the whole loop as program text for `rounds` rounds
	loop func(rounds int) string
}

func jdObj(kv ...interface{}) *jdNode {
	n := &jdNode{kind: 'o'}
	type pair struct {
		k string
		v *jdNode
	}
	var ps []pair
	for i := 0; i+1 < len(kv); i += 2 {
		ps = append(ps, pair{kv[i].(string), kv[i+1].(*jdNode)})
	}
	sort.Slice(ps, func(i, j int) bool { return ps[i].k < ps[j].k })
	for _, p := range ps {
		n.keys = append(n.keys, p.k)
		n.items = append(n.items, p.v)
	}
	return n
}

func jdArr(items ...*jdNode) *jdNode { return &jdNode{kind: 'a', items: items} }

func jdSimpleLoop(body string) func(int) string {
	return func(rounds int) string {
		return fmt.Sprintf("for (i = 0; i < %d; i++) %s", rounds, body)
	}
}

var jdShapes = []jdShape{
	{name: "arrays", loop: jdSimpleLoop("a = [a]"),
		node: func(i int, in *jdNode) *jdNode { return jdArr(in) }},
	{name: "objects", loop: jdSimpleLoop("a = {k: a}"),
		node: func(i int, in *jdNode) *jdNode { return jdObj("k", in) }},
	{name: "alternating", loop: func(rounds int) string {
		return fmt.Sprintf("for (i = 0; i < %d; i++) {\nif (i %% 2 == 0) a = [a]\nelse a = {key: a}\n}", rounds)
	},
		node: func(i int, in *jdNode) *jdNode {
			if i%2 == 0 {
				return jdArr(in)
			}
			return jdObj("key", in)
		}},
	{name: "array-siblings", loop: jdSimpleLoop("a = [0, a, 'z', []]"),
		node: func(i int, in *jdNode) *jdNode {
			return jdArr(jdScalar("0"), in, jdScalar(`"z"`), jdArr())
		}},
	{name: "object-siblings", loop: jdSimpleLoop("a = {z: [[]], m: a, b: 1}"),
		node: func(i int, in *jdNode) *jdNode {
			return jdObj("z", jdArr(jdArr()), "m", in, "b", jdScalar("1"))
		}},
}

type jdBottom struct {
	expr string
	node *jdNode
}

var jdBottoms = []jdBottom{
	{"1", jdScalar("1")},
	{"'x'", jdScalar(`"x"`)},
	{"null", jdScalar("null")},
	{"[]", jdArr()},
	{"{}", jdObj()},
	{"[2, 'y']", jdArr(jdScalar("2"), jdScalar(`"y"`))},
}

// jdValue: a value `depth` brackets deep: the build statements, the expected tree's indented
// length and compact text.
type jdValue struct {
	shape, bottom string
	depth         int
	build         string // statements leaving the value in a
	length        int    // of json.MarshalIndent(v, "", "  ")
	compact       string
}

func jdBuild(sh jdShape, bt jdBottom, depth int) jdValue {
	// the number of rounds that gives exactly `depth` brackets: a round adds one level, except
	// that near the bottom a sibling container may be deeper than the value wrapped
	rounds, reached := 0, jdDepth(bt.node)
	for reached < depth {
		reached = jdDepth(sh.node(rounds, &jdNode{kind: 'x', keys: []string{strconv.Itoa(reached)}}))
		rounds++
	}
	if reached != depth {
		panic(fmt.Sprintf("jdBuild: shape %s over %s cannot have depth %d", sh.name, bt.expr, depth))
	}
	tree := bt.node
	for i := 0; i < rounds; i++ {
		tree = sh.node(i, tree)
	}
	// the indented length: the deep chain bottom-up (round i's container stands at level
	// rounds-1-i), the siblings by the generic recursion
	n := jdIndentLen(bt.node, rounds)
	for i := 0; i < rounds; i++ {
		d := rounds - 1 - i
		c := sh.node(i, jdScalar(""))
		// c holds the empty scalar in place of the inner value: its own length plus the inner one
		n += jdIndentLen(c, d)
	}
	var sb strings.Builder
	jdCompact(tree, &sb)
	return jdValue{shape: sh.name, bottom: bt.expr, depth: depth,
		build: "a = " + bt.expr + "; " + sh.loop(rounds), length: n, compact: sb.String()}
}

func jdMeta(v jdValue, prog, route string) map[string]string {
	side := "within"
	if v.depth > jdLimit {
		side = "beyond"
	}
	return map[string]string{"program": prog, "route": route, "shape": v.shape, "bottom": v.bottom,
		"depth": strconv.Itoa(v.depth), "row": route + "/" + side, "expected_length": strconv.Itoa(v.length)}
}

func jdAny(Resp) bool { return true }

// jdJSONCase: json(a), the length printed (the text itself when small).
func jdJSONCase(v jdValue, implOnly, full bool) Case {
	show := "print s.length()"
	wantOut := "built\n" + strconv.Itoa(v.length) + "\n"
	if full {
		show = "print s.length(), s"
	}
	prog := "BEGIN { " + v.build + "\nprint 'built'; s = json(a); " + show + " }"
	deep := v.depth > jdLimit
	return Case{ID: fmt.Sprintf("json/%s/%s/%d", v.shape, v.bottom, v.depth), Req: RunReq(prog, nil, nil, false),
		Fields: []string{"class", "out", "line", "col", "src"}, ImplOnly: implOnly, NonTrivial: jdAny,
		Meta: jdMeta(v, prog, "json()"),
		Oracle: func(impl Resp) string {
			if deep {
				// an ordinary runtime error at the call; what was printed before is kept
				if impl["class"] != "runtime" {
					return fmt.Sprintf("json() of a value %d levels deep: class=%s, expected a runtime error (json.MarshalIndent refuses more than %d levels)", v.depth, impl["class"], jdLimit)
				}
				if impl["out"] != hxs("built\n") {
					return "output before the runtime error not kept: out=" + short(impl["out"])
				}
				if impl["line"] != strconv.Itoa(2+strings.Count(v.build, "\n")) {
					return "the runtime error is not reported on the line of the json() call: line=" + impl["line"]
				}
				return ""
			}
			if impl["class"] != "ok" {
				return fmt.Sprintf("json() of a value %d levels deep (limit %d): class=%s msg=%s, expected success", v.depth, jdLimit, impl["class"], impl["msg"])
			}
			if full {
				b, err := unhx(impl["out"])
				if err != nil {
					return "out is not hex"
				}
				out := string(b)
				pre := "built\n" + strconv.Itoa(v.length) + " "
				if !strings.HasPrefix(out, pre) || !strings.HasSuffix(out, "\n") {
					return "unexpected output: " + short(out)
				}
				text := out[len(pre) : len(out)-1]
				if len(text) != v.length {
					return fmt.Sprintf("json() text has %d bytes, expected %d", len(text), v.length)
				}
				if f, ok := summariseJSON("t", text); !ok || !strings.Contains(f, "t="+hxs(v.compact)+" ") || !strings.HasSuffix(f, "tcanon=1") {
					return "json() text is not the canonical indentation of the value built: " + short(text)
				}
				return ""
			}
			if impl["out"] != hxs(wantOut) {
				return fmt.Sprintf("json() of a value %d levels deep: out=%s, expected %q", v.depth, short(impl["out"]), wantOut)
			}
			return ""
		}}
}

// jdRootOracle: the json field(s) of a run request (flag j: the text; flag c: the summary).
func jdRootOracle(v jdValue, summary bool) func(Resp) string {
	deep := v.depth > jdLimit
	return func(impl Resp) string {
		if impl["class"] != "ok" {
			return "the run itself must succeed (only GetRootJson fails): class=" + impl["class"] + " msg=" + impl["msg"]
		}
		if impl["out"] != hxs("built\n") {
			return "unexpected output: " + short(impl["out"])
		}
		if deep {
			if impl["json"] != "ERR" {
				return fmt.Sprintf("GetRootJson of a root %d levels deep returned a text (%s), expected an error (json.MarshalIndent refuses more than %d levels)", v.depth, short(impl["json"]), jdLimit)
			}
			return ""
		}
		if impl["json"] == "ERR" {
			return fmt.Sprintf("GetRootJson of a root %d levels deep (limit %d) is an error, expected the text", v.depth, jdLimit)
		}
		if summary {
			if impl["json"] != hxs(v.compact) || impl["jsonraw"] != strconv.Itoa(v.length) || impl["jsoncanon"] != "1" {
				return fmt.Sprintf("GetRootJson text: compact form / length / canonical indentation do not fit the value built: jsonraw=%s (expected %d) jsoncanon=%s", impl["jsonraw"], v.length, impl["jsoncanon"])
			}
			return ""
		}
		b, err := unhx(impl["json"])
		if err != nil {
			return "json is not hex"
		}
		if f, ok := summariseJSON("t", string(b)); !ok || len(b) != v.length || !strings.Contains(f, "t="+hxs(v.compact)+" ") || !strings.HasSuffix(f, "tcanon=1") {
			return fmt.Sprintf("GetRootJson text (%d bytes, expected %d) is not the canonical indentation of the value built", len(b), v.length)
		}
		return ""
	}
}

var jdInput = []File{{Name: "in.json", Data: []byte("7")}}

// jdRootCase: the value stored in $ and read through GetRootJson (library level).
func jdRootCase(v jdValue, implOnly bool, r *rand.Rand) Case {
	prog := "BEGIN { " + v.build + "\nprint 'built' }\n{ $ = a }"
	route := "-o (GetRootJson), $ = a"
	if v.shape == "arrays" && chance(r, 0.5) {
		// the root itself is wrapped: the document read is the innermost value
		prog = fmt.Sprintf("{ print 'built'; for (i = 0; i < %d; i++) $ = [$] }", v.depth)
		v = jdBuild(jdShapes[0], jdBottom{"7", jdScalar("7")}, v.depth)
		route = "-o (GetRootJson), $ = [$] in a loop"
	}
	req := RunReq(prog, nil, jdInput, true)
	summary := false
	if implOnly && v.depth > 1500 {
		req = strings.TrimSuffix(req, "j") + "c"
		summary = true
	}
	return Case{ID: fmt.Sprintf("root/%s/%s/%d", v.shape, v.bottom, v.depth), Req: req, Fields: []string{"class", "out", "json"},
		ImplOnly: implOnly, NonTrivial: jdAny, Meta: jdMeta(v, prog, route), Oracle: jdRootOracle(v, summary)}
}

// jdCliCase: the real binary with -o.
func jdCliCase(v jdValue, target string, implOnly bool) Case {
	prog := "BEGIN { " + v.build + "\nprint 'built' }\n{ $ = a }"
	deep := v.depth > jdLimit
	argv := []string{"-o", target, prog}
	ofile := ""
	if target != "-" {
		ofile = target
	}
	req := CliReq(argv, []byte("7"), true, nil, ofile)
	if implOnly {
		// 200 MB of text: ask for the summary, and give the binary time
		if ofile == "" {
			req = strings.TrimSuffix(req, "-") + "z,t=20000"
		} else {
			req += ",z,t=20000"
		}
	}
	return Case{ID: fmt.Sprintf("cli/%s/%s/%s/%d", target, v.shape, v.bottom, v.depth), Req: req,
		Fields: []string{"exit", "out", "err", "ofile", "ofexists"}, ImplOnly: implOnly, NonTrivial: jdAny,
		Meta: jdMeta(v, prog, "real binary, -o "+target),
		Oracle: func(impl Resp) string {
			if impl["class"] == "nobinary" {
				return ""
			}
			if deep {
				// "error writing JSON: ... exceeded max depth": status 1, a diagnostic, standard output as
				// the program left it, and the file neither created nor touched
				if impl["exit"] != "1" || impl["err"] != "1" || impl["out"] != hxs("built\n") || impl["ofexists"] != "0" {
					return fmt.Sprintf("-o of a root %d levels deep: exit=%s err=%s out=%s ofexists=%s; expected status 1, a diagnostic, stdout \"built\\n\", no file", v.depth, impl["exit"], impl["err"], short(impl["out"]), impl["ofexists"])
				}
				return ""
			}
			if impl["exit"] != "0" || impl["err"] != "0" {
				return fmt.Sprintf("-o of a root %d levels deep (limit %d): exit=%s stderr=%s; expected success", v.depth, jdLimit, impl["exit"], short(impl["stderr"]))
			}
			if target == "-" {
				// stdout = "built\n" followed by the document: not one JSON document, so no summary
				// is made; the length decides
				b, err := unhx(impl["out"])
				if err != nil || len(b) != len("built\n")+v.length || !strings.HasPrefix(string(b), "built\n") {
					return fmt.Sprintf("-o -: stdout has %d bytes, expected %d", len(b), len("built\n")+v.length)
				}
				return ""
			}
			if impl["out"] != hxs("built\n") || impl["ofexists"] != "1" {
				return "-o FILE: unexpected stdout or no file: out=" + short(impl["out"]) + " ofexists=" + impl["ofexists"]
			}
			if implOnly {
				if impl["ofile"] != hxs(v.compact) || impl["ofileraw"] != strconv.Itoa(v.length) || impl["ofilecanon"] != "1" {
					return fmt.Sprintf("-o FILE: compact form / length / canonical indentation do not fit the value built: ofileraw=%s (expected %d) ofilecanon=%s", impl["ofileraw"], v.length, impl["ofilecanon"])
				}
				return ""
			}
			b, err := unhx(impl["ofile"])
			if err != nil || len(b) != v.length {
				return fmt.Sprintf("-o FILE: the file has %d bytes, expected %d", len(b), v.length)
			}
			return ""
		}}
}

func jdGen(r *rand.Rand, tier string, emit func(Case)) {
	pickValue := func(depth int) jdValue {
		return jdBuild(pick(r, jdShapes), pick(r, jdBottoms), depth)
	}
	// near the limit and within it the text has 200 MB without siblings (every sibling line costs
	// another 100 MB): chains only
	pickChain := func(depth int) jdValue {
		return jdBuild(jdShapes[r.Intn(3)], pick(r, jdBottoms), depth)
	}
	value := func(shape, bottom, depth int) jdValue {
		return jdBuild(jdShapes[shape], jdBottoms[bottom], depth)
	}
	beyond := func() int { return jdLimit + 1 + r.Intn(10) } // 10 001 ... 10 010
	within := func() int { return jdLimit - 10 + r.Intn(11) } // 9 990 ... 10 000

	// (1) beyond the limit, with the model (2.5 s and 1.5 GB per case on the model's side)
	emit(jdJSONCase(value(0, 0, jdLimit+1), false, false)) // [[...[1]...]], 10 001 brackets
	emit(jdJSONCase(value(0, 3, jdLimit+1), false, false)) // [[...[]...]], 10 001 brackets in all
	emit(jdJSONCase(value(1, 4, jdLimit+1), false, false)) // {"k":{..."k":{}...}}
	emit(jdJSONCase(value(2, r.Intn(len(jdBottoms)), beyond()), false, false))
	emit(jdJSONCase(value(3+r.Intn(2), r.Intn(len(jdBottoms)), beyond()), false, false))
	emit(jdRootCase(value(0, 3, jdLimit+1), false, r))
	emit(jdRootCase(value(1+r.Intn(4), r.Intn(len(jdBottoms)), beyond()), false, r))
	emit(jdCliCase(value(r.Intn(3), r.Intn(len(jdBottoms)), jdLimit+1), "-", false))
	emit(jdCliCase(value(3+r.Intn(2), r.Intn(len(jdBottoms)), beyond()), "out.json", false))
	for i := 0; i < tierN(tier, 0, 12); i++ {
		switch i % 3 {
		case 0:
			emit(jdJSONCase(pickValue(beyond()), false, false))
		case 1:
			emit(jdRootCase(pickValue(beyond()), false, r))
		default:
			emit(jdCliCase(pickValue(beyond()), pick(r, []string{"-", "out.json", "sub.json"}), false))
		}
	}
	// beyond the limit, implementation only (the oracle alone)
	for i := 0; i < tierN(tier, 4, 40); i++ {
		if i%2 == 0 {
			emit(jdJSONCase(pickValue(beyond()), true, false))
		} else {
			emit(jdRootCase(pickValue(beyond()), true, r))
		}
	}

	// (2) up to the limit: 200 MB of text each, implementation only, closed-form oracles
	emit(jdJSONCase(value(0, 0, jdLimit), true, false))
	emit(jdJSONCase(value(0, 3, jdLimit), true, false))
	emit(jdJSONCase(value(1, 4, jdLimit), true, false))
	emit(jdJSONCase(value(2, 1, jdLimit), true, false))
	emit(jdRootCase(value(0, 4, jdLimit), true, r))
	emit(jdRootCase(value(1+r.Intn(2), r.Intn(len(jdBottoms)), jdLimit), true, r))
	emit(jdCliCase(value(r.Intn(3), r.Intn(len(jdBottoms)), jdLimit), "out.json", true))
	for i := 0; i < tierN(tier, 4, 30); i++ {
		switch i % 4 {
		case 0, 1:
			emit(jdJSONCase(pickChain(within()), true, false))
		case 2:
			emit(jdRootCase(pickChain(within()), true, r))
		default:
			emit(jdCliCase(pickChain(within()), pick(r, []string{"out.json", "deep.json"}), true))
		}
	}

	// (3) 150 ... 700 levels: the whole text, compared with the model
	for i := 0; i < tierN(tier, 8, 40); i++ {
		v := pickValue(150 + r.Intn(551))
		switch i % 4 {
		case 0, 1:
			emit(jdJSONCase(v, false, true))
		case 2:
			emit(jdRootCase(v, false, r))
		default:
			emit(jdCliCase(v, pick(r, []string{"out.json", "-"}), false))
		}
	}
}

func init() {
	rule := "values a program builds by wrapping a seed in a loop, 9 990 ... 10 010 brackets deep (arrays, objects, alternating, shallow siblings before and after the deep member; innermost a scalar or an empty container; the limit of json.MarshalIndent's indent pass is 10 000 open brackets, empty containers included), passed to json() (the length printed) and written through -o (GetRootJson at library level, the real binary with -o - and -o FILE). Beyond the limit: a runtime error on the line of the call with the earlier output kept / GetRootJson fails / the binary ends with status 1, a diagnostic, stdout unchanged and no file -- compared with the model in a few cases (the model needs 1.5 GB for one), by oracle in the others. Up to the limit: implementation only (200 MB of text), the oracle knows the length of the canonical indentation in closed form, the compact text, and asks the worker whether the text is exactly the canonical indentation. 150 ... 700 levels: the full text compared with the model. Every case counts as non-trivial"
	register(Family{Name: "marshal-indent-depth-limit", Prop: "C04", Rule: rule, Gen: jdGen})
	register(Family{Name: "marshal-indent-depth-limit", Prop: "C20", Rule: rule, Gen: jdGen})
}
