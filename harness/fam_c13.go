package main

// C13 — a program's meaning depends only on its tokens, not on layout,
// comments or quoting.
//
// Programs are generated as TOKEN SEQUENCES whose gaps are annotated (may a
// newline stand here? is this gap a statement separator?) and rendered in
// several layouts.  All layouts of one program must behave alike (Group) and
// parse to the same AST once positions are stripped (Oracle); every layout is
// also compared with the model.  The lexer families use `lex` / `pexpr`
// requests against the model.

import (
	"fmt"
	"math/rand"
	"strings"
)

// ---- token sequences -----------------------------------------------------

type c13Tok struct {
	s    string // text; for strings the raw content between the quotes
	kind byte   // w word (identifier, keyword, $name), n number, s string, r regex literal, o operator or punctuation
	dq   bool   // strings: written with double quotes in the canonical layout
	flip bool   // strings: the other quote may be used as well
	nl   bool   // a newline (or comment + newline) may follow this token
	sep  byte   // gap after the token: 0 ordinary, 'S' statement separator required (newline or ';'), 'O' optional separator
}

func (t c13Tok) text(flipQuotes bool) string {
	if t.kind != 's' {
		return t.s
	}
	dq := t.dq
	if flipQuotes && t.flip {
		dq = !dq
	}
	if dq {
		return `"` + t.s + `"`
	}
	return "'" + t.s + "'"
}

func c13WordByte(c byte) bool {
	return c == '_' || c >= 0x80 || (c >= '0' && c <= '9') || (c >= 'a' && c <= 'z') || (c >= 'A' && c <= 'Z')
}

var c13TwoChar = map[string]bool{"++": true, "+=": true, "--": true, "-=": true, "*=": true, "/=": true, "==": true, "=>": true, "!=": true, "!~": true, "<=": true, ">=": true, "&&": true, "||": true}

// c13CanAbut says that b may follow a without any separator: the lexer, which
// takes the longest operator and the longest run of word characters, still
// yields exactly a then b.
func c13CanAbut(a, b c13Tok) bool {
	if a.kind == 's' || a.kind == 'r' || b.kind == 's' {
		return true
	}
	at, bt := a.s, b.s
	last, first := at[len(at)-1], bt[0]
	if (c13WordByte(last) || at == "$") && c13WordByte(first) {
		return false
	}
	if a.kind == 'o' && len(at) == 1 && c13TwoChar[at+string(first)] {
		return false
	}
	if a.kind == 'o' && at == "." && first >= '0' && first <= '9' {
		return false
	}
	return true
}

// layouts
const (
	c13Canon = iota
	c13Tight
	c13Semis
	c13Blanks
	c13Comments
	c13Newlines
	c13Mixed
	c13Quotes
	c13NLayouts
)

var c13LayoutNames = []string{"canonical", "tight", "semicolons", "tabs-cr-blanks", "comments", "newlines", "mixed", "other-quotes"}

var c13CommentPool = []string{"# plain", "#", "# it's \"quoted\"", "# /re/ { } ; print 1", "# é 日本", "#\t# nested #", "# stray \x80\xfe bytes", "#!/usr/bin/jqawk", "# ' unbalanced", "# \\"}

var c13HBlank = []string{" ", "\t", "  ", " \t ", "\r", " \r ", "\t\t"}

// c13Render writes the token sequence in a layout and returns the text and the
// byte offset of every token.
func c13Render(toks []c13Tok, layout int, r *rand.Rand) (string, []int) {
	var sb strings.Builder
	offs := make([]int, len(toks))
	comment := func() string { return " " + pick(r, c13CommentPool) + "\n" }
	if layout == c13Comments || (layout == c13Mixed && chance(r, 0.5)) {
		sb.WriteString(pick(r, c13CommentPool) + "\n")
	}
	if layout == c13Blanks || layout == c13Newlines {
		sb.WriteString(pick(r, []string{"\n", " ", "\r\n\n", "\t"}))
	}
	for i, t := range toks {
		offs[i] = sb.Len()
		txt := t.text(layout == c13Quotes || (layout == c13Mixed && chance(r, 0.5)))
		if t.kind == 's' {
			offs[i]++ // a string token is positioned after its quote
		}
		sb.WriteString(txt)
		if i == len(toks)-1 {
			break
		}
		abut := c13CanAbut(t, toks[i+1])
		min := " "
		if abut {
			min = ""
		}
		var gap string
		switch t.sep {
		case 'S', 'O':
			opt := t.sep == 'O'
			switch layout {
			case c13Canon, c13Quotes:
				gap = "\n"
				if opt {
					gap = " "
				}
			case c13Tight:
				gap = ";"
				if opt {
					gap = min
				}
			case c13Semis:
				gap = " ; "
				if opt {
					gap = pick(r, []string{" ", ";", " ; "})
				}
			case c13Blanks:
				gap = pick(r, []string{"\n", "\r\n", " \n\t", "\t\r\n  "})
			case c13Comments:
				gap = comment()
			case c13Newlines:
				gap = pick(r, []string{"\n", "\n\n", "\n \n"})
			default:
				gap = pick(r, []string{";", "\n", ";" + comment(), ";\n", " ; ", comment(), "\r\n", "; \t"})
				if opt && chance(r, 0.4) {
					gap = min
				}
			}
		default:
			switch layout {
			case c13Canon, c13Semis, c13Quotes:
				gap = " "
			case c13Tight:
				gap = min
			case c13Blanks:
				gap = pick(r, c13HBlank)
			case c13Comments:
				gap = " "
				if t.nl {
					gap = comment()
				}
			case c13Newlines:
				gap = " "
				if t.nl {
					gap = pick(r, []string{"\n", "\n", "\r\n", "\n\t"})
				}
			default:
				choices := []string{min, " ", "\t", pick(r, c13HBlank)}
				if t.nl {
					choices = append(choices, "\n", comment(), "\r\n", " \n ")
				}
				gap = pick(r, choices)
			}
		}
		sb.WriteString(gap)
	}
	switch layout {
	case c13Comments, c13Mixed:
		sb.WriteString(pick(r, []string{"", " # trailing comment without a line end", "\n", " \t", "\n# last\n"}))
	case c13Blanks, c13Newlines:
		sb.WriteString(pick(r, []string{"", "\n", "\r\n", "\n\n \n"}))
	}
	return sb.String(), offs
}

// ---- program generator -------------------------------------------------------

type c13P struct {
	r      *rand.Rand
	t      []c13Tok
	inFn   bool
	inLoop bool
	inRule bool // pattern rule: next allowed, $ fields present
	fresh  int
	plain  bool // C12: no match (no '=>' anywhere)
	noCont bool // inside a while body: continue would skip the increment
}

func (p *c13P) add(kind byte, s string) { p.t = append(p.t, c13Tok{s: s, kind: kind, nl: true}) }
func (p *c13P) w(s string)              { p.add('w', s) }
func (p *c13P) o(ss ...string) {
	for _, s := range ss {
		p.add('o', s)
	}
}
func (p *c13P) noNL()        { p.t[len(p.t)-1].nl = false }
func (p *c13P) sepS()        { p.t[len(p.t)-1].sep = 'S' }
func (p *c13P) sepO()        { p.t[len(p.t)-1].sep = 'O' }
func (p *c13P) last() string { return p.t[len(p.t)-1].s }

var c13StrPool = []string{"a", "ab", "x y", "", "7", "# not a comment", "a;b", "{}", "//", "é日本", `tab\there`, `line\nbreak`, `back\\slash`, "1e3", "print", " lead", "a,b,,c", "%"}

func (p *c13P) str(content string) {
	t := c13Tok{s: content, kind: 's', nl: true, dq: chance(p.r, 0.5), flip: true}
	if strings.Contains(content, `"`) {
		t.dq, t.flip = false, false
	} else if strings.Contains(content, "'") {
		t.dq, t.flip = true, false
	}
	p.t = append(p.t, t)
}

var c13NumVars = []string{"n", "m", "total", "iffy", "nextval", "BEGINNER", "in2", "_x"}
var c13StrVars = []string{"s", "format", "printer", "nullable", "trueish"}

const c13Arr, c13Obj = "forall", "matcher"

var c13NumLits = []string{"0", "1", "2", "3", "7", "10", "2.5", "0.5", "007", "1.50", "100", "12"}

func (p *c13P) numAtom() {
	r := p.r
	switch r.Intn(10) {
	case 0, 1, 2, 3:
		p.add('n', pick(r, c13NumLits))
	case 4, 5, 6:
		p.w(pick(r, c13NumVars))
	case 7:
		if p.inRule {
			p.w("$")
			p.o(".")
			p.w("id")
		} else {
			p.w(c13Arr)
			p.o("[")
			p.add('n', pick(r, []string{"0", "1", "2"}))
			p.o("]")
		}
	case 8:
		p.w(c13Obj)
		p.o(".")
		p.w("k")
	default:
		p.w(c13Arr)
		p.o(".")
		p.w("length")
		p.o("(", ")")
	}
}

func (p *c13P) strAtom() {
	r := p.r
	switch r.Intn(8) {
	case 0, 1, 2, 3:
		p.str(pick(r, c13StrPool))
	case 4, 5:
		p.w(pick(r, c13StrVars))
	case 6:
		if p.inRule {
			p.w("$")
			p.o(".")
			p.w("name")
		} else {
			p.w(c13Obj)
			p.o(".")
			p.w("label")
		}
	default:
		p.w(c13Obj)
		p.o("[")
		p.str("label")
		p.o("]")
	}
}

// expr emits an expression of kind ty (n, s, b); nested operators are always
// parenthesised (precedence is C06's business).
func (p *c13P) expr(d int, ty byte) {
	r := p.r
	if d <= 0 || chance(r, 0.3) {
		switch ty {
		case 'n':
			p.numAtom()
		case 's':
			p.strAtom()
		default:
			p.w(pick(r, []string{"true", "false", "null"}))
		}
		return
	}
	d--
	paren := func(f func()) {
		p.o("(")
		f()
		p.o(")")
	}
	switch ty {
	case 'n':
		switch r.Intn(12) {
		case 0, 1, 2, 3:
			p.opnd(d, 'n')
			op := pick(r, []string{"+", "-", "*", "/", "%", "-", "+"})
			p.o(op)
			if op == "/" || op == "%" {
				p.add('n', pick(r, []string{"2", "3", "7", "4"}))
			} else {
				if chance(r, 0.25) {
					p.o(pick(r, []string{"-", "+"})) // a - -b, a + +b, a * -b
				}
				p.opnd(d, 'n')
			}
		case 4:
			p.o(pick(r, []string{"-", "+", "-"}))
			if chance(r, 0.3) {
				p.o(pick(r, []string{"-", "+"}))
			}
			p.opnd(d, 'n')
		case 5:
			if p.inFn {
				p.numAtom()
				return
			}
			p.w(pick(r, []string{"sq", "add"}))
			p.o("(")
			p.expr(d, 'n')
			p.o(",")
			p.expr(d, 'n')
			p.o(")")
		case 6:
			p.opnd(d, 's')
			p.o(".")
			p.w("length")
			p.o("(", ")")
		case 7:
			v := pick(r, c13NumVars)
			if chance(r, 0.5) {
				p.w(v)
				p.o(pick(r, []string{"++", "--"}))
				if chance(r, 0.6) {
					p.o(pick(r, []string{"+", "-"}))
					p.opnd(d, 'n')
				}
			} else {
				p.opnd(d, 'n')
				p.o(pick(r, []string{"+", "-"}))
				p.o(pick(r, []string{"++", "--"}))
				p.w(v)
			}
		case 8:
			p.add('n', pick(r, []string{"1", "2.5", "7", "2.50"}))
			p.o(".")
			p.w(pick(r, []string{"floor", "ceil", "round"}))
			p.o("(", ")")
		case 9:
			p.w("num")
			p.o("(")
			p.str(pick(r, []string{"12", "1e3", "0x10", "abc", "2.5"}))
			p.o(")")
		case 10:
			paren(func() { p.w(pick(r, c13NumVars)); p.o(pick(r, []string{"=", "+=", "-=", "*="})); p.expr(d, 'n') })
		default:
			p.numAtom()
		}
	case 's':
		switch r.Intn(8) {
		case 0, 1, 2:
			p.opnd(d, 's')
			p.o("+")
			p.opnd(d, pick(r, []byte{'n', 's', 's'}))
		case 3:
			p.opnd(d, 's')
			p.o(".")
			p.w(pick(r, []string{"upper", "lower"}))
			p.o("(", ")")
		case 4:
			p.str(pick(r, []string{"a,b,,c", "x y z", "k=v"}))
			p.o(".")
			p.w("split")
			p.o("(")
			p.str(pick(r, []string{",", " ", "="}))
			p.o(")", "[")
			p.add('n', pick(r, []string{"0", "1"}))
			p.o("]")
		case 5:
			p.w("json")
			p.o("(")
			p.expr(d, pick(r, []byte{'n', 's'}))
			p.o(")")
		case 6:
			if p.plain {
				p.strAtom()
				return
			}
			p.o("(")
			p.w("match")
			p.o("(")
			p.expr(d, 'n')
			p.o(")", "{")
			p.add('n', "1")
			p.o(",")
			p.add('n', "2")
			p.o("=>")
			p.str("low")
			p.o(",")
			p.w("other")
			p.o("=>")
			p.str("hi")
			p.o("+")
			p.w("other")
			p.o("}", ")")
		default:
			p.strAtom()
		}
	default:
		switch r.Intn(10) {
		case 0, 1, 2:
			t := pick(r, []byte{'n', 'n', 's'})
			p.opnd(d, t)
			p.o(pick(r, []string{"==", "!=", "<", "<=", ">", ">="}))
			if t == 'n' && chance(r, 0.3) {
				p.o("-") // a<-b, a==-b
			}
			p.opnd(d, t)
		case 3, 4:
			p.opnd(d, 's')
			p.o(pick(r, []string{"~", "!~"}))
			if chance(r, 0.6) {
				p.add('r', pick(r, []string{"/a/", "/^[a-z]+$/", "/x|y/", "/\\d+/", "/ /", "/[#;]/", "/a=/"}))
			} else {
				p.str(pick(r, []string{"a", "^x", "[0-9]", "b$"}))
			}
		case 5:
			p.o("!")
			if chance(r, 0.3) {
				p.o("!")
			}
			p.opnd(d, pick(r, []byte{'n', 's', 'b'}))
		case 6, 7:
			p.opnd(d, 'b')
			p.o(pick(r, []string{"&&", "||"}))
			if chance(r, 0.3) {
				p.o("!")
			}
			p.opnd(d, 'b')
		case 8:
			p.opnd(d, pick(r, []byte{'n', 's', 'b'}))
			p.w("is")
			p.w(pick(r, []string{"number", "string", "bool", "null", "function", "array", "unknown"}))
		default:
			p.w(pick(r, []string{"true", "false"}))
		}
	}
}

// opnd emits an operand: an atom, or a parenthesised expression.
func (p *c13P) opnd(d int, ty byte) {
	if d <= 0 || chance(p.r, 0.55) {
		p.expr(0, ty)
		return
	}
	p.o("(")
	p.expr(d, ty)
	p.o(")")
}

func (p *c13P) printStmt() {
	r := p.r
	p.w("print")
	p.noNL()
	n := 1 + r.Intn(3)
	for i := 0; i < n; i++ {
		if i > 0 {
			p.o(",")
			p.noNL()
		}
		p.expr(2, pick(r, []byte{'n', 's', 'b', 'n', 's'}))
	}
}

// simple emits a statement that needs a separator after it and that can be
// the body of an `if` before `else`.
func (p *c13P) simple() {
	r := p.r
	switch r.Intn(12) {
	case 0, 1, 2:
		p.printStmt()
	case 3, 4:
		p.w(pick(r, c13NumVars))
		p.o(pick(r, []string{"=", "=", "+=", "-=", "*=", "/="}))
		if p.last() == "/=" {
			p.add('n', pick(r, []string{"2", "4"}))
		} else {
			p.expr(2, 'n')
		}
	case 5:
		p.w(pick(r, c13StrVars))
		p.o(pick(r, []string{"=", "+="}))
		p.expr(2, 's')
	case 6:
		p.w(pick(r, c13NumVars))
		p.o(pick(r, []string{"++", "--"}))
	case 7:
		p.w(c13Arr)
		p.o(".")
		p.w("push")
		p.o("(")
		p.expr(1, 'n')
		p.o(")")
	case 8:
		p.w(c13Obj)
		if chance(r, 0.5) {
			p.o(".")
			p.w(pick(r, []string{"k", "fresh", "iffy"}))
		} else {
			p.o("[")
			p.str(pick(r, []string{"k", "x y", "in"}))
			p.o("]")
		}
		p.o("=")
		p.expr(2, 'n')
	case 9:
		p.w("printf")
		p.o("(")
		p.str(pick(r, []string{`%s|%v\n`, `%5s|%-4v|\n`, `[%s] %v\n`}))
		p.o(",")
		p.expr(1, 's')
		p.o(",")
		p.expr(1, pick(r, []byte{'n', 's', 'b'}))
		p.o(")")
	case 10:
		if p.plain {
			p.printStmt()
			return
		}
		p.w(pick(r, c13StrVars))
		p.o("=")
		p.o("{")
		p.w("k")
		p.o(":")
		p.expr(1, 'n')
		p.o(",")
		p.str("s t")
		p.o(":")
		p.expr(1, 's')
		p.o("}")
		p.o(".")
		p.w("k")
	default:
		p.w(c13Arr)
		p.o("[")
		p.add('n', pick(r, []string{"0", "1"}))
		p.o("]", "=")
		p.expr(2, 'n')
	}
}

func (p *c13P) counter() string {
	p.fresh++
	return fmt.Sprintf("%s%d", pick(p.r, []string{"i", "whiles", "fori", "j_"}), p.fresh)
}

// body emits the body of if / else / loop: a block or a simple statement;
// says whether it ended in '}'.
func (p *c13P) body(d int) bool {
	if chance(p.r, 0.6) {
		p.block(d, 1+p.r.Intn(3))
		return true
	}
	p.simple()
	return false
}

// stmt emits one statement; the result says that it ended in '}' (needs no
// separator and must not be followed by ';').
func (p *c13P) stmt(d int) bool {
	r := p.r
	k := r.Intn(20)
	if d <= 0 && k >= 10 {
		k = r.Intn(10)
	}
	switch {
	case k < 10:
		p.simple()
		return false
	case k < 13:
		p.w("if")
		p.o("(")
		p.expr(2, 'b')
		p.o(")")
		closed := p.body(d - 1)
		if chance(r, 0.5) {
			p.w("else")
			if chance(r, 0.2) {
				return p.stmtIfChain(d - 1)
			}
			closed = p.body(d - 1)
		}
		return closed
	case k == 13:
		c := p.counter()
		p.w(c)
		p.o("=")
		p.add('n', "0")
		p.sepS()
		p.w("while")
		p.o("(")
		p.w(c)
		p.o("<")
		p.add('n', pick(r, []string{"2", "3"}))
		p.o(")", "{")
		was, wasNC := p.inLoop, p.noCont
		p.inLoop, p.noCont = true, true
		p.stmts(d-1, r.Intn(2))
		if chance(r, 0.3) {
			p.w("if")
			p.o("(")
			p.expr(1, 'b')
			p.o(")")
			p.w("break")
			p.sepS()
		}
		p.inLoop, p.noCont = was, wasNC
		p.w(c)
		p.o("++")
		p.sepO()
		p.o("}")
		return true
	case k == 14:
		c := p.counter()
		p.w("for")
		p.o("(")
		p.w(c)
		p.o("=")
		p.add('n', "0")
		p.noNL()
		p.o(";")
		p.w(c)
		p.o("<")
		p.add('n', pick(r, []string{"2", "3"}))
		p.noNL()
		p.o(";")
		if chance(r, 0.5) {
			p.w(c)
			p.o("++")
		} else {
			p.w(c)
			p.o("+=")
			p.add('n', "1")
		}
		p.o(")")
		return p.loopBody(d - 1)
	case k == 15 || k == 16:
		p.w("for")
		p.o("(")
		v := pick(r, []string{"x", "item", "format"})
		p.w(v)
		if chance(r, 0.5) {
			p.o(",")
			p.w(pick(r, []string{"idx", "index2", "inner"}))
		}
		p.w("in")
		switch r.Intn(4) {
		case 0:
			p.w(c13Obj)
		case 1:
			p.str(pick(r, []string{"abc", "xy", "é"}))
		case 2:
			p.o("[")
			p.expr(1, 'n')
			p.o(",")
			p.expr(1, 's')
			p.o("]")
		default:
			if p.inRule {
				p.w("$")
				p.o(".")
				p.w("tags")
			} else {
				p.o("[")
				p.add('n', "4")
				p.o(",")
				p.add('n', "5")
				p.o("]")
			}
		}
		p.o(")")
		return p.loopBody(d - 1)
	case k == 17:
		if p.plain {
			p.simple()
			return false
		}
		// v = match (e) { ... } : the statement ends with the '}' of the match
		p.w(pick(r, c13StrVars))
		p.o("=")
		p.w("match")
		p.o("(")
		p.expr(1, pick(r, []byte{'n', 's'}))
		p.o(")", "{")
		p.add('n', pick(r, []string{"1", "2", "7"}))
		p.o(",")
		p.str(pick(r, []string{"a", "ab"}))
		p.o("=>")
		p.expr(1, 's')
		p.o(",")
		p.o("[")
		p.w("p")
		p.o(",")
		p.w("q")
		p.o("]", "=>")
		p.w("p")
		p.o("+")
		p.w("q")
		p.o(",")
		p.w("other")
		p.o("=>", "{")
		p.w("print")
		p.noNL()
		p.str("other")
		p.o(",")
		p.noNL()
		p.w("other")
		p.sepO()
		p.o("}")
		if chance(r, 0.5) {
			p.o(",")
		}
		p.o("}")
		return true
	case k == 18:
		p.block(d-1, 1+r.Intn(2))
		return true
	default:
		switch {
		case p.inLoop && chance(r, 0.5):
			p.w("if")
			p.o("(")
			p.expr(1, 'b')
			p.o(")")
			if p.noCont {
				p.w("break")
			} else {
				p.w(pick(r, []string{"break", "continue"}))
			}
			return false
		case p.inRule && !p.inFn && chance(r, 0.3):
			p.w("if")
			p.o("(")
			p.expr(1, 'b')
			p.o(")")
			p.w("next")
			return false
		case p.inFn && chance(r, 0.4):
			p.w("if")
			p.o("(")
			p.expr(1, 'b')
			p.o(")")
			p.w("return")
			p.noNL()
			if chance(r, 0.7) {
				p.expr(1, 'n')
			}
			return false
		default:
			if p.inFn {
				p.simple()
				return false
			}
			p.w(pick(r, []string{"sq", "add", "show"}))
			p.o("(")
			p.expr(1, 'n')
			p.o(",")
			p.expr(1, 'n')
			p.o(")")
			return false
		}
	}
}

func (p *c13P) stmtIfChain(d int) bool {
	p.w("if")
	p.o("(")
	p.expr(1, 'b')
	p.o(")")
	return p.body(d)
}

func (p *c13P) loopBody(d int) bool {
	was, wasNC := p.inLoop, p.noCont
	p.inLoop, p.noCont = true, false
	closed := p.body(d)
	p.inLoop, p.noCont = was, wasNC
	return closed
}

// stmts emits n statements, each followed by what it needs.
func (p *c13P) stmts(d, n int) {
	for i := 0; i < n; i++ {
		if !p.stmt(d) {
			p.sepS()
		}
	}
}

func (p *c13P) block(d, n int) {
	p.o("{")
	// sometimes a bare print / return stands right before the closing brace
	tail := ""
	if chance(p.r, 0.1) {
		if p.inFn {
			tail = "return"
		} else if p.inRule {
			tail = "print"
		}
	}
	for i := 0; i < n; i++ {
		closed := p.stmt(d)
		if !closed {
			if i == n-1 && tail == "" {
				p.sepO()
			} else {
				p.sepS()
			}
		}
	}
	if tail != "" {
		p.w(tail)
		p.noNL()
		p.sepO()
	}
	p.o("}")
}

func (p *c13P) function(name string) {
	r := p.r
	p.w("function")
	p.w(name)
	p.o("(")
	p.w("a")
	p.o(",")
	p.w("b")
	p.o(")", "{")
	p.inFn = true
	switch name {
	case "sq":
		p.stmts(1, r.Intn(2))
		p.w("return")
		p.noNL()
		p.w("a")
		p.o("*")
		p.w("a")
		p.o("+")
		p.w("b")
		p.sepO()
	case "add":
		p.w("if")
		p.o("(")
		p.w("a")
		p.o("<=")
		p.add('n', "0")
		p.o(")")
		p.w("return")
		p.noNL()
		p.w("b")
		p.sepS()
		p.w("return")
		p.noNL()
		p.w("add")
		p.o("(")
		p.w("a")
		p.o("-")
		p.add('n', "1")
		p.o(",")
		p.w("b")
		p.o("+")
		p.add('n', "1")
		p.o(")")
		p.sepO()
	default: // show: prints, returns nothing
		p.w("print")
		p.noNL()
		p.str("show")
		p.o(",")
		p.noNL()
		p.w("a")
		p.o(",")
		p.noNL()
		p.w("b")
		p.sepS()
		p.stmts(1, r.Intn(2))
		if chance(r, 0.5) {
			p.w("return")
			p.noNL()
			p.sepO()
		}
	}
	p.inFn = false
	p.o("}")
}

func (p *c13P) initVars() {
	r := p.r
	for i, v := range c13NumVars {
		p.w(v)
		p.o("=")
		p.add('n', pick(r, []string{"1", "2", "3", "5", "2.5", "10"}))
		_ = i
		p.sepS()
	}
	for _, v := range c13StrVars {
		p.w(v)
		p.o("=")
		p.str(pick(r, []string{"ab", "x", "hello world", "7"}))
		p.sepS()
	}
	p.w(c13Arr)
	p.o("=", "[")
	p.add('n', "4")
	p.o(",")
	p.add('n', "5")
	p.o(",")
	p.add('n', "6")
	p.o("]")
	p.sepS()
	p.w(c13Obj)
	p.o("=", "{")
	p.w("k")
	p.o(":")
	p.add('n', "3")
	p.o(",")
	p.str("label")
	p.o(":")
	p.str("lbl")
	p.o("}")
}

const c13Input = `[{"id": 1, "name": "ann", "tags": ["a", "b"]}, {"id": 2, "name": "bob x", "tags": []}, {"id": 3.5, "name": "", "tags": ["z"]}]`

// c13Program generates a whole program as a token sequence.
func c13Program(r *rand.Rand, plain bool) []c13Tok {
	p := &c13P{r: r, plain: plain}
	fnFirst := chance(r, 0.5)
	fns := func() {
		for _, f := range []string{"sq", "add", "show"} {
			p.function(f)
		}
	}
	if fnFirst {
		fns()
	}
	p.w("BEGIN")
	p.o("{")
	p.initVars()
	p.sepS()
	p.stmts(2, 1+r.Intn(4))
	if p.t[len(p.t)-1].sep == 'S' {
		if p.t[len(p.t)-1].sep == 'S' {
			p.t[len(p.t)-1].sep = 'O'
		}
	}
	p.o("}")
	nr := r.Intn(3)
	for i := 0; i < nr; i++ {
		p.inRule = true
		if chance(r, 0.6) {
			// pattern
			switch r.Intn(3) {
			case 0:
				p.w("$")
				p.o(".")
				p.w("id")
				p.o(pick(r, []string{">", "<=", "!="}))
				p.add('n', pick(r, []string{"1", "2"}))
			case 1:
				p.w("$")
				p.o(".")
				p.w("name")
				p.o("~")
				p.add('r', pick(r, []string{"/n/", "/^b/", "/ /"}))
			default:
				p.w("$index")
				p.o("<")
				p.add('n', "2")
			}
		}
		p.block(2, 1+r.Intn(3))
		p.inRule = false
	}
	if !fnFirst {
		fns()
	}
	if chance(r, 0.25) {
		for _, kw := range []string{"BEGINFILE", "ENDFILE"} {
			p.w(kw)
			p.o("{")
			p.w("print")
			p.noNL()
			p.str(kw)
			p.o(",")
			p.noNL()
			p.w("$file")
			p.o(",")
			p.noNL()
			p.w("$")
			p.o(".")
			p.w("length")
			p.o("(", ")")
			p.sepS()
			p.stmts(1, 1)
			if p.t[len(p.t)-1].sep == 'S' {
				p.t[len(p.t)-1].sep = 'O'
			}
			p.o("}")
		}
	}
	if chance(r, 0.6) {
		p.w("END")
		p.o("{")
		p.stmts(1, 1+r.Intn(2))
		if p.t[len(p.t)-1].sep == 'S' {
			if p.t[len(p.t)-1].sep == 'S' {
				p.t[len(p.t)-1].sep = 'O'
			}
		}
		p.o("}")
	}
	if nr > 0 && chance(r, 0.2) {
		// a rule without a body goes last
		p.w("$")
		p.o(".")
		p.w("id")
		p.o("==")
		p.add('n', "2")
	}
	return p.t
}

func c13Canonical(toks []c13Tok) string {
	s, _ := c13Render(toks, c13Canon, nil)
	return s
}

var c13RunFields = []string{"class", "out"}

// ---- lexer material ----------------------------------------------------------

var c13Keywords = []string{"BEGIN", "END", "BEGINFILE", "ENDFILE", "print", "function", "return", "if", "else", "for", "while", "in", "match", "true", "false", "break", "continue", "next", "exit", "null", "is"}

// every operator and punctuation token of the language
var c13OpToks = []string{"+", "-", "*", "/", "%", "=", "==", "!=", "<", "<=", ">", ">=", "~", "!~", "&&", "||", "!", "++", "--", "+=", "-=", "*=", "/=", "=>", ".", ",", ":", ";", "(", ")", "[", "]", "{", "}", "$"}

func c13LexCase(text, what string) Case {
	return Case{Req: "lex " + hxs(text), Fields: []string{"toks"}, Meta: map[string]string{"text": text, "probe": what},
		NonTrivial: func(i Resp) bool { return i["toks"] != "" }}
}

func c13PexprCase(text, what string) Case {
	return Case{Req: "pexpr " + hxs(text), Fields: c06ParseFields, Meta: map[string]string{"expression": text, "probe": what},
		NonTrivial: func(i Resp) bool { return i["class"] == "ok" || i["class"] == "syntax" }}
}

func c13RunCase(prog, what string) Case {
	return Case{Req: RunReq(prog, nil, nil, false), Fields: []string{"class", "out", "line", "col", "src"}, Meta: metaProg(prog, "probe", what),
		NonTrivial: func(i Resp) bool { return i["class"] != "" }}
}

func init() {
	register(Family{
		Name: "layouts", Prop: "C13",
		Rule: "random programs (functions, BEGIN/pattern/END rules, all statement kinds, keyword-affixed names, strings holding # ; quotes and escapes) as annotated token sequences, each rendered in 8 layouts (canonical, tight, ';' separators, tabs/CR/blanks, comment + newline at every permitted gap, newline at every permitted gap, random mix, other quote style): run vs model; all layouts must print the same (group) and parse to the same AST without positions (oracle on `parse`)",
		Gen: func(r *rand.Rand, tier string, emit func(Case)) {
			n := tierN(tier, 600, 6000)
			files := []File{{Name: "in.json", Data: []byte(c13Input)}}
			for i := 0; i < n; i++ {
				toks := c13Program(r, false)
				id := fmt.Sprintf("p%d", i)
				sib := &c06Siblings{}
				canon := c13Canonical(toks)
				for l := 0; l < c13NLayouts; l++ {
					text, _ := c13Render(toks, l, r)
					meta := metaProg(text, "layout", c13LayoutNames[l], "canonical", canon, "tokens", fmt.Sprint(len(toks)))
					emit(Case{ID: id + "/run/" + c13LayoutNames[l], Req: RunReq(text, nil, files, false), Fields: c13RunFields, Meta: meta,
						Group: id, GroupFields: c13RunFields})
					emit(Case{ID: id + "/parse/" + c13LayoutNames[l], Req: "parse " + hxs(text), Fields: c06ParseFields, Meta: meta,
						Oracle: sib.oracle(c13LayoutNames[l]), NonTrivial: c06DumpNT})
				}
			}
		},
	})
	register(Family{
		Name: "layout-forbidden-gaps", Prop: "C13",
		Rule: "the same programs with ONE newline put where the property forbids it (after print / return, after a print-list comma, before a statement ';') or a ';' after a closing brace: behaviour may change, so only implementation vs model (class, out, position)",
		Gen: func(r *rand.Rand, tier string, emit func(Case)) {
			n := tierN(tier, 400, 5000)
			files := []File{{Name: "in.json", Data: []byte(c13Input)}}
			for i := 0; i < n; i++ {
				toks := c13Program(r, false)
				// gaps where a newline is forbidden
				var cand []int
				for j, t := range toks[:len(toks)-1] {
					if !t.nl || t.sep != 0 || t.s == "}" {
						cand = append(cand, j)
					}
				}
				if len(cand) == 0 {
					continue
				}
				j := pick(r, cand)
				var sb strings.Builder
				what := ""
				for k, t := range toks {
					sb.WriteString(t.text(false))
					if k == len(toks)-1 {
						break
					}
					switch {
					case k == j && t.s == "}" && t.sep == 0:
						sb.WriteString(" ; ")
						what = "';' after '}'"
					case k == j && t.sep != 0:
						sb.WriteString("\n; ")
						what = "newline before ';'"
					case k == j:
						sb.WriteString("\n")
						what = "newline after " + t.s
					case t.sep == 'S':
						sb.WriteString("\n")
					default:
						sb.WriteString(" ")
					}
				}
				prog := sb.String()
				emit(Case{Req: RunReq(prog, nil, files, false), Fields: []string{"class", "out", "line", "col", "src"}, Meta: metaProg(prog, "violation", what),
					NonTrivial: func(i Resp) bool { return i["class"] != "" }})
			}
		},
	})
	register(Family{
		Name: "lex-bytes", Prop: "C13",
		Rule: "all 256 byte values in every position class (alone, start of token, inside an identifier, after a number, after a fraction dot, inside either string, inside a comment, after '$', after every operator character, inside a regex literal via pexpr): token lists vs model",
		Gen: func(r *rand.Rand, tier string, emit func(Case)) {
			for b := 0; b < 256; b++ {
				c := string([]byte{byte(b)})
				for _, t := range []struct{ text, what string }{
					{c, "alone"}, {"x " + c + " y", "start of token"}, {c + "x", "start of text"}, {"x" + c, "end of text"},
					{"ab" + c + "cd", "inside identifier"}, {"12" + c + "3", "inside number"}, {"12" + c, "after number"}, {"1." + c, "after number and dot"}, {"1.5" + c + "2", "after fraction"},
					{"'a" + c + "b' x", "inside single-quoted string"}, {`"a` + c + `b" x`, "inside double-quoted string"}, {"x # a" + c + "b\ny", "inside comment"}, {"x #" + c, "comment at end of text"},
					{"$" + c + "x", "after $"}, {"$a" + c, "after $name"}, {c + c, "doubled"}, {"x\n" + c + "\ny", "alone on a line"}, {"if" + c + "x", "after keyword"}, {"x " + c + "= y", "before ="},
				} {
					emit(c13LexCase(t.text, fmt.Sprintf("byte 0x%02x %s", b, t.what)))
				}
				for _, op := range []string{"+", "-", "*", "/", "=", "!", "<", ">", "&", "|", ".", "~", "%", "&&", "||", "++", "--", "==", "<=", "=>"} {
					emit(c13LexCase("a"+op+c+"b", fmt.Sprintf("byte 0x%02x after operator %s", b, op)))
				}
				emit(c13PexprCase("x ~ /a"+c+"b/", fmt.Sprintf("byte 0x%02x inside regex literal", b)))
				emit(c13PexprCase("/"+c+"/", fmt.Sprintf("byte 0x%02x as regex literal", b)))
				emit(c13PexprCase("a "+c+" b", fmt.Sprintf("byte 0x%02x between operands", b)))
			}
		},
	})
	register(Family{
		Name: "lex-words-numbers", Prop: "C13",
		Rule: "identifiers with a keyword as prefix / suffix / case variant / after '$'; every string of length <= 4 over {1 0 . e - + x _} as a numeric spelling (lex, and `print <s>` run for length <= 3); the listed spellings; programs using keyword-affixed names as variables",
		Gen: func(r *rand.Rand, tier string, emit func(Case)) {
			for _, kw := range c13Keywords {
				for _, w := range []string{kw, kw + "x", "x" + kw, kw + "_", "_" + kw, kw + "1", "1" + kw, kw + kw, strings.ToUpper(kw), strings.ToLower(kw), strings.ToUpper(kw[:1]) + strings.ToLower(kw[1:]), "$" + kw, "$" + kw + "2", kw + "$", kw + "\xc3\xaa", "\xc3\xaa" + kw, kw + ".x", kw + "(", kw + " " + kw, kw + "\t", kw + "\r\n", kw + "#c", kw + "é"} {
					emit(c13LexCase(w, "keyword affix "+kw))
					prog := "BEGIN { " + w + " = 5; print " + w + " }"
					vc := c13RunCase(prog, "keyword-affixed name as variable")
					if c13PlainWord(w) && !c12IsKeyword(w) {
						// keywords are recognised only as whole words: this is an ordinary name
						vc.Oracle = func(i Resp) string {
							if i["class"] != "ok" || string(i.Bytes("out")) != "5\n" {
								return "a name that merely contains a keyword is not usable as a variable: " + i.String()
							}
							return ""
						}
					}
					emit(vc)
				}
			}
			for _, w := range []string{"iffy", "format", "BEGINNER", "nextval", "$index2", "$index", "$file", "$", "$$", "$ x", "$1", "$_", "ê", "naõ", "\xc0\xc9", "x\xd7y", "x\xf7y", "\xaa", "\xb5", "\xba", "\xb2", "a\xb9", "é", "日本", "🙂", "_", "__x", "x9_", "9x", "9_", "x.y", "x..y", "Ünï"} {
				emit(c13LexCase(w, "word"))
				emit(c13RunCase("BEGIN { "+w+" = 5; print "+w+" }", "word as variable"))
			}
			alpha := []string{"1", "0", ".", "e", "-", "+", "x", "_"}
			var rec func(prefix string, d int)
			rec = func(prefix string, d int) {
				if prefix != "" {
					emit(c13LexCase(prefix, "numeric spelling"))
					if len(prefix) <= 3 {
						emit(c13RunCase("BEGIN { x = 4; e = 2; print "+prefix+" }", "numeric spelling printed"))
					}
				}
				if d == 0 {
					return
				}
				for _, a := range alpha {
					rec(prefix+a, d-1)
				}
			}
			rec("", 4)
			for _, s := range []string{"1", "1.5", "1.", ".5", "1.2.3", "1e5", "1E5", "1e-5", "1-1", "3-1", "3 -1", "3- 1", "3 - 1", "1.floor()", "1.5.floor()", "1..floor()", "007", "1..2", "0x10", "1_000", "1.5e3", "00.50", "9007199254740993", "123456789012345678901234567890", "0.1+0.2", "1.e", "1.x", "1 .5", "1. 5", "-1", "- 1", "--1", "+1", "1+", "1++", "1--1", "1- -1", "2.5.ceil()", "12.round()", "1.2.round()", "1 . floor ( )", "1\t.floor()", "4.floor", "7.floor().floor()"} {
				emit(c13LexCase(s, "numeric spelling (listed)"))
				emit(c13PexprCase(s, "numeric spelling (listed)"))
				emit(c13RunCase("BEGIN { print "+s+" }", "numeric spelling printed"))
				emit(c13RunCase("BEGIN { x = "+s+"\nprint x, x is number }", "numeric spelling assigned"))
			}
		},
	})
	register(Family{
		Name: "lex-operator-adjacency", Prop: "C13",
		Rule: "every ordered pair of operator / punctuation tokens written without a space between two operands (a<op1><op2>b), and with one space: lex, pexpr and run vs model; plus the listed combinations (a+++b, a---b, a<=-b, a==-b, a!~b, a=~b, a=>b, x=/re/, a/b/c) and regex literals in operand vs operator position",
		Gen: func(r *rand.Rand, tier string, emit func(Case)) {
			for _, o1 := range c13OpToks {
				for _, o2 := range c13OpToks {
					for _, mid := range []string{"", " "} {
						t := "a" + o1 + mid + o2 + "b"
						emit(c13LexCase(t, "operator pair"))
						emit(c13PexprCase(t, "operator pair"))
						emit(c13RunCase("BEGIN { a = 5; b = 2; r = "+t+"\nprint r, a, b }", "operator pair"))
					}
				}
			}
			for _, t := range []string{"a+++b", "a---b", "a+++++b", "a++ + ++b", "a<=-b", "a==-b", "a!~b", "a=~b", "a=>b", "a= >b", "a = = b", "a ! = b", "a < = b", "a / = b", "a + = b", "a & & b", "a&b", "a|b", "a|||b", "a&&&b", "a!b", "a!!b", "a!=!b", "a!~!b", "a~!b", "a=!b", "a==!b", "a<-b", "a>-b", "a>=-b", "a*-b", "a/-b", "a%-b", "a- -b", "a--b", "a-- b", "a --b", "a -- b", "a+ +b", "a++b", "a ++b",
				"x=/re/", "x = /re/", "x=/=re/", "x = /=re/", "/=a/", "/ =a/", "a/b/c", "a / b / c", "a /b/ c", "a/ b /c", "x ~ /b/", "x~/b/", "x !~ /b/", "x!~/b/", "[/a/]", "[/a/, /b/]", "f(/a/)", "f(a, /b/)", "(/a/)", "!/a/", "-/a/", "/a/ ~ 'a'", "/a/.length", "a / /b/", "a ~ /b/ / 2", "a ~ /b/ / c / d", "/a/ / /b/", "/a//2", "/a/ /2/ 3", "//", "/ /", "///", "/a", "a/", "a//b", "x = /a/ == /a/", "{k: /a/}", "a[/b/]", "a./b/", "/a\n/", "/a#b/", "/a'b/", "/a\"b/", "/[/]/", "/a\\/b/", "x ~ /a/ && y ~ /b/", "x ~ /a/ || /b/"} {
				emit(c13LexCase(t, "listed combination"))
				emit(c13PexprCase(t, "listed combination"))
				emit(c13RunCase("function f(v, w) { return v }\nBEGIN { a = 12; b = 3; c = 2; d = 4; x = 'abc'; y = 'b'; r = "+t+"\nprint r, a, b, c, x }", "listed combination"))
				emit(c13RunCase("function f(v, w) { return v }\nBEGIN { a = 12; b = 3; c = 2; d = 4; x = 'abc'; y = 'b'; print "+t+" }", "listed combination in print"))
			}
		},
	})
	register(Family{
		Name: "string-literals", Prop: "C13",
		Rule: "a backslash followed by each of the 256 bytes (and at the end) in single- and double-quoted literals, evaluated (print, length, concatenation) and unevaluated (object key, member name); either quote around contents holding the other quote, newlines, '#', ';'",
		Gen: func(r *rand.Rand, tier string, emit func(Case)) {
			for b := 0; b < 256; b++ {
				c := string([]byte{byte(b)})
				for _, q := range []string{"'", `"`} {
					if c == q {
						continue
					}
					lit := q + `a\` + c + `b` + q
					ec := c13RunCase("BEGIN { print 'before'; s = "+lit+"; print s, s.length() }", fmt.Sprintf("escape 0x%02x evaluated", b))
					want := "runtime"
					if c == "n" || c == "t" || c == "\\" {
						want = "ok"
					}
					ec.Oracle = func(i Resp) string {
						if i["class"] != want {
							return fmt.Sprintf("\\n \\t \\\\ are the only escapes and anything else is an error when evaluated: expected %s, got %s", want, i.String())
						}
						if want == "ok" && !strings.HasSuffix(string(i.Bytes("out")), "b 3\n") {
							return "an escape must denote one character: " + i.String()
						}
						return ""
					}
					emit(ec)
					emit(c13RunCase("BEGIN { o = {"+lit+": 1}; for (k in o) print k, k.length() }", fmt.Sprintf("escape 0x%02x in object key (raw)", b)))
					emit(c13LexCase(lit+" x", fmt.Sprintf("escape 0x%02x lexed", b)))
				}
			}
			for _, body := range []string{`\`, `a\`, `\\`, `\\\`, `\n`, `\t`, `\\n`, `\q`, `\"`, `\'`, `\0`, `\x41`, `A`, `\\\\`, `a\nb\tc\\d`, `\ `, "\\\n", "a\nb", "a\r\nb", "#", "a # b", ";", "a;b", "}", "/*", "//", "a'b", `a"b`, "é", "\x80", "\xff\xfe", "\x00", ""} {
				for _, q := range []string{"'", `"`} {
					if strings.Contains(body, q) {
						continue
					}
					lit := q + body + q
					emit(c13RunCase("BEGIN { print 'before'\ns = "+lit+"\nprint s, s.length(), s + "+lit+" }", "string body"))
					qc := c13RunCase("BEGIN { print "+lit+" == "+c13OtherQuote(lit)+", ("+lit+" + 'x').length() == ("+c13OtherQuote(lit)+" + 'x').length() }", "either quote")
					qc.Oracle = func(i Resp) string {
						if i["class"] == "ok" && string(i.Bytes("out")) != "true true\n" {
							return "single- and double-quoted literals with the same contents differ: " + i.String()
						}
						return ""
					}
					emit(qc)
					emit(c13RunCase("BEGIN { o = {"+lit+": 1, k: "+lit+"}; print o }", "string as object key and value"))
					emit(c13LexCase("x = "+lit+" # c", "string body lexed"))
				}
			}
		},
	})
	register(Family{
		Name: "statement-start-continuation", Prop: "C13",
		Rule: "two statements where the second begins with a token that can also continue an expression ( ( [ + - ++ -- / ): written with ';' and with a newline, implementation vs model only (a newline does not end an expression that the next token continues, so the two forms are different token sequences to the parser; recorded, not grouped)",
		Gen: func(r *rand.Rand, tier string, emit func(Case)) {
			firsts := []string{"x = 1", "x = a", "print x", "print", "x++", "f(1)", "x = [1]", "x = 'a'", "return", "x = match (1) { 1 => 2 }", "if (1) x = 2", "x = {k: 1}"}
			seconds := []string{"(a)", "(a) = 2", "[a]", "[0].length()", "+a", "-a", "++a", "--a", "/a/", "/a/ ~ 'a'", ".5", ".k", "y = 2", "{ y = 2 }", "print y", "is number", "in a", "!a", "~ a", "= 3", "+= 3", ", a", ": a"}
			for _, f := range firsts {
				for _, s := range seconds {
					for _, sep := range []string{"\n", "; ", " "} {
						body := f + sep + s
						prog := "function f(v) { print 'f', v; return v }\nfunction g() { " + body + "\nprint x, a, y }\nBEGIN { a = 3; g() }"
						emit(c13RunCase(prog, "second statement starts with a continuation token"))
					}
				}
			}
		},
	})
}

// c13PlainWord: ASCII letters, digits and underscores, not starting with a digit.
func c13PlainWord(w string) bool {
	if w == "" || (w[0] >= '0' && w[0] <= '9') {
		return false
	}
	for i := 0; i < len(w); i++ {
		if w[i] >= 0x80 || !c13WordByte(w[i]) {
			return false
		}
	}
	return true
}

func c13OtherQuote(lit string) string {
	if lit[0] == '\'' {
		return `"` + lit[1:len(lit)-1] + `"`
	}
	return "'" + lit[1:len(lit)-1] + "'"
}

// ---------------------------------------------------------------------------------------
// literal-reevaluation: a literal denotes exactly its characters EVERY TIME it is evaluated.
// A literal (strings in either quote with and without escapes, numbers, regex, true / false /
// null, array and object literals, nested) is handed to something that can be MODIFIED -- the
// identifier of a match pattern (which binds the subject's own cell), the parts of an array
// pattern, a for-in item variable, a parameter (also two calls down), a variable, an array
// element, an object member, the value a function returns -- it is printed, modified (assigned,
// `+=`, `++`, pushed to, popped, an element or member stored), printed again, and the whole is
// evaluated three times: in a loop, once per record, in a recursive function, by three calls
// of one function. Every round prints a separator first. Oracle: the rounds print exactly the
// same text (what an earlier round did to its binding never shows in a later one); compared
// with the model (class, out).
// ---------------------------------------------------------------------------------------

type c13Lit struct {
	text string
	ty   string // string number other array object
	n    int    // arrays: number of items
}

var c13ReLits = []c13Lit{
	{`"a"`, "string", 0}, {`'n='`, "string", 0}, {`""`, "string", 0}, {`''`, "string", 0}, {`"it's"`, "string", 0}, {`'say "hi"'`, "string", 0}, {`"tab\there"`, "string", 0}, {`'line\nbreak'`, "string", 0},
	{`"back\\slash"`, "string", 0}, {`"é日本"`, "string", 0}, {`"# not a comment"`, "string", 0}, {`'7'`, "string", 0}, {`"a b c"`, "string", 0},
	{`0`, "number", 0}, {`7`, "number", 0}, {`2.5`, "number", 0}, {`007`, "number", 0}, {`100`, "number", 0},
	{`true`, "other", 0}, {`false`, "other", 0}, {`null`, "other", 0}, {`/re/`, "other", 0}, {`/a b/`, "other", 0},
	{`[1, "x"]`, "array", 2}, {`["a", 'b']`, "array", 2}, {`[]`, "array", 0}, {`[[1], {a: "s"}]`, "array", 2}, {`["only"]`, "array", 1}, {`[3, 1, 2]`, "array", 3}, {`[null, true]`, "array", 2}, {`['q', ["in", "ner"]]`, "array", 2},
	{`{a: "v"}`, "object", 0}, {`{}`, "object", 0}, {`{"k": [1], a: 'w'}`, "object", 0}, {`{a: {a: "deep"}}`, "object", 0},
}

// c13Mods: statements that modify the binding v of a value of type ty
func c13Mods(ty string, n int) []string {
	switch ty {
	case "string":
		return []string{`v = v + "!"`, `v += "!"`, `v = v + v`, `v = 0`, `v = v.upper() + "?"`}
	case "number":
		return []string{`v++`, `v += 1`, `v = v * 2`, `--v`, `v -= 0.5`, `v = "s"`, `++v`, `v /= 4`}
	case "other":
		return []string{`v = 1`, `v = "x"`, `v = [v]`, `v = null`}
	case "array":
		ms := []string{`v.push(9)`, `v.push("!")`, `v = 0`, `v[0] = "z"`, `v.push(v.length())`}
		if n > 0 {
			ms = append(ms, `v.pop()`, `v.popfirst()`, `v.sort()`, `v[0] = [v[0]]`)
		}
		return ms
	default:
		return []string{`v.a = "z"`, `v.added = 1`, `v = 0`, `v.a = [v.a]`, `v["k"] = "!"`}
	}
}

type c13ReUse struct {
	name  string
	funcs string // function definitions the use needs; «L» = the literal, «M» = the modification (of v)
	stmt  string // the statements of one round
	tys   string // types it applies to ("" = all)
}

var c13ReUses = []c13ReUse{
	{"match identifier binds the literal", "", "match («L») { v => { print v; «M»; print v } }\n", ""},
	{"match identifier, second case", "", "match («L») { 123456 => 0, v => { print v; «M»; print v } }\n", ""},
	{"match identifier in a called function", "function use() { match («L») { v => { print v; «M»; print v } }\n }\n", "use()\n", ""},
	{"array pattern binds the items", "", "match («L») { [v, w] => { print v, w; «M»; w = v; print v, w }, [v] => { print v; «M»; print v }, v => { print \"whole\", v } }\n", "array"},
	{"for-in item variable", "", "for (v in «L») { print v; «M»; print v }\n", "string array object"},
	{"for-in item and index variable", "", "for (v, k in «L») { print k, v; «M»; k = k + \"!\"; print k, v }\n", "string array object"},
	{"for-in over the literal, the iterable's items modified through a match", "", "for (it in «L») { match (it) { v => { print v; «M»; print v } }\n }\n", "array"},
	{"parameter", "function use(v) { print v; «M»; print v; return v }\n", "print use(«L»)\n", ""},
	{"parameter two calls down", "function outer(a) { return inner(a) }\nfunction inner(v) { print v; «M»; print v; return v }\n", "print outer(«L»)\n", ""},
	{"variable assigned the literal", "", "v = «L»; print v; «M»; print v\n", ""},
	{"array element", "", "arr = [«L», «L»]; match (arr[0]) { v => { print v; «M»; print v } }\n print arr\n", ""},
	{"object member", "", "o = {m: «L»}; match (o.m) { v => { print v; «M»; print v } }\n print o\n", ""},
	{"returned by a function", "function mk() { return «L» }\n", "match (mk()) { v => { print v; «M»; print v } }\n v = mk(); print v; «M»; print v\n", ""},
	{"the literal twice in one statement", "", "match («L») { v => { «M»; print v, «L» } }\n", ""},
	{"print argument after a modified twin", "", "v = «L»; «M»; print v, «L», [«L»]\n", ""},
}

var c13ReReps = []struct{ name, prog string }{
	{"for loop", "«F»BEGIN { for (i = 0; i < 3; i++) { print \"--\"\n «S» }\n}\n"},
	{"while loop", "«F»BEGIN { i = 0\n while (i < 3) { i++; print \"--\"\n «S» }\n}\n"},
	{"once per record", "«F»{ print \"--\"\n «S» }\n"},
	{"recursive function", "«F»function rec(left) { if (left == 0) return 0\n print \"--\"\n «S» return rec(left - 1) }\nBEGIN { rec(3) }\n"},
	{"three calls of one function", "«F»function once() { print \"--\"\n «S» }\nBEGIN { once(); once(); once() }\n"},
	{"BEGIN, a record and END", "«F»function once() { print \"--\"\n «S» }\nBEGIN { once() }\n$ == 2 { once() }\nEND { once() }\n"},
}

func c13LiteralReevaluation(r *rand.Rand, tier string, emit func(Case)) {
	files := []File{{Name: "in.json", Data: []byte("[1, 2, 3]")}}
	for _, lit := range c13ReLits {
		for _, use := range c13ReUses {
			if use.tys != "" && !strings.Contains(use.tys, lit.ty) {
				continue
			}
			mods := c13Mods(lit.ty, lit.n)
			for ri, rep := range c13ReReps {
				var chosen []string
				if tier == "thorough" {
					chosen = mods
				} else {
					chosen = []string{mods[(ri+r.Intn(len(mods)))%len(mods)]}
					if chance(r, 0.3) {
						chosen = append(chosen, pick(r, mods))
					}
				}
				for _, mod := range chosen {
					fill := func(s string) string {
						return strings.ReplaceAll(strings.ReplaceAll(s, "«L»", lit.text), "«M»", mod)
					}
					prog := strings.ReplaceAll(strings.ReplaceAll(rep.prog, "«F»", fill(use.funcs)), "«S»", fill(use.stmt))
					emit(Case{Req: RunReq(prog, nil, files, false), Fields: []string{"class", "out", "line", "col", "src"},
						Meta:       metaProg(prog, "literal", lit.text, "handed to", use.name, "modification", mod, "evaluated again by", rep.name, "row", lit.ty+" / "+use.name, "col", rep.name),
						NonTrivial: func(i Resp) bool { return i["class"] == "ok" && i["out"] != "-" },
						Oracle: func(i Resp) string {
							if i["class"] == "syntax" {
								return "the generated program does not parse: " + i.String()
							}
							if i["class"] != "ok" {
								return "" // the modification fails for this value (compared with the model)
							}
							rounds := strings.Split(string(i.Bytes("out")), "--\n")
							if len(rounds) != 4 || rounds[0] != "" {
								return fmt.Sprintf("expected three rounds, each starting with the separator line: %q", i.Bytes("out"))
							}
							for k := 2; k <= 3; k++ {
								if rounds[k] != rounds[1] {
									return fmt.Sprintf("C13: the literal %s is evaluated three times, handed to %s and modified (%s) each time: round 1 prints %q, round %d prints %q", lit.text, use.name, mod, rounds[1], k, rounds[k])
								}
							}
							return ""
						}})
				}
			}
		}
	}
}

func init() {
	register(Family{
		Name: "literal-reevaluation", Prop: "C13",
		Rule: "35 literals (strings in either quote, empty, with the other quote inside, with \\n \\t \\\\, non-ASCII; numbers incl. 007 and 2.5; true false null; regex; array and object literals, empty and nested) x 15 ways of handing the value to something that can be modified (identifier of a match pattern, also as the second case and in a called function; items of an array pattern; for-in item variable, with index variable, items modified through a match; parameter, parameter two calls down; variable; array element; object member; value returned by a function; the literal twice in one statement; print argument beside a modified twin) x the modifications that fit the type (= += ++ -- *= /= -= with numbers and strings, push pop popfirst sort, element and member stores, replacing the value) x 6 ways of evaluating it three times (for loop, while loop, once per record, recursive function, three calls of one function, BEGIN + one record + END), a separator line before every round. Oracle: the three rounds print the same text; compared with the model (class, out, position). Matrix: literal type and use x repetition.",
		Gen:  c13LiteralReevaluation,
	})
}
