package main

// Shrinking of failing cases. For the first few violations whose failure can be
// re-decided from the two answers alone — the implementation and the model
// disagree on the compared fields, or the implementation ends in a class that
// no run may end in (panic, internal signal, crash, timeout) — the program text
// of the `run` request is minimised by delta debugging (lines, then blank
// separated pieces, then single bytes) while the failure persists. The shrunk
// program and both answers are added to the replay file under "shrunk".
// Violations decided by a generated expectation (closed forms, reference
// interpreters) are not shrunk: the expectation belongs to the original text.

import (
	"encoding/json"
	"os"
	"strings"
	"time"
)

type shrinkPred func(prog string) (bool, Resp, Resp)

func rebuildRun(req string, prog string) (string, bool) {
	f := strings.Split(req, " ")
	if len(f) != 5 || f[0] != "run" {
		return "", false
	}
	f[1] = hxs(prog)
	return strings.Join(f, " "), true
}

func runProgramOf(req string) (string, bool) {
	f := strings.Split(req, " ")
	if len(f) != 5 || f[0] != "run" || f[1] == "-" {
		return "", false
	}
	b, err := unhx(f[1])
	if err != nil {
		return "", false
	}
	return string(b), true
}

// ddmin over a list of pieces: remove chunks while the predicate holds
func ddmin(pieces []string, join func([]string) string, pred func(string) bool, deadline time.Time) []string {
	n := 2
	for len(pieces) >= 2 && time.Now().Before(deadline) {
		chunk := (len(pieces) + n - 1) / n
		reduced := false
		for start := 0; start < len(pieces) && time.Now().Before(deadline); start += chunk {
			end := start + chunk
			if end > len(pieces) {
				end = len(pieces)
			}
			cand := append(append([]string{}, pieces[:start]...), pieces[end:]...)
			if len(cand) > 0 && pred(join(cand)) {
				pieces = cand
				if n > 2 {
					n--
				}
				reduced = true
				break
			}
		}
		if !reduced {
			if n >= len(pieces) {
				break
			}
			n *= 2
			if n > len(pieces) {
				n = len(pieces)
			}
		}
	}
	return pieces
}

func splitKeep(s string, sep byte) []string {
	var out []string
	cur := 0
	for i := 0; i < len(s); i++ {
		if s[i] == sep {
			out = append(out, s[cur:i+1])
			cur = i + 1
		}
	}
	if cur < len(s) {
		out = append(out, s[cur:])
	}
	return out
}

func shrinkProgram(prog string, pred func(string) bool, budget time.Duration) string {
	deadline := time.Now().Add(budget)
	cat := func(p []string) string { return strings.Join(p, "") }
	prog = cat(ddmin(splitKeep(prog, '\n'), cat, pred, deadline))
	prog = cat(ddmin(splitKeep(prog, ' '), cat, pred, deadline))
	if len(prog) <= 400 {
		bs := make([]string, len(prog))
		for i := range prog {
			bs[i] = prog[i : i+1]
		}
		prog = cat(ddmin(bs, cat, pred, deadline))
	}
	return prog
}

var badClasses = map[string]bool{"panic": true, "sentinel": true, "crash": true, "timeout": true}

// shrinkViolations adds a "shrunk" entry to the replay files of up to max violations.
func shrinkViolations(res *result, cases map[string]Case, selfPath, modelPath string, max int) {
	done := 0
	impl := &worker{argv: []string{selfPath, "implworker"}, env: []string{"GOMEMLIMIT=2GiB"}, timeout: 20 * time.Second}
	model := &worker{argv: modelArgv(modelPath), timeout: 30 * time.Second}
	defer impl.stop()
	defer model.stop()
	for _, v := range res.Violations {
		if done >= max {
			break
		}
		c, ok := cases[v.Family+"/"+v.Key]
		if !ok || v.Replay == "" || c.ModelReq != "" {
			continue
		}
		prog, ok := runProgramOf(c.Req)
		if !ok || len(prog) > 20000 {
			continue
		}
		var pred shrinkPred
		switch {
		case v.Kind == "disagree":
			pred = func(p string) (bool, Resp, Resp) {
				req, _ := rebuildRun(c.Req, p)
				i, m := ParseResp(impl.ask(req)), ParseResp(model.ask(req))
				if m.Skippable() || badClasses[i["class"]] && i["class"] != "panic" && i["class"] != "sentinel" {
					return false, i, m
				}
				return diffFields(c, i, m) != "", i, m
			}
		case v.Kind == "oracle" && (strings.Contains(v.What, "class panic") || strings.Contains(v.What, "class sentinel")):
			want := "panic"
			if strings.Contains(v.What, "class sentinel") {
				want = "sentinel"
			}
			pred = func(p string) (bool, Resp, Resp) {
				req, _ := rebuildRun(c.Req, p)
				i := ParseResp(impl.ask(req))
				return i["class"] == want, i, Resp{}
			}
		default:
			continue
		}
		if ok, _, _ := pred(prog); !ok {
			continue // not reproducible in a fresh worker (history dependent): leave it unshrunk
		}
		small := shrinkProgram(prog, func(p string) bool { ok, _, _ := pred(p); return ok }, 12*time.Second)
		_, i, m := pred(small)
		b, err := os.ReadFile(v.Replay)
		if err != nil {
			continue
		}
		var doc map[string]interface{}
		if json.Unmarshal(b, &doc) != nil {
			continue
		}
		req, _ := rebuildRun(c.Req, small)
		doc["shrunk"] = map[string]interface{}{"program": small, "request": req, "implementation": i, "model": m,
			"from_bytes": len(prog), "to_bytes": len(small),
			"note": "program text minimised by delta debugging while the same failure persisted (input unchanged)"}
		if nb, err := json.MarshalIndent(doc, "", " "); err == nil {
			os.WriteFile(v.Replay, nb, 0o644)
		}
		done++
	}
}
