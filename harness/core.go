package main

// The correspondence check: generate cases per property family, run them on the
// implementation and on the Lean model, compare the property-relevant fields,
// apply the property oracles, and write a result file for the check driver.

import (
	"crypto/sha256"
	"encoding/json"
	"fmt"
	"math/rand"
	"os"
	"path/filepath"
	"sort"
	"strings"
	"sync"
	"time"
)

// Case is one generated test case.
type Case struct {
	ID     string            // family-local id
	Req    string            // protocol request line
	Fields []string          // response fields compared between implementation and model
	Meta   map[string]string // human-readable description for samples and replays
	// Oracle checks the property on the implementation's answer alone
	// ("" = holds, else what fails). Optional.
	Oracle func(impl Resp) string
	// Group: cases with the same non-empty group must agree with each other on
	// GroupFields (metamorphic relation on the implementation).
	Group       string
	GroupFields []string
	// GroupCheck: optional relation between the implementation's answer to the first
	// case of the group and to this case ("" = holds); checked in addition to GroupFields.
	GroupCheck func(first, self Resp) string
	// NonTrivial decides whether the case counts as non-trivial. Optional
	// (default: implementation class is ok/runtime and output non-empty).
	NonTrivial func(impl Resp) bool
	// ImplOnly: do not ask the model (the oracle / group relation decides).
	ImplOnly bool
	// ModelReq: the request sent to the model (and to the fresh process of
	// Fresh) when it differs from Req, e.g. the last sub-request of a "seq"
	// request. Default: Req.
	ModelReq string
	// Fresh: additionally run the case (ModelReq, else Req) in a brand-new
	// implementation worker process; its answer must equal the pooled worker's
	// answer in every field (history independence, C10).
	Fresh bool
}

func (c Case) modelReq() string {
	if c.ModelReq != "" {
		return c.ModelReq
	}
	return c.Req
}

// Family generates the cases of one generator family of a property.
type Family struct {
	Name string
	Prop string
	Rule string // how cases are generated and what makes one non-trivial
	Gen  func(r *rand.Rand, tier string, emit func(Case))
}

var families []Family

func register(f Family) { families = append(families, f) }

type famStats struct {
	Cases      int            `json:"cases"`
	Compared   int            `json:"compared_with_model"`
	NonTrivial int            `json:"distinct_nontrivial"`
	Classes    map[string]int `json:"impl_outcome_classes"`
	Skipped    map[string]int `json:"model_skipped"`
	Rule       string         `json:"rule"`
	// Matrix counts cases per (Meta["row"], Meta["col"]) when a family sets them,
	// e.g. fault kind x syntactic position; the value is [cases, violations].
	// With only "row" set the column is the implementation's outcome class.
	Matrix map[string]map[string]*[2]int `json:"matrix,omitempty"`
}

type violation struct {
	Family string `json:"family"`
	ID     string `json:"id"`
	Kind   string `json:"kind"` // disagree | oracle | group | fresh
	What   string `json:"what"`
	Replay string `json:"replay"`
	Key    string `json:"key"`
}

type result struct {
	Property        string               `json:"property"`
	RetriedTimeouts int                  `json:"retried_timeouts"`
	Tier            string               `json:"tier"`
	Seed            int64                `json:"seed"`
	Evals           int                  `json:"evaluations"`
	NonTrivial      int                  `json:"distinct_nontrivial"`
	Families        map[string]*famStats `json:"families"`
	Samples         []map[string]string  `json:"samples"`
	Violations      []violation          `json:"violations"`
	WallS           float64              `json:"wall_s"`
	HooksOn         bool                 `json:"hooks_on"`
}

func defaultNonTrivial(r Resp) bool {
	c := r["class"]
	return (c == "ok" || c == "runtime") && r["out"] != "-" && r["out"] != ""
}

func caseKey(c Case) string {
	h := sha256.Sum256([]byte(c.Req))
	return fmt.Sprintf("%x", h[:6])
}

func writeReplay(dir string, prop string, fam string, c Case, impl, model Resp, kind, what string) string {
	os.MkdirAll(dir, 0o755)
	name := fmt.Sprintf("%s_%s_%s.json", prop, fam, caseKey(c))
	path := filepath.Join(dir, name)
	doc := map[string]interface{}{
		"property": prop, "family": fam, "id": c.ID, "kind": kind, "what": what,
		"request": c.Req, "meta": c.Meta, "implementation": impl, "model": model,
		"fields_compared": c.Fields,
		"how_to_replay":   "./check replay " + path,
	}
	if c.ModelReq != "" {
		doc["model_request"] = c.ModelReq
	}
	b, _ := json.MarshalIndent(doc, "", " ")
	os.WriteFile(path, b, 0o644)
	return path
}

func diffFields(c Case, impl, model Resp) string {
	var diffs []string
	for _, f := range c.Fields {
		if impl[f] != model[f] {
			diffs = append(diffs, fmt.Sprintf("%s: impl=%s model=%s", f, short(impl[f]), short(model[f])))
		}
	}
	return strings.Join(diffs, "; ")
}

func short(s string) string {
	if len(s) > 120 {
		return s[:120] + "…"
	}
	return s
}

// runCheck runs all families of a property.
func runCheck(prop, tier string, seed int64, modelPath, selfPath, replayDir, outPath string, only string) int {
	start := time.Now()
	res := result{Property: prop, Tier: tier, Seed: seed, Families: map[string]*famStats{}, HooksOn: hooksOn,
		Samples: []map[string]string{}, Violations: []violation{}}
	nw := 14
	implPool := newPool(nw, []string{selfPath, "implworker"}, []string{"GOMEMLIMIT=2GiB"}, 20*time.Second)
	implPool.maxFails = 25
	modelPool := newPool(nw, modelArgv(modelPath), nil, 60*time.Second)
	defer implPool.close()
	defer modelPool.close()

	seen := map[string]bool{}
	caseOf := map[string]Case{} // family/key -> case, for shrinking
	for _, fam := range families {
		if fam.Prop != prop || (only != "" && fam.Name != only) {
			continue
		}
		st := &famStats{Classes: map[string]int{}, Skipped: map[string]int{}, Rule: fam.Rule}
		res.Families[fam.Name] = st
		rng := rand.New(rand.NewSource(seed*1000003 + int64(len(fam.Name))*7919 + int64(fam.Name[0])))
		var cases []Case
		fam.Gen(rng, tier, func(c Case) {
			if c.ID == "" {
				c.ID = fmt.Sprint(len(cases))
			}
			cases = append(cases, c)
		})
		reqs := make([]string, len(cases))
		for i, c := range cases {
			reqs[i] = c.Req
		}
		nViolFam := len(res.Violations)
		implOut := implPool.askAll(reqs)
		// "no answer within the limit" on a busy machine is not a hang: before it is believed, the
		// request is asked again, alone, in a fresh worker with six times the limits. A genuine
		// hang never answers; after three retried requests that still hang the rest is believed.
		{
			stillHung := 0
			for i := range reqs {
				if stillHung >= 3 {
					break
				}
				if ParseResp(implOut[i])["class"] != "timeout" {
					continue
				}
				w := &worker{argv: []string{selfPath, "implworker"}, env: []string{"GOMEMLIMIT=2GiB", "VERIF_SLOW=6"}, timeout: 120 * time.Second}
				again := w.ask(reqs[i])
				w.stop()
				if ParseResp(again)["class"] == "timeout" {
					stillHung++
				} else {
					implOut[i] = again
					res.RetriedTimeouts++
				}
			}
		}
		var modelReqs []string
		var modelIdx []int
		for i, c := range cases {
			if !c.ImplOnly {
				modelReqs = append(modelReqs, c.modelReq())
				modelIdx = append(modelIdx, i)
			}
		}
		modelOutRaw := modelPool.askAll(modelReqs)
		modelOut := make([]string, len(cases))
		for j, i := range modelIdx {
			modelOut[i] = modelOutRaw[j]
		}
		// history independence: the same request in a brand-new process
		freshOut := map[int]string{}
		{
			var idx []int
			for i, c := range cases {
				if c.Fresh {
					idx = append(idx, i)
				}
			}
			res := make([]string, len(idx))
			var wg sync.WaitGroup
			sem := make(chan struct{}, nw)
			for j, i := range idx {
				wg.Add(1)
				sem <- struct{}{}
				go func(j int, req string) {
					defer wg.Done()
					w := &worker{argv: []string{selfPath, "implworker"}, env: []string{"GOMEMLIMIT=2GiB"}, timeout: 20 * time.Second}
					res[j] = w.ask(req)
					w.stop()
					if ParseResp(res[j])["class"] == "timeout" { // busy machine: once more, with generous limits
						w2 := &worker{argv: []string{selfPath, "implworker"}, env: []string{"GOMEMLIMIT=2GiB", "VERIF_SLOW=6"}, timeout: 120 * time.Second}
						res[j] = w2.ask(req)
						w2.stop()
					}
					<-sem
				}(j, cases[i].modelReq())
			}
			wg.Wait()
			for j, i := range idx {
				freshOut[i] = res[j]
			}
		}
		groups := map[string][]int{}
		aborted := 0
		for i, c := range cases {
			impl := ParseResp(implOut[i])
			st.Cases++
			res.Evals++
			st.Classes[impl["class"]]++
			if impl["class"] == "aborted" {
				aborted++
				continue
			}
			nt := defaultNonTrivial
			if c.NonTrivial != nil {
				nt = c.NonTrivial
			}
			key := caseKey(c)
			nViolBefore := len(res.Violations)
			var cell *[2]int
			if row, col := c.Meta["row"], c.Meta["col"]; row != "" {
				if col == "" {
					col = "class:" + impl["class"]
				}
				if st.Matrix == nil {
					st.Matrix = map[string]map[string]*[2]int{}
				}
				if st.Matrix[row] == nil {
					st.Matrix[row] = map[string]*[2]int{}
				}
				if st.Matrix[row][col] == nil {
					st.Matrix[row][col] = &[2]int{}
				}
				cell = st.Matrix[row][col]
				cell[0]++
			}
			if nt(impl) && !seen[fam.Name+key] {
				seen[fam.Name+key] = true
				st.NonTrivial++
				res.NonTrivial++
			}
			if len(res.Samples) < 6 && i%(len(cases)/3+1) == 0 {
				s := map[string]string{"family": fam.Name, "request": short(c.Req), "implementation": short(impl.String())}
				for k, v := range c.Meta {
					s[k] = short(v)
				}
				res.Samples = append(res.Samples, s)
			}
			if impl["class"] == "timeout" || impl["class"] == "crash" {
				// implementation did not answer: a hang or a fatal runtime error
				what := "implementation " + impl["class"] + " (no answer within the limit / process died)"
				p := writeReplay(replayDir, prop, fam.Name, c, impl, Resp{}, "oracle", what)
				res.Violations = append(res.Violations, violation{fam.Name, c.ID, "oracle", what, p, key})
				if cell != nil {
					cell[1]++
				}
				continue
			}
			var model Resp
			if !c.ImplOnly {
				model = ParseResp(modelOut[i])
				if model["ws"] == "0" {
					// the model's parser accepted a program that is not well-scoped: the hypothesis
					// of C01's theorem (what the parser flags enforce) would not hold
					what := "model parser accepted a program/selector that is not well-scoped (ws=0)"
					p := writeReplay(replayDir, prop, fam.Name, c, impl, model, "oracle", what)
					res.Violations = append(res.Violations, violation{fam.Name, c.ID, "oracle", what, p, key})
				}
				if model.Skippable() {
					st.Skipped[model["class"]]++
				} else {
					st.Compared++
					if d := diffFields(c, impl, model); d != "" {
						p := writeReplay(replayDir, prop, fam.Name, c, impl, model, "disagree", d)
						res.Violations = append(res.Violations, violation{fam.Name, c.ID, "disagree", d, p, key})
					}
				}
			}
			if c.Fresh {
				fr := ParseResp(freshOut[i])
				if fr.String() != impl.String() {
					what := "fresh process answers differently from the pooled worker: fresh=" + short(fr.String()) + " pooled=" + short(impl.String())
					p := writeReplay(replayDir, prop, fam.Name, c, impl, fr, "fresh", what)
					res.Violations = append(res.Violations, violation{fam.Name, c.ID, "fresh", what, p, key})
				}
			}
			if c.Oracle != nil {
				if w := c.Oracle(impl); w != "" {
					p := writeReplay(replayDir, prop, fam.Name, c, impl, model, "oracle", w)
					res.Violations = append(res.Violations, violation{fam.Name, c.ID, "oracle", w, p, key})
				}
			}
			if c.Group != "" {
				groups[c.Group] = append(groups[c.Group], i)
			}
			if cell != nil && len(res.Violations) > nViolBefore {
				cell[1]++
			}
		}
		if aborted > 0 {
			what := fmt.Sprintf("%d cases of this family were not run: the implementation had already timed out or crashed %d times", aborted, implPool.maxFails)
			res.Violations = append(res.Violations, violation{fam.Name, "-", "oracle", what, "", "-"})
		}
		if len(res.Violations) > nViolFam {
			byKey := map[string]Case{}
			for _, c := range cases {
				byKey[caseKey(c)] = c
			}
			for _, v := range res.Violations[nViolFam:] {
				if c, ok := byKey[v.Key]; ok {
					caseOf[v.Family+"/"+v.Key] = c
				}
			}
		}
		gnames := make([]string, 0, len(groups))
		for g := range groups {
			gnames = append(gnames, g)
		}
		sort.Strings(gnames)
		for _, g := range gnames {
			idx := groups[g]
			first := ParseResp(implOut[idx[0]])
			for _, i := range idx[1:] {
				r := ParseResp(implOut[i])
				if cases[i].GroupCheck != nil {
					if w := cases[i].GroupCheck(first, r); w != "" {
						what := fmt.Sprintf("group %s: %s vs %s: %s", g, cases[idx[0]].ID, cases[i].ID, w)
						p := writeReplay(replayDir, prop, fam.Name, cases[i], r, first, "group", what)
						res.Violations = append(res.Violations, violation{fam.Name, cases[i].ID, "group", what, p, caseKey(cases[i])})
					}
				}
				for _, f := range cases[i].GroupFields {
					if r[f] != first[f] {
						what := fmt.Sprintf("group %s: field %s differs between %s and %s: %s vs %s", g, f, cases[idx[0]].ID, cases[i].ID, short(first[f]), short(r[f]))
						p := writeReplay(replayDir, prop, fam.Name, cases[i], r, first, "group", what)
						res.Violations = append(res.Violations, violation{fam.Name, cases[i].ID, "group", what, p, caseKey(cases[i])})
						break
					}
				}
			}
		}
	}
	shrinkViolations(&res, caseOf, selfPath, modelPath, 3)
	res.WallS = time.Since(start).Seconds()
	b, _ := json.MarshalIndent(res, "", " ")
	os.WriteFile(outPath, b, 0o644)
	if len(res.Violations) > 0 {
		return 1
	}
	return 0
}
