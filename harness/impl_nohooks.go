//go:build !verif

package main

import lang "github.com/alligator/jqawk/src"

// Built without the observation hooks (fallback when /repo no longer builds with
// -tags verif): the hook observables are reported as unavailable.
const hooksOn = false

func hookDepth(ev *lang.Evaluator) int                  { return 0 }
func hookDumpProgram(src string) (string, error)        { return "", nil }
func hookDumpExpr(src string) (string, error)           { return "", nil }
func hookTokens(src string) string                      { return "" }
func hookLineCol(src string, pos int) (string, int, int) { return "", 0, 0 }
